package c17p

// C17 (P): keysutil.Policy driven directly, for the parts of the input space the
// transit request paths cannot reach: both key derivation modes (hmac-sha256-counter
// and hkdf-sha256), caller-supplied nonces, custom version templates, and a reload of
// the policy from storage (LoadPolicy) after every history.
//
// Enumerated: key type x {not derived, counter KDF, HKDF} x {convergent or not} x
// version template, all histories up to the depth (from a key with 1 and with 3 versions) over {rotate, min_decryption=1..3
// (+Persist, as keys/config does), min_encryption=0|2|3}; in the final state of every history and on a policy reloaded
// from storage: encrypt for every version x context x nonce x AAD x plaintext, decrypt
// with matching inputs, other context, other AAD, every other version prefix, every
// byte bit-flipped, truncated, extended.  The oracle is the one of the transit unit:
// plaintext iff everything matches and min_decryption <= version <= latest, else an
// error; never another plaintext; encrypt never below min_encryption; convergent
// encryption deterministic.

import (
	"context"
	"crypto/rand"
	"encoding/base64"
	"fmt"
	"strconv"
	"strings"
	"testing"

	"github.com/openbao/openbao/sdk/v2/helper/keysutil"
	"github.com/openbao/openbao/sdk/v2/helper/verif/vout"
	"github.com/openbao/openbao/sdk/v2/logical"
)

var bg = context.Background()

type aadF struct{ b []byte }

func (a aadF) GetAssociatedData() ([]byte, error) { return a.b, nil }

type pcfg struct {
	Type     keysutil.KeyType
	Derived  bool
	KDF      int
	Conv     bool
	Template string
}

func (c pcfg) String() string {
	return fmt.Sprintf("%v derived=%v kdf=%d convergent=%v template=%q", c.Type, c.Derived, c.KDF, c.Conv, c.Template)
}

type pop struct {
	K string `json:"k"`
	N int    `json:"n,omitempty"`
}

type prec struct {
	Ver, Ctx, AAD, PT int
	Out               string
}

var ctxs = [][]byte{nil, []byte("ctx-A-0123456789"), []byte("ctx-B")}
var aads = [][]byte{nil, []byte("aad-one"), []byte("aad-two")}
var pts = []string{"", "x", "0123456789abcdef0123456789abcdefXYZ"}

type pworld struct {
	c    pcfg
	st   logical.Storage
	p    *keysutil.Policy
	hist []pop
	res  *vout.Result
	recs []prec
	conv map[string]string
}

func (w *pworld) bad(sig, format string, a ...interface{}) {
	w.res.Violate("c17:policy:"+sig, fmt.Sprintf("policy %s, history %v [latest=%d min_dec=%d min_enc=%d]: ", w.c, w.hist, w.p.LatestVersion, w.p.MinDecryptionVersion, w.p.MinEncryptionVersion)+fmt.Sprintf(format, a...),
		map[string]interface{}{"cfg": w.c.String(), "hist": w.hist})
}

func (w *pworld) prefix(v int) string {
	t := w.c.Template
	if t == "" {
		t = "vault:v{{version}}:"
	}
	return strings.ReplaceAll(t, "{{version}}", strconv.Itoa(v))
}

func (w *pworld) encryptAll() {
	p := w.p
	cxs := []int{0}
	if w.c.Derived {
		cxs = []int{1, 2}
	}
	for kv := 0; kv <= p.LatestVersion+1; kv++ {
		for _, cx := range cxs {
			for ai := 0; ai <= 1; ai++ {
				for pi := range pts {
					if kv != 0 && pi != 2 {
						continue
					}
					for ni := 0; ni < 3; ni++ {
						if ni != 0 && (pi != 2 || ai != 0) {
							continue
						}
						var nonce []byte
						if ni == 1 {
							nonce = []byte("0123456789ab")
						} else if ni == 2 {
							nonce = []byte("short")
						}
						var fs []any
						if ai != 0 {
							fs = append(fs, aadF{aads[ai]})
						}
						w.res.Add("evaluations", 1)
						ct, err := p.EncryptWithFactory(kv, ctxs[cx], nonce, base64.StdEncoding.EncodeToString([]byte(pts[pi])), fs...)
						eff := kv
						if kv == 0 {
							eff = p.LatestVersion
						}
						lo := p.MinDecryptionVersion
						if p.MinEncryptionVersion > lo {
							lo = p.MinEncryptionVersion
						}
						if err != nil {
							w.res.Add("encrypt_refused", 1)
							if ni == 0 && (kv == 0 || (kv >= lo && kv <= p.LatestVersion)) {
								w.bad("encrypt-refused", "encrypt key_version=%d ctx#%d aad#%d refused: %v", kv, cx, ai, err)
							}
							continue
						}
						w.res.Add("encrypt_ok", 1)
						if ni != 0 {
							w.res.Add("nonce_accepted", 1)
						}
						if !strings.HasPrefix(ct, w.prefix(eff)) {
							w.bad("encrypt-wrong-version", "encrypt key_version=%d returned %q, expected prefix %q", kv, ct, w.prefix(eff))
							continue
						}
						if p.MinEncryptionVersion > 0 && eff < p.MinEncryptionVersion {
							w.bad("encrypt-below-min", "encrypt key_version=%d accepted below min_encryption_version %d", kv, p.MinEncryptionVersion)
						}
						if kv > p.LatestVersion {
							w.bad("encrypt-future-version", "encrypt key_version=%d accepted, latest is %d", kv, p.LatestVersion)
							continue
						}
						class := fmt.Sprintf("%d|%d|%d|%d", eff, cx, ai, pi)
						if w.c.Conv && ni == 0 {
							if prev, ok := w.conv[class]; ok && prev != ct {
								w.bad("convergent-nondeterministic", "two encryptions of %s differ: %s vs %s", class, prev, ct)
							}
							w.conv[class] = ct
						}
						w.recs = append(w.recs, prec{eff, cx, ai, pi, ct})
					}
				}
			}
		}
	}
}

func (w *pworld) judge(p *keysutil.Policy, r prec, what string, mustFail bool, ct string, cx, ai int) {
	var fs []any
	if ai != 0 {
		fs = append(fs, aadF{aads[ai]})
	}
	w.res.Add("evaluations", 1)
	got, err := p.DecryptWithFactory(ctxs[cx], nil, ct, fs...)
	live := r.Ver >= p.MinDecryptionVersion && r.Ver <= p.LatestVersion
	want := base64.StdEncoding.EncodeToString([]byte(pts[r.PT]))
	if err == nil {
		w.res.Add("decrypt_ok", 1)
		switch {
		case got != want:
			w.bad("wrong-plaintext", "%s of %s returned %q, original %q", what, r.Out, got, want)
		case mustFail:
			w.bad("accepted-"+strings.SplitN(what, " ", 2)[0], "%s of %s (v%d ctx#%d aad#%d) [%s] returned the plaintext", what, r.Out, r.Ver, r.Ctx, r.AAD, ct)
		case !live:
			w.bad("outside-window-accepted", "%s of %s accepted although version %d is outside the window", what, r.Out, r.Ver)
		}
		return
	}
	w.res.Add("decrypt_refused", 1)
	if !mustFail && live && what == "matching decrypt" {
		w.bad("roundtrip-failed", "%s of %s (v%d ctx#%d aad#%d pt#%d) refused: %v", what, r.Out, r.Ver, r.Ctx, r.AAD, r.PT, err)
	}
}

func (w *pworld) battery(p *keysutil.Policy, full bool) {
	for _, r := range w.recs {
		w.judge(p, r, "matching decrypt", false, r.Out, r.Ctx, r.AAD)
		if !full {
			continue
		}
		for cx := 0; cx <= 2; cx++ {
			if cx != r.Ctx {
				// for a key without derivation the context is not an input
				w.judge(p, r, "context decrypt with another context", w.c.Derived, r.Out, cx, r.AAD)
			}
		}
		for ai := 0; ai <= 2; ai++ {
			if ai != r.AAD {
				w.judge(p, r, "aad decrypt with other associated data", true, r.Out, r.Ctx, ai)
			}
		}
		pre := w.prefix(r.Ver)
		bodyS := strings.TrimPrefix(r.Out, pre)
		body, err := base64.StdEncoding.DecodeString(bodyS)
		if err != nil {
			w.bad("malformed-output", "%q", r.Out)
			continue
		}
		for v := 0; v <= p.LatestVersion+1; v++ {
			if v == r.Ver {
				continue
			}
			// version 0 is the legacy spelling of version 1
			w.judge(p, r, fmt.Sprintf("version-prefix %d instead of %d", v, r.Ver), !(v == 0 && r.Ver == 1), w.prefix(v)+bodyS, r.Ctx, r.AAD)
		}
		enc := base64.StdEncoding.EncodeToString
		step := 1
		if r.PT != 2 && !vout.Thorough() {
			step = len(body)/3 + 1 // every byte for the long plaintext, 3 positions otherwise
		}
		for i := 0; i < len(body); i += step {
			b := append([]byte{}, body...)
			b[i] ^= 1 << uint(i%8)
			w.res.Add("mutations", 1)
			w.judge(p, r, fmt.Sprintf("body-bitflip byte %d", i), true, pre+enc(b), r.Ctx, r.AAD)
		}
		w.judge(p, r, "body-truncated at the end", true, pre+enc(body[:len(body)-1]), r.Ctx, r.AAD)
		w.judge(p, r, "body-truncated at the start", true, pre+enc(body[1:]), r.Ctx, r.AAD)
		w.judge(p, r, "body-extended", true, pre+enc(append(append([]byte{}, body...), 0)), r.Ctx, r.AAD)
		w.judge(p, r, "prefix-removed", true, bodyS, r.Ctx, r.AAD)
		w.judge(p, r, "prefix-default instead of the template", w.c.Template != "", "vault:v"+strconv.Itoa(r.Ver)+":"+bodyS, r.Ctx, r.AAD)
	}
}

func (w *pworld) apply(o pop) {
	w.hist = append(w.hist, o)
	p := w.p
	switch o.K {
	case "rotate":
		if err := p.Rotate(bg, w.st, rand.Reader); err != nil {
			w.bad("rotate-failed", "%v", err)
		}
	case "dec":
		// the validation keys/config performs before it persists
		if o.N > p.LatestVersion || (p.MinEncryptionVersion > 0 && p.MinEncryptionVersion < o.N) {
			return
		}
		old := p.MinDecryptionVersion
		p.MinDecryptionVersion = o.N
		if err := p.Persist(bg, w.st); err != nil {
			p.MinDecryptionVersion = old
			w.bad("persist-failed", "persist after min_decryption_version=%d: %v", o.N, err)
		}
	case "enc":
		if o.N > p.LatestVersion || (o.N > 0 && o.N < p.MinDecryptionVersion) {
			return
		}
		old := p.MinEncryptionVersion
		p.MinEncryptionVersion = o.N
		if err := p.Persist(bg, w.st); err != nil {
			p.MinEncryptionVersion = old
			w.bad("persist-failed", "persist after min_encryption_version=%d: %v", o.N, err)
		}
	}
}

func runHist(c pcfg, versions int, hist []pop, res *vout.Result) {
	w := &pworld{c: c, st: &logical.InmemStorage{}, res: res, conv: map[string]string{}}
	defer func() {
		if r := recover(); r != nil {
			w.bad("panic", "panic: %v", r)
		}
	}()
	w.p = keysutil.NewPolicy(keysutil.PolicyConfig{Name: "k", Type: c.Type, Derived: c.Derived, KDF: c.KDF, ConvergentEncryption: c.Conv, VersionTemplate: c.Template})
	if err := w.p.Rotate(bg, w.st, rand.Reader); err != nil {
		w.bad("rotate-failed", "initial rotate: %v", err)
		return
	}
	for i := 1; i < versions; i++ {
		w.apply(pop{"rotate", 0})
	}
	w.encryptAll()
	for _, o := range hist {
		w.apply(o)
		w.encryptAll()
	}
	w.battery(w.p, true)
	// restart: the same records against a policy loaded from storage
	lp, err := keysutil.LoadPolicy(bg, w.st, "policy/k")
	if err != nil || lp == nil {
		w.bad("reload-failed", "LoadPolicy: %v", err)
		return
	}
	if lp.LatestVersion != w.p.LatestVersion || lp.MinDecryptionVersion != w.p.MinDecryptionVersion || lp.MinEncryptionVersion != w.p.MinEncryptionVersion {
		w.bad("reload-differs", "stored policy has latest=%d min_dec=%d min_enc=%d", lp.LatestVersion, lp.MinDecryptionVersion, lp.MinEncryptionVersion)
	}
	w.battery(lp, false)
	res.Add("executions", 1)
	res.Distinct("nontrivial", fmt.Sprintf("%s|%d|%d|%d", c, w.p.LatestVersion, w.p.MinDecryptionVersion, w.p.MinEncryptionVersion))
}

func TestVerifC17P(t *testing.T) {
	res := vout.New("C17", "policy")
	defer func() {
		if err := res.Write(); err != nil {
			t.Fatal(err)
		}
	}()
	depth := 2
	if vout.Thorough() {
		depth = 3
	}
	res.Bound("policy_history_depth", depth)
	alpha := []pop{{"rotate", 0}, {"dec", 1}, {"dec", 2}, {"dec", 3}, {"enc", 0}, {"enc", 2}, {"enc", 3}}
	var cfgs []pcfg
	for _, kt := range []keysutil.KeyType{keysutil.KeyType_AES128_GCM96, keysutil.KeyType_AES256_GCM96, keysutil.KeyType_ChaCha20_Poly1305, keysutil.KeyType_XChaCha20_Poly1305} {
		for _, tpl := range []string{"", "enc#{{version}}/"} {
			cfgs = append(cfgs,
				pcfg{kt, false, 0, false, tpl},
				pcfg{kt, true, keysutil.Kdf_hkdf_sha256, false, tpl},
				pcfg{kt, true, keysutil.Kdf_hkdf_sha256, true, tpl})
			// Not enumerated (no request path can create these policies; the legacy counter
			// KDF always yields 32 bytes): counter KDF + convergent (encrypt refuses: 64 key
			// bytes needed) and counter KDF + aes128-gcm96 (encrypt truncates the derived key
			// to 16 bytes, decrypt refuses the 32-byte key: round trip fails closed).
			if kt != keysutil.KeyType_AES128_GCM96 {
				cfgs = append(cfgs, pcfg{kt, true, keysutil.Kdf_hmac_sha256_counter, false, tpl})
			}
		}
	}
	res.Bound("policy_configurations", len(cfgs))
	res.Note("policy unit: legacy counter KDF is enumerated only without convergent encryption and not with aes128-gcm96 (combinations no request path creates; they fail closed: encrypt or decrypt returns an error)")
	count := 0
	var hists [][]pop
	var gen func(h []pop)
	gen = func(h []pop) {
		hists = append(hists, append([]pop{}, h...))
		if len(h) == depth {
			return
		}
		for _, o := range alpha {
			gen(append(h, o))
		}
	}
	gen(nil)
	for _, c := range cfgs {
		for _, h := range hists {
			for _, versions := range []int{1, 3} {
				count++
				if !vout.Mine(count) {
					continue
				}
				runHist(c, versions, h, res)
			}
		}
	}
}
