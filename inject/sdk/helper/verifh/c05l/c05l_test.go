package c05l

// C05 (L): framework.CalculateTTL over the full lattice of increment, backend
// TTL, period, backend max, explicit max, system default/max and elapsed time
// since issue.  Oracle written from the property statement: the granted expiry
// never exceeds issue + effective max (periodic: capped by period and by
// issue + explicit max), the TTL is exactly the requested one when it fits and
// exactly the remaining budget when it does not, and an error is returned iff
// the budget is exhausted.

import (
	"fmt"
	"testing"
	"time"

	"github.com/openbao/openbao/sdk/v2/framework"
	"github.com/openbao/openbao/sdk/v2/helper/verif/vout"
	"github.com/openbao/openbao/sdk/v2/logical"
)

func TestVerifC05L(t *testing.T) {
	res := vout.New("C05", "lattice")
	defer func() {
		if err := res.Write(); err != nil {
			t.Fatal(err)
		}
	}()
	s := time.Second
	vals := []time.Duration{0, 1 * s, 10 * s, 100 * s, 1000 * s, 100000 * s}
	sys := [][2]time.Duration{{30 * s, 500 * s}, {3600 * s, 86400 * s}, {0, 50 * s}}
	elapsed := []time.Duration{0, 5 * s, 50 * s, 500 * s, 5000 * s, 200000 * s}
	count := 0
	for _, sv := range sys {
		view := &logical.StaticSystemView{DefaultLeaseTTLVal: sv[0], MaxLeaseTTLVal: sv[1]}
		for _, inc := range vals {
			for _, bttl := range vals {
				for _, period := range vals {
					for _, bmax := range vals {
						for _, emax := range vals {
							for _, el := range elapsed {
								count++
								if !vout.Mine(count) {
									continue
								}
								now0 := time.Now().Truncate(time.Second)
								start := now0.Add(-el)
								ttl, _, err := framework.CalculateTTL(view, inc, bttl, period, bmax, emax, start)
								now1 := time.Now().Truncate(time.Second)
								res.Add("evaluations", 1)
								slack := now1.Sub(now0) // 0 or 1s if the second ticked during the call
								effMax := sv[1]
								if bmax > 0 && bmax < effMax {
									effMax = bmax
								}
								if emax > 0 && emax < effMax {
									effMax = emax
								}
								in := fmt.Sprintf("sys(def=%v,max=%v) increment=%v backendTTL=%v period=%v backendMax=%v explicitMax=%v elapsed=%v", sv[0], sv[1], inc, bttl, period, bmax, emax, el)
								bad := func(sig, msg string) {
									res.Violate("c05:lattice:"+sig, in+": "+msg, map[string]interface{}{"input": in})
								}
								var budget time.Duration // remaining time until the bound, measured at now0
								bounded := true
								want := time.Duration(0)
								if period > 0 {
									want = period
									if want > effMax {
										want = effMax
									}
									if emax > 0 {
										budget = emax - el
									} else {
										bounded = false
									}
								} else {
									switch {
									case inc > 0:
										want = inc
									case bttl > 0:
										want = bttl
									default:
										want = sv[0]
									}
									budget = effMax - el
								}
								class := "ok"
								if err != nil {
									class = "err"
									if !bounded || budget > slack {
										bad("spurious-error", fmt.Sprintf("returned error %q although %v of the lifetime budget remain", err, budget))
									}
								} else {
									if bounded && budget+0 <= 0-slack {
										bad("granted-past-bound", fmt.Sprintf("granted ttl=%v although the maximum lifetime was exceeded %v ago", ttl, -budget))
									}
									if bounded && ttl > budget+0 {
										bad("ttl-exceeds-bound", fmt.Sprintf("granted ttl=%v but only %v remain until issue+max", ttl, budget))
									}
									if ttl > want {
										bad("ttl-exceeds-request", fmt.Sprintf("granted ttl=%v, more than the requested/period/default %v", ttl, want))
									}
									exp := want
									if bounded && budget < exp {
										exp = budget
									}
									if ttl < exp-slack {
										bad("ttl-shorter-than-entitled", fmt.Sprintf("granted ttl=%v, entitled to %v", ttl, exp))
									}
									if bounded && budget < want {
										class = "capped"
									}
								}
								res.Distinct("nontrivial", fmt.Sprintf("%s|p=%v|e=%v|i=%v", class, period > 0, emax > 0, inc > 0))
							}
						}
					}
				}
			}
		}
	}
	res.Bound("lattice_points", count)
	res.Sample(map[string]interface{}{"example": "sys(def=30s,max=500s) increment=1000s backendTTL=0 period=0 backendMax=100s explicitMax=0 elapsed=50s -> ttl 50s (capped)"})
}
