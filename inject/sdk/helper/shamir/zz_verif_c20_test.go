package shamir

// C20: secret sharing reconstructs at threshold and reveals nothing below it.
//
// In-package harness (needs mult/div/inverse/evaluate/shuffledXCoordinates).
// Everything is exhaustive enumeration of a bounded space on the real code,
// judged by a reference that is written from the book:
//
//   - field:   GF(2^8) = GF(2)[x]/(x^8+x^4+x^3+x+1): multiplication by
//     shift-and-reduce on 16-bit integers, inverse and quotient by exhaustive
//     search.  All 2^16 pairs against the reference, all 2^24 triples for the
//     ring laws on the real functions.
//   - eval:    polynomial.evaluate against the power-form sum c_i*x^i in the
//     reference field; the counting argument for t=3 directly on evaluate.
//   - split:   Split is made a deterministic function of (secret, tape) by
//     assigning crypto/rand.Reader (shamir reads it through rand.Read and
//     rand.Int(rand.Reader,..)).  The stream is  <bytes a fixed pseudo random
//     source fed to the x-coordinate shuffle> ++ <coefficient tape>; the tape
//     is enumerated over ALL values.  Oracles: (a) x distinct, non-zero;
//     (b) every subset with >= t shares combines to the secret; (c) for every
//     set of t-1 shares the map tape -> share values is a bijection for each
//     secret, i.e. every observable value of t-1 shares is produced by exactly
//     one coefficient choice under EVERY secret, so it rules out no secret.
//   - recon:   all 1-byte and all 2-byte secrets, all 2<=t<=n<=6, all subsets.
//   - combine: malformed share lists are rejected (fewer than two, short,
//     unequal length, duplicate x); well-formed arbitrary lists equal the
//     reference Lagrange interpolation at 0.
//   - large:   16..64 byte secrets with n up to 255 (fixed pseudo random
//     content; bounded, not claimed exhaustive).
//
// Readings taken where the statement is silent (current code is consistent):
// "duplicate" = two shares carrying the same x-coordinate (whatever their
// y-values); Combine of fewer than t (but >= 2) well-formed shares is not an
// error (it cannot know t) and its value is not judged; division by zero is
// not judged.

import (
	crand "crypto/rand"
	"fmt"
	"io"
	"math/bits"
	mrand "math/rand/v2"
	"testing"
	"time"

	"github.com/openbao/openbao/sdk/v2/helper/verif/vout"
)

// ---------------------------------------------------------------- reference field

// c20RefMul: schoolbook carry-less multiplication followed by reduction
// modulo x^8+x^4+x^3+x+1 (0x11b), on 16-bit integers.
func c20RefMul(a, b uint8) uint8 {
	var prod uint16
	for i := 0; i < 8; i++ {
		if (b>>uint(i))&1 == 1 {
			prod ^= uint16(a) << uint(i)
		}
	}
	for bit := 15; bit >= 8; bit-- {
		if (prod>>uint(bit))&1 == 1 {
			prod ^= uint16(0x11b) << uint(bit-8)
		}
	}
	return uint8(prod)
}

// c20RefAdd: coefficient-wise addition modulo 2.
func c20RefAdd(a, b uint8) uint8 {
	var out uint8
	for i := 0; i < 8; i++ {
		s := ((a >> uint(i)) & 1) + ((b >> uint(i)) & 1)
		out |= (s % 2) << uint(i)
	}
	return out
}

var (
	c20Mul [256][256]uint8 // reference product table
	c20Inv [256]uint8      // reference inverse (by search); c20Inv[0] unused
)

func c20InitRef() error {
	for a := 0; a < 256; a++ {
		for b := 0; b < 256; b++ {
			c20Mul[a][b] = c20RefMul(uint8(a), uint8(b))
		}
	}
	for a := 1; a < 256; a++ {
		found := 0
		for b := 1; b < 256; b++ {
			if c20Mul[a][b] == 1 {
				c20Inv[a] = uint8(b)
				found++
			}
		}
		if found != 1 {
			return fmt.Errorf("reference field broken: %d has %d inverses", a, found)
		}
	}
	return nil
}

// c20RefEval: sum c_i * x^i in the reference field (power form, not Horner).
func c20RefEval(coef []uint8, x uint8) uint8 {
	var out uint8
	pow := uint8(1)
	for _, c := range coef {
		out ^= c20Mul[c][pow]
		pow = c20Mul[pow][x]
	}
	return out
}

// c20RefLagrange0: value at 0 of the unique polynomial of degree < k through
// the k points, computed as sum_i y_i * prod_{j!=i} x_j / (x_j - x_i).
func c20RefLagrange0(xs, ys []uint8) uint8 {
	var out uint8
	for i := range xs {
		num, den := uint8(1), uint8(1)
		for j := range xs {
			if j == i {
				continue
			}
			num = c20Mul[num][xs[j]]
			den = c20Mul[den][xs[j]^xs[i]]
		}
		out ^= c20Mul[ys[i]][c20Mul[num][c20Inv[den]]]
	}
	return out
}

// ---------------------------------------------------------------- random seam

type c20Tape struct {
	buf  []byte
	pos  int
	over int // bytes served (filler) beyond the end of the tape
}

func (r *c20Tape) Read(p []byte) (int, error) {
	for i := range p {
		if r.pos < len(r.buf) {
			p[i] = r.buf[r.pos]
		} else {
			// beyond the enumerated tape: a fixed NON-ZERO filler, so that code which redraws
			// until some condition holds terminates; the overrun is counted (see split)
			p[i] = 1
			r.over++
		}
		r.pos++
	}
	return len(p), nil
}

type c20Rec struct {
	src io.Reader
	rec []byte
}

func (r *c20Rec) Read(p []byte) (int, error) {
	n, err := r.src.Read(p)
	r.rec = append(r.rec, p[:n]...)
	return n, err
}

type c20Zero struct{}

func (c20Zero) Read(p []byte) (int, error) {
	for i := range p {
		p[i] = 0
	}
	return len(p), nil
}

func c20Seed(parts ...uint64) [32]byte {
	var s [32]byte
	x := uint64(0x9e3779b97f4a7c15)
	for _, p := range parts {
		x = (x ^ p) * 0xbf58476d1ce4e5b9
		x ^= x >> 29
	}
	for i := 0; i < 32; i++ {
		s[i] = byte(x >> (8 * (uint(i) % 8)))
		if i%8 == 7 {
			x = x*6364136223846793005 + 1442695040888963407
		}
	}
	return s
}

func c20WithReader(r io.Reader, f func()) {
	old := crand.Reader
	crand.Reader = r
	defer func() { crand.Reader = old }()
	f()
}

// c20Shuffle is one fixed choice of the randomness consumed by the
// x-coordinate shuffle: the bytes it consumed and the permutation it produced.
type c20Shuffle struct {
	id     int
	prefix []byte
	xs     []uint8
}

func c20MakeShuffle(id int) (*c20Shuffle, error) {
	var src io.Reader = c20Zero{}
	if id != 0 {
		src = mrand.NewChaCha8(c20Seed(0xc20, uint64(id)))
	}
	rr := &c20Rec{src: src}
	var xs []uint8
	var err error
	c20WithReader(rr, func() { xs, err = shuffledXCoordinates() })
	if err != nil {
		return nil, err
	}
	return &c20Shuffle{id: id, prefix: append([]byte(nil), rr.rec...), xs: xs}, nil
}

// ---------------------------------------------------------------- harness state

type c20Run struct {
	t        *testing.T
	res      *vout.Result
	item     int
	deadline time.Time
	stopped  bool
	shuffles map[int]*c20Shuffle
	splits   int
	overruns int
}

func (h *c20Run) mine() bool {
	h.item++
	if h.stopped {
		return false
	}
	if time.Now().After(h.deadline) {
		h.stopped = true
		h.res.NotExhaustive("time budget reached; remaining work items skipped")
		return false
	}
	return vout.Mine(h.item)
}

func (h *c20Run) shuffle(id int) *c20Shuffle {
	if s, ok := h.shuffles[id]; ok {
		return s
	}
	s, err := c20MakeShuffle(id)
	if err != nil {
		h.t.Fatalf("harness: shuffledXCoordinates failed under the tape reader: %v", err)
	}
	h.shuffles[id] = s
	return s
}

type c20Case struct {
	Section string `json:"section"`
	Shuffle int    `json:"shuffle"`
	N       int    `json:"n"`
	T       int    `json:"t"`
	Secret  []byte `json:"secret"`
	Tape    []byte `json:"tape"`
	Subset  []int  `json:"subset,omitempty"`
}

func (c c20Case) clone() c20Case {
	c.Secret = append([]byte(nil), c.Secret...)
	c.Tape = append([]byte(nil), c.Tape...)
	c.Subset = append([]int(nil), c.Subset...)
	return c
}

// split runs the real Split with the stream <shuffle prefix> ++ tape.
func (h *c20Run) split(sh *c20Shuffle, secret []byte, n, t int, tape []byte, buf *[]byte) (shares [][]byte, consumed int, panicked interface{}, err error) {
	b := append((*buf)[:0], sh.prefix...)
	b = append(b, tape...)
	*buf = b
	rd := &c20Tape{buf: b}
	c20WithReader(rd, func() {
		defer func() {
			if p := recover(); p != nil {
				panicked = p
			}
		}()
		shares, err = Split(secret, n, t)
	})
	h.splits++
	if rd.over > 0 {
		// The amount of randomness consumed depends on the tape's VALUES (the same call with
		// another tape stays inside it): coefficients are then not a fixed function of tape
		// positions (e.g. a value is redrawn until it passes a test). The run is kept - the
		// tape-dependence and counting oracles judge what it produced - and counted. Only
		// when EVERY split overruns is the enumeration itself inadequate (harness error,
		// decided by the caller through overrunsAll).
		h.overruns++
		h.res.Add("splits_consuming_randomness_beyond_the_tape", 1)
	}
	return shares, rd.pos, panicked, err
}

// checkShares: shape, and x-coordinates distinct and non-zero.
func (h *c20Run) checkShares(c c20Case, shares [][]byte, panicked interface{}, err error) bool {
	res := h.res
	if panicked != nil || err != nil || len(shares) != c.N {
		c = c.clone()
	}
	in := fmt.Sprintf("Split(secret=%x, n=%d, t=%d) shuffle#%d tape=%x", c.Secret, c.N, c.T, c.Shuffle, c.Tape)
	if panicked != nil {
		res.Violate("c20:split:panic", in+fmt.Sprintf(": panicked: %v", panicked), c)
		return false
	}
	if err != nil {
		res.Violate("c20:split:error", in+": returned error "+err.Error(), c)
		return false
	}
	if len(shares) != c.N {
		res.Violate("c20:split:share-count", in+fmt.Sprintf(": %d shares returned", len(shares)), c)
		return false
	}
	var seen [256]bool
	for i, s := range shares {
		if len(s) != len(c.Secret)+ShareOverhead {
			res.Violate("c20:split:share-length", in+fmt.Sprintf(": share %d has %d bytes", i, len(s)), c.clone())
			return false
		}
		x := s[len(s)-1]
		if x == 0 {
			res.Violate("c20:split:x-zero", in+fmt.Sprintf(": share %d = %x carries x-coordinate 0 (its y bytes are the secret)", i, s), c.clone())
			return false
		}
		if seen[x] {
			res.Violate("c20:split:x-duplicate", in+fmt.Sprintf(": x-coordinate %d used by two shares", x), c.clone())
			return false
		}
		seen[x] = true
	}
	return true
}

func c20Equal(a, b []byte) bool {
	if len(a) != len(b) {
		return false
	}
	for i := range a {
		if a[i] != b[i] {
			return false
		}
	}
	return true
}

// reconstruct combines every subset with at least t shares (ascending order,
// and the reversed order for the full set and for each subset of size t).
func (h *c20Run) reconstruct(c c20Case, shares [][]byte, parts [][]byte) {
	res := h.res
	n := len(shares)
	for mask := 1; mask < 1<<uint(n); mask++ {
		k := bits.OnesCount(uint(mask))
		if k < c.T {
			continue
		}
		parts = parts[:0]
		for i := 0; i < n; i++ {
			if mask&(1<<uint(i)) != 0 {
				parts = append(parts, shares[i])
			}
		}
		for pass := 0; pass < 2; pass++ {
			if pass == 1 {
				if k != c.T && k != n {
					break
				}
				for i, j := 0, len(parts)-1; i < j; i, j = i+1, j-1 {
					parts[i], parts[j] = parts[j], parts[i]
				}
			}
			got, err := Combine(parts)
			res.Add("evaluations", 1)
			res.Add("combine_at_or_above_threshold", 1)
			if err != nil || !c20Equal(got, c.Secret) {
				cc := c.clone()
				for i := 0; i < n; i++ {
					if mask&(1<<uint(i)) != 0 {
						cc.Subset = append(cc.Subset, i)
					}
				}
				if err != nil {
					res.Violate("c20:combine:error-at-threshold", fmt.Sprintf("Split(secret=%x,n=%d,t=%d) shuffle#%d tape=%x; Combine of shares %v (%d >= t) returned error %v", c.Secret, c.N, c.T, c.Shuffle, c.Tape, cc.Subset, k, err), cc)
				} else {
					res.Violate("c20:combine:wrong-secret", fmt.Sprintf("Split(secret=%x,n=%d,t=%d) shuffle#%d tape=%x; Combine of shares %v (%d >= t) = %x, want the secret", c.Secret, c.N, c.T, c.Shuffle, c.Tape, cc.Subset, k, got), cc)
				}
				return
			}
		}
	}
}

// subsetsOfSize lists the index subsets of {0..n-1} with k members.
func c20Subsets(n, k int) [][]int {
	var out [][]int
	for mask := 0; mask < 1<<uint(n); mask++ {
		if bits.OnesCount(uint(mask)) != k {
			continue
		}
		var s []int
		for i := 0; i < n; i++ {
			if mask&(1<<uint(i)) != 0 {
				s = append(s, i)
			}
		}
		out = append(out, s)
	}
	return out
}

// fullTapes enumerates EVERY coefficient tape for one (shuffle, n, t, secret):
// shape, reconstruction and the sub-threshold counting argument.
func (h *c20Run) fullTapes(section string, shID, n, t int, secret []byte) {
	res := h.res
	sh := h.shuffle(shID)
	L := len(secret)
	tapeLen := (t - 1) * L
	total := 1 << uint(8*tapeLen)
	subs := c20Subsets(n, t-1)
	words := (total + 63) / 64
	seen := make([][]uint64, len(subs))
	firstDup := make([]int, len(subs)) // tape index of the first collision, -1 if none
	for i := range seen {
		seen[i] = make([]uint64, words)
		firstDup[i] = -1
	}
	tape := make([]byte, tapeLen)
	var buf []byte
	parts := make([][]byte, 0, n)
	var xs0 []byte
	under := false
	for ti := 0; ti < total; ti++ {
		for b := 0; b < tapeLen; b++ {
			tape[b] = byte(ti >> uint(8*b))
		}
		c := c20Case{Section: section, Shuffle: shID, N: n, T: t, Secret: secret, Tape: tape}
		shares, consumed, pan, err := h.split(sh, secret, n, t, tape, &buf)
		res.Add("evaluations", 1)
		res.Add("splits", 1)
		if !h.checkShares(c, shares, pan, err) {
			return
		}
		if consumed < len(sh.prefix)+tapeLen {
			under = true
		}
		xs := make([]byte, n)
		for i := range shares {
			xs[i] = shares[i][L]
		}
		if xs0 == nil {
			xs0 = xs
		} else if !c20Equal(xs0, xs) {
			h.t.Fatalf("harness: x-coordinates depend on the coefficient tape (%v vs %v); the stream layout assumed by the enumeration does not hold", xs0, xs)
		}
		h.reconstruct(c, shares, parts)
		if ti == 0x1234%total && secret[0] == 0x53 {
			res.Sample(map[string]interface{}{"split": fmt.Sprintf("Split(secret=%x, n=%d, t=%d) shuffle#%d tape=%x", secret, n, t, shID, tape), "shares_y_then_x": fmt.Sprintf("%x", shares), "checked": "x distinct non-zero; every subset with >= t shares combines to the secret; counted into the t-1 share bijection"})
		}
		for si, sub := range subs {
			idx := 0
			for _, i := range sub {
				for b := 0; b < L; b++ {
					idx = idx<<8 | int(shares[i][b])
				}
			}
			w, m := idx/64, uint64(1)<<uint(idx%64)
			if seen[si][w]&m != 0 {
				if firstDup[si] < 0 {
					firstDup[si] = ti
				}
			} else {
				seen[si][w] |= m
			}
		}
	}
	if under {
		res.Note("Split consumed fewer random bytes than (t-1)*len(secret) after the shuffle for some (n,t)")
	}
	for si, sub := range subs {
		res.Add("subthreshold_sets_counted", 1)
		res.Add("subthreshold_values_covered", int64(total))
		if firstDup[si] < 0 {
			continue
		}
		// find one value that no tape produces under this secret
		missing := -1
		for idx := 0; idx < total; idx++ {
			if seen[si][idx/64]&(uint64(1)<<uint(idx%64)) == 0 {
				missing = idx
				break
			}
		}
		mv := make([]byte, tapeLen)
		for b := 0; b < tapeLen; b++ {
			mv[tapeLen-1-b] = byte(missing >> uint(8*b))
		}
		dt := make([]byte, tapeLen)
		for b := 0; b < tapeLen; b++ {
			dt[b] = byte(firstDup[si] >> uint(8*b))
		}
		xsub := make([]byte, 0, len(sub))
		for _, i := range sub {
			xsub = append(xsub, xs0[i])
		}
		res.Violate("c20:split:sub-threshold-dependence",
			fmt.Sprintf("Split(len=%d,n=%d,t=%d) shuffle#%d: the %d shares %v (x=%v) do not take every value under secret %x: y-values %x are produced by no coefficient choice (tape %x repeats an earlier value), so observing them rules this secret out with fewer than t shares", L, n, t, shID, t-1, sub, xsub, secret, mv, dt),
			c20Case{Section: section, Shuffle: shID, N: n, T: t, Secret: secret, Tape: dt, Subset: sub})
	}
	res.Distinct("nontrivial", fmt.Sprintf("%s|%d|%d|%d|%x", section, shID, n, t, secret))
}

// ---------------------------------------------------------------- sections

func (h *c20Run) field() {
	res := h.res
	for a := 0; a < 256; a++ {
		if !h.mine() {
			continue
		}
		ua := uint8(a)
		for b := 0; b < 256; b++ {
			ub := uint8(b)
			in := map[string]interface{}{"section": "field", "a": a, "b": b}
			res.Add("evaluations", 4)
			res.Add("field_pairs", 1)
			if got, want := mult(ua, ub), c20RefMul(ua, ub); got != want {
				res.Violate("c20:field:mult", fmt.Sprintf("mult(%#02x,%#02x) = %#02x, schoolbook GF(2^8) product modulo 0x11b is %#02x", a, b, got, want), in)
			}
			if got, want := add(ua, ub), c20RefAdd(ua, ub); got != want {
				res.Violate("c20:field:add", fmt.Sprintf("add(%#02x,%#02x) = %#02x, want %#02x", a, b, got, want), in)
			}
			if mult(ua, ub) != mult(ub, ua) {
				res.Violate("c20:field:commutativity", fmt.Sprintf("mult(%#02x,%#02x) != mult(%#02x,%#02x)", a, b, b, a), in)
			}
			if b != 0 {
				// the unique c with c*b = a in the reference field
				want := c20Mul[a][c20Inv[b]]
				got := div(ua, ub)
				if got != want {
					res.Violate("c20:field:div", fmt.Sprintf("div(%#02x,%#02x) = %#02x, but the c with c*%#02x = %#02x is %#02x", a, b, got, b, a, want), in)
				}
				if mult(got, ub) != ua {
					res.Violate("c20:field:div-roundtrip", fmt.Sprintf("mult(div(%#02x,%#02x),%#02x) != %#02x", a, b, b, a), in)
				}
			}
		}
		if a != 0 {
			res.Add("evaluations", 1)
			if got := inverse(ua); got != c20Inv[a] || mult(ua, got) != 1 {
				res.Violate("c20:field:inverse", fmt.Sprintf("inverse(%#02x) = %#02x, want %#02x", a, got, c20Inv[a]), map[string]interface{}{"section": "field", "a": a})
			}
		}
		if mult(ua, 1) != ua || mult(ua, 0) != 0 || add(ua, 0) != ua || add(ua, ua) != 0 {
			res.Violate("c20:field:identity", fmt.Sprintf("identity/zero laws fail for %#02x", a), map[string]interface{}{"section": "field", "a": a})
		}
		// ring laws on the real functions: all triples (a, b, c)
		bad := 0
		for b := 0; b < 256; b++ {
			ub := uint8(b)
			ab := mult(ua, ub)
			for c := 0; c < 256; c++ {
				uc := uint8(c)
				if mult(ab, uc) != mult(ua, mult(ub, uc)) {
					if bad < 3 {
						res.Violate("c20:field:associativity", fmt.Sprintf("(%#02x*%#02x)*%#02x != %#02x*(%#02x*%#02x)", a, b, c, a, b, c), map[string]interface{}{"section": "field", "a": a, "b": b, "c": c})
					}
					bad++
				}
				if mult(ua, add(ub, uc)) != add(ab, mult(ua, uc)) {
					if bad < 3 {
						res.Violate("c20:field:distributivity", fmt.Sprintf("%#02x*(%#02x+%#02x) != %#02x*%#02x + %#02x*%#02x", a, b, c, a, b, a, c), map[string]interface{}{"section": "field", "a": a, "b": b, "c": c})
					}
					bad++
				}
				if add(add(ua, ub), uc) != add(ua, add(ub, uc)) {
					if bad < 3 {
						res.Violate("c20:field:add-associativity", fmt.Sprintf("(%#02x+%#02x)+%#02x != %#02x+(%#02x+%#02x)", a, b, c, a, b, c), map[string]interface{}{"section": "field", "a": a, "b": b, "c": c})
					}
					bad++
				}
			}
		}
		res.Add("evaluations", 3*65536)
		res.Add("field_triples", 65536)
		res.Distinct("nontrivial", fmt.Sprintf("field|%d", a))
	}
	res.Bound("field", "all 2^16 pairs vs schoolbook reference; all 2^24 triples for associativity/distributivity")
}

var c20Lattice16 = []uint8{0x00, 0x01, 0x02, 0x03, 0x1b, 0x35, 0x53, 0x7f, 0x80, 0x8d, 0xa7, 0xca, 0xe5, 0xf6, 0xfe, 0xff}

func c20InLattice(v uint8) bool {
	for _, l := range c20Lattice16 {
		if l == v {
			return true
		}
	}
	return false
}

// xset returns the first k of a fixed list of x-coordinates that starts with
// structurally special values and continues with all others.
func c20XSet(k int) []uint8 {
	first := []uint8{1, 2, 3, 0x1b, 0x80, 0xff, 0x53, 0xca, 4, 5, 6, 0x8d, 0xf6, 0x7f, 0xfe, 0x1a}
	var used [256]bool
	out := append([]uint8(nil), first...)
	for _, x := range first {
		used[x] = true
	}
	for x := 7; x < 256; x++ {
		if !used[x] {
			out = append(out, uint8(x))
		}
	}
	if k > len(out) {
		k = len(out)
	}
	return out[:k]
}

func (h *c20Run) eval() {
	res := h.res
	thorough := vout.Thorough()
	// (1) evaluate == power-form reference.  degree 1: everything.  degree 2:
	// every (c1,c2,x) with the intercept from the 16-point lattice (quick) or
	// every intercept (thorough).  degree 3/4: lattice coefficients, every x.
	for x := 1; x < 256; x++ {
		if !h.mine() {
			continue
		}
		ux := uint8(x)
		bad := 0
		chk := func(coef []uint8) {
			p := polynomial{coefficients: coef}
			got := p.evaluate(ux)
			if want := c20RefEval(coef, ux); got != want && bad < 2 {
				bad++
				res.Violate("c20:eval:wrong-value", fmt.Sprintf("polynomial%v.evaluate(%#02x) = %#02x, sum c_i*x^i in GF(2^8) is %#02x", coef, x, got, want), map[string]interface{}{"section": "eval", "coef": fmt.Sprintf("%x", coef), "x": x})
			}
		}
		coef := make([]uint8, 2)
		for c0 := 0; c0 < 256; c0++ {
			for c1 := 0; c1 < 256; c1++ {
				coef[0], coef[1] = uint8(c0), uint8(c1)
				chk(coef)
			}
		}
		res.Add("evaluations", 65536)
		coef = make([]uint8, 3)
		n0 := 0
		for c0 := 0; c0 < 256; c0++ {
			if !thorough && c0%64 != 0x13 && c0 != 0 && c0 != 255 {
				continue
			}
			n0++
			for c1 := 0; c1 < 256; c1++ {
				for c2 := 0; c2 < 256; c2++ {
					coef[0], coef[1], coef[2] = uint8(c0), uint8(c1), uint8(c2)
					chk(coef)
				}
			}
		}
		res.Add("evaluations", int64(n0)*65536)
		for deg := 3; deg <= 4; deg++ {
			coef = make([]uint8, deg+1)
			total := 1
			for i := 0; i <= deg; i++ {
				total *= len(c20Lattice16)
			}
			for k := 0; k < total; k++ {
				r := k
				for i := 0; i <= deg; i++ {
					coef[i] = c20Lattice16[r%16]
					r /= 16
				}
				chk(coef)
			}
			res.Add("evaluations", int64(total))
		}
		res.Distinct("nontrivial", fmt.Sprintf("eval|%d", x))
	}
	// (2) counting argument on the real evaluate, t=3: for every pair of
	// distinct x-coordinates from the x set and EVERY secret, the map
	// (c1,c2) -> (y1,y2) hits every pair of y-values exactly once.
	// t=2: for every x and every secret, c1 -> y is a bijection.
	for x := 1; x < 256; x++ {
		if !h.mine() {
			continue
		}
		for s := 0; s < 256; s++ {
			var seen [256]bool
			for c1 := 0; c1 < 256; c1++ {
				p := polynomial{coefficients: []uint8{uint8(s), uint8(c1)}}
				y := p.evaluate(uint8(x))
				if seen[y] {
					res.Violate("c20:eval:t2-not-bijective", fmt.Sprintf("secret %#02x, x=%#02x: two coefficient choices give y=%#02x, so some y excludes this secret", s, x, y), map[string]interface{}{"section": "eval", "x": x, "secret": s})
					break
				}
				seen[y] = true
			}
		}
		res.Add("evaluations", 65536)
		res.Add("subthreshold_sets_counted", 256)
	}
	xk := 8
	if thorough {
		xk = 40
	}
	xs := c20XSet(xk)
	res.Bound("eval_t3_xset", len(xs))
	seen := make([]uint64, 1024)
	for i := 0; i < len(xs); i++ {
		for j := i + 1; j < len(xs); j++ {
			if !h.mine() {
				continue
			}
			x1, x2 := xs[i], xs[j]
			for s := 0; s < 256; s++ {
				for k := range seen {
					seen[k] = 0
				}
				coef := []uint8{uint8(s), 0, 0}
				p := polynomial{coefficients: coef}
				dup := false
				for c1 := 0; c1 < 256 && !dup; c1++ {
					coef[1] = uint8(c1)
					for c2 := 0; c2 < 256; c2++ {
						coef[2] = uint8(c2)
						idx := int(p.evaluate(x1))<<8 | int(p.evaluate(x2))
						w, m := idx/64, uint64(1)<<uint(idx%64)
						if seen[w]&m != 0 {
							res.Violate("c20:eval:t3-not-bijective", fmt.Sprintf("secret %#02x, x=(%#02x,%#02x): two coefficient choices give the same (y1,y2)=(%#02x,%#02x), so some pair of share values excludes this secret", s, x1, x2, idx>>8, idx&255), map[string]interface{}{"section": "eval", "x1": x1, "x2": x2, "secret": s})
							dup = true
							break
						}
						seen[w] |= m
					}
				}
			}
			res.Add("evaluations", 2*256*65536)
			res.Add("subthreshold_sets_counted", 256)
			res.Distinct("nontrivial", fmt.Sprintf("evalt3|%d|%d", x1, x2))
		}
	}
}

func (h *c20Run) xcoords() {
	res := h.res
	n := 3000
	if vout.Thorough() {
		n = 30000
	}
	res.Bound("shuffle_streams", n)
	for blk := 0; blk < n/100; blk++ {
		if !h.mine() {
			continue
		}
		for id := blk * 100; id < blk*100+100; id++ {
			sh, err := c20MakeShuffle(id)
			res.Add("evaluations", 1)
			res.Add("shuffles", 1)
			if err != nil {
				res.Violate("c20:xcoords:error", fmt.Sprintf("shuffledXCoordinates under stream %d: %v", id, err), map[string]interface{}{"section": "xcoords", "stream": id})
				continue
			}
			var seen [256]bool
			ok := true
			for _, x := range sh.xs {
				if x == 0 {
					res.Violate("c20:xcoords:zero", fmt.Sprintf("x-coordinate list for random stream %d contains 0", id), map[string]interface{}{"section": "xcoords", "stream": id})
					ok = false
					break
				}
				if seen[x] {
					res.Violate("c20:xcoords:duplicate", fmt.Sprintf("x-coordinate list for random stream %d contains %d twice", id, x), map[string]interface{}{"section": "xcoords", "stream": id})
					ok = false
					break
				}
				seen[x] = true
			}
			if ok && len(sh.xs) < 255 {
				res.Violate("c20:xcoords:too-few", fmt.Sprintf("only %d x-coordinates available, n=255 cannot be served", len(sh.xs)), map[string]interface{}{"section": "xcoords", "stream": id})
			}
			if ok {
				res.Distinct("xprefix", fmt.Sprintf("%x", sh.xs[:3]))
			}
		}
	}
}

func (h *c20Run) splitFull() {
	res := h.res
	thorough := vout.Thorough()
	// t=2, 1-byte secrets: every secret, every tape, every n<=6, several shuffles.
	shuf2 := []int{0, 1}
	if thorough {
		shuf2 = []int{0, 1, 2, 3, 4, 5, 6, 7, 8, 9, 10, 11}
	}
	for _, sid := range shuf2 {
		for n := 2; n <= 6; n++ {
			for s0 := 0; s0 < 256; s0 += 16 {
				if !h.mine() {
					continue
				}
				for s := s0; s < s0+16; s++ {
					h.fullTapes("full", sid, n, 2, []byte{byte(s)})
				}
			}
		}
	}
	res.Bound("full_tapes_t2", fmt.Sprintf("1-byte secrets: all 256 x all 256 tapes x n=2..6 x %d shuffles", len(shuf2)))
	// t=3, 1-byte secrets: every tape (65536); quick: 16-point secret lattice,
	// n in {3,4}; thorough: every secret, n in {3,4,6}.
	type cfg struct{ sid, n int }
	cfgs := []cfg{{2, 4}}
	secrets := c20Lattice16
	if thorough {
		cfgs = []cfg{{2, 4}}
		secrets = nil
		for s := 0; s < 256; s++ {
			secrets = append(secrets, uint8(s))
		}
		// two further shapes on the 16-point secret lattice
		for _, c := range []cfg{{1, 3}, {3, 6}, {0, 3}, {4, 5}} {
			for _, s := range c20Lattice16 {
				if !h.mine() {
					continue
				}
				h.fullTapes("full", c.sid, c.n, 3, []byte{s})
			}
		}
	}
	for _, c := range cfgs {
		for _, s := range secrets {
			if !h.mine() {
				continue
			}
			h.fullTapes("full", c.sid, c.n, 3, []byte{s})
		}
	}
	if !thorough {
		// second shape (n = t = 3, another shuffle) for four secrets
		for _, s := range []uint8{0x00, 0x53, 0x80, 0xff} {
			if !h.mine() {
				continue
			}
			h.fullTapes("full", 1, 3, 3, []byte{s})
		}
	}
	res.Bound("full_tapes_t3", fmt.Sprintf("1-byte secrets: %d secrets x all 65536 tapes x %d (shuffle,n) configurations (quick: plus 4 secrets with n=t=3; thorough: plus 16 secrets x 4 more configurations up to n=6)", len(secrets), len(cfgs)))
	// t=2, 2-byte secrets: every tape (65536): the two bytes must not share
	// randomness.  quick: 6 secrets; thorough: 16x16 lattice of secrets.
	var two [][]byte
	if thorough {
		for i, a := range c20Lattice16 {
			for j, b := range c20Lattice16 {
				if i%2 == 0 && j%2 == 1 || i == j {
					two = append(two, []byte{a, b})
				}
			}
		}
	} else {
		two = [][]byte{{0, 0}, {0x53, 0x53}, {0x01, 0xfe}, {0xa7, 0x1b}}
	}
	for i, s := range two {
		if !h.mine() {
			continue
		}
		h.fullTapes("full2", 1+i%3, 2+i%2, 2, s)
	}
	res.Bound("full_tapes_2byte", fmt.Sprintf("%d two-byte secrets x all 65536 tapes, t=2", len(two)))
	if thorough {
		// t=4: 2^24 tapes for two secrets
		for _, s := range []uint8{0xa7} {
			if !h.mine() {
				continue
			}
			h.fullTapes("full", 2, 4, 4, []byte{s})
		}
		res.Bound("full_tapes_t4", "1 secret x all 2^24 tapes, n=4")
	}
}

// recon: all 1-byte and 2-byte secrets, all 2<=t<=n<=6, pseudo random tapes
// (fixed seeds), all subsets with >= t members.
func (h *c20Run) recon() {
	res := h.res
	thorough := vout.Thorough()
	tapes1, tapes2 := 4, 1
	if thorough {
		tapes1, tapes2 = 32, 4
	}
	res.Bound("recon", fmt.Sprintf("all 256 one-byte secrets x %d tapes for all 2<=t<=n<=6; two-byte secrets x %d tapes: thorough all 65536 for all (n,t), quick all 65536 for (n,t) in {(2,2),(3,2),(5,3),(6,4),(6,6)} and a 16x16 lattice for the other ten; all subsets >= t", tapes1, tapes2))
	var buf []byte
	parts := make([][]byte, 0, 6)
	run := func(secret []byte, n, t, k int) {
		sid := 1 + (int(secret[0])+n+t+k)%5
		sh := h.shuffle(sid)
		tape := make([]byte, (t-1)*len(secret))
		var sv uint64
		for _, b := range secret {
			sv = sv<<8 | uint64(b)
		}
		rng := mrand.NewChaCha8(c20Seed(0x7a9e, sv, uint64(len(secret)), uint64(n), uint64(t), uint64(k)))
		_, _ = rng.Read(tape)
		c := c20Case{Section: "recon", Shuffle: sid, N: n, T: t, Secret: secret, Tape: tape}
		shares, _, pan, err := h.split(sh, secret, n, t, tape, &buf)
		res.Add("evaluations", 1)
		res.Add("splits", 1)
		if !h.checkShares(c, shares, pan, err) {
			return
		}
		h.reconstruct(c, shares, parts)
	}
	for n := 2; n <= 6; n++ {
		for t := 2; t <= n; t++ {
			for s0 := 0; s0 < 256; s0 += 64 {
				if !h.mine() {
					continue
				}
				for s := s0; s < s0+64; s++ {
					for k := 0; k < tapes1; k++ {
						run([]byte{byte(s)}, n, t, k)
					}
				}
				res.Distinct("nontrivial", fmt.Sprintf("recon1|%d|%d|%d", n, t, s0))
			}
			// two-byte secrets: thorough: all 65536 for every (n,t); quick:
			// all 65536 for five (n,t) shapes, the 16x16 lattice for the rest
			allTwo := thorough || (n == 2 && t == 2) || (n == 3 && t == 2) || (n == 5 && t == 3) || (n == 6 && t == 4) || (n == 6 && t == 6)
			for hi := 0; hi < 256; hi += 8 {
				if !h.mine() {
					continue
				}
				for a := hi; a < hi+8; a++ {
					for b := 0; b < 256; b++ {
						if !allTwo && !(c20InLattice(uint8(a)) && c20InLattice(uint8(b))) {
							continue
						}
						for k := 0; k < tapes2; k++ {
							run([]byte{byte(a), byte(b)}, n, t, k)
						}
					}
					res.Distinct("nontrivial", fmt.Sprintf("recon2|%d|%d|%d", n, t, a))
				}
			}
		}
	}
}

// large: 16..64 byte secrets, n up to 255.
func (h *c20Run) large() {
	res := h.res
	type nt struct{ n, t int }
	cfgs := []nt{{7, 4}, {10, 10}, {16, 9}, {64, 33}, {100, 50}, {255, 2}, {255, 128}, {255, 254}, {255, 255}}
	lens := []int{16, 17, 32, 33, 48, 64}
	reps := 1
	if vout.Thorough() {
		reps = 8
	}
	res.Bound("large", fmt.Sprintf("secret lengths %v x (n,t) %v x %d pseudo random secrets (fixed seeds): prefix/suffix/strided/rotated subsets of size t, t+1 and n", lens, cfgs, reps))
	for _, c := range cfgs {
		for _, L := range lens {
			if !vout.Thorough() && c.t > 60 && L != 16 && L != 33 {
				continue // quick: the O(t^2 * len) combines are kept to two lengths
			}
			for r := 0; r < reps; r++ {
				if !h.mine() {
					continue
				}
				rng := mrand.NewChaCha8(c20Seed(0x1a26e, uint64(c.n), uint64(c.t), uint64(L), uint64(r)))
				secret := make([]byte, L)
				_, _ = rng.Read(secret)
				var shares [][]byte
				var err error
				var pan interface{}
				c20WithReader(rng, func() {
					defer func() { pan = recover() }()
					shares, err = Split(secret, c.n, c.t)
				})
				res.Add("evaluations", 1)
				res.Add("splits", 1)
				cc := c20Case{Section: "large", N: c.n, T: c.t, Secret: secret}
				if !h.checkShares(cc, shares, pan, err) {
					continue
				}
				pick := func(name string, idx []int) {
					parts := make([][]byte, 0, len(idx))
					for _, i := range idx {
						parts = append(parts, shares[i])
					}
					got, err := Combine(parts)
					res.Add("evaluations", 1)
					res.Add("combine_at_or_above_threshold", 1)
					if err != nil || !c20Equal(got, secret) {
						c2 := cc
						c2.Subset = idx
						res.Violate("c20:large:wrong-secret", fmt.Sprintf("Split(len=%d,n=%d,t=%d) pseudo random case %d: Combine of the %s subset (%d shares) = %x err=%v, want the secret %x", L, c.n, c.t, r, name, len(idx), got, err, secret), c2)
					}
				}
				seq := func(start, count, stride int) []int {
					var out []int
					for i := 0; i < count; i++ {
						out = append(out, (start+i*stride)%c.n)
					}
					return out
				}
				pick("prefix", seq(0, c.t, 1))
				pick("suffix", seq(c.n-c.t, c.t, 1))
				if c.t <= 60 || vout.Thorough() {
					pick("rotated", seq(c.n/2, c.t, 1))
				}
				if c.t < c.n && (c.t <= 60 || vout.Thorough()) {
					pick("t+1", seq(1, c.t+1, 1))
				}
				if c.n == 255 && c.t <= 128 {
					pick("strided", seq(3, c.t, 2)) // 2 is coprime to 255: distinct indices
				}
				if c.n > 100 && !vout.Thorough() {
					res.Distinct("nontrivial", fmt.Sprintf("large|%d|%d|%d|%d", c.n, c.t, L, r))
					continue
				}
				pick("all", seq(0, c.n, 1))
				rev := seq(0, c.n, 1)
				for i, j := 0, len(rev)-1; i < j; i, j = i+1, j-1 {
					rev[i], rev[j] = rev[j], rev[i]
				}
				pick("all-reversed", rev)
				res.Distinct("nontrivial", fmt.Sprintf("large|%d|%d|%d|%d", c.n, c.t, L, r))
			}
		}
	}
}

// combine: malformed lists are rejected; well-formed ones equal the reference.
func (h *c20Run) combine() {
	res := h.res
	// alphabet of parts: length 0..4, x in {1,2,3}, two fillers
	type part struct {
		b []byte
	}
	var alpha []part
	alpha = append(alpha, part{[]byte{}})
	for l := 1; l <= 4; l++ {
		for x := 1; x <= 3; x++ {
			for f := 0; f < 2; f++ {
				b := make([]byte, l)
				for i := 0; i < l-1; i++ {
					b[i] = byte(0x35*(f+1) + 0x11*i + x)
				}
				b[l-1] = byte(x)
				alpha = append(alpha, part{b})
			}
		}
	}
	res.Bound("combine_reject", fmt.Sprintf("all lists of 0..4 parts over %d parts (length 0..4, x in 1..3, 2 fillers)", len(alpha)))
	judge := func(parts [][]byte) {
		wantErr := len(parts) < 2
		if !wantErr {
			l0 := len(parts[0])
			if l0 < 2 {
				wantErr = true
			}
			var seen [256]bool
			for _, p := range parts {
				if len(p) != l0 || len(p) < 2 {
					wantErr = true
					break
				}
				if seen[p[len(p)-1]] {
					wantErr = true
					break
				}
				seen[p[len(p)-1]] = true
			}
		}
		var got []byte
		var err error
		var pan interface{}
		func() {
			defer func() { pan = recover() }()
			got, err = Combine(parts)
		}()
		res.Add("evaluations", 1)
		in := fmt.Sprintf("Combine(%x)", parts)
		rp := map[string]interface{}{"section": "combine", "parts": fmt.Sprintf("%x", parts)}
		switch {
		case pan != nil:
			res.Violate("c20:combine:panic", in+fmt.Sprintf(" panicked: %v", pan), rp)
		case wantErr && err == nil:
			res.Violate("c20:combine:malformed-accepted", in+fmt.Sprintf(" = %x without error although the list has fewer than two parts, a short part, unequal lengths or a duplicate x-coordinate", got), rp)
		case !wantErr && err != nil:
			res.Violate("c20:combine:wellformed-rejected", in+" returned error "+err.Error(), rp)
		case wantErr:
			res.Add("combine_rejected", 1)
		default:
			res.Add("combine_accepted", 1)
			xs := make([]uint8, len(parts))
			ys := make([]uint8, len(parts))
			L := len(parts[0]) - 1
			for i, p := range parts {
				xs[i] = p[L]
			}
			for b := 0; b < L; b++ {
				for i, p := range parts {
					ys[i] = p[b]
				}
				if want := c20RefLagrange0(xs, ys); len(got) != L || got[b] != want {
					res.Violate("c20:combine:not-lagrange", in+fmt.Sprintf(" = %x, byte %d should be %#02x (Lagrange interpolation at 0)", got, b, want), rp)
					break
				}
			}
		}
	}
	for i0 := range alpha {
		if !h.mine() {
			continue
		}
		judge(nil)
		judge([][]byte{})
		judge([][]byte{alpha[i0].b})
		for i1 := range alpha {
			judge([][]byte{alpha[i0].b, alpha[i1].b})
			for i2 := range alpha {
				judge([][]byte{alpha[i0].b, alpha[i1].b, alpha[i2].b})
				for i3 := range alpha {
					judge([][]byte{alpha[i0].b, alpha[i1].b, alpha[i2].b, alpha[i3].b})
				}
			}
		}
		res.Distinct("nontrivial", fmt.Sprintf("combrej|%d", i0))
	}
	// arbitrary well-formed pairs: every ordered pair of distinct x in 1..255,
	// y-values from a 6-point lattice; triples/quadruples over the x set.
	ylat := []uint8{0x00, 0x01, 0x53, 0x80, 0xca, 0xff}
	for x1 := 1; x1 < 256; x1++ {
		if !h.mine() {
			continue
		}
		for x2 := 1; x2 < 256; x2++ {
			if x1 == x2 {
				continue
			}
			for _, y1 := range ylat {
				for _, y2 := range ylat {
					judge([][]byte{{y1, uint8(x1)}, {y2, uint8(x2)}})
				}
			}
		}
		res.Distinct("nontrivial", fmt.Sprintf("combref2|%d", x1))
	}
	xs := c20XSet(12)
	if vout.Thorough() {
		xs = c20XSet(24)
	}
	for _, x1 := range xs {
		if !h.mine() {
			continue
		}
		for _, x2 := range xs {
			for _, x3 := range xs {
				if x1 == x2 || x1 == x3 || x2 == x3 {
					continue
				}
				for _, y1 := range ylat {
					for _, y2 := range ylat {
						for _, y3 := range ylat {
							judge([][]byte{{y1, y3, x1}, {y2, y1, x2}, {y3, y2, x3}})
						}
					}
				}
				for _, x4 := range xs[:6] {
					if x4 == x1 || x4 == x2 || x4 == x3 {
						continue
					}
					for _, y1 := range ylat {
						for _, y2 := range ylat {
							judge([][]byte{{y1, x1}, {y2, x2}, {y1 ^ 0x35, x3}, {y2 ^ y1, x4}})
						}
					}
				}
			}
		}
		res.Distinct("nontrivial", fmt.Sprintf("combref3|%d", x1))
	}
}

func (h *c20Run) replay() {
	var c c20Case
	sig, err := vout.LoadReplay(&c)
	if err != nil {
		h.t.Fatalf("replay: %v", err)
	}
	h.t.Logf("replaying %s: %+v", sig, c)
	switch c.Section {
	case "full", "full2":
		h.fullTapes(c.Section, c.Shuffle, c.N, c.T, c.Secret)
	case "recon":
		var buf []byte
		shares, _, pan, err := h.split(h.shuffle(c.Shuffle), c.Secret, c.N, c.T, c.Tape, &buf)
		if h.checkShares(c, shares, pan, err) {
			h.reconstruct(c, shares, nil)
		}
	default:
		h.t.Logf("artefacts of section %q name their input in the description; re-run the check to reproduce (deterministic enumeration)", c.Section)
	}
}

// tapeDependence: which random bytes does each secret byte's polynomial use?  For a
// secret of L bytes and threshold t the split draws L*(t-1) coefficients.  Every tape
// position is varied over all 256 values (three base tapes) and the share bytes that
// change are recorded: the column of share bytes belonging to secret byte j must depend
// on exactly t-1 tape positions, the position sets of different secret bytes must be
// disjoint (otherwise a few shares of one byte say something about another byte: the
// one-byte counting argument of splitFull would not carry over to longer secrets), and
// the x-coordinate byte must not depend on the coefficient tape at all.
func (h *c20Run) tapeDependence() {
	res := h.res
	type shape struct{ L, n, t int }
	shapes := []shape{{2, 4, 3}, {3, 4, 3}, {2, 5, 4}, {3, 3, 2}, {4, 4, 3}}
	if vout.Thorough() {
		shapes = append(shapes, shape{2, 6, 5}, shape{5, 5, 3}, shape{3, 6, 6}, shape{8, 4, 3})
	}
	for si, sp := range shapes {
		if !h.mine() {
			continue
		}
		sh := h.shuffle(si % 4)
		secret := make([]byte, sp.L)
		for i := range secret {
			secret[i] = byte(0x35*i + 0x11)
		}
		var buf []byte
		// how many tape bytes does this shape consume?
		probe := make([]byte, sp.L*(sp.t-1)+64)
		_, consumed, _, err := h.split(sh, secret, sp.n, sp.t, probe, &buf)
		if err != nil {
			h.t.Fatalf("harness: split: %v", err)
		}
		tl := consumed - len(sh.prefix)
		if tl != sp.L*(sp.t-1) {
			res.Violate("c20:split:tape-length", fmt.Sprintf("Split(len=%d,n=%d,t=%d) consumed %d coefficient bytes, %d secret bytes x %d coefficients were expected", sp.L, sp.n, sp.t, tl, sp.L, sp.t-1), nil)
			continue
		}
		dep := make([]map[int]bool, sp.L+1) // column -> tape positions (column L = the x byte)
		for j := range dep {
			dep[j] = map[int]bool{}
		}
		for b := 0; b < 3; b++ {
			base := make([]byte, tl)
			for i := range base {
				base[i] = byte(b*0x5b + i*0x1d + b)
			}
			ref, _, _, err := h.split(sh, secret, sp.n, sp.t, base, &buf)
			if err != nil {
				h.t.Fatalf("harness: split: %v", err)
			}
			refc := make([][]byte, len(ref))
			for i := range ref {
				refc[i] = append([]byte{}, ref[i]...)
			}
			for p := 0; p < tl; p++ {
				for v := 0; v < 256; v++ {
					if byte(v) == base[p] {
						continue
					}
					tape := append([]byte{}, base...)
					tape[p] = byte(v)
					got, _, _, err := h.split(sh, secret, sp.n, sp.t, tape, &buf)
					res.Add("evaluations", 1)
					if err != nil || len(got) != len(refc) {
						h.t.Fatalf("harness: split under a varied tape: %v", err)
					}
					for i := range got {
						for j := 0; j <= sp.L; j++ {
							if got[i][j] != refc[i][j] {
								dep[j][p] = true
							}
						}
					}
				}
			}
		}
		art := map[string]interface{}{"section": "tapedep", "len": sp.L, "n": sp.n, "t": sp.t}
		if len(dep[sp.L]) != 0 {
			res.Violate("c20:split:x-coordinate-depends-on-coefficient-tape", fmt.Sprintf("%v: the x-coordinate byte changes with tape positions %v", art, dep[sp.L]), art)
		}
		owner := map[int]int{}
		for j := 0; j < sp.L; j++ {
			if len(dep[j]) != sp.t-1 {
				res.Violate("c20:split:sub-threshold-dependence", fmt.Sprintf("%v: secret byte %d's share column depends on %d tape positions, a polynomial of degree %d has %d random coefficients", art, j, len(dep[j]), sp.t-1, sp.t-1), art)
			}
			for p := range dep[j] {
				if o, taken := owner[p]; taken {
					res.Violate("c20:split:sub-threshold-dependence", fmt.Sprintf("%v: tape position %d feeds the polynomials of secret bytes %d and %d: their shares are not independent", art, p, o, j), art)
				}
				owner[p] = j
			}
		}
		res.Distinct("nontrivial", fmt.Sprintf("tapedep|%d|%d|%d", sp.L, sp.n, sp.t))
	}
	res.Bound("tape_dependence_shapes", len(shapes))
}

func TestVerifC20Shamir(t *testing.T) {
	res := vout.New("C20", "shamir")
	defer func() {
		if err := res.Write(); err != nil {
			t.Fatal(err)
		}
	}()
	if err := c20InitRef(); err != nil {
		t.Fatal(err)
	}
	h := &c20Run{t: t, res: res, shuffles: map[int]*c20Shuffle{},
		deadline: time.Now().Add(time.Duration(vout.DeadlineS()) * time.Second)}
	if vout.ReplayPath() != "" {
		h.replay()
		return
	}
	// heavy, uneven items first so that the round-robin sharding balances
	for _, sec := range []struct {
		name string
		f    func()
	}{{"split", h.splitFull}, {"eval", h.eval}, {"recon", h.recon}, {"field", h.field}, {"combine", h.combine}, {"xcoords", h.xcoords}, {"large", h.large}, {"tapedep", h.tapeDependence}} {
		t0 := time.Now()
		sec.f()
		res.Add("cpu_ms_"+sec.name, time.Since(t0).Milliseconds())
	}
	if h.splits > 0 && h.overruns == h.splits {
		t.Fatalf("harness: every one of the %d Split calls consumed more randomness than the enumerated tape holds; the enumeration does not control the randomness of this implementation", h.splits)
	}
	res.Bound("n_t", "all 2<=t<=n<=6 exhaustively; (n,t) up to (255,255) in the large section")
	if i, _ := vout.Shard(); i == 0 {
		res.Sample(map[string]interface{}{"example": "Split([0x53], n=4, t=3) under every one of the 65536 coefficient tapes: all 5 subsets with >=3 shares combine to 0x53; each of the 6 pairs of shares takes each of the 65536 (y1,y2) values exactly once"})
	}
}
