package raft

// C13 (raft stacks): the FSM as a plain physical.Backend, and RaftTransaction
// (read-your-writes merge over a bolt snapshot) on a real single-node
// RaftBackend.  Same engine and reference as the other stacks (kvc.Run).

import (
	"context"
	"fmt"
	"os"
	"testing"

	log "github.com/hashicorp/go-hclog"
	"github.com/openbao/openbao/sdk/v2/helper/verif/kvc"
	"github.com/openbao/openbao/sdk/v2/helper/verif/vout"
	"github.com/openbao/openbao/sdk/v2/physical"
)

var c13bg = context.Background()

type c13Phys struct{ b physical.Backend }

func (p c13Phys) Put(k string, v []byte) error {
	return p.b.Put(c13bg, &physical.Entry{Key: k, Value: append([]byte{}, v...)})
}

func (p c13Phys) Get(k string) ([]byte, bool, error) {
	e, err := p.b.Get(c13bg, k)
	if err != nil || e == nil {
		return nil, false, err
	}
	if e.Key != k {
		return nil, true, fmt.Errorf("entry key %q differs from requested key %q", e.Key, k)
	}
	return e.Value, true, nil
}
func (p c13Phys) Delete(k string) error            { return p.b.Delete(c13bg, k) }
func (p c13Phys) List(pf string) ([]string, error) { return p.b.List(c13bg, pf) }
func (p c13Phys) ListPage(pf, a string, l int) ([]string, error) {
	return p.b.ListPage(c13bg, pf, a, l)
}

// c13Tracked remembers written keys so the shared raft backend can be emptied
// again (every instance must start from an empty store).
type c13Tracked struct {
	kv      kvc.KV
	written map[string]struct{}
}

func (t *c13Tracked) Put(k string, v []byte) error {
	t.written[k] = struct{}{}
	return t.kv.Put(k, v)
}
func (t *c13Tracked) Get(k string) ([]byte, bool, error) { return t.kv.Get(k) }
func (t *c13Tracked) Delete(k string) error              { return t.kv.Delete(k) }
func (t *c13Tracked) List(p string) ([]string, error)    { return t.kv.List(p) }
func (t *c13Tracked) ListPage(p, a string, l int) ([]string, error) {
	return t.kv.ListPage(p, a, l)
}

// c13TxMixed: odd-numbered mutations are committed (a new transaction is then
// opened), even-numbered ones stay uncommitted in the open transaction; reads
// go to the open transaction and therefore exercise the merge of committed
// bolt content with the transaction's own pending writes.
type c13TxMixed struct {
	b  *RaftBackend
	tx physical.Transaction
	n  int
}

func (t *c13TxMixed) mut(f func(tx physical.Transaction) error) error {
	t.n++
	if err := f(t.tx); err != nil {
		return err
	}
	if t.n%2 == 1 {
		if err := t.tx.Commit(c13bg); err != nil {
			return err
		}
		tx, err := t.b.BeginTx(c13bg)
		if err != nil {
			return err
		}
		t.tx = tx
	}
	return nil
}

func (t *c13TxMixed) Put(k string, v []byte) error {
	return t.mut(func(tx physical.Transaction) error { return c13Phys{tx}.Put(k, v) })
}
func (t *c13TxMixed) Delete(k string) error {
	return t.mut(func(tx physical.Transaction) error { return tx.Delete(c13bg, k) })
}
func (t *c13TxMixed) Get(k string) ([]byte, bool, error) { return c13Phys{t.tx}.Get(k) }
func (t *c13TxMixed) List(p string) ([]string, error)    { return t.tx.List(c13bg, p) }
func (t *c13TxMixed) ListPage(p, a string, l int) ([]string, error) {
	return t.tx.ListPage(c13bg, p, a, l)
}

func TestVerifC13Raft(t *testing.T) {
	res := vout.New("C13", "raft")
	defer func() {
		if err := res.Write(); err != nil {
			t.Fatal(err)
		}
	}()
	depth := 3
	if vout.Thorough() {
		depth = 4
	}
	base := os.Getenv("VERIF_SCRATCH")
	if base == "" {
		base = t.TempDir()
	}

	var shared *RaftBackend
	getShared := func() *RaftBackend {
		if shared == nil {
			dir, err := os.MkdirTemp(base, "raft")
			if err != nil {
				t.Fatal(err)
			}
			shared = getRaftWithDirQuiet(t, dir)
		}
		return shared
	}
	wipe := func(b *RaftBackend, keys map[string]struct{}) {
		for k := range keys {
			_ = b.Delete(c13bg, k)
		}
	}

	stacks := []*kvc.Stack{
		{Name: "raft-fsm", New: func() (kvc.KV, func(), error) {
			dir, err := os.MkdirTemp(base, "fsm")
			if err != nil {
				return nil, nil, err
			}
			f, err := NewFSM(dir, "n", log.NewNullLogger())
			if err != nil {
				return nil, nil, err
			}
			return c13Phys{f}, func() { _ = f.Close(); _ = os.RemoveAll(dir) }, nil
		}},
		{Name: "raft-backend", New: func() (kvc.KV, func(), error) {
			b := getShared()
			tr := &c13Tracked{kv: c13Phys{b}, written: map[string]struct{}{}}
			return tr, func() { wipe(b, tr.written) }, nil
		}},
		{Name: "raft-tx-open", New: func() (kvc.KV, func(), error) {
			b := getShared()
			tx, err := b.BeginTx(c13bg)
			if err != nil {
				return nil, nil, err
			}
			return c13Phys{tx}, func() { _ = tx.Rollback(c13bg) }, nil
		}},
		{Name: "raft-tx-mixed", New: func() (kvc.KV, func(), error) {
			b := getShared()
			tx, err := b.BeginTx(c13bg)
			if err != nil {
				return nil, nil, err
			}
			m := &c13TxMixed{b: b, tx: tx}
			tr := &c13Tracked{kv: m, written: map[string]struct{}{}}
			return tr, func() { _ = m.tx.Rollback(c13bg); wipe(b, tr.written) }, nil
		}},
	}
	only := os.Getenv("VERIF_STACK")
	for i, st := range stacks {
		if !vout.Mine(i) {
			continue
		}
		if only != "" && st.Name != only {
			continue
		}
		d := depth
		if st.Name != "raft-fsm" && d > 3 {
			d = 3 // each committed mutation is a real raft round trip
		}
		kvc.Run(res, st, d)
		t.Logf("stack %-16s states=%d transitions=%d violations=%d", st.Name, res.Counters["states"], res.Counters["transitions"], res.NumViolations())
	}
	if shared != nil {
		_ = shared.TeardownCluster(nil)
	}
}

// getRaftWithDirQuiet is getRaftWithDir without trace logging.
func getRaftWithDirQuiet(t testing.TB, raftDir string) *RaftBackend {
	conf := map[string]string{
		"path":          raftDir,
		"trailing_logs": "100",
		"node_id":       "verif-node",
	}
	backendRaw, err := NewRaftBackend(conf, log.NewNullLogger())
	if err != nil {
		t.Fatal(err)
	}
	backend := backendRaw.(*RaftBackend)
	if err := backend.Bootstrap([]Peer{{ID: backend.NodeID(), Address: backend.NodeID()}}); err != nil {
		t.Fatal(err)
	}
	if err := backend.SetupCluster(context.Background(), SetupOpts{}); err != nil {
		t.Fatal(err)
	}
	for backend.raft.AppliedIndex() < 2 {
	}
	backend.DisableAutopilot()
	return backend
}
