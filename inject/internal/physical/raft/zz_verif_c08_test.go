package raft

// C08 (raft): the same transaction programs and serial reference as the
// synchronous stacks (engine/txc), on a real single-node RaftBackend whose
// state-machine apply is gated through the production hook
// SetFSMApplyCallback.  The harness owns the environment event "the FSM applies
// the next queued entry", so every lag shape (entries proposed but not yet
// applied while other transactions begin/read/commit) up to the lag bound is
// enumerated deterministically: a proposal is only issued once the previous
// one has been queued to the FSM, which makes every entry its own apply batch.

import (
	raftchunking "github.com/hashicorp/go-raftchunking"
	"fmt"
	"os"
	"sync/atomic"
	"testing"
	"time"

	"github.com/openbao/openbao/sdk/v2/helper/verif/kvc"
	"github.com/openbao/openbao/sdk/v2/helper/verif/txc"
	"github.com/openbao/openbao/sdk/v2/helper/verif/vout"
	"github.com/openbao/openbao/sdk/v2/helper/verif/vstmt"
	"github.com/openbao/openbao/sdk/v2/physical"
)

type c08Pref struct {
	kv kvc.KV
	p  string
}

func (p c08Pref) Put(k string, v []byte) error             { return p.kv.Put(p.p+k, v) }
func (p c08Pref) Delete(k string) error                    { return p.kv.Delete(p.p + k) }
func (p c08Pref) List(pf string) ([]string, error)         { return p.kv.List(p.p + pf) }
func (p c08Pref) ListPage(pf, a string, l int) ([]string, error) { return p.kv.ListPage(p.p+pf, a, l) }
func (p c08Pref) Get(k string) ([]byte, bool, error) {
	e, f, err := p.kv.Get(p.p + k)
	return e, f, err
}

type c08RawKV struct{ b physical.Backend }

func (p c08RawKV) Put(k string, v []byte) error {
	return p.b.Put(c13bg, &physical.Entry{Key: k, Value: append([]byte{}, v...)})
}

func (p c08RawKV) Get(k string) ([]byte, bool, error) {
	e, err := p.b.Get(c13bg, k)
	if err != nil || e == nil {
		return nil, false, err
	}
	return e.Value, true, nil
}
func (p c08RawKV) Delete(k string) error            { return p.b.Delete(c13bg, k) }
func (p c08RawKV) List(pf string) ([]string, error) { return p.b.List(c13bg, pf) }
func (p c08RawKV) ListPage(pf, a string, l int) ([]string, error) {
	return p.b.ListPage(c13bg, pf, a, l)
}

type c08Tx struct {
	c08Pref
	tx physical.Transaction
}

func (t c08Tx) Commit() error   { return t.tx.Commit(c13bg) }
func (t c08Tx) Rollback() error { return t.tx.Rollback(c13bg) }

type c08Backend struct {
	c08Pref
	b      *RaftBackend
	prefix string
}

func (b c08Backend) Begin(ro bool) (txc.Tx, error) {
	var tx physical.Transaction
	var err error
	if ro {
		tx, err = b.b.BeginReadOnlyTx(c13bg)
	} else {
		tx, err = b.b.BeginTx(c13bg)
	}
	if err != nil {
		return nil, err
	}
	return c08Tx{c08Pref{c08RawKV{tx}, b.prefix}, tx}, nil
}

// c08Env owns the FSM apply gate.
type c08Env struct {
	b       *RaftBackend
	gateOn  atomic.Bool
	waiting atomic.Int64
	tokens  chan struct{}
}

func newC08Env(b *RaftBackend) *c08Env {
	e := &c08Env{b: b, tokens: make(chan struct{}, 64)}
	b.SetFSMApplyCallback(func() {
		if !e.gateOn.Load() {
			return
		}
		e.waiting.Add(1)
		<-e.tokens
		e.waiting.Add(-1)
	})
	return e
}

func c08Wait(what string, cond func() bool) error {
	deadline := time.Now().Add(20 * time.Second)
	for !cond() {
		if time.Now().After(deadline) {
			return fmt.Errorf("harness: timed out waiting for %s", what)
		}
		time.Sleep(20 * time.Microsecond)
	}
	return nil
}

func (e *c08Env) fsmIndex() uint64 {
	li, _ := e.b.fsm.LatestState()
	return li.Index
}

// applyOne lets the FSM apply exactly one queued batch (= one entry).
func (e *c08Env) applyOne() error {
	before := e.fsmIndex()
	if err := c08Wait("FSM to reach the gate", func() bool { return e.waiting.Load() > 0 }); err != nil {
		return err
	}
	e.tokens <- struct{}{}
	return c08Wait("FSM index to advance", func() bool { return e.fsmIndex() > before })
}

// applyOneDuring grants one apply from inside a step of the harness thread.
// If the FSM cannot make progress within the grace period (the step holds a
// lock the apply needs), the grant stays and the apply lands as soon as the
// step releases the lock; finish() must then be called after the step.
func (e *c08Env) applyOneDuring(grace time.Duration) (before uint64, landed bool, err error) {
	before = e.fsmIndex()
	if err = c08Wait("FSM to reach the gate", func() bool { return e.waiting.Load() > 0 }); err != nil {
		return before, false, err
	}
	e.tokens <- struct{}{}
	deadline := time.Now().Add(grace)
	for time.Now().Before(deadline) {
		if e.fsmIndex() > before {
			return before, true, nil
		}
		time.Sleep(20 * time.Microsecond)
	}
	return before, false, nil
}

type c08Inflight struct {
	p    int
	st   txc.Step
	done chan txc.Obs
}

func c08Proposes(st txc.Step, ro, wrote bool) bool {
	switch st.Op {
	case "pput", "pdel":
		return true
	case "commit":
		return !ro && wrote
	}
	return false
}

// c08Run executes one schedule.  -1 in the schedule = apply next entry.
func c08Run(env *c08Env, prefix string, rp txc.Replay) (*txc.Checker, *txc.Violation, error) {
	be := c08Backend{c08Pref{c08RawKV{env.b}, prefix}, env.b, prefix}
	env.gateOn.Store(false)
	for k, v := range rp.Initial {
		if err := be.Put(k, []byte(v)); err != nil {
			return nil, nil, err
		}
	}
	env.gateOn.Store(true)
	defer func() {
		// quiesce: open the gate and let everything drain
		env.gateOn.Store(false)
		for env.waiting.Load() > 0 {
			select {
			case env.tokens <- struct{}{}:
			default:
			}
			time.Sleep(50 * time.Microsecond)
		}
	}()
	c := txc.NewChecker(rp.Initial, len(rp.Programs))
	txs := make([]txc.Tx, len(rp.Programs))
	pc := make([]int, len(rp.Programs))
	ro := make([]bool, len(rp.Programs))
	wrote := make([]bool, len(rp.Programs))
	var queue []c08Inflight
	var pendingViolation *txc.Violation
	finish := func(p int, st txc.Step, o txc.Obs) *txc.Violation {
		if v := c.OnComplete(p, st, o); v != nil {
			return v
		}
		if (st.Op == "commit" || st.Op == "rollback") && txs[p] != nil {
			probe := txc.Get("a")
			o := txc.Exec(be, &txs[p], probe)
			if v := c.OnComplete(p, probe, o); v != nil {
				return v
			}
		}
		return nil
	}
	drain := func() error {
		for len(queue) > 0 {
			if err := env.applyOne(); err != nil {
				return err
			}
			fl := queue[0]
			queue = queue[1:]
			select {
			case o := <-fl.done:
				if v := finish(fl.p, fl.st, o); v != nil && pendingViolation == nil {
					pendingViolation = v
				}
			case <-time.After(20 * time.Second):
				return fmt.Errorf("harness: in-flight %s never returned", fl.st)
			}
		}
		return nil
	}
	for _, ev := range rp.Schedule {
		if ev == -1 {
			if len(queue) == 0 {
				return c, nil, fmt.Errorf("harness: apply event with empty queue")
			}
			if err := env.applyOne(); err != nil {
				return c, nil, err
			}
			fl := queue[0]
			queue = queue[1:]
			select {
			case o := <-fl.done:
				if v := finish(fl.p, fl.st, o); v != nil {
					_ = drain()
					return c, v, nil
				}
			case <-time.After(20 * time.Second):
				return c, nil, fmt.Errorf("harness: in-flight %s never returned", fl.st)
			}
			continue
		}
		if ev >= 1000 {
			// program p executes its next step (a begin) and the FSM applies the
			// head of the queue when the step reaches its i-th instrumented
			// statement (tools/stmtpoints; dynamic, whatever the code is now)
			p, i := (ev-1000)/100, (ev-1000)%100
			st := rp.Programs[p].Steps[pc[p]]
			pc[p]++
			if len(queue) == 0 || (st.Op != "begin" && st.Op != "beginro") {
				return c, nil, fmt.Errorf("harness: mid-step apply event needs a begin step and a queued entry")
			}
			verBefore := c.Ver()
			hits, fired, landed := 0, false, false
			var idxBefore uint64
			var applyErr error
			vstmt.Set(func(string) {
				if hits == i && !fired {
					fired = true
					idxBefore, landed, applyErr = env.applyOneDuring(300 * time.Millisecond)
				}
				hits++
			})
			o := txc.Exec(be, &txs[p], st)
			vstmt.Set(nil)
			if !fired {
				applyErr = env.applyOne() // fewer statements than counted: the event lands right after the step
			} else if applyErr == nil && !landed {
				// the step held a lock the apply needed: it lands now
				applyErr = c08Wait("FSM index to advance after the step", func() bool { return env.fsmIndex() > idxBefore })
			}
			if applyErr != nil {
				return c, nil, applyErr
			}
			fl := queue[0]
			queue = queue[1:]
			select {
			case o2 := <-fl.done:
				if v := finish(fl.p, fl.st, o2); v != nil {
					_ = drain()
					return c, v, nil
				}
			case <-time.After(20 * time.Second):
				return c, nil, fmt.Errorf("harness: in-flight %s never returned", fl.st)
			}
			if st.Op == "beginro" {
				ro[p] = true
			}
			v := finish(p, st, o)
			c.SetBeginVer(p, verBefore)
			if v != nil {
				_ = drain()
				return c, v, nil
			}
			continue
		}
		p := ev
		st := rp.Programs[p].Steps[pc[p]]
		pc[p]++
		if c08Proposes(st, ro[p], wrote[p]) {
			before := env.b.raft.LastIndex()
			fl := c08Inflight{p: p, st: st, done: make(chan txc.Obs, 1)}
			go func() { fl.done <- txc.Exec(be, &txs[p], st) }()
			// proposed = appended to the log and queued to the FSM goroutine
			err := c08Wait("proposal to be queued", func() bool {
				li := env.b.raft.LastIndex()
				return li > before && env.b.raft.AppliedIndex() >= li
			})
			if err != nil {
				// the operation may have failed without proposing
				select {
				case o := <-fl.done:
					if v := finish(p, st, o); v != nil {
						_ = drain()
						return c, v, nil
					}
					continue
				default:
					return c, nil, err
				}
			}
			queue = append(queue, fl)
			continue
		}
		o := txc.Exec(be, &txs[p], st)
		switch st.Op {
		case "beginro":
			ro[p] = true
		case "put", "del":
			if o.Err == "" {
				wrote[p] = true
			}
		}
		if v := finish(p, st, o); v != nil {
			_ = drain()
			return c, v, nil
		}
	}
	if err := drain(); err != nil {
		return c, nil, err
	}
	if pendingViolation != nil {
		return c, pendingViolation, nil
	}
	env.gateOn.Store(false)
	return c, c.Final(be, txc.Keys), nil
}

// c08Schedules enumerates all event orders for the programs under a lag bound.
//
// ordered > 0: programs 0..ordered-1 are interchangeable single-writer clients;
// they start in index order (symmetry reduction by role).
func c08Schedules(progs []txc.Program, lag int, ordered int, visit func([]int)) {
	c08SchedulesMid(progs, lag, ordered, 0, visit)
}

// c08SchedulesMid additionally lets the apply of the queue head land at each of
// the midHits instrumented statements inside a begin step.
func c08SchedulesMid(progs []txc.Program, lag int, ordered int, midHits int, visit func([]int)) {
	n := len(progs)
	pc := make([]int, n)
	inflight := make([]bool, n)
	var queue []int
	var sched []int
	// static knowledge of which steps propose
	proposes := func(p, i int) bool {
		st := progs[p].Steps[i]
		switch st.Op {
		case "pput", "pdel":
			return true
		case "commit":
			if progs[p].Steps[0].Op != "begin" {
				return false
			}
			for _, s := range progs[p].Steps[:i] {
				if s.Op == "put" || s.Op == "del" {
					return true
				}
			}
		}
		return false
	}
	var rec func()
	rec = func() {
		done := len(queue) == 0
		for p := 0; p < n; p++ {
			if pc[p] < len(progs[p].Steps) {
				done = false
			}
		}
		if done {
			visit(sched)
			return
		}
		for p := 0; p < n; p++ {
			if inflight[p] || pc[p] >= len(progs[p].Steps) {
				continue
			}
			pr := proposes(p, pc[p])
			if pr && len(queue) >= lag {
				continue
			}
			if p > 0 && p < ordered && pc[p] == 0 && pc[p-1] == 0 {
				continue
			}
			pc[p]++
			sched = append(sched, p)
			if pr {
				inflight[p] = true
				queue = append(queue, p)
			}
			rec()
			if pr {
				inflight[p] = false
				queue = queue[:len(queue)-1]
			}
			sched = sched[:len(sched)-1]
			pc[p]--
			if op := progs[p].Steps[pc[p]].Op; midHits > 0 && len(queue) > 0 && (op == "begin" || op == "beginro") {
				head := queue[0]
				queue = queue[1:]
				inflight[head] = false
				pc[p]++
				for i := 0; i < midHits; i++ {
					sched = append(sched, 1000+p*100+i)
					rec()
					sched = sched[:len(sched)-1]
				}
				pc[p]--
				inflight[head] = true
				queue = append([]int{head}, queue...)
			}
		}
		if len(queue) > 0 {
			head := queue[0]
			queue = queue[1:]
			inflight[head] = false
			sched = append(sched, -1)
			rec()
			sched = sched[:len(sched)-1]
			inflight[head] = true
			queue = append([]int{head}, queue...)
		}
	}
	rec()
}

func c08Pick(names ...string) []txc.Program {
	var out []txc.Program
	for _, n := range names {
		for _, p := range txc.Templates() {
			if p.Name == n {
				out = append(out, p)
			}
		}
	}
	if len(out) != len(names) {
		panic("unknown template in " + fmt.Sprint(names))
	}
	return out
}

func TestVerifC08Raft(t *testing.T) {
	res := vout.New("C08", "raft")
	defer func() {
		if err := res.Write(); err != nil {
			t.Fatal(err)
		}
	}()
	base := os.Getenv("VERIF_SCRATCH")
	if base == "" {
		base = t.TempDir()
	}
	dir, err := os.MkdirTemp(base, "raft")
	if err != nil {
		t.Fatal(err)
	}
	b := getRaftWithDirQuiet(t, dir)
	defer b.TeardownCluster(nil) //nolint:errcheck
	env := newC08Env(b)
	execN := 0
	runOne := func(rp txc.Replay) {
		execN++
		prefix := fmt.Sprintf("e%d/", execN)
		c, v, err := c08Run(env, prefix, rp)
		if err != nil {
			t.Fatalf("%v (%s)", err, rp)
		}
		res.Add("executions", 1)
		res.Add("transitions", int64(len(rp.Schedule)))
		if c != nil {
			res.Add("commits", int64(c.Commits))
			res.Add("conflicts", int64(c.Conflicts))
			res.Add("spurious_conflicts", int64(c.SpuriousConflicts))
			res.Distinct("nontrivial", fmt.Sprintf("raft|%d|%d|%v", c.Commits, c.Conflicts, c.Hist[len(c.Hist)-1]))
		}
		if v != nil {
			res.Violate("c08:raft:"+v.Kind, rp.String()+": "+v.Msg, rp)
		}
	}
	if vout.ReplayPath() != "" {
		var rp txc.Replay
		if _, err := vout.LoadReplay(&rp); err != nil {
			t.Fatal(err)
		}
		runOne(rp)
		return
	}

	init := map[string]string{"a": "0", "d/x": "0"}
	work := 0
	deadline := time.Now().Add(time.Duration(vout.DeadlineS()) * time.Second)
	capped := false
	// number of instrumented statements one begin executes (dynamic)
	midHits := 0
	{
		vstmt.Set(func(string) { midHits++ })
		tx, err := b.BeginTx(c13bg)
		vstmt.Set(nil)
		if err != nil {
			t.Fatalf("harness: %v", err)
		}
		_ = tx.Rollback(c13bg)
		if midHits == 0 {
			t.Fatalf("harness: statement instrumentation of newTransaction is not active (unit needs stmtpoints)")
		}
		if midHits > 90 {
			midHits = 90
		}
		res.Bound("statement_points_in_begin", midHits)
	}
	mid := 0
	scenario := func(progs []txc.Program, lag int, ordered int) {
		work++
		if !vout.Mine(work) || capped {
			return
		}
		nsched := 0
		defer func() { res.Max("schedules_per_scenario", int64(nsched)) }()
		c08SchedulesMid(progs, lag, ordered, mid, func(s []int) {
			nsched++
			for _, ev := range s {
				if ev >= 1000 {
					res.Add("schedules_with_mid_begin_apply", 1)
					break
				}
			}
			if capped {
				return
			}
			if time.Now().After(deadline) {
				capped = true
				res.NotExhaustive("internal deadline reached in raft scenario enumeration")
				return
			}
			ini := init
			for _, p := range progs {
				if txc.RepeatedListing(p) {
					ini = txc.RichInitial()
				}
			}
			runOne(txc.Replay{Stack: "raft", Initial: ini, Programs: progs, Schedule: append([]int{}, s...)})
		})
		res.Add("states", 1)
		if work%37 == 0 {
			var names []string
			for _, p := range progs {
				names = append(names, p.Name)
			}
			res.Sample(map[string]interface{}{"stack": "raft", "programs": names, "lag": lag})
		}
	}

	// (1) all pairs of a 16-template subset, lag <= 2
	sub := c08Pick("r(a)w(b)", "r(b)w(a)", "l(d/)w(d/x)", "l(d/)w(d/y)", "w(a)", "rmw(a)", "d(a)", "ro:l(d/)r(a)",
		"w(d/y)l(d/)", "d(d/x)l(d/)", "lp(,a,1)w(b)", "lp(d/,,1)w(d/z)", "ro:w(a)", "r(a)w(b)rollback",
		"lp(d/,,3)lp(d/,,1)w(b)", "lp(d/,,1)lp(d/,,3)w(b)", "l(d/)lp(d/,,1)w(b)", "pdel(d/z)", "pput(d/yy)",
		"pput(a)", "pput(d/y)", "pdel(a)", "pput(b)pget(a)", "pput(b,'')")
	if vout.Thorough() {
		sub = txc.Templates()
	}
	for i := 0; i < len(sub); i++ {
		for j := i; j < len(sub); j++ {
			scenario([]txc.Program{sub[i], sub[j]}, 2, 0)
		}
	}
	// (2) FSM-lag shapes: up to three plain writes in flight around each
	// transaction (lag 3), the shape that exercises tracker trimming.
	txs := c08Pick("r(a)w(b)", "l(d/)w(d/x)", "rmw(a)", "lp(,a,1)w(b)", "r(b)w(a)")
	if vout.Thorough() {
		txs = append(txs, c08Pick("l(d/)w(d/y)", "d(a)", "w(a)r(a)", "r(d/x)d(d/x)w(a)", "l()w(c)")...)
	}
	plainSets := [][]string{{"pput(a)", "pput(d/y)", "pdel(a)"}, {"pput(d/y)", "pput(a)", "pput(b)pget(a)"}}
	for _, tx := range txs {
		for _, ps := range plainSets {
			progs := append(c08Pick(ps...), tx)
			scenario(progs, 3, 3)
		}
	}
	// (3) the apply event landing INSIDE BeginTx / BeginReadOnlyTx, at every
	// statement boundary of newTransaction (index read vs. snapshot order)
	mid = midHits
	midTx := c08Pick("r(a)w(b)", "rmw(a)", "l(d/)w(d/x)", "ro:l(d/)r(a)", "d(a)", "lp(,a,1)w(b)")
	if vout.Thorough() {
		midTx = nil
		for _, p := range txc.Templates() {
			if p.Steps[0].Op == "begin" || p.Steps[0].Op == "beginro" {
				midTx = append(midTx, p)
			}
		}
	}
	for _, tx := range midTx {
		for _, pl := range []string{"pput(a)", "pdel(a)", "pput(d/y)"} {
			scenario(append(c08Pick(pl), tx), 1, 0)
		}
		scenario(append(c08Pick("pput(a)", "pput(d/y)"), tx), 2, 2)
		if vout.Thorough() {
			scenario(append(c08Pick("pput(d/y)", "pdel(a)"), tx), 2, 2)
		}
	}
	mid = 0
	res.Bound("raft_lag_pairs", 2)
	res.Bound("raft_lag_scenarios", 3)

	// (4) chunked entries on the leader (c08LeaderVerdicts below)
	env.gateOn.Store(false)
	c08LeaderVerdicts(t, b, res, "c08:raft-chunked", 48, init, deadline, &work, &execN)
}

// c08LeaderVerdicts: with the chunk size lowered to chunk bytes every proposal (plain write
// or transaction commit) travels as several raft log entries and comes back through the
// chunking wrapper (chunk = 0: the production chunk size, nothing is chunked). All merges
// of pairs from a small colliding set, no FSM lag (gate open): the verdict the LEADER
// reports for a transaction must be the serial reference's, and a refused transaction
// leaves nothing behind.
func c08LeaderVerdicts(t *testing.T, b *RaftBackend, res *vout.Result, sigPrefix string, chunk int, init map[string]string, deadline time.Time, work, execN *int) {
	saved := raftchunking.ChunkSize
	if chunk > 0 {
		raftchunking.ChunkSize = chunk
	}
	defer func() { raftchunking.ChunkSize = saved }()
	capped := false
	chunked := c08Pick("r(a)w(b)", "r(b)w(a)", "rmw(a)", "l(d/)w(d/x)", "l(d/)w(d/y)", "w(a)w(a)r(b)", "pput(a)", "pput(b)pget(a)", "pput(d/y)", "pdel(a)")
	for i := 0; i < len(chunked); i++ {
		for j := i; j < len(chunked); j++ {
			*work++
			if !vout.Mine(*work) || capped {
				continue
			}
			progs := []txc.Program{chunked[i], chunked[j]}
			txc.Merges([]int{len(progs[0].Steps), len(progs[1].Steps)}, func(sch []int) {
				if capped {
					return
				}
				if time.Now().After(deadline) {
					capped = true
					res.NotExhaustive("internal deadline reached in the leader-verdict enumeration")
					return
				}
				*execN++
				prefix := fmt.Sprintf("e%d/", *execN)
				be := c08Backend{c08Pref{c08RawKV{b}, prefix}, b, prefix}
				rp := txc.Replay{Stack: "raft-chunked", Initial: init, Programs: progs, Schedule: append([]int{}, sch...)}
				for k, v := range rp.Initial {
					if err := be.Put(k, []byte(v)); err != nil {
						t.Fatalf("harness: %v", err)
					}
				}
				c, v := txc.RunSequential(be, rp)
				res.Add("executions", 1)
				res.Add("leader_verdict_executions", 1)
				res.Add("transitions", int64(len(sch)))
				if c != nil {
					res.Add("commits", int64(c.Commits))
					res.Add("conflicts", int64(c.Conflicts))
					res.Distinct("nontrivial", fmt.Sprintf("leader|%d|%d|%d|%v", chunk, c.Commits, c.Conflicts, c.Hist[len(c.Hist)-1]))
				}
				if v != nil {
					res.Violate(sigPrefix+":"+v.Kind, fmt.Sprintf("chunk size %d: ", chunk)+rp.String()+": "+v.Msg, rp)
				}
			})
			res.Add("states", 1)
		}
	}
	res.Bound(fmt.Sprintf("leader_verdict_chunk_size_%d", chunk), true)
}

// TestVerifC09Leader: "a verdict reported to a client by the leader is the verdict every
// replica reaches". The replicas' verdicts equal the serial reference's (unit raftfsm);
// here the verdict the LEADER hands to its client (RaftTransaction.Commit through the real
// raft library, chunked and unchunked) is compared with the same reference.
func TestVerifC09Leader(t *testing.T) {
	res := vout.New("C09", "leader")
	defer func() {
		if err := res.Write(); err != nil {
			t.Fatal(err)
		}
	}()
	if vout.ReplayPath() != "" {
		t.Log("C09 leader artefacts carry programs and schedule; re-run the check to reproduce (deterministic enumeration)")
		return
	}
	base := os.Getenv("VERIF_SCRATCH")
	if base == "" {
		base = t.TempDir()
	}
	dir, err := os.MkdirTemp(base, "raft")
	if err != nil {
		t.Fatal(err)
	}
	b := getRaftWithDirQuiet(t, dir)
	defer b.TeardownCluster(nil) //nolint:errcheck
	init := map[string]string{"a": "0", "d/x": "0"}
	deadline := time.Now().Add(time.Duration(vout.DeadlineS()) * time.Second)
	work, execN := 0, 0
	c08LeaderVerdicts(t, b, res, "c09:leader-chunked", 48, init, deadline, &work, &execN)
	c08LeaderVerdicts(t, b, res, "c09:leader", 0, init, deadline, &work, &execN)
}
