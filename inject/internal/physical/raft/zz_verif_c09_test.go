package raft

// C09: replicas applying the same committed log reach the same state and the
// same per-transaction verdicts, however the log is batched and wherever a
// replica restarts or is initialised from a snapshot.
//
// Exhaustive enumeration (explicit-state): all logs up to a length bound over a
// small alphabet of plain writes and transactions, times every partition of the
// log into ApplyBatch calls, every restart position (Close + NewFSM on the same
// bolt file) and every snapshot-install position (real BoltSnapshotStore
// Open/Create/Write/Close/Open + FSM.Restore).  The oracle is a value-based
// serial reference: an entry's verdict is "conflict" iff one of its shipped
// verify operations no longer matches the reference state at that log
// position.  The in-memory fast-path tracker must never change a verdict.

import (
	"fmt"
	"io"
	"os"
	"sort"
	"strings"
	"testing"

	"google.golang.org/protobuf/proto"
	log "github.com/hashicorp/go-hclog"
	"github.com/hashicorp/raft"
	"github.com/openbao/openbao/sdk/v2/helper/verif/kvc"
	"github.com/openbao/openbao/sdk/v2/helper/verif/vout"
	bolt "go.etcd.io/bbolt"
)

type c09List struct {
	Prefix string `json:"p"`
	After  string `json:"a"`
	Limit  int    `json:"l"`
}

type c09Write struct {
	Key string `json:"k"`
	Val string `json:"v"`
	Del bool   `json:"del,omitempty"`
}

type c09Entry struct {
	Name   string     `json:"name"`
	Txn    bool       `json:"txn"`
	Start  uint64     `json:"start,omitempty"`
	Reads  []string   `json:"reads,omitempty"`
	Lists  []c09List  `json:"lists,omitempty"`
	Writes []c09Write `json:"writes"`
}

func (e c09Entry) String() string {
	if !e.Txn {
		return e.Name
	}
	return fmt.Sprintf("%s@%d", e.Name, e.Start)
}

type c09Replay struct {
	Log     []c09Entry `json:"log"`
	Variant string     `json:"variant"`
	Batches []int      `json:"batches,omitempty"` // batch sizes
	Pos     int        `json:"pos,omitempty"`
	Had     int        `json:"had,omitempty"`
}

func cloneState(s map[string]string) map[string]string {
	o := make(map[string]string, len(s))
	for k, v := range s {
		o[k] = v
	}
	return o
}

func dumpState(s map[string]string) string {
	ks := make([]string, 0, len(s))
	for k, v := range s {
		ks = append(ks, k+"="+v)
	}
	sort.Strings(ks)
	return strings.Join(ks, ",")
}

// c09Reference computes the states S_0..S_n and the per-entry verdicts
// (true = conflict) of the serial value-based specification.
func c09Reference(lg []c09Entry) ([]map[string]string, []bool) {
	states := []map[string]string{{}}
	verdicts := make([]bool, len(lg))
	for i, e := range lg {
		cur := cloneState(states[i])
		conflict := false
		if e.Txn {
			at := states[e.Start]
			for _, r := range e.Reads {
				// what the shipped verify op compares: a hash over (key, value
				// bytes); a missing key and an empty value hash alike (the
				// serializability consequence of that is C08's business)
				if at[r] != cur[r] {
					conflict = true
				}
			}
			for _, l := range e.Lists {
				a := kvc.RefListPage(at, l.Prefix, l.After, l.Limit)
				// what the verify op re-executes at apply time:
				b := kvc.RefListPage(cur, l.Prefix, l.After, len(a))
				if strings.Join(a, "\n") != strings.Join(b, "\n") {
					conflict = true
				}
			}
		}
		if !conflict {
			for _, w := range e.Writes {
				if w.Del {
					delete(cur, w.Key)
				} else {
					cur[w.Key] = w.Val
				}
			}
		}
		verdicts[i] = conflict
		states = append(states, cur)
	}
	return states, verdicts
}

// c09Encode builds the raft.Log entries an honest leader would have shipped.
func c09Encode(lg []c09Entry, states []map[string]string) ([]*raft.Log, error) {
	out := make([]*raft.Log, len(lg))
	for i, e := range lg {
		idx := uint64(i + 1)
		// honest lowest active index: min(applied index at propose time,
		// start index of every other transaction open at that time)
		lai := idx - 1
		for j := i + 1; j < len(lg); j++ {
			if lg[j].Txn && lg[j].Start <= idx-1 && lg[j].Start < lai {
				lai = lg[j].Start
			}
		}
		data := &LogData{LowestActiveIndex: &lai}
		if e.Txn {
			bv, err := createBeginTxOpValue(e.Start)
			if err != nil {
				return nil, err
			}
			data.Operations = append(data.Operations, &LogOperation{OpType: beginTxOp, Value: bv})
			at := states[e.Start]
			for _, r := range e.Reads {
				var val []byte
				if v, ok := at[r]; ok {
					val = []byte(v)
				}
				h, err := createVerificationEntry(r, val)
				if err != nil {
					return nil, err
				}
				data.Operations = append(data.Operations, &LogOperation{OpType: verifyReadOp, Key: r, Value: h})
			}
			for _, l := range e.Lists {
				items := kvc.RefListPage(at, l.Prefix, l.After, l.Limit)
				repr, h, err := createListVerificationEntry(l.Prefix, l.After, len(items), items)
				if err != nil {
					return nil, err
				}
				data.Operations = append(data.Operations, &LogOperation{OpType: verifyListOp, Key: repr, Value: h})
			}
		}
		for _, w := range e.Writes {
			if w.Del {
				data.Operations = append(data.Operations, &LogOperation{OpType: deleteOp, Key: w.Key})
			} else {
				data.Operations = append(data.Operations, &LogOperation{OpType: putOp, Key: w.Key, Value: []byte(w.Val)})
			}
		}
		if e.Txn {
			data.Operations = append(data.Operations, &LogOperation{OpType: commitTxOp})
		}
		b, err := proto.Marshal(data)
		if err != nil {
			return nil, err
		}
		out[i] = &raft.Log{Index: idx, Term: 1, Type: raft.LogCommand, Data: b}
	}
	return out, nil
}

// ---- replica ------------------------------------------------------------------

type c09Replica struct {
	dir string
	fsm *FSM
}

var c09DirSeq int

func c09NewReplica() (*c09Replica, error) {
	c09DirSeq++
	base := os.Getenv("VERIF_SCRATCH")
	if base == "" {
		base = os.TempDir()
	}
	dir, err := os.MkdirTemp(base, "fsm")
	if err != nil {
		return nil, err
	}
	f, err := NewFSM(dir, "n", log.NewNullLogger())
	if err != nil {
		return nil, err
	}
	return &c09Replica{dir: dir, fsm: f}, nil
}

func (r *c09Replica) destroy() {
	if r.fsm != nil {
		_ = r.fsm.Close()
	}
	_ = os.RemoveAll(r.dir)
}

func (r *c09Replica) restart() error {
	if err := r.fsm.Close(); err != nil {
		return err
	}
	f, err := NewFSM(r.dir, "n", log.NewNullLogger())
	if err != nil {
		return err
	}
	r.fsm = f
	return nil
}

// apply feeds one batch and returns conflict verdicts per entry.
func (r *c09Replica) apply(batch []*raft.Log) ([]bool, error) {
	resp := r.fsm.ApplyBatch(batch)
	if len(resp) != len(batch) {
		return nil, fmt.Errorf("ApplyBatch returned %d responses for %d logs", len(resp), len(batch))
	}
	out := make([]bool, len(batch))
	for i, x := range resp {
		ar, ok := x.(*FSMApplyResponse)
		if !ok || !ar.Success {
			return nil, fmt.Errorf("unexpected response %T", x)
		}
		for _, e := range ar.EntrySlice {
			if e.IsTxError() {
				out[i] = true
			}
		}
	}
	return out, nil
}

func (r *c09Replica) dump() (string, error) {
	var parts []string
	err := r.fsm.getDB().View(func(tx *bolt.Tx) error {
		return tx.Bucket(dataBucketName).ForEach(func(k, v []byte) error {
			parts = append(parts, string(k)+"="+string(v))
			return nil
		})
	})
	sort.Strings(parts)
	return strings.Join(parts, ","), err
}

// installFrom performs a follower snapshot install: stream the donor's state
// through the real snapshot store into this replica and Restore it.
func (r *c09Replica) installFrom(donor *c09Replica) error {
	dstore, err := NewBoltSnapshotStore(donor.dir, log.NewNullLogger(), donor.fsm)
	if err != nil {
		return err
	}
	meta, rc, err := dstore.Open(boltSnapshotID)
	if err != nil {
		return err
	}
	store, err := NewBoltSnapshotStore(r.dir, log.NewNullLogger(), r.fsm)
	if err != nil {
		return err
	}
	sink, err := store.Create(1, meta.Index, meta.Term, meta.Configuration, meta.ConfigurationIndex, nil)
	if err != nil {
		return err
	}
	if _, err := io.Copy(sink, rc); err != nil {
		_ = sink.Cancel()
		return err
	}
	_ = rc.Close()
	if err := sink.Close(); err != nil {
		return err
	}
	_, inst, err := store.Open(sink.ID())
	if err != nil {
		return err
	}
	defer inst.Close()
	return r.fsm.Restore(inst)
}

// ---- alphabet ---------------------------------------------------------------

func c09Alphabet(pos int) []c09Entry {
	// pos is the 1-based log index of the entry being chosen.
	plain := []c09Entry{
		{Name: "put(a,1)", Writes: []c09Write{{"a", "1", false}}},
		{Name: "put(a,2)", Writes: []c09Write{{"a", "2", false}}},
		{Name: "del(a)", Writes: []c09Write{{"a", "", true}}},
		{Name: "put(b,1)", Writes: []c09Write{{"b", "1", false}}},
		{Name: "put(d/x,1)", Writes: []c09Write{{"d/x", "1", false}}},
		{Name: "del(d/x)", Writes: []c09Write{{"d/x", "", true}}},
		{Name: "put(b,'')", Writes: []c09Write{{"b", "", false}}},
	}
	out := append([]c09Entry{}, plain...)
	for s := pos - 1; s >= 0; s-- {
		st := uint64(s)
		out = append(out,
			c09Entry{Name: "txn{r(a) w(b,t1)}", Txn: true, Start: st, Reads: []string{"a"}, Writes: []c09Write{{"b", "t1", false}}},
			c09Entry{Name: "txn{r(b) w(a,t2)}", Txn: true, Start: st, Reads: []string{"b"}, Writes: []c09Write{{"a", "t2", false}}},
			c09Entry{Name: "txn{l(d/) w(d/y,t3)}", Txn: true, Start: st, Lists: []c09List{{"d/", "", -1}}, Writes: []c09Write{{"d/y", "t3", false}}},
			c09Entry{Name: "txn{r(a) w(a,t4)}", Txn: true, Start: st, Reads: []string{"a"}, Writes: []c09Write{{"a", "t4", false}}},
			c09Entry{Name: "txn{l() r(b) d(a)}", Txn: true, Start: st, Reads: []string{"b"}, Lists: []c09List{{"", "", 1}}, Writes: []c09Write{{"a", "", true}}},
		)
	}
	return out
}

func c09Partitions(n int) [][]int {
	// all compositions of n (batch sizes)
	var out [][]int
	for mask := 0; mask < 1<<(n-1); mask++ {
		var sizes []int
		cur := 1
		for i := 0; i < n-1; i++ {
			if mask&(1<<i) != 0 {
				sizes = append(sizes, cur)
				cur = 1
			} else {
				cur++
			}
		}
		sizes = append(sizes, cur)
		out = append(out, sizes)
	}
	return out
}

// c09RunVariant executes one replica run and compares it with the reference.
// It returns "" when everything agrees.
func c09RunVariant(lg []c09Entry, logs []*raft.Log, states []map[string]string, refV []bool, rp c09Replay) (string, error) {
	n := len(lg)
	got := make([]int, n) // 0 = not observed, 1 = ok, 2 = conflict
	rec := func(from int, v []bool) {
		for i, c := range v {
			if c {
				got[from+i] = 2
			} else {
				got[from+i] = 1
			}
		}
	}
	r, err := c09NewReplica()
	if err != nil {
		return "", err
	}
	defer func() { r.destroy() }()
	switch rp.Variant {
	case "batch":
		p := 0
		for _, sz := range rp.Batches {
			v, err := r.apply(logs[p : p+sz])
			if err != nil {
				return "", err
			}
			rec(p, v)
			p += sz
		}
	case "restart", "restart-batchrest":
		for i := 0; i < rp.Pos; i++ {
			v, err := r.apply(logs[i : i+1])
			if err != nil {
				return "", err
			}
			rec(i, v)
		}
		if err := r.restart(); err != nil {
			return "", err
		}
		if rp.Variant == "restart" {
			for i := rp.Pos; i < n; i++ {
				v, err := r.apply(logs[i : i+1])
				if err != nil {
					return "", err
				}
				rec(i, v)
			}
		} else {
			v, err := r.apply(logs[rp.Pos:])
			if err != nil {
				return "", err
			}
			rec(rp.Pos, v)
		}
	case "snapshot":
		donor, err := c09NewReplica()
		if err != nil {
			return "", err
		}
		defer donor.destroy()
		for i := 0; i < rp.Pos; i++ {
			if _, err := donor.apply(logs[i : i+1]); err != nil {
				return "", err
			}
		}
		for i := 0; i < rp.Had; i++ {
			v, err := r.apply(logs[i : i+1])
			if err != nil {
				return "", err
			}
			rec(i, v)
		}
		if err := r.installFrom(donor); err != nil {
			return "", fmt.Errorf("snapshot install: %w", err)
		}
		for i := rp.Pos; i < n; i++ {
			v, err := r.apply(logs[i : i+1])
			if err != nil {
				return "", err
			}
			rec(i, v)
		}
	default:
		return "", fmt.Errorf("unknown variant %q", rp.Variant)
	}
	for i := range lg {
		if got[i] == 0 {
			continue
		}
		want := 1
		if refV[i] {
			want = 2
		}
		if got[i] != want {
			w := map[int]string{1: "commit", 2: "conflict"}
			return fmt.Sprintf("entry %d (%s): replica verdict %s, reference (and a replica applying the log straight through must agree) %s", i+1, lg[i], w[got[i]], w[want]), nil
		}
	}
	d, err := r.dump()
	if err != nil {
		return "", err
	}
	if want := dumpState(states[n]); d != want {
		return fmt.Sprintf("final data bucket {%s}, reference {%s}", d, want), nil
	}
	li, _ := r.fsm.LatestState()
	if li.Index != uint64(n) {
		return fmt.Sprintf("latest index %d after applying %d entries", li.Index, n), nil
	}
	return "", nil
}

func c09Sig(rp c09Replay, msg string) string {
	kind := "state"
	if strings.Contains(msg, "verdict commit") {
		kind = "commits-what-reference-rejects"
	} else if strings.Contains(msg, "verdict conflict") {
		kind = "rejects-what-reference-commits"
	} else if strings.Contains(msg, "latest index") {
		kind = "index"
	}
	v := rp.Variant
	if v == "restart-batchrest" {
		v = "restart"
	}
	return "c09:" + v + ":" + kind
}

func c09Variants(n int) []c09Replay {
	var out []c09Replay
	for _, p := range c09Partitions(n) {
		out = append(out, c09Replay{Variant: "batch", Batches: p})
	}
	for pos := 1; pos < n; pos++ {
		out = append(out, c09Replay{Variant: "restart", Pos: pos})
		if n-pos > 1 {
			out = append(out, c09Replay{Variant: "restart-batchrest", Pos: pos})
		}
	}
	for pos := 1; pos < n; pos++ {
		for had := 0; had < pos; had++ {
			// (an empty donor state streams zero bytes and cannot be installed
			// at all: skipped in check(), see DESIGN.md section 5)
			out = append(out, c09Replay{Variant: "snapshot", Pos: pos, Had: had})
		}
	}
	return out
}

func TestVerifC09(t *testing.T) {
	res := vout.New("C09", "raftfsm")
	defer func() {
		if err := res.Write(); err != nil {
			t.Fatal(err)
		}
	}()
	maxLen := 3
	if vout.Thorough() {
		maxLen = 4
	}
	res.Bound("max_log_length", maxLen)

	check := func(lg []c09Entry, variants []c09Replay) {
		states, refV := c09Reference(lg)
		logs, err := c09Encode(lg, states)
		if err != nil {
			t.Fatalf("encode: %v", err)
		}
		nconf := 0
		for _, c := range refV {
			if c {
				nconf++
			}
		}
		for _, rp := range variants {
			rp.Log = lg
			if rp.Variant == "snapshot" && len(states[rp.Pos]) == 0 {
				res.Add("skipped_empty_snapshot", 1)
				continue
			}
			msg, err := c09RunVariant(lg, logs, states, refV, rp)
			res.Add("executions", 1)
			res.Add("transitions", int64(len(lg)))
			if err != nil {
				t.Fatalf("harness error on %v %+v: %v", lg, rp, err)
			}
			if msg != "" {
				res.Violate(c09Sig(rp, msg), fmt.Sprintf("log %v variant %s batches=%v pos=%d had=%d: %s", lg, rp.Variant, rp.Batches, rp.Pos, rp.Had, msg), rp)
			}
		}
		res.Add("states", 1)
		res.Distinct("nontrivial", fmt.Sprintf("%v|%s|%v", refV, dumpState(states[len(lg)]), len(lg)))
		if nconf > 0 {
			res.Add("logs_with_conflicts", 1)
		}
	}

	if vout.ReplayPath() != "" {
		var rp c09Replay
		if _, err := vout.LoadReplay(&rp); err != nil {
			t.Fatal(err)
		}
		check(rp.Log, []c09Replay{rp})
		return
	}

	count := 0
	var rec func(prefix []c09Entry)
	rec = func(prefix []c09Entry) {
		if len(prefix) >= 1 {
			// shard on whole logs
			count++
			if vout.Mine(count) {
				lg := append([]c09Entry{}, prefix...)
				check(lg, c09Variants(len(lg)))
				if count%500 == 1 {
					res.Sample(map[string]interface{}{"log": fmt.Sprint(lg), "variants": len(c09Variants(len(lg)))})
				}
			}
		}
		if len(prefix) == maxLen {
			return
		}
		for _, e := range c09Alphabet(len(prefix) + 1) {
			rec(append(prefix, e))
		}
	}
	rec(nil)
	res.Bound("logs_enumerated_total", count)
}
