package raft

// C09: replicas applying the same committed log reach the same state and the
// same per-transaction verdicts, however the log is batched and wherever a
// replica restarts or is initialised from a snapshot.
//
// Exhaustive enumeration (explicit-state): all logs up to a length bound over a
// small alphabet of plain writes and transactions, times every partition of the
// log into ApplyBatch calls, every restart position (Close + NewFSM on the same
// bolt file) and every snapshot-install position (real BoltSnapshotStore
// Open/Create/Write/Close/Open + FSM.Restore).  The oracle is a value-based
// serial reference: an entry's verdict is "conflict" iff one of its shipped
// verify operations no longer matches the reference state at that log
// position.  The in-memory fast-path tracker must never change a verdict.

import (
	"fmt"
	"io"
	"time"
	"os"
	"sort"
	"strings"
	"testing"

	"google.golang.org/protobuf/proto"
	log "github.com/hashicorp/go-hclog"
	raftchunking "github.com/hashicorp/go-raftchunking"
	"github.com/hashicorp/raft"
	"github.com/openbao/openbao/sdk/v2/helper/verif/kvc"
	"github.com/openbao/openbao/sdk/v2/helper/verif/vout"
	bolt "go.etcd.io/bbolt"
)

type c09List struct {
	Prefix string `json:"p"`
	After  string `json:"a"`
	Limit  int    `json:"l"`
}

type c09Write struct {
	Key string `json:"k"`
	Val string `json:"v"`
	Del bool   `json:"del,omitempty"`
}

type c09Entry struct {
	Name   string     `json:"name"`
	Txn    bool       `json:"txn"`
	Start  uint64     `json:"start,omitempty"`
	Reads  []string   `json:"reads,omitempty"`
	Lists  []c09List  `json:"lists,omitempty"`
	Writes []c09Write `json:"writes"`
	// Chunk: 0 = an ordinary (unchunked) entry; 1 = this log position carries
	// the FIRST chunk of the entry described here (the entry takes effect at the
	// position of its final chunk); 2 = this position carries the FINAL chunk of
	// the most recent Chunk==1 entry before it; 3 = a leadership change: this
	// position holds the new leader's no-op entry (raft never hands it to the
	// state machine), every later entry carries the next term, and a chunked
	// entry still open is abandoned (its remaining chunks never arrive).
	Chunk int `json:"chunk,omitempty"`
}

func (e c09Entry) String() string {
	n := e.Name
	if e.Txn {
		n = fmt.Sprintf("%s@%d", e.Name, e.Start)
	}
	switch e.Chunk {
	case 1:
		return "chunk0of[" + n + "]"
	case 2:
		return "finalchunk"
	case 3:
		return "newterm"
	}
	return n
}

// c09StoredChunks simulates the chunk bookkeeping of a replica that applies lg
// straight through: a chunk is stored under its term, storing a chunk drops
// the chunks of other terms, completing an entry removes its chunks.
func c09StoredChunks(lg []c09Entry) int {
	term := 1
	var stored []int // terms of stored chunks
	for _, e := range lg {
		switch e.Chunk {
		case 3:
			term++
		case 1, 2:
			keep := stored[:0]
			for _, t := range stored {
				if t == term {
					keep = append(keep, t)
				}
			}
			stored = keep
			if e.Chunk == 1 {
				stored = append(stored, term)
			} else {
				stored = stored[:0] // the completed entry's chunks (the only ones of this term)
			}
		}
	}
	return len(stored)
}

// c09Open returns the position (0-based) of the chunked entry whose final
// chunk has not been seen in lg, or -1.
func c09Open(lg []c09Entry) int {
	open := -1
	for i, e := range lg {
		switch e.Chunk {
		case 1:
			open = i
		case 2, 3:
			open = -1
		}
	}
	return open
}

type c09Replay struct {
	Log     []c09Entry `json:"log"`
	Variant string     `json:"variant"`
	Batches []int      `json:"batches,omitempty"` // batch sizes
	Pos     int        `json:"pos,omitempty"`
	Had     int        `json:"had,omitempty"`
}

func cloneState(s map[string]string) map[string]string {
	o := make(map[string]string, len(s))
	for k, v := range s {
		o[k] = v
	}
	return o
}

func dumpState(s map[string]string) string {
	ks := make([]string, 0, len(s))
	for k, v := range s {
		ks = append(ks, k+"="+v)
	}
	sort.Strings(ks)
	return strings.Join(ks, ",")
}

// c09Reference computes the states S_0..S_n and the per-entry verdicts
// (true = conflict) of the serial value-based specification.
func c09Reference(lg []c09Entry) ([]map[string]string, []bool) {
	states := []map[string]string{{}}
	verdicts := make([]bool, len(lg))
	open := -1
	for i, e := range lg {
		cur := cloneState(states[i])
		conflict := false
		if e.Chunk == 1 {
			// first chunk: stored, nothing applied, no verdict
			open = i
			states = append(states, cur)
			continue
		}
		if e.Chunk == 3 {
			// leadership change: nothing reaches the state machine, an open
			// chunked entry is abandoned
			open = -1
			states = append(states, cur)
			continue
		}
		if e.Chunk == 2 {
			// final chunk: the reassembled entry is applied here
			e = lg[open]
			open = -1
		}
		if e.Txn {
			at := states[e.Start]
			for _, r := range e.Reads {
				// what the shipped verify op compares: a hash over (key, value
				// bytes); a missing key and an empty value hash alike (the
				// serializability consequence of that is C08's business)
				if at[r] != cur[r] {
					conflict = true
				}
			}
			for _, l := range e.Lists {
				a := kvc.RefListPage(at, l.Prefix, l.After, l.Limit)
				// what the verify op re-executes at apply time:
				b := kvc.RefListPage(cur, l.Prefix, l.After, len(a))
				if strings.Join(a, "\n") != strings.Join(b, "\n") {
					conflict = true
				}
			}
		}
		if !conflict {
			for _, w := range e.Writes {
				if w.Del {
					delete(cur, w.Key)
				} else {
					cur[w.Key] = w.Val
				}
			}
		}
		verdicts[i] = conflict
		states = append(states, cur)
	}
	return states, verdicts
}

// c09Encode builds the raft.Log entries an honest leader would have shipped.
// An entry with Chunk==1 is marshalled like any other and then split into two
// chunks by the real raftchunking.ChunkingApply (with the package's chunk size
// lowered so that the small command splits in two); its second chunk is placed
// at the position of the following Chunk==2 marker (if the log has one).
func c09Encode(lg []c09Entry, states []map[string]string) ([]*raft.Log, error) {
	out := make([]*raft.Log, len(lg))
	// position of the final chunk of the chunked entry starting at i (len(lg) = never)
	finalOf := func(i int) int {
		for j := i + 1; j < len(lg); j++ {
			if lg[j].Chunk == 2 || lg[j].Chunk == 3 {
				return j // applied, or abandoned with its leader
			}
		}
		return len(lg)
	}
	term := uint64(1)
	var pending [][]byte // chunk payload+extension pairs of the open chunked entry
	var pendingExt [][]byte
	for i, e := range lg {
		idx := uint64(i + 1)
		if e.Chunk == 3 {
			term++
			pending, pendingExt = nil, nil
			out[i] = &raft.Log{Index: idx, Term: term, Type: raft.LogNoop}
			continue
		}
		if e.Chunk == 2 {
			if len(pending) != 2 {
				return nil, fmt.Errorf("final chunk at %d without an open chunked entry", i)
			}
			out[i] = &raft.Log{Index: idx, Term: term, Type: raft.LogCommand, Data: pending[1], Extensions: pendingExt[1]}
			pending, pendingExt = nil, nil
			continue
		}
		// honest lowest active index: min(applied index at propose time,
		// start index of every other transaction open at that time). A chunked
		// transaction stays open until its final chunk has been applied.
		lai := idx - 1
		for j := 0; j < len(lg); j++ {
			if j == i || !lg[j].Txn || lg[j].Chunk >= 2 {
				continue
			}
			end := j // position at which transaction j is applied
			if lg[j].Chunk == 1 {
				end = finalOf(j)
			}
			if end > i && lg[j].Start <= idx-1 && lg[j].Start < lai {
				lai = lg[j].Start
			}
		}
		data := &LogData{LowestActiveIndex: &lai}
		if e.Txn {
			bv, err := createBeginTxOpValue(e.Start)
			if err != nil {
				return nil, err
			}
			data.Operations = append(data.Operations, &LogOperation{OpType: beginTxOp, Value: bv})
			at := states[e.Start]
			for _, r := range e.Reads {
				var val []byte
				if v, ok := at[r]; ok {
					val = []byte(v)
				}
				h, err := createVerificationEntry(r, val)
				if err != nil {
					return nil, err
				}
				data.Operations = append(data.Operations, &LogOperation{OpType: verifyReadOp, Key: r, Value: h})
			}
			for _, l := range e.Lists {
				items := kvc.RefListPage(at, l.Prefix, l.After, l.Limit)
				repr, h, err := createListVerificationEntry(l.Prefix, l.After, len(items), items)
				if err != nil {
					return nil, err
				}
				data.Operations = append(data.Operations, &LogOperation{OpType: verifyListOp, Key: repr, Value: h})
			}
		}
		for _, w := range e.Writes {
			if w.Del {
				data.Operations = append(data.Operations, &LogOperation{OpType: deleteOp, Key: w.Key})
			} else {
				data.Operations = append(data.Operations, &LogOperation{OpType: putOp, Key: w.Key, Value: []byte(w.Val)})
			}
		}
		if e.Txn {
			data.Operations = append(data.Operations, &LogOperation{OpType: commitTxOp})
		}
		b, err := proto.Marshal(data)
		if err != nil {
			return nil, err
		}
		if e.Chunk == 0 {
			out[i] = &raft.Log{Index: idx, Term: term, Type: raft.LogCommand, Data: b}
			continue
		}
		// Chunk == 1: split with the production splitter
		saved := raftchunking.ChunkSize
		raftchunking.ChunkSize = (len(b) + 1) / 2
		pending, pendingExt = nil, nil
		fut := raftchunking.ChunkingApply(b, nil, 0, func(l raft.Log, _ time.Duration) raft.ApplyFuture {
			pending = append(pending, l.Data)
			pendingExt = append(pendingExt, l.Extensions)
			return nil
		})
		raftchunking.ChunkSize = saved
		_ = fut
		if len(pending) != 2 {
			return nil, fmt.Errorf("expected the command (%d bytes) to split into 2 chunks, got %d", len(b), len(pending))
		}
		out[i] = &raft.Log{Index: idx, Term: term, Type: raft.LogCommand, Data: pending[0], Extensions: pendingExt[0]}
	}
	return out, nil
}

// ---- replica ------------------------------------------------------------------

type c09Replica struct {
	dir string
	fsm *FSM
}

var c09DirSeq int

func c09NewReplica() (*c09Replica, error) {
	c09DirSeq++
	base := os.Getenv("VERIF_SCRATCH")
	if base == "" {
		base = os.TempDir()
	}
	dir, err := os.MkdirTemp(base, "fsm")
	if err != nil {
		return nil, err
	}
	f, err := NewFSM(dir, "n", log.NewNullLogger())
	if err != nil {
		return nil, err
	}
	return &c09Replica{dir: dir, fsm: f}, nil
}

func (r *c09Replica) destroy() {
	if r.fsm != nil {
		_ = r.fsm.Close()
	}
	_ = os.RemoveAll(r.dir)
}

func (r *c09Replica) restart() error {
	if err := r.fsm.Close(); err != nil {
		return err
	}
	f, err := NewFSM(r.dir, "n", log.NewNullLogger())
	if err != nil {
		return err
	}
	r.fsm = f
	return nil
}

// apply feeds one batch (through the chunking wrapper, which is what raft is
// given as its state machine in raft.go) and returns per entry: 0 = no verdict
// (a stored, non-final chunk), 1 = applied, 2 = transaction conflict.
func (r *c09Replica) apply(all []*raft.Log) ([]int, error) {
	// raft hands only command (and configuration) entries to the state machine
	var batch []*raft.Log
	var pos []int
	for i, l := range all {
		if l.Type == raft.LogCommand {
			batch = append(batch, l)
			pos = append(pos, i)
		}
	}
	res := make([]int, len(all))
	if len(batch) == 0 {
		return res, nil
	}
	out, err := r.applyCommands(batch)
	if err != nil {
		return nil, err
	}
	for j, v := range out {
		res[pos[j]] = v
	}
	return res, nil
}

func (r *c09Replica) applyCommands(batch []*raft.Log) ([]int, error) {
	resp := r.fsm.chunker.ApplyBatch(batch)
	if len(resp) != len(batch) {
		return nil, fmt.Errorf("ApplyBatch returned %d responses for %d logs", len(resp), len(batch))
	}
	out := make([]int, len(batch))
	for i, x := range resp {
		if x == nil && batch[i].Extensions != nil {
			continue // stored chunk, nothing applied
		}
		if cs, isChunked := x.(raftchunking.ChunkingSuccess); isChunked {
			x = cs.Response
		}
		ar, ok := x.(*FSMApplyResponse)
		if !ok || !ar.Success {
			return nil, fmt.Errorf("unexpected response %T %v", x, x)
		}
		out[i] = 1
		for _, e := range ar.EntrySlice {
			if e.IsTxError() {
				out[i] = 2
			}
		}
	}
	return out, nil
}

// resumeIndex is where raft resumes feeding a replica after a restart or a
// snapshot install: right after the index the state machine has persisted
// (BoltSnapshotStore reports FSM.LatestState as the newest snapshot and
// NoSnapshotRestoreOnStart is set, so raft's lastApplied starts there and the
// log entries above it are applied again). Without chunked entries this is the
// number of entries applied so far; a trailing non-final chunk does not advance
// the persisted index and is therefore delivered again.
func (r *c09Replica) resumeIndex(max int) (int, error) {
	li, _ := r.fsm.LatestState()
	if li == nil {
		return 0, nil
	}
	if int(li.Index) > max {
		return 0, fmt.Errorf("persisted index %d beyond the %d entries delivered", li.Index, max)
	}
	return int(li.Index), nil
}

// dump returns the user-visible content of the data bucket and, separately,
// the number of chunk-bookkeeping keys (raftchunking/<op>/<seq>) it holds.
func (r *c09Replica) dump() (string, int, error) {
	var parts []string
	chunks := 0
	err := r.fsm.getDB().View(func(tx *bolt.Tx) error {
		return tx.Bucket(dataBucketName).ForEach(func(k, v []byte) error {
			if strings.HasPrefix(string(k), chunkingPrefix) {
				chunks++
				return nil
			}
			parts = append(parts, string(k)+"="+string(v))
			return nil
		})
	})
	sort.Strings(parts)
	return strings.Join(parts, ","), chunks, err
}

// installFrom performs a follower snapshot install: stream the donor's state
// through the real snapshot store into this replica and Restore it.
func (r *c09Replica) installFrom(donor *c09Replica) error {
	dstore, err := NewBoltSnapshotStore(donor.dir, log.NewNullLogger(), donor.fsm)
	if err != nil {
		return err
	}
	meta, rc, err := dstore.Open(boltSnapshotID)
	if err != nil {
		return err
	}
	store, err := NewBoltSnapshotStore(r.dir, log.NewNullLogger(), r.fsm)
	if err != nil {
		return err
	}
	sink, err := store.Create(1, meta.Index, meta.Term, meta.Configuration, meta.ConfigurationIndex, nil)
	if err != nil {
		return err
	}
	if _, err := io.Copy(sink, rc); err != nil {
		_ = sink.Cancel()
		return err
	}
	_ = rc.Close()
	if err := sink.Close(); err != nil {
		return err
	}
	_, inst, err := store.Open(sink.ID())
	if err != nil {
		return err
	}
	defer inst.Close()
	return r.fsm.Restore(inst)
}

// ---- alphabet ---------------------------------------------------------------

func c09Alphabet(prefix []c09Entry) []c09Entry {
	// pos is the 1-based log index of the entry being chosen.
	pos := len(prefix) + 1
	plain := []c09Entry{
		{Name: "put(a,1)", Writes: []c09Write{{"a", "1", false}}},
		{Name: "put(a,2)", Writes: []c09Write{{"a", "2", false}}},
		{Name: "del(a)", Writes: []c09Write{{"a", "", true}}},
		{Name: "put(b,1)", Writes: []c09Write{{"b", "1", false}}},
		{Name: "put(d/x,1)", Writes: []c09Write{{"d/x", "1", false}}},
		{Name: "del(d/x)", Writes: []c09Write{{"d/x", "", true}}},
		{Name: "put(b,'')", Writes: []c09Write{{"b", "", false}}},
		// a write two levels below a listed prefix: makes the folder d/s/ appear in (disappear
		// from) a listing of d/ without touching any direct child of d/
		{Name: "put(d/s/x,1)", Writes: []c09Write{{"d/s/x", "1", false}}},
		{Name: "del(d/s/x)", Writes: []c09Write{{"d/s/x", "", true}}},
	}
	out := append([]c09Entry{}, plain...)
	for s := pos - 1; s >= 0; s-- {
		st := uint64(s)
		out = append(out,
			c09Entry{Name: "txn{r(a) w(b,t1)}", Txn: true, Start: st, Reads: []string{"a"}, Writes: []c09Write{{"b", "t1", false}}},
			c09Entry{Name: "txn{r(b) w(a,t2)}", Txn: true, Start: st, Reads: []string{"b"}, Writes: []c09Write{{"a", "t2", false}}},
			c09Entry{Name: "txn{l(d/) w(d/y,t3)}", Txn: true, Start: st, Lists: []c09List{{"d/", "", -1}}, Writes: []c09Write{{"d/y", "t3", false}}},
			c09Entry{Name: "txn{r(a) w(a,t4)}", Txn: true, Start: st, Reads: []string{"a"}, Writes: []c09Write{{"a", "t4", false}}},
		)
		// The chunk bookkeeping keys live in the data bucket (raftchunking/...),
		// so a listing of the root taken while a chunked entry is open would
		// contain them; the reference state does not model them, hence a
		// root-listing transaction is only given start indexes at which no
		// chunked entry is open (there the reference listing is what an honest
		// leader ships).
		if c09StoredChunks(prefix[:s]) == 0 {
			out = append(out, c09Entry{Name: "txn{l() r(b) d(a)}", Txn: true, Start: st, Reads: []string{"b"}, Lists: []c09List{{"", "", 1}}, Writes: []c09Write{{"a", "", true}}})
		}
	}
	// chunked entries (a command larger than the chunk size travels as several
	// log entries; other clients' entries may land between them): at most one
	// in flight. Either its final chunk, or - when none is open - the first
	// chunk of a plain write or of a transaction with every start index.
	bumped := false
	for _, e := range prefix {
		if e.Chunk == 3 {
			bumped = true
		}
	}
	if !bumped && len(prefix) >= 1 {
		// one leadership change per log
		out = append(out, c09Entry{Name: "newterm", Chunk: 3})
	}
	if c09Open(prefix) >= 0 {
		out = append(out, c09Entry{Name: "final", Chunk: 2})
	} else {
		out = append(out, c09Entry{Name: "put(a,3)", Chunk: 1, Writes: []c09Write{{"a", "3", false}}})
		for s := pos - 1; s >= 0; s-- {
			out = append(out, c09Entry{Name: "txn{r(a) w(b,t5)}", Chunk: 1, Txn: true, Start: uint64(s), Reads: []string{"a"}, Writes: []c09Write{{"b", "t5", false}}})
		}
	}
	return out
}

func c09Partitions(n int) [][]int {
	// all compositions of n (batch sizes)
	var out [][]int
	for mask := 0; mask < 1<<(n-1); mask++ {
		var sizes []int
		cur := 1
		for i := 0; i < n-1; i++ {
			if mask&(1<<i) != 0 {
				sizes = append(sizes, cur)
				cur = 1
			} else {
				cur++
			}
		}
		sizes = append(sizes, cur)
		out = append(out, sizes)
	}
	return out
}

// c09RunVariant executes one replica run and compares it with the reference.
// It returns "" when everything agrees.
func c09RunVariant(lg []c09Entry, logs []*raft.Log, states []map[string]string, refV []bool, rp c09Replay) (string, error) {
	n := len(lg)
	got := make([]int, n) // 0 = no verdict observed, 1 = ok, 2 = conflict
	seen := make([]bool, n)
	rec := func(from int, v []int) {
		for i, c := range v {
			got[from+i] = c
			seen[from+i] = true
		}
	}
	r, err := c09NewReplica()
	if err != nil {
		return "", err
	}
	defer func() { r.destroy() }()
	oneByOne := func(from, to int) error {
		for i := from; i < to; i++ {
			v, err := r.apply(logs[i : i+1])
			if err != nil {
				return err
			}
			rec(i, v)
		}
		return nil
	}
	switch rp.Variant {
	case "batch":
		p := 0
		for _, sz := range rp.Batches {
			v, err := r.apply(logs[p : p+sz])
			if err != nil {
				return "", err
			}
			rec(p, v)
			p += sz
		}
	case "restart", "restart-batchrest":
		if err := oneByOne(0, rp.Pos); err != nil {
			return "", err
		}
		if err := r.restart(); err != nil {
			return "", err
		}
		from, err := r.resumeIndex(rp.Pos)
		if err != nil {
			return "", err
		}
		if rp.Variant == "restart" {
			if err := oneByOne(from, n); err != nil {
				return "", err
			}
		} else {
			v, err := r.apply(logs[from:])
			if err != nil {
				return "", err
			}
			rec(from, v)
		}
	case "snapshot":
		donor, err := c09NewReplica()
		if err != nil {
			return "", err
		}
		defer donor.destroy()
		for i := 0; i < rp.Pos; i++ {
			if _, err := donor.apply(logs[i : i+1]); err != nil {
				return "", err
			}
		}
		if err := oneByOne(0, rp.Had); err != nil {
			return "", err
		}
		if err := r.installFrom(donor); err != nil {
			return "", fmt.Errorf("snapshot install: %w", err)
		}
		from, err := r.resumeIndex(rp.Pos)
		if err != nil {
			return "", err
		}
		if err := oneByOne(from, n); err != nil {
			return "", err
		}
	default:
		return "", fmt.Errorf("unknown variant %q", rp.Variant)
	}
	w := map[int]string{0: "none (entry not applied)", 1: "commit", 2: "conflict"}
	for i := range lg {
		if !seen[i] {
			continue
		}
		want := 1
		if refV[i] {
			want = 2
		}
		if lg[i].Chunk == 1 || lg[i].Chunk == 3 {
			want = 0
		}
		if got[i] != want {
			return fmt.Sprintf("entry %d (%s): replica verdict %s, reference (and a replica applying the log straight through must agree) %s", i+1, lg[i], w[got[i]], w[want]), nil
		}
	}
	d, nchunks, err := r.dump()
	if err != nil {
		return "", err
	}
	if want := dumpState(states[n]); d != want {
		return fmt.Sprintf("final data bucket {%s}, reference {%s}", d, want), nil
	}
	// chunk bookkeeping: the first chunk of a still-open chunked entry, or of
	// one abandoned at a leadership change until a chunk of the new term arrives
	wantChunks := c09StoredChunks(lg)
	if nchunks != wantChunks {
		return fmt.Sprintf("chunk bookkeeping keys in the data bucket: %d, expected %d", nchunks, wantChunks), nil
	}
	// the persisted index is that of the last entry handed to the state
	// machine proper (a stored non-final chunk is not)
	wantIdx := 0
	for i := range lg {
		if lg[i].Chunk == 0 || lg[i].Chunk == 2 {
			wantIdx = i + 1
		}
	}
	li, _ := r.fsm.LatestState()
	if li.Index != uint64(wantIdx) {
		return fmt.Sprintf("latest index %d after applying %d entries (expected %d)", li.Index, n, wantIdx), nil
	}
	return "", nil
}

// c09RootListingOverChunk reports whether msg blames the verdict of a
// transaction that lists the root prefix while the first chunk of a chunked
// entry is stored in the data bucket at some point between the transaction's
// start index and its own position (inclusive of a chunk delivered in the same
// batch, i.e. at the next positions up to the end of the log).
func c09RootListingOverChunk(lg []c09Entry, msg string) bool {
	var at int
	if _, err := fmt.Sscanf(msg, "entry %d ", &at); err != nil || at < 1 || at > len(lg) {
		return false
	}
	e := lg[at-1]
	root := false
	for _, l := range e.Lists {
		if l.Prefix == "" {
			root = true
		}
	}
	if !e.Txn || !root {
		return false
	}
	for i := int(e.Start); i < len(lg); i++ {
		if lg[i].Chunk == 1 {
			return true
		}
	}
	return false
}

func c09Sig(rp c09Replay, msg string) string {
	if c09RootListingOverChunk(rp.Log, msg) {
		return "c09:chunk-keys-visible-to-root-listing"
	}
	kind := "state"
	if strings.Contains(msg, "verdict none") {
		kind = "chunked-entry-never-applied"
	} else if strings.Contains(msg, "chunk bookkeeping") {
		kind = "chunk-residue"
	} else if strings.Contains(msg, "verdict commit") {
		kind = "commits-what-reference-rejects"
	} else if strings.Contains(msg, "verdict conflict") {
		kind = "rejects-what-reference-commits"
	} else if strings.Contains(msg, "latest index") {
		kind = "index"
	}
	v := rp.Variant
	if v == "restart-batchrest" {
		v = "restart"
	}
	return "c09:" + v + ":" + kind
}

func c09Variants(n int) []c09Replay {
	var out []c09Replay
	for _, p := range c09Partitions(n) {
		out = append(out, c09Replay{Variant: "batch", Batches: p})
	}
	for pos := 1; pos < n; pos++ {
		out = append(out, c09Replay{Variant: "restart", Pos: pos})
		if n-pos > 1 {
			out = append(out, c09Replay{Variant: "restart-batchrest", Pos: pos})
		}
	}
	for pos := 1; pos < n; pos++ {
		for had := 0; had < pos; had++ {
			// (an empty donor state streams zero bytes and cannot be installed
			// at all: skipped in check(), see DESIGN.md section 5)
			out = append(out, c09Replay{Variant: "snapshot", Pos: pos, Had: had})
		}
	}
	return out
}

func TestVerifC09(t *testing.T) {
	res := vout.New("C09", "raftfsm")
	defer func() {
		if err := res.Write(); err != nil {
			t.Fatal(err)
		}
	}()
	maxLen := 3
	if vout.Thorough() {
		maxLen = 4
	}
	res.Bound("max_log_length", maxLen)

	check := func(lg []c09Entry, variants []c09Replay) {
		states, refV := c09Reference(lg)
		logs, err := c09Encode(lg, states)
		if err != nil {
			t.Fatalf("encode: %v", err)
		}
		nconf := 0
		for _, c := range refV {
			if c {
				nconf++
			}
		}
		for _, rp := range variants {
			rp.Log = lg
			if rp.Variant == "snapshot" && len(states[rp.Pos]) == 0 {
				res.Add("skipped_empty_snapshot", 1)
				continue
			}
			msg, err := c09RunVariant(lg, logs, states, refV, rp)
			res.Add("executions", 1)
			res.Add("transitions", int64(len(lg)))
			if err != nil {
				t.Fatalf("harness error on %v %+v: %v", lg, rp, err)
			}
			if msg != "" {
				res.Violate(c09Sig(rp, msg), fmt.Sprintf("log %v variant %s batches=%v pos=%d had=%d: %s", lg, rp.Variant, rp.Batches, rp.Pos, rp.Had, msg), rp)
			}
		}
		res.Add("states", 1)
		res.Distinct("nontrivial", fmt.Sprintf("%v|%s|%v", refV, dumpState(states[len(lg)]), len(lg)))
		if nconf > 0 {
			res.Add("logs_with_conflicts", 1)
		}
	}

	if vout.ReplayPath() != "" {
		var rp c09Replay
		if _, err := vout.LoadReplay(&rp); err != nil {
			t.Fatal(err)
		}
		check(rp.Log, []c09Replay{rp})
		return
	}

	count := 0
	var rec func(prefix []c09Entry)
	rec = func(prefix []c09Entry) {
		if len(prefix) >= 1 {
			// shard on whole logs
			count++
			if vout.Mine(count) {
				lg := append([]c09Entry{}, prefix...)
				check(lg, c09Variants(len(lg)))
				if count%500 == 1 {
					res.Sample(map[string]interface{}{"log": fmt.Sprint(lg), "variants": len(c09Variants(len(lg)))})
				}
			}
		}
		if len(prefix) == maxLen {
			return
		}
		for _, e := range c09Alphabet(prefix) {
			rec(append(prefix, e))
		}
	}
	rec(nil)
	res.Bound("logs_enumerated_total", count)
}
