package storage

// C13: every physical backend and wrapping layer implements one key/value and
// listing contract.  Stacks built here: everything that does not need package
// internals (the raft FSM / RaftTransaction stacks live in-package under
// internal/physical/raft and use the same engine, kvc.Run).

import (
	"context"
	"crypto/rand"
	"fmt"
	"os"
	"path/filepath"
	"sort"
	"strings"
	"testing"

	metrics "github.com/hashicorp/go-metrics/compat"
	log "github.com/hashicorp/go-hclog"
	"github.com/openbao/openbao/sdk/v2/helper/verif/kvc"
	"github.com/openbao/openbao/sdk/v2/helper/verif/vout"
	"github.com/openbao/openbao/sdk/v2/logical"
	"github.com/openbao/openbao/sdk/v2/physical"
	"github.com/openbao/openbao/sdk/v2/physical/file"
	"github.com/openbao/openbao/sdk/v2/physical/inmem"
	"github.com/openbao/openbao/v2/internal/vault/barrier"
)

var bg = context.Background()

// ---- adapters --------------------------------------------------------------

type physKV struct{ b physical.Backend }

func (p physKV) Put(k string, v []byte) error {
	return p.b.Put(bg, &physical.Entry{Key: k, Value: append([]byte{}, v...)})
}

// PutCancelled: the same call with a request context that is already cancelled.
func (p physKV) PutCancelled(k string, v []byte) error {
	ctx, cancel := context.WithCancel(bg)
	cancel()
	return p.b.Put(ctx, &physical.Entry{Key: k, Value: append([]byte{}, v...)})
}

func (p physKV) Get(k string) ([]byte, bool, error) {
	e, err := p.b.Get(bg, k)
	if err != nil || e == nil {
		return nil, false, err
	}
	if e.Key != k {
		return nil, true, fmt.Errorf("entry key %q differs from requested key %q", e.Key, k)
	}
	return e.Value, true, nil
}
func (p physKV) Delete(k string) error            { return p.b.Delete(bg, k) }
func (p physKV) List(pf string) ([]string, error) { return p.b.List(bg, pf) }
func (p physKV) ListPage(pf, a string, l int) ([]string, error) {
	return p.b.ListPage(bg, pf, a, l)
}

type logKV struct{ s logical.Storage }

func (p logKV) Put(k string, v []byte) error {
	return p.s.Put(bg, &logical.StorageEntry{Key: k, Value: append([]byte{}, v...)})
}

func (p logKV) Get(k string) ([]byte, bool, error) {
	e, err := p.s.Get(bg, k)
	if err != nil || e == nil {
		return nil, false, err
	}
	if e.Key != k {
		return nil, true, fmt.Errorf("entry key %q differs from requested key %q", e.Key, k)
	}
	return e.Value, true, nil
}
func (p logKV) PutCancelled(k string, v []byte) error {
	ctx, cancel := context.WithCancel(bg)
	cancel()
	return p.s.Put(ctx, &logical.StorageEntry{Key: k, Value: append([]byte{}, v...)})
}
func (p logKV) Delete(k string) error            { return p.s.Delete(bg, k) }
func (p logKV) List(pf string) ([]string, error) { return p.s.List(bg, pf) }
func (p logKV) ListPage(pf, a string, l int) ([]string, error) {
	return p.s.ListPage(bg, pf, a, l)
}

// prefKV prepends a fixed prefix to keys and list prefixes (harness-side
// addressing only; no repository code involved).
type prefKV struct {
	kv kvc.KV
	p  string
}

func (p prefKV) Put(k string, v []byte) error            { return p.kv.Put(p.p+k, v) }
func (p prefKV) Delete(k string) error                   { return p.kv.Delete(p.p + k) }
func (p prefKV) List(pf string) ([]string, error)        { return p.kv.List(p.p + pf) }
func (p prefKV) ListPage(pf, a string, l int) ([]string, error) { return p.kv.ListPage(p.p+pf, a, l) }
func (p prefKV) Get(k string) ([]byte, bool, error)      { return p.kv.Get(p.p + k) }

// txEach runs every mutation in its own committed transaction and every read in
// a fresh read-only transaction.
type txEach struct{ b physical.TransactionalBackend }

func (t txEach) w(f func(tx physical.Transaction) error) error {
	tx, err := t.b.BeginTx(bg)
	if err != nil {
		return err
	}
	if err := f(tx); err != nil {
		_ = tx.Rollback(bg)
		return err
	}
	return tx.Commit(bg)
}

func (t txEach) r(f func(tx physical.Transaction) error) error {
	tx, err := t.b.BeginReadOnlyTx(bg)
	if err != nil {
		return err
	}
	defer tx.Rollback(bg) //nolint:errcheck
	return f(tx)
}

func (t txEach) Put(k string, v []byte) error {
	return t.w(func(tx physical.Transaction) error { return physKV{tx}.Put(k, v) })
}
func (t txEach) Delete(k string) error {
	return t.w(func(tx physical.Transaction) error { return tx.Delete(bg, k) })
}
func (t txEach) Get(k string) (v []byte, found bool, err error) {
	err = t.r(func(tx physical.Transaction) error { v, found, err = physKV{tx}.Get(k); return err })
	return
}
func (t txEach) List(p string) (out []string, err error) {
	err = t.r(func(tx physical.Transaction) error { out, err = tx.List(bg, p); return err })
	return
}
func (t txEach) ListPage(p, a string, l int) (out []string, err error) {
	err = t.r(func(tx physical.Transaction) error { out, err = tx.ListPage(bg, p, a, l); return err })
	return
}

// txWriteParentRead: every mutation runs in its own committed transaction, every
// read goes to the parent backend outside any transaction (a committed transaction
// must be visible through whatever the parent layer remembers of earlier reads).
type txWriteParentRead struct{ txEach }

func (t txWriteParentRead) Get(k string) ([]byte, bool, error)  { return physKV{t.b}.Get(k) }
func (t txWriteParentRead) List(p string) ([]string, error)     { return t.b.List(bg, p) }
func (t txWriteParentRead) ListPage(p, a string, l int) ([]string, error) {
	return t.b.ListPage(bg, p, a, l)
}

// txOpen: the first half (rounded down) of the history is unknown in advance,
// so this adapter commits nothing: every operation runs inside ONE open
// read-write transaction and the reads see its uncommitted writes.
func newTxOpen(b physical.TransactionalBackend) (kvc.KV, func(), error) {
	tx, err := b.BeginTx(bg)
	if err != nil {
		return nil, nil, err
	}
	return physKV{tx}, func() { _ = tx.Rollback(bg) }, nil
}

// txMixed: odd-numbered mutations are committed directly to the parent before
// the transaction starts being used?  Not expressible without knowing the
// future; instead: mutations alternate between "committed by its own
// transaction, after which a NEW open transaction is started" and "left
// uncommitted in the current open transaction".  Reads go to the open one.
type txMixed struct {
	b   physical.TransactionalBackend
	tx  physical.Transaction
	n   int
	err error
}

func (t *txMixed) mut(f func(tx physical.Transaction) error) error {
	t.n++
	if err := f(t.tx); err != nil {
		return err
	}
	if t.n%2 == 1 {
		if err := t.tx.Commit(bg); err != nil {
			return err
		}
		tx, err := t.b.BeginTx(bg)
		if err != nil {
			return err
		}
		t.tx = tx
	}
	return nil
}
func (t *txMixed) Put(k string, v []byte) error {
	return t.mut(func(tx physical.Transaction) error { return physKV{tx}.Put(k, v) })
}
func (t *txMixed) Delete(k string) error {
	return t.mut(func(tx physical.Transaction) error { return tx.Delete(bg, k) })
}
func (t *txMixed) Get(k string) ([]byte, bool, error)  { return physKV{t.tx}.Get(k) }
func (t *txMixed) List(p string) ([]string, error)     { return t.tx.List(bg, p) }
func (t *txMixed) ListPage(p, a string, l int) ([]string, error) {
	return t.tx.ListPage(bg, p, a, l)
}

// ---- stack constructors -----------------------------------------------------

func newInmem(txn bool) physical.Backend {
	conf := map[string]string{}
	if !txn {
		conf["disable_transactions"] = "true"
	}
	b, err := inmem.NewInmem(conf, log.NewNullLogger())
	if err != nil {
		panic(err)
	}
	return b
}

var sentinels = map[string]string{"p": "s1", "pa": "s2", "p0/x": "s3", "q/a": "s4", "p.": "s5", "o/z": "s6"}

// viewExtra checks that the parent store holds exactly sentinels ∪ prefix+ref.
func parentCheck(parent physical.Backend, prefix string) func(kvc.KV, map[string]string) error {
	return func(_ kvc.KV, ref map[string]string) error {
		want := map[string]string{}
		for k, v := range sentinels {
			want[k] = v
		}
		for k, v := range ref {
			want[prefix+k] = v
		}
		got := map[string]string{}
		var walk func(p string) error
		walk = func(p string) error {
			ks, err := parent.List(bg, p)
			if err != nil {
				return err
			}
			for _, k := range ks {
				if strings.HasSuffix(k, "/") {
					if err := walk(p + k); err != nil {
						return err
					}
				}
				e, err := parent.Get(bg, p+k)
				if err != nil {
					return err
				}
				if e != nil {
					got[p+k] = string(e.Value)
				}
			}
			return nil
		}
		if err := walk(""); err != nil {
			return err
		}
		for k, v := range want {
			if got[k] != v {
				return fmt.Errorf("confine(%q): parent key %q = %q, expected %q", prefix, k, got[k], v)
			}
		}
		for k := range got {
			if _, ok := want[k]; !ok {
				return fmt.Errorf("confine(%q): parent has unexpected key %q", prefix, k)
			}
		}
		return nil
	}
}

func seed(parent physical.Backend) {
	for k, v := range sentinels {
		if err := parent.Put(bg, &physical.Entry{Key: k, Value: []byte(v)}); err != nil {
			panic(err)
		}
	}
}

// helpersExtra exercises the recursive helpers on a logical.Storage-like view:
// ScanViewPaginated (page sizes 1,2,3), CollectKeys, HandleListPage and finally
// ClearViewWithPagination (destructive, last).
func helpersExtra(view func(kvc.KV) logical.ClearableView) func(kvc.KV, map[string]string) error {
	return func(kv kvc.KV, ref map[string]string) error {
		v := view(kv)
		var want []string
		for k := range ref {
			if strings.HasSuffix(k, "/") {
				// Domain of the recursive helpers: a listing cannot tell a key that ends in a
				// slash from a folder (both show up with a trailing slash, the key itself as the
				// empty child of its own prefix), so ScanViewPaginated / CollectKeys descend into
				// it again and again (they do not terminate). Requests cannot create such keys
				// (writes to a path with a trailing slash are refused), the helpers are only
				// claimed on key sets without them; see DESIGN.md 8.5.
				return nil
			}
			want = append(want, k)
		}
		sort.Strings(want)
		for _, ps := range []int{1, 2, 3} {
			var got []string
			err := logical.ScanViewPaginated(bg, v, log.NewNullLogger(), ps, func(page, index int, path string) (bool, error) {
				got = append(got, path)
				return true, nil
			})
			if err != nil {
				return fmt.Errorf("scan(pagesize=%d): unexpected error %v", ps, err)
			}
			sort.Strings(got)
			if fmt.Sprint(got) != fmt.Sprint(want) {
				return fmt.Errorf("scan(pagesize=%d) visited %q, reference %q", ps, got, want)
			}
		}
		got, err := logical.CollectKeys(bg, v)
		if err != nil {
			return fmt.Errorf("collect(): unexpected error %v", err)
		}
		sort.Strings(got)
		if fmt.Sprint(got) != fmt.Sprint(want) {
			return fmt.Errorf("collect() = %q, reference %q", got, want)
		}
		for _, pf := range []string{"", "a/"} {
			var wantSub []string
			for _, k := range want {
				if strings.HasPrefix(k, pf) {
					wantSub = append(wantSub, k)
				}
			}
			gotSub, err := logical.CollectKeysWithPrefix(bg, v, pf)
			if err != nil {
				return fmt.Errorf("collectprefix(%q): unexpected error %v", pf, err)
			}
			sort.Strings(gotSub)
			if fmt.Sprint(gotSub) != fmt.Sprint(wantSub) {
				return fmt.Errorf("collectprefix(%q) = %q, reference %q", pf, gotSub, wantSub)
			}
		}
		if err := logical.ClearViewWithPagination(bg, v, log.NewNullLogger()); err != nil {
			return fmt.Errorf("clear(): unexpected error %v", err)
		}
		left, err := logical.CollectKeys(bg, v)
		if err != nil {
			return fmt.Errorf("collect(): unexpected error %v", err)
		}
		if len(left) != 0 {
			return fmt.Errorf("clear() left keys %q", left)
		}
		return nil
	}
}

func both(fs ...func(kvc.KV, map[string]string) error) func(kvc.KV, map[string]string) error {
	return func(kv kvc.KV, ref map[string]string) error {
		for _, f := range fs {
			if err := f(kv, ref); err != nil {
				return err
			}
		}
		return nil
	}
}

func newBarrier(phys physical.Backend) (barrier.SecurityBarrier, error) {
	b := barrier.NewAESGCMBarrier(phys, nil)
	key := make([]byte, 32)
	if _, err := rand.Read(key); err != nil {
		return nil, err
	}
	if err := b.Initialize(bg, key, nil); err != nil {
		return nil, err
	}
	if err := b.Unseal(bg, key); err != nil {
		return nil, err
	}
	return b, nil
}

func stacks(t *testing.T) []*kvc.Stack {
	nop := func() {}
	var out []*kvc.Stack
	out = append(out, &kvc.Stack{Name: "inmem", New: func() (kvc.KV, func(), error) {
		return physKV{newInmem(false)}, nop, nil
	}})
	out = append(out, &kvc.Stack{Name: "inmem-txnbackend-plain", New: func() (kvc.KV, func(), error) {
		return physKV{newInmem(true)}, nop, nil
	}})
	out = append(out, &kvc.Stack{Name: "inmem-tx-each", New: func() (kvc.KV, func(), error) {
		return txEach{newInmem(true).(physical.TransactionalBackend)}, nop, nil
	}})
	out = append(out, &kvc.Stack{Name: "inmem-tx-open", New: func() (kvc.KV, func(), error) {
		return newTxOpen(newInmem(true).(physical.TransactionalBackend))
	}})
	out = append(out, &kvc.Stack{Name: "inmem-tx-mixed", New: func() (kvc.KV, func(), error) {
		b := newInmem(true).(physical.TransactionalBackend)
		tx, err := b.BeginTx(bg)
		if err != nil {
			return nil, nil, err
		}
		m := &txMixed{b: b, tx: tx}
		return m, func() { _ = m.tx.Rollback(bg) }, nil
	}})
	for _, txn := range []bool{false, true} {
		txn := txn
		name := "cache"
		if txn {
			name = "cache-txnbackend"
		}
		out = append(out, &kvc.Stack{Name: name, ReadOps: true, CancelOps: true, New: func() (kvc.KV, func(), error) {
			c := physical.NewCache(newInmem(txn), 0, log.NewNullLogger(), metrics.Default())
			c.SetEnabled(true)
			return physKV{c}, nop, nil
		}})
	}
	out = append(out, &kvc.Stack{Name: "cache-tx-each", ReadOps: true, New: func() (kvc.KV, func(), error) {
		c := physical.NewCache(newInmem(true), 0, log.NewNullLogger(), metrics.Default())
		c.SetEnabled(true)
		return txEach{c.(physical.TransactionalBackend)}, nop, nil
	}})
	// configured cache sizes: the default, and a small one (the per-transaction cache
	// is sized as a fraction of it)
	for _, size := range []int{0, 32} {
		size := size
		out = append(out, &kvc.Stack{Name: fmt.Sprintf("cache%d-txwrite-parentread", size), ReadOps: true, New: func() (kvc.KV, func(), error) {
			c := physical.NewCache(newInmem(true), size, log.NewNullLogger(), metrics.Default())
			c.SetEnabled(true)
			return txWriteParentRead{txEach{c.(physical.TransactionalBackend)}}, nop, nil
		}})
	}
	out = append(out, &kvc.Stack{Name: "cache32-tx-each", ReadOps: true, New: func() (kvc.KV, func(), error) {
		c := physical.NewCache(newInmem(true), 32, log.NewNullLogger(), metrics.Default())
		c.SetEnabled(true)
		return txEach{c.(physical.TransactionalBackend)}, nop, nil
	}})
	out = append(out, &kvc.Stack{Name: "cache-tx-mixed", ReadOps: true, New: func() (kvc.KV, func(), error) {
		c := physical.NewCache(newInmem(true), 0, log.NewNullLogger(), metrics.Default())
		c.SetEnabled(true)
		b := c.(physical.TransactionalBackend)
		tx, err := b.BeginTx(bg)
		if err != nil {
			return nil, nil, err
		}
		m := &txMixed{b: b, tx: tx}
		return m, func() { _ = m.tx.Rollback(bg) }, nil
	}})
	out = append(out, &kvc.Stack{Name: "encoding", New: func() (kvc.KV, func(), error) {
		return physKV{physical.NewStorageEncoding(newInmem(true))}, nop, nil
	}})
	out = append(out, &kvc.Stack{Name: "encoding-tx-open", New: func() (kvc.KV, func(), error) {
		return newTxOpen(physical.NewStorageEncoding(newInmem(true)).(physical.TransactionalBackend))
	}})
	{
		var parent physical.Backend
		st := &kvc.Stack{Name: "physical-view"}
		st.New = func() (kvc.KV, func(), error) {
			parent = newInmem(false)
			seed(parent)
			return physKV{physical.NewView(parent, "p/")}, nop, nil
		}
		st.Extra = func(kv kvc.KV, ref map[string]string) error { return parentCheck(parent, "p/")(kv, ref) }
		out = append(out, st)
	}
	{
		// logical.StorageView, nested, over logical.InmemStorage.
		var under *logical.InmemStorage
		st := &kvc.Stack{Name: "logical-storageview-nested"}
		st.New = func() (kvc.KV, func(), error) {
			under = &logical.InmemStorage{}
			// InmemStorage initialises lazily on first use
			if _, err := under.List(bg, ""); err != nil {
				return nil, nil, err
			}
			seed(under.Underlying())
			v := logical.NewStorageView(under, "p/").SubView("n/")
			return logKV{v}, nop, nil
		}
		st.Extra = both(
			func(kv kvc.KV, ref map[string]string) error {
				return parentCheck(under.Underlying(), "p/n/")(kv, ref)
			},
			helpersExtra(func(kv kvc.KV) logical.ClearableView { return kv.(logKV).s }),
		)
		out = append(out, st)
	}
	for _, txn := range []bool{false, true} {
		txn := txn
		name := "barrier"
		if txn {
			name = "barrier-txnbackend"
		}
		out = append(out, &kvc.Stack{Name: name, New: func() (kvc.KV, func(), error) {
			b, err := newBarrier(newInmem(txn))
			if err != nil {
				return nil, nil, err
			}
			// the barrier keeps its own records under core/; the harness
			// addresses a disjoint prefix (plain string prefixing, not a view).
			return prefKV{logKV{b}, "u/"}, nop, nil
		}})
	}
	{
		st := &kvc.Stack{Name: "barrier-view-nested"}
		st.New = func() (kvc.KV, func(), error) {
			b, err := newBarrier(newInmem(true))
			if err != nil {
				return nil, nil, err
			}
			// sentinels inside the barrier, outside the view
			for k, v := range sentinels {
				if err := b.Put(bg, &logical.StorageEntry{Key: "logical/" + k, Value: []byte(v)}); err != nil {
					return nil, nil, err
				}
			}
			v := barrier.NewView(b, "logical/p/").SubView("n/")
			return logKV{v}, nop, nil
		}
		st.Extra = helpersExtra(func(kv kvc.KV) logical.ClearableView { return kv.(logKV).s })
		out = append(out, st)
	}
	{
		// transaction obtained from a barrier view: reads see own writes
		st := &kvc.Stack{Name: "barrier-view-tx-open"}
		st.New = func() (kvc.KV, func(), error) {
			b, err := newBarrier(newInmem(true))
			if err != nil {
				return nil, nil, err
			}
			v := barrier.NewView(b, "logical/p/")
			tx, err := v.(logical.TransactionalStorage).BeginTx(bg)
			if err != nil {
				return nil, nil, err
			}
			return logKV{tx}, func() { _ = tx.Rollback(bg) }, nil
		}
		out = append(out, st)
	}
	{
		st := &kvc.Stack{Name: "file"}
		// Stated domain of the (deprecated) file backend: directory-shaped
		// prefixes, keys without '.'/empty segments; a key that is also a
		// directory ("a" and "a/b") is representable ("_a" next to "a/").
		st.New = func() (kvc.KV, func(), error) {
			dir, err := os.MkdirTemp(os.Getenv("VERIF_SCRATCH"), "file")
			if err != nil {
				return nil, nil, err
			}
			b, err := file.NewFileBackend(map[string]string{"path": filepath.Join(dir, "d")}, nil)
			if err != nil {
				return nil, nil, err
			}
			return physKV{b}, func() { _ = os.RemoveAll(dir) }, nil
		}
		st.AfterOK = func(p, a string) bool { return true }
		// one file per key: "_<last segment>" plus a ".temp" suffix while writing must fit NAME_MAX (255)
		// and a key is a file path: a trailing slash (an empty last segment) names the same
		// file as the key without it (filepath.Join cleans it away), outside the backend's domain
		st.KeyOK = func(k string) bool {
			if strings.HasSuffix(k, "/") {
				return false
			}
			for _, seg := range strings.Split(k, "/") {
				if len(seg) > 249 {
					return false
				}
			}
			return true
		}
		out = append(out, st)
	}
	return out
}

func TestVerifC13(t *testing.T) {
	res := vout.New("C13", "storage")
	defer func() {
		if err := res.Write(); err != nil {
			t.Fatal(err)
		}
	}()
	depth := 3
	if vout.Thorough() {
		depth = 4
	}
	only := os.Getenv("VERIF_STACK")
	for i, st := range stacks(t) {
		if !vout.Mine(i) {
			continue
		}
		if only != "" && st.Name != only {
			continue
		}
		d := depth
		if st.ReadOps && vout.Thorough() {
			d = 3 // 36-op alphabet: depth 4 would be 1.7M transitions per stack
		}
		if st.Name == "file" && vout.Thorough() {
			d = 3
		}
		kvc.Run(res, st, d)
		t.Logf("stack %-28s states=%d transitions=%d violations=%d", st.Name, res.Counters["states"], res.Counters["transitions"], res.NumViolations())
	}
}
