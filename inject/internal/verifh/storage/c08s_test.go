package storage

// C08-S / C13-S: thread interleavings INSIDE the operations of the caching
// layer (the step-level merges of TestVerifC08 treat every operation as
// atomic).  Two or three managed threads run plain operations and small
// transactions on one hot key of cache(physx(inmem-tx)); scheduling points are
// every operation reaching the wrapped store (before AND after it returns)
// and every lock operation of the layer (fine mode, sync -> vsync rewrite).
//
// Oracle, for every complete schedule within the preemption bound:
//   coherent   after all threads have finished, a read through the cache
//              returns exactly what the wrapped store holds (twice: the second
//              read is served from the LRU) -- "committed effects are visible
//              to all subsequent reads", "the cache never serves a superseded
//              entry";
//   plausible  every value a thread read is the initial value or a value some
//              thread wrote (no invented data);
//   atomic     the final value is the initial one or one a successful writer
//              wrote.

import (
	"fmt"
	"os"
	"sort"
	"strings"
	"testing"
	"time"

	metrics "github.com/hashicorp/go-metrics/compat"
	log "github.com/hashicorp/go-hclog"
	"github.com/openbao/openbao/sdk/v2/helper/verif/physx"
	"github.com/openbao/openbao/sdk/v2/helper/verif/sched"
	"github.com/openbao/openbao/sdk/v2/helper/verif/vout"
	"github.com/openbao/openbao/sdk/v2/physical"
)

type c08sProg struct {
	name string
	run  func(c physical.Backend, id int, out *c08sOut)
}

type c08sOut struct {
	reads  []string // values read ("<nil>" for absent)
	wrote  []string // values this thread tried to write
	ok     bool     // the program's mutation took effect as far as it knows
	errTxt string
}

const c08sKey = "hot"

func c08sVal(e *physical.Entry) string {
	if e == nil {
		return "<nil>"
	}
	return string(e.Value)
}

func c08sProgs() []c08sProg {
	get := func(b physical.Backend, out *c08sOut) {
		e, err := b.Get(bg, c08sKey)
		if err != nil {
			out.errTxt = err.Error()
			return
		}
		out.reads = append(out.reads, c08sVal(e))
	}
	tx := func(c physical.Backend) (physical.Transaction, error) {
		return c.(physical.TransactionalBackend).BeginTx(bg)
	}
	return []c08sProg{
		{"get", func(c physical.Backend, id int, out *c08sOut) { get(c, out); out.ok = out.errTxt == "" }},
		{"getget", func(c physical.Backend, id int, out *c08sOut) { get(c, out); get(c, out); out.ok = out.errTxt == "" }},
		{"put", func(c physical.Backend, id int, out *c08sOut) {
			v := fmt.Sprintf("p%d", id)
			out.wrote = append(out.wrote, v)
			err := c.Put(bg, &physical.Entry{Key: c08sKey, Value: []byte(v)})
			out.ok = err == nil
		}},
		{"del", func(c physical.Backend, id int, out *c08sOut) {
			out.wrote = append(out.wrote, "<nil>")
			out.ok = c.Delete(bg, c08sKey) == nil
		}},
		{"txput", func(c physical.Backend, id int, out *c08sOut) {
			v := fmt.Sprintf("t%d", id)
			out.wrote = append(out.wrote, v)
			t, err := tx(c)
			if err != nil {
				out.errTxt = err.Error()
				return
			}
			if err = t.Put(bg, &physical.Entry{Key: c08sKey, Value: []byte(v)}); err != nil {
				_ = t.Rollback(bg)
				out.errTxt = err.Error()
				return
			}
			err = t.Commit(bg)
			out.ok = err == nil
		}},
		{"txdel", func(c physical.Backend, id int, out *c08sOut) {
			out.wrote = append(out.wrote, "<nil>")
			t, err := tx(c)
			if err != nil {
				out.errTxt = err.Error()
				return
			}
			if err = t.Delete(bg, c08sKey); err != nil {
				_ = t.Rollback(bg)
				return
			}
			out.ok = t.Commit(bg) == nil
		}},
		{"txrmw", func(c physical.Backend, id int, out *c08sOut) {
			v := fmt.Sprintf("m%d", id)
			out.wrote = append(out.wrote, v)
			t, err := tx(c)
			if err != nil {
				out.errTxt = err.Error()
				return
			}
			get(t, out)
			if err = t.Put(bg, &physical.Entry{Key: c08sKey, Value: []byte(v)}); err != nil {
				_ = t.Rollback(bg)
				return
			}
			out.ok = t.Commit(bg) == nil
		}},
		{"txputrollback", func(c physical.Backend, id int, out *c08sOut) {
			t, err := tx(c)
			if err != nil {
				out.errTxt = err.Error()
				return
			}
			_ = t.Put(bg, &physical.Entry{Key: c08sKey, Value: []byte(fmt.Sprintf("r%d", id))})
			_ = t.Rollback(bg)
			out.ok = true
		}},
	}
}

type c08sReplay struct {
	Progs   []string `json:"programs"`
	Init    string   `json:"initial"` // absent | cold | warm
	Choices []int    `json:"choices"`
	Trace   []string `json:"trace,omitempty"`
}

type c08sVerdict struct {
	outcome, violation, sig string
}

func c08sBody(progs []c08sProg, init string) sched.Body {
	return func(sc *sched.Scheduler) func(x *sched.Exec) {
		inner := newInmem(true)
		px := physx.New(inner)
		ctl := physx.Ctl(px)
		ctl.PostPoints = true
		ca := physical.NewCache(px, 0, log.NewNullLogger(), metrics.Default())
		ca.SetEnabled(true)
		var c physical.Backend = ca
		if init == "cold" || init == "warm" {
			if err := inner.Put(bg, &physical.Entry{Key: c08sKey, Value: []byte("init")}); err != nil {
				panic(err)
			}
		}
		if init == "warm" || init == "warm-absent" {
			if _, err := c.Get(bg, c08sKey); err != nil {
				panic(err)
			}
		}
		outs := make([]c08sOut, len(progs))
		for i, p := range progs {
			i, p := i, p
			sc.Go(fmt.Sprintf("%d.%s", i, p.name), func() { p.run(c, i, &outs[i]) })
		}
		return func(x *sched.Exec) {
			v := &c08sVerdict{}
			x.Obs = v
			fail := func(sig, msg string) {
				if v.violation == "" {
					v.sig, v.violation = sig, msg
				}
			}
			initial := "<nil>"
			if init == "cold" || init == "warm" {
				initial = "init"
			}
			written := map[string]bool{initial: true}
			for _, o := range outs {
				for _, w := range o.wrote {
					written[w] = true
				}
			}
			under, err := inner.Get(bg, c08sKey)
			if err != nil {
				panic(err)
			}
			r1, e1 := c.Get(bg, c08sKey)
			r2, e2 := c.Get(bg, c08sKey)
			if e1 != nil || e2 != nil {
				fail("final-read-error", fmt.Sprintf("reads after quiescence failed: %v %v", e1, e2))
			} else if c08sVal(r1) != c08sVal(under) || c08sVal(r2) != c08sVal(under) {
				fail("stale-after-quiescence", fmt.Sprintf("the store holds %s but reads through the cache return %s then %s", c08sVal(under), c08sVal(r1), c08sVal(r2)))
			}
			if !written[c08sVal(under)] {
				fail("invented-final-value", fmt.Sprintf("final value %s was never written", c08sVal(under)))
			}
			var parts []string
			for i, o := range outs {
				for _, r := range o.reads {
					if !written[r] {
						fail("invented-read", fmt.Sprintf("thread %d read %s which nobody wrote", i, r))
					}
				}
				parts = append(parts, fmt.Sprintf("%s:%v:%v", progs[i].name, o.ok, o.reads))
			}
			sort.Strings(parts)
			v.outcome = strings.Join(parts, " ") + " final=" + c08sVal(under)
		}
	}
}

func TestVerifC08Sched(t *testing.T) {
	res := vout.New("C08", "cachesched")
	defer func() {
		if err := res.Write(); err != nil {
			t.Fatal(err)
		}
	}()
	all := c08sProgs()
	byName := map[string]c08sProg{}
	for _, p := range all {
		byName[p.name] = p
	}
	deadline := time.Now().Add(time.Duration(vout.DeadlineS()) * time.Second)

	if vout.ReplayPath() != "" {
		var rp c08sReplay
		if _, err := vout.LoadReplay(&rp); err != nil {
			t.Fatal(err)
		}
		var ps []c08sProg
		for _, n := range rp.Progs {
			ps = append(ps, byName[n])
		}
		x := sched.RunOnce(c08sBody(ps, rp.Init), rp.Choices, true)
		if v, _ := x.Obs.(*c08sVerdict); v != nil && v.violation != "" {
			res.Violate("c08:cachesched:"+v.sig, v.violation+"\nschedule: "+strings.Join(x.Trace, " | "), rp)
		}
		return
	}

	bound := 2
	if vout.Thorough() {
		bound = 3
	}
	res.Bound("preemption_bound", bound)
	res.Bound("programs", len(all))
	inits := []string{"absent", "cold", "warm", "warm-absent"}
	res.Bound("initial_states", inits)

	var scen [][]c08sProg
	for i := 0; i < len(all); i++ {
		for j := i; j < len(all); j++ {
			scen = append(scen, []c08sProg{all[i], all[j]})
		}
	}
	// triples: a reader, a transaction and any third program
	readers := []string{"get", "getget"}
	txs := []string{"txput", "txdel", "txrmw"}
	for _, r := range readers {
		for _, x := range txs {
			for _, p := range all {
				if !vout.Thorough() && (p.name == "getget" || p.name == "txputrollback" || r == "getget") {
					continue
				}
				scen = append(scen, []c08sProg{byName[r], byName[x], p})
			}
		}
	}
	res.Bound("scenarios", len(scen)*len(inits))
	only := os.Getenv("VERIF_SCEN")
	item := 0
	for _, ps := range scen {
		for _, init := range inits {
			item++
			var names []string
			for _, p := range ps {
				names = append(names, p.name)
			}
			name := strings.Join(names, "+") + "@" + init
			if only != "" && only != name {
				continue
			}
			if !vout.Mine(item) {
				continue
			}
			body := c08sBody(ps, init)
			e := &sched.Explorer{Body: body, Bound: bound, Fine: true}
			e.Stop = func() bool { return time.Now().After(deadline) }
			outcomes := map[string]bool{}
			e.Check = func(x *sched.Exec) {
				res.Add("executions", 1)
				res.Add("transitions", int64(len(x.Choices)))
				res.Add("states", int64(len(x.Choices)-x.PrefixLen+1))
				res.Max("points_per_execution", int64(len(x.Points)))
				for i, p := range x.Panics {
					if p != nil {
						res.Violate("c08:cachesched:panic", fmt.Sprintf("%s thread %d panicked: %v", name, i, p), c08sReplay{names, init, x.Choices, x.Trace})
					}
				}
				if x.Deadlock {
					res.Violate("c08:cachesched:deadlock", fmt.Sprintf("%s: deadlock: %s (%v)", name, x.Stuck, x.Trace), c08sReplay{names, init, x.Choices, x.Trace})
				}
				v, _ := x.Obs.(*c08sVerdict)
				if v == nil {
					return
				}
				outcomes[v.outcome] = true
				res.Distinct("nontrivial", name+"|"+v.outcome)
				if v.violation != "" {
					same := 0
					for r := 0; r < 3; r++ {
						y := sched.RunOnce(body, x.Choices, true)
						if w, _ := y.Obs.(*c08sVerdict); w != nil && w.sig == v.sig {
							same++
						}
					}
					if same < 3 {
						res.Add("unreproducible", 1)
						res.NotExhaustive("an execution was not reproducible")
						return
					}
					res.Violate("c08:cachesched:"+v.sig, fmt.Sprintf("%s: %s\nschedule: %s", name, v.violation, strings.Join(x.Trace, " | ")),
						c08sReplay{names, init, x.Choices, x.Trace})
				}
			}
			e.Run()
			if e.Stopped {
				res.NotExhaustive("internal deadline reached in " + name)
			}
			for _, er := range e.Errors {
				res.Add("harness_errors", 1)
				res.Note("harness error in %s: %s", name, er)
				res.NotExhaustive("harness error")
			}
			res.Max("distinct_outcomes_in_one_scenario", int64(len(outcomes)))
		}
	}
}
