package storage

// C08 (synchronous stacks): every merge order of small transaction programs on
// transactional inmem and every wrapping layer (cache, key encoding, barrier,
// prefix views), compared step by step with a serial reference (engine/txc).
// The raft backend is driven in-package (internal/physical/raft) because its
// state machine is asynchronous and needs the FSM-apply gate.

import (
	"fmt"
	"os"
	"testing"

	log "github.com/hashicorp/go-hclog"
	metrics "github.com/hashicorp/go-metrics/compat"
	"github.com/openbao/openbao/sdk/v2/helper/verif/kvc"
	"github.com/openbao/openbao/sdk/v2/helper/verif/txc"
	"github.com/openbao/openbao/sdk/v2/helper/verif/vout"
	"github.com/openbao/openbao/sdk/v2/logical"
	"github.com/openbao/openbao/sdk/v2/physical"
	"github.com/openbao/openbao/v2/internal/vault/barrier"
)

type physTx struct {
	physKV
	tx physical.Transaction
}

func (t physTx) Commit() error   { return t.tx.Commit(bg) }
func (t physTx) Rollback() error { return t.tx.Rollback(bg) }

type physTxBackend struct {
	physKV
	tb physical.TransactionalBackend
}

func newPhysTxBackend(b physical.Backend) txc.Backend {
	return physTxBackend{physKV{b}, b.(physical.TransactionalBackend)}
}

func (b physTxBackend) Begin(ro bool) (txc.Tx, error) {
	var tx physical.Transaction
	var err error
	if ro {
		tx, err = b.tb.BeginReadOnlyTx(bg)
	} else {
		tx, err = b.tb.BeginTx(bg)
	}
	if err != nil {
		return nil, err
	}
	return physTx{physKV{tx}, tx}, nil
}

type logTx struct {
	logKV
	tx logical.Transaction
}

func (t logTx) Commit() error   { return t.tx.Commit(bg) }
func (t logTx) Rollback() error { return t.tx.Rollback(bg) }

type logTxBackend struct {
	logKV
	ts logical.TransactionalStorage
}

func (b logTxBackend) Begin(ro bool) (txc.Tx, error) {
	var tx logical.Transaction
	var err error
	if ro {
		tx, err = b.ts.BeginReadOnlyTx(bg)
	} else {
		tx, err = b.ts.BeginTx(bg)
	}
	if err != nil {
		return nil, err
	}
	return logTx{logKV{tx}, tx}, nil
}

type c08Stack struct {
	name string
	new  func() (txc.Backend, error)
}

func c08Stacks() []c08Stack {
	cache := func(b physical.Backend) physical.Backend {
		c := physical.NewCache(b, 0, log.NewNullLogger(), metrics.Default())
		c.SetEnabled(true)
		return c
	}
	return []c08Stack{
		{"inmem", func() (txc.Backend, error) { return newPhysTxBackend(newInmem(true)), nil }},
		{"cache", func() (txc.Backend, error) { return newPhysTxBackend(cache(newInmem(true))), nil }},
		{"encoding", func() (txc.Backend, error) {
			return newPhysTxBackend(physical.NewStorageEncoding(newInmem(true))), nil
		}},
		{"cache+encoding", func() (txc.Backend, error) {
			return newPhysTxBackend(cache(physical.NewStorageEncoding(newInmem(true)))), nil
		}},
		{"barrier-view", func() (txc.Backend, error) {
			b, err := newBarrier(newInmem(true))
			if err != nil {
				return nil, err
			}
			v := barrier.NewView(b, "logical/m/")
			return logTxBackend{logKV{v}, v.(logical.TransactionalStorage)}, nil
		}},
		{"cache+barrier-storageview", func() (txc.Backend, error) {
			b, err := newBarrier(cache(physical.NewStorageEncoding(newInmem(true))))
			if err != nil {
				return nil, err
			}
			v := logical.NewStorageView(b, "logical/m/").SubView("sub/")
			return logTxBackend{logKV{v}, v.(logical.TransactionalStorage)}, nil
		}},
	}
}

func c08Initials() []map[string]string {
	return []map[string]string{
		{"a": "0", "d/x": "0"},
		{},
	}
}

func c08Seed(b txc.Backend, init map[string]string) error {
	for k, v := range init {
		if err := b.Put(k, []byte(v)); err != nil {
			return err
		}
	}
	return nil
}

func TestVerifC08(t *testing.T) {
	res := vout.New("C08", "storage")
	defer func() {
		if err := res.Write(); err != nil {
			t.Fatal(err)
		}
	}()
	stacks := c08Stacks()
	tmpl := txc.Templates()

	runOne := func(st c08Stack, rp txc.Replay) {
		b, err := st.new()
		if err == nil {
			err = c08Seed(b, rp.Initial)
		}
		if err != nil {
			t.Fatalf("harness: cannot build %s: %v", st.name, err)
		}
		var c *txc.Checker
		var v *txc.Violation
		func() {
			defer func() {
				if r := recover(); r != nil {
					v = &txc.Violation{Kind: "panic", Msg: fmt.Sprint(r)}
				}
			}()
			c, v = txc.RunSequential(b, rp)
		}()
		res.Add("executions", 1)
		res.Add("transitions", int64(len(rp.Schedule)))
		if c != nil {
			res.Add("commits", int64(c.Commits))
			res.Add("conflicts", int64(c.Conflicts))
			res.Add("spurious_conflicts", int64(c.SpuriousConflicts))
			res.Distinct("nontrivial", fmt.Sprintf("%s|%d|%d|%v", st.name, c.Commits, c.Conflicts, c.Hist[len(c.Hist)-1]))
		}
		if v != nil {
			res.Violate("c08:"+st.name+":"+v.Kind, rp.String()+": "+v.Msg, rp)
		}
	}

	if vout.ReplayPath() != "" {
		var rp txc.Replay
		if _, err := vout.LoadReplay(&rp); err != nil {
			t.Fatal(err)
		}
		for _, st := range stacks {
			if st.name == rp.Stack {
				runOne(st, rp)
			}
		}
		return
	}

	only := os.Getenv("VERIF_STACK")
	work := 0
	for _, st := range stacks {
		if only != "" && st.name != only {
			continue
		}
		// all unordered pairs (with repetition) of templates
		for i := 0; i < len(tmpl); i++ {
			for j := i; j < len(tmpl); j++ {
				work++
				if !vout.Mine(work) {
					continue
				}
				progs := []txc.Program{tmpl[i], tmpl[j]}
				inits := c08Initials()
				if txc.RepeatedListing(tmpl[i]) || txc.RepeatedListing(tmpl[j]) {
					inits = append(inits, txc.RichInitial())
				}
				for _, init := range inits {
					txc.Merges([]int{len(progs[0].Steps), len(progs[1].Steps)}, func(s []int) {
						runOne(st, txc.Replay{Stack: st.name, Initial: init, Programs: progs, Schedule: append([]int{}, s...)})
					})
					res.Add("states", 1)
				}
				if work%211 == 0 {
					res.Sample(map[string]interface{}{"stack": st.name, "programs": []string{progs[0].Name, progs[1].Name}})
				}
			}
		}
		// triples: two transactions plus one plain program (quick: inmem and
		// cache only; thorough: every stack), and in thorough also every triple
		// of the short (<=4 step) transaction programs.
		if !vout.Thorough() && st.name != "inmem" && st.name != "cache" {
			continue
		}
		var plains, txs []txc.Program
		for _, p := range tmpl {
			if !vout.Thorough() && txc.RepeatedListing(p) && len(p.Steps) == 5 {
				// the repeated-listing programs take part in all pairs; in triples only in the thorough tier
				continue
			}
			if p.Steps[0].Op == "begin" || p.Steps[0].Op == "beginro" {
				txs = append(txs, p)
			} else {
				plains = append(plains, p)
			}
		}
		for i := 0; i < len(txs); i++ {
			for j := i; j < len(txs); j++ {
				for _, pl := range plains {
					work++
					if !vout.Mine(work) {
						continue
					}
					progs := []txc.Program{txs[i], txs[j], pl}
					init := c08Initials()[0]
					if txc.RepeatedListing(txs[i]) || txc.RepeatedListing(txs[j]) {
						init = txc.RichInitial()
					}
					txc.Merges([]int{len(progs[0].Steps), len(progs[1].Steps), len(pl.Steps)}, func(s []int) {
						runOne(st, txc.Replay{Stack: st.name, Initial: init, Programs: progs, Schedule: append([]int{}, s...)})
					})
					res.Add("states", 1)
				}
			}
		}
		if vout.Thorough() && (st.name == "inmem" || st.name == "cache+barrier-storageview") {
			for i := 0; i < len(txs); i++ {
				for j := i; j < len(txs); j++ {
					for k := j; k < len(txs); k++ {
						if len(txs[i].Steps)+len(txs[j].Steps)+len(txs[k].Steps) > 12 {
							continue
						}
						work++
						if !vout.Mine(work) {
							continue
						}
						progs := []txc.Program{txs[i], txs[j], txs[k]}
						init := c08Initials()[0]
						txc.Merges([]int{len(progs[0].Steps), len(progs[1].Steps), len(progs[2].Steps)}, func(s []int) {
							runOne(st, txc.Replay{Stack: st.name, Initial: init, Programs: progs, Schedule: append([]int{}, s...)})
						})
						res.Add("states", 1)
					}
				}
			}
		}
	}
	res.Bound("templates", len(tmpl))
	res.Bound("stacks", len(stacks))
	var _ kvc.KV
}
