package core

// C05 (R, K): no sequence of renewals moves an expiry past issue + effective
// max; periodic tokens are capped by period and explicit max; expired leases
// refuse renewal and get revoked; every stored lease is tracked -- in every
// state of every renew / age / restart history, and after a crash at any point
// of a renew or revoke.
//
// Elapsed time is simulated without a clock seam: "age(dt)" rewrites the
// issue/expire/last-renewal times of every stored lease record dt into the past
// (through sys/raw) and restarts the server, which is exactly the state a server
// finds when it comes back dt later.

import (
	"encoding/json"
	"fmt"
	"os"
	"strings"
	"testing"
	"time"

	"github.com/openbao/openbao/sdk/v2/helper/verif/sched"
	"github.com/openbao/openbao/sdk/v2/helper/verif/vout"
	"github.com/openbao/openbao/sdk/v2/logical"
	"github.com/openbao/openbao/v2/internal/helper/namespace"
)

type c05Cred struct {
	Name   string
	EffMax time.Duration // bound relative to issue time; 0 = none (pure periodic)
	Period time.Duration
}

var c05Creds = []c05Cred{
	{"token(ttl=100,explicit_max=1000)", 1000 * time.Second, 0},
	{"token(period=100,explicit_max=1000)", 1000 * time.Second, 100 * time.Second},
	{"token(period=100)", 0, 100 * time.Second},
	{"login(ttl=100,max=1000)", 1000 * time.Second, 0},
	{"login(period=100,explicit_max=1000)", 1000 * time.Second, 100 * time.Second},
	{"secret(ttl=100,max=1000)", 1000 * time.Second, 0},
	// backends that answer a renewal with a newly built Secret / Auth (zero issue
	// time) instead of echoing the one in the request
	{"secret-fresh(ttl=100,max=1000)", 1000 * time.Second, 0},
	{"login-fresh(ttl=100,max=1000)", 1000 * time.Second, 0},
	// the same kinds issued inside a child namespace (lease ids carry the namespace id, the
	// records live in the namespace's storage area, renewals are routed by that suffix)
	{"ns1:token(ttl=100,explicit_max=1000)", 1000 * time.Second, 0},
	{"ns1:login(period=100,explicit_max=1000)", 1000 * time.Second, 100 * time.Second},
	{"ns1:secret(ttl=100,max=1000)", 1000 * time.Second, 0},
}

type c05Sub struct {
	cred    c05Cred
	token   string // for token-type credentials
	leaseID string // for secrets: lease id; for tokens: discovered from storage
	secret  string
}

func c05Image(t *testing.T) *Image {
	s := Build(t, Options{})
	defer s.Close()
	s.Mount("rec/", "rec")
	s.EnableAuth("ra/", "recauth")
	s.WritePolicy("p05", `path "rec/*" { capabilities = ["read"] }
path "auth/token/renew-self" { capabilities = ["update"] }
path "sys/leases/renew" { capabilities = ["update"] }`)
	s.mkNS(t, "ns1/", false)
	ns1 := s.nsByPath(t, "ns1/")
	c05NS1 = ns1
	s.Must(s.ReqNS(ns1, s.Root, logical.UpdateOperation, "sys/mounts/rec", map[string]interface{}{"type": "rec"}))
	s.Must(s.ReqNS(ns1, s.Root, logical.UpdateOperation, "sys/auth/ra", map[string]interface{}{"type": "recauth"}))
	s.Must(s.ReqNS(ns1, s.Root, logical.UpdateOperation, "sys/policies/acl/p05", map[string]interface{}{"policy": `path "rec/*" { capabilities = ["read"] }
path "auth/token/renew-self" { capabilities = ["update"] }
path "sys/leases/renew" { capabilities = ["update"] }`}))
	return s.Image()
}

var c05NS1 *namespace.Namespace

func c05Create(s *Sys, c c05Cred) (*c05Sub, error) {
	sub := &c05Sub{cred: c}
	before, _ := expireKeys(s)
	var resp *logical.Response
	var err error
	switch {
	case c.Name == "ns1:token(ttl=100,explicit_max=1000)":
		resp, err = s.ReqNS(c05NS1, s.Root, logical.UpdateOperation, "auth/token/create", map[string]interface{}{"policies": []string{"p05"}, "ttl": "100s", "explicit_max_ttl": "1000s"})
	case c.Name == "ns1:login(period=100,explicit_max=1000)":
		resp, err = s.ReqNS(c05NS1, "", logical.UpdateOperation, "auth/ra/login", map[string]interface{}{"policies": []string{"p05"}, "period": 100, "explicit_max_ttl": 1000})
	case c.Name == "ns1:secret(ttl=100,max=1000)":
		resp, err = s.ReqNS(c05NS1, s.Root, logical.ReadOperation, "rec/lease/x", map[string]interface{}{"ttl": 100, "max_ttl": 1000})
	case c.Name == "token(ttl=100,explicit_max=1000)":
		resp, err = s.Req(s.Root, logical.UpdateOperation, "auth/token/create", map[string]interface{}{"policies": []string{"p05"}, "ttl": "100s", "explicit_max_ttl": "1000s"})
	case c.Name == "token(period=100,explicit_max=1000)":
		resp, err = s.Req(s.Root, logical.UpdateOperation, "auth/token/create", map[string]interface{}{"policies": []string{"p05"}, "period": "100s", "explicit_max_ttl": "1000s"})
	case c.Name == "token(period=100)":
		resp, err = s.Req(s.Root, logical.UpdateOperation, "auth/token/create", map[string]interface{}{"policies": []string{"p05"}, "period": "100s"})
	case c.Name == "login(ttl=100,max=1000)":
		resp, err = s.Req("", logical.UpdateOperation, "auth/ra/login", map[string]interface{}{"policies": []string{"p05"}, "ttl": 100, "max_ttl": 1000})
	case c.Name == "login(period=100,explicit_max=1000)":
		resp, err = s.Req("", logical.UpdateOperation, "auth/ra/login", map[string]interface{}{"policies": []string{"p05"}, "period": 100, "explicit_max_ttl": 1000})
	case c.Name == "secret-fresh(ttl=100,max=1000)":
		resp, err = s.Req(s.Root, logical.ReadOperation, "rec/lease/fresh/x", map[string]interface{}{"ttl": 100, "max_ttl": 1000})
	case c.Name == "login-fresh(ttl=100,max=1000)":
		resp, err = s.Req("", logical.UpdateOperation, "auth/ra/login", map[string]interface{}{"policies": []string{"p05"}, "ttl": 100, "max_ttl": 1000, "fresh": true})
	case strings.HasPrefix(c.Name, "secret"):
		resp, err = s.Req(s.Root, logical.ReadOperation, "rec/lease/x", map[string]interface{}{"ttl": 100, "max_ttl": 1000})
	default:
		return nil, fmt.Errorf("unknown credential kind %s", c.Name)
	}
	if !OK(resp, err) || resp == nil {
		return nil, fmt.Errorf("create %s: %s", c.Name, ErrText(resp, err))
	}
	if resp.Auth != nil {
		sub.token = resp.Auth.ClientToken
	}
	if resp.Secret != nil {
		sub.secret, _ = resp.Data["id"].(string)
	}
	after, _ := expireKeys(s)
	for _, id := range diffKeys(before, after) {
		sub.leaseID = id
	}
	if sub.leaseID == "" {
		return nil, fmt.Errorf("create %s: no lease record appeared", c.Name)
	}
	return sub, nil
}

type c05Lease struct {
	IssueTime  time.Time `json:"issue_time"`
	ExpireTime time.Time `json:"expire_time"`
}

func c05ReadLease(s *Sys, id string) (map[string]interface{}, *c05Lease, bool) {
	v, ok := rawRead(s, expirePhysKey(id))
	if !ok {
		return nil, nil, false
	}
	var m map[string]interface{}
	var l c05Lease
	if json.Unmarshal([]byte(v), &m) != nil || json.Unmarshal([]byte(v), &l) != nil {
		return nil, nil, false
	}
	return m, &l, true
}

// c05Age shifts every stored lease dt into the past.
func c05Age(s *Sys, dt time.Duration) error {
	ids, _ := expireKeys(s)
	for _, id := range ids {
		m, _, ok := c05ReadLease(s, id)
		if !ok {
			return fmt.Errorf("cannot read lease %s", id)
		}
		for _, f := range []string{"issue_time", "expire_time", "last_renewal_time"} {
			if str, ok := m[f].(string); ok {
				tm, err := time.Parse(time.RFC3339Nano, str)
				if err == nil && !tm.IsZero() {
					m[f] = tm.Add(-dt).Format(time.RFC3339Nano)
				}
			}
		}
		b, _ := json.Marshal(m)
		resp, err := s.Req(s.Root, logical.UpdateOperation, "sys/raw/"+expirePhysKey(id), map[string]interface{}{"value": string(b)})
		if !OK(resp, err) {
			return fmt.Errorf("cannot write lease %s: %s", id, ErrText(resp, err))
		}
	}
	return nil
}

type c05Op struct {
	Kind string `json:"k"` // renew | age | restart
	Arg  int    `json:"a"` // increment seconds / age seconds
}

func (o c05Op) String() string { return fmt.Sprintf("%s(%d)", o.Kind, o.Arg) }

var c05Alphabet = []c05Op{{"renew", 0}, {"renew", 50}, {"renew", 1000000}, {"age", 10}, {"age", 500}, {"age", 2000}, {"restart", 0}}

func (sub *c05Sub) renew(s *Sys, inc int) (bool, time.Duration, string) {
	var resp *logical.Response
	var err error
	data := map[string]interface{}{}
	if inc > 0 {
		data["increment"] = inc
	}
	if sub.token != "" {
		resp, err = s.Req(sub.token, logical.UpdateOperation, "auth/token/renew-self", data)
	} else {
		data["lease_id"] = sub.leaseID
		resp, err = s.Req(s.Root, logical.UpdateOperation, "sys/leases/renew", data)
	}
	if !OK(resp, err) || resp == nil {
		return false, 0, ErrText(resp, err)
	}
	if resp.Auth != nil {
		return true, resp.Auth.TTL, ""
	}
	if resp.Secret != nil {
		return true, resp.Secret.TTL, ""
	}
	return true, 0, "no ttl in response"
}

const c05Slack = 2 * time.Second

// c05Apply replays a history; returns violation sig/msg and a model-state key.
func c05Apply(t *testing.T, img *Image, cred c05Cred, hist []c05Op, res *vout.Result) (string, string, string) {
	s := Boot(t, img)
	defer func() { s.Close() }()
	sub, err := c05Create(s, cred)
	if err != nil {
		t.Fatalf("harness: %v", err)
	}
	aged := 0
	expiredByAge := false
	for step, op := range hist {
		res.Add("transitions", 1)
		switch op.Kind {
		case "renew":
			_, before, existed := c05ReadLease(s, sub.leaseID)
			ok, ttl, txt := sub.renew(s, op.Arg)
			_, after, exists := c05ReadLease(s, sub.leaseID)
			if expiredByAge || !existed {
				if ok {
					return "expired-lease-renewed", fmt.Sprintf("%s history %v step %d: %s succeeded although the lease expired (aged %ds)", cred.Name, hist, step, op, aged), ""
				}
				continue
			}
			if ok && exists {
				now := time.Now()
				if cred.EffMax > 0 {
					bound := after.IssueTime.Add(cred.EffMax)
					if after.ExpireTime.After(bound.Add(c05Slack)) {
						return "expiry-past-max", fmt.Sprintf("%s history %v step %d: %s moved the stored expiry to issue+%v, effective max is %v", cred.Name, hist, step, op, after.ExpireTime.Sub(after.IssueTime).Round(time.Second), cred.EffMax), ""
					}
					if now.Add(ttl).After(bound.Add(c05Slack)) {
						return "reported-ttl-past-max", fmt.Sprintf("%s history %v step %d: %s reported ttl=%v which ends %v after issue+max", cred.Name, hist, step, op, ttl, now.Add(ttl).Sub(bound).Round(time.Second)), ""
					}
				}
				if cred.Period > 0 && ttl > cred.Period+c05Slack {
					return "ttl-exceeds-period", fmt.Sprintf("%s history %v step %d: %s reported ttl=%v, period is %v", cred.Name, hist, step, op, ttl, cred.Period), ""
				}
				if cred.Period == 0 && op.Arg > 0 && op.Arg <= 100 && ttl > time.Duration(op.Arg)*time.Second+c05Slack {
					return "ttl-exceeds-increment", fmt.Sprintf("%s history %v step %d: %s reported ttl=%v", cred.Name, hist, step, op, ttl), ""
				}
			} else if !ok {
				// a refusal is legitimate only when the budget is exhausted
				if cred.EffMax == 0 || time.Now().Before(before.IssueTime.Add(cred.EffMax).Add(-c05Slack)) {
					if !strings.Contains(txt, "past the max TTL") {
						return "live-lease-renewal-refused", fmt.Sprintf("%s history %v step %d: %s refused (%s) with budget left", cred.Name, hist, step, op, txt), ""
					}
				}
			}
		case "age", "restart":
			if op.Kind == "age" {
				_, before, existed := c05ReadLease(s, sub.leaseID)
				if err := c05Age(s, time.Duration(op.Arg)*time.Second); err != nil {
					t.Fatalf("harness: %v", err)
				}
				aged += op.Arg
				if existed && before.ExpireTime.Add(-time.Duration(op.Arg)*time.Second).Before(time.Now()) {
					expiredByAge = true
				}
			}
			img2 := s.Image()
			s.Close()
			cut0 := strategyCutOff.Load()
			ns, err := BootData(t, img2.Data, img2)
			if err != nil {
				t.Fatalf("harness: restart: %v", err)
			}
			s = ns
			if expiredByAge {
				if _, _, exists := c05ReadLease(s, sub.leaseID); exists && !s.willFireSince(sub.leaseID, cut0) {
					return "expired-lease-without-timer", fmt.Sprintf("%s history %v step %d: the lease expired (aged %ds); after the restart it is in the pending set but its timer is not armed and no revocation is queued", cred.Name, hist, step, aged), ""
				}
			}
			s.Drain() // what the expiration workers do with due leases
			if expiredByAge {
				if _, _, exists := c05ReadLease(s, sub.leaseID); exists {
					return "expired-lease-not-revoked", fmt.Sprintf("%s history %v step %d: the lease expired (aged %ds) but is still stored after restart and quiescence", cred.Name, hist, step, aged), ""
				}
				if sub.token != "" && s.Usable(sub.token) {
					return "expired-token-usable", fmt.Sprintf("%s history %v step %d: token expired (aged %ds) but is still accepted", cred.Name, hist, step, aged), ""
				}
				if sub.secret != "" && s.Rec.RevokedCount(sub.secret) == 0 {
					return "expired-secret-not-revoked", fmt.Sprintf("%s history %v step %d: secret expired but was not revoked at its backend", cred.Name, hist, step), ""
				}
			}
		}
		if msg := trackingInvariant(s); msg != "" {
			return "tracking", fmt.Sprintf("%s history %v after step %d: %s", cred.Name, hist, step, msg), ""
		}
	}
	_, l, exists := c05ReadLease(s, sub.leaseID)
	key := fmt.Sprintf("%s|exists=%v|aged=%d", cred.Name, exists, aged)
	if exists {
		key += fmt.Sprintf("|life=%v", l.ExpireTime.Sub(l.IssueTime).Round(10*time.Second))
	}
	return "", "", key
}

func TestVerifC05(t *testing.T) {
	res := vout.New("C05", "core")
	defer func() {
		if err := res.Write(); err != nil {
			t.Fatal(err)
		}
	}()
	if vout.ReplayPath() != "" {
		var rz struct {
			Part string   `json:"part"`
			Hist []string `json:"hist"`
		}
		if _, err := vout.LoadReplay(&rz); err == nil && rz.Part == "H" {
			img := c05Image(t)
			if step, sig, msg, to, _ := c05hRun(t, img, rz.Hist, res); sig != "" {
				res.Violate("c05:ha:"+sig, msg, rz)
			} else {
				t.Logf("replay: not reproduced (step %d timeout=%v %s)", step, to, msg)
			}
			return
		}
		if _, err := vout.LoadReplay(&rz); err == nil && rz.Part == "Z" {
			img, shares := c05zImage(t)
			if sig, msg, _ := c05zRun(t, img, shares, rz.Hist, res); sig != "" {
				res.Violate("c05:sealns:"+sig, msg, rz)
			}
			return
		}
		var rp struct {
			Cred string  `json:"cred"`
			Hist []c05Op `json:"hist"`
		}
		if _, err := vout.LoadReplay(&rp); err != nil {
			t.Fatal(err)
		}
		img := c05Image(t)
		for _, c := range c05Creds {
			if c.Name == rp.Cred {
				if sig, msg, _ := c05Apply(t, img, c, rp.Hist, res); sig != "" {
					res.Violate("c05:history:"+sig, msg, rp)
				}
			}
		}
		return
	}
	img := c05Image(t)
	depth := 3
	if vout.Thorough() {
		depth = 4
	}
	res.Bound("history_depth", depth)
	only := os.Getenv("VERIF_PART")
	count := 0
	if only == "" || only == "R" {
		for _, cred := range c05Creds {
			var rec func(h []c05Op)
			rec = func(h []c05Op) {
				if len(h) > 0 {
					count++
					if vout.Mine(count) {
						sig, msg, key := c05Apply(t, img, cred, h, res)
						res.Add("executions", 1)
						res.Add("evaluations", 1)
						if sig != "" {
							res.Violate("c05:history:"+sig, msg, map[string]interface{}{"cred": cred.Name, "hist": h})
						} else {
							res.Distinct("nontrivial", key)
						}
						if count%101 == 0 {
							res.Sample(map[string]interface{}{"credential": cred.Name, "history": fmt.Sprint(h), "state": key})
						}
					}
				}
				if len(h) == depth {
					return
				}
				for _, op := range c05Alphabet {
					// two consecutive restarts / ageing an already expired lease add nothing
					if len(h) > 0 && h[len(h)-1].Kind == "restart" && op.Kind == "restart" {
						continue
					}
					rec(append(append([]c05Op{}, h...), op))
				}
			}
			rec(nil)
		}
	}
	// ---- B: the revocation retry budget under storage faults (c05r_test.go)
	if only == "" || only == "B" {
		c05rPart(t, res, &count)
	}
	// ---- W: a renewal racing the lease restore of a restart (c05w_test.go)
	if i, _ := vout.Shard(); i == 1 && (only == "" || only == "W") {
		c05wPart(t, res)
	}
	// ---- Z: seal / unseal transitions of a namespace with its own seal (c05z_test.go)
	if only == "" || only == "Z" {
		c05zPart(t, res, &count)
	}
	// ---- H: leadership changes of a real HA pair (c05h_test.go)
	if only == "" || only == "H" {
		c05hPart(t, res, &count)
	}
	// ---- K: crash inside renew / revoke of a secret lease and of a token
	if only == "" || only == "K" {
		for _, cred := range []c05Cred{c05Creds[0], c05Creds[5]} {
			for _, what := range []string{"renew", "revoke"} {
				s0 := Boot(t, img)
				sub0, err := c05Create(s0, cred)
				if err != nil {
					t.Fatalf("harness: %v", err)
				}
				base := s0.Image()
				s0.Phys.ResetMutations()
				act := func(s *Sys, sub *c05Sub) {
					if what == "renew" {
						sub.renew(s, 50)
					} else {
						_, _ = s.Req(s.Root, logical.UpdateOperation, "sys/leases/revoke", map[string]interface{}{"lease_id": sub.leaseID, "sync": true})
					}
				}
				act(s0, sub0)
				nmut := s0.Phys.Mutations()
				s0.Close()
				for j := 1; j <= nmut; j++ {
					count++
					if !vout.Mine(count) {
						continue
					}
					sched.ResetDetRand()
					s, err := BootData(t, base.Data, base)
					if err != nil {
						t.Fatalf("harness: %v", err)
					}
					s.Phys.CrashAfter(j)
					act(s, sub0)
					crashed, snap := s.Phys.Crashed()
					s.Close()
					if !crashed {
						continue
					}
					res.Add("executions", 1)
					res.Add("evaluations", 1)
					res.Add("crash_runs", 1)
					s2, err := BootData(t, snap, base)
					if err != nil {
						res.Violate("c05:crash:restart-failed", fmt.Sprintf("%s %s crash after mutation %d: %v", cred.Name, what, j, err), map[string]interface{}{"cred": cred.Name, "what": what, "j": j})
						continue
					}
					// (a token->lease index entry whose lease was already deleted is harmless
					// residue of an interrupted revocation; the statement is about stored LEASES)
					if msg := trackingInvariantOpt(s2, false); msg != "" {
						res.Violate("c05:crash:tracking", fmt.Sprintf("%s: crash after durable mutation %d of %d of %s, restart: %s", cred.Name, j, nmut, what, msg), map[string]interface{}{"cred": cred.Name, "what": what, "j": j})
					}
					res.Distinct("nontrivial", fmt.Sprintf("K|%s|%s|%d", cred.Name, what, j))
					s2.Close()
				}
			}
		}
	}
	// ---- RF: a renewal during which one storage operation fails (the node lives on).
	// "every lease present in storage is tracked for expiry ... so it is revoked once its
	// expiry passes": whatever the renewal reported, afterwards the expiry the manager
	// tracks the lease with (what its timer is armed for) must not lie after the expiry
	// the stored record holds, and stored = tracked.
	if only == "" || only == "RF" {
		for _, cred := range []c05Cred{c05Creds[0], c05Creds[1], c05Creds[3], c05Creds[5], c05Creds[10]} {
			s0 := Boot(t, img)
			sub0, err := c05Create(s0, cred)
			if err != nil {
				t.Fatalf("harness: %v", err)
			}
			s0.Phys.FailAt("call", 1<<30)
			s0.Phys.SetTag("call")
			sub0.renew(s0, 500)
			s0.Phys.SetTag("")
			nops := s0.Phys.TagCount("call")
			s0.Close()
			for k := 1; k <= nops; k++ {
				count++
				if !vout.Mine(count) {
					continue
				}
				s := Boot(t, img)
				sub, err := c05Create(s, cred)
				if err != nil {
					t.Fatalf("harness: %v", err)
				}
				s.Phys.FailAt("call", k)
				s.Phys.SetTag("call")
				ok, _, _ := sub.renew(s, 500) // an increment that EXTENDS the lifetime (ttl 100 s, max 1000 s)
				s.Phys.SetTag("")
				failed := s.Phys.Failed()
				fwhat, fkind := "not reached", "none"
				if failed != nil {
					fwhat, fkind = failed.String(), failed.Kind
				}
				res.Add("executions", 1)
				res.Add("evaluations", 1)
				res.Add("renew_fault_runs", 1)
				art := map[string]interface{}{"part": "RF", "cred": cred.Name, "k": k}
				if msg := trackingInvariantOpt(s, false); msg != "" {
					res.Violate("c05:renewfault:tracking", fmt.Sprintf("%s: renewal with storage op %d [%s] failing (reported success=%v): %s", cred.Name, k, fwhat, ok, msg), art)
				}
				if _, stored, exists := c05ReadLease(s, sub.leaseID); exists {
					if cached, tracked := s.Core.VerifExpiration().VerifCachedExpiry(sub.leaseID); tracked && cached.Sub(stored.ExpireTime) > 5*time.Second {
						res.Violate("c05:renewfault:tracked-with-later-expiry-than-stored", fmt.Sprintf("%s: renewal with storage op %d [%s] failing (reported success=%v): the lease is stored with expiry in %v but tracked with expiry in %v: it will not be revoked when its stored expiry passes", cred.Name, k, fwhat, ok, time.Until(stored.ExpireTime).Round(time.Second), time.Until(cached).Round(time.Second)), art)
					}
				}
				res.Distinct("nontrivial", fmt.Sprintf("RF|%s|%s|%v", cred.Name, fkind, ok))
				s.Close()
			}
		}
	}
}
