package core

import (
	"fmt"
	"os"
	"path/filepath"
	"regexp"
	"strings"
	"time"

	"github.com/openbao/openbao/sdk/v2/helper/verif/sched"
	"github.com/openbao/openbao/sdk/v2/helper/verif/vout"
)

var randomRun = regexp.MustCompile(`[A-Za-z0-9]{16,}`)

// canonTrace masks random identifiers (lease ids, accessors, salted ids) so
// that two runs of the same schedule compare equal.
func canonTrace(tr []string) string {
	return randomRun.ReplaceAllString(strings.Join(tr, ","), "#")
}

// SchedReplay is the artefact of one scheduled execution.
type SchedReplay struct {
	Scenario string                 `json:"scenario"`
	Params   map[string]interface{} `json:"params,omitempty"`
	Choices  []int                  `json:"choices"`
	Fine     bool                   `json:"fine,omitempty"`
	Trace    []string               `json:"trace,omitempty"`
}

// Verdict is what a scenario's finish function stores in Exec.Obs.
type Verdict struct {
	Outcome   string // canonical observable outcome (for distinct-outcome counting)
	Violation string // "" = property held
	Sig       string
}

type exploreStats struct {
	executions, replays, preempt [4]int
}

var globalDeadline = time.Now().Add(time.Duration(vout.DeadlineS()) * time.Second)

// exploreScenario runs the stateless DFS for one scenario and feeds res.
// Returns the number of executions checked by this process.
func exploreScenario(res *vout.Result, prop, scenario string, params map[string]interface{}, body sched.Body, bound int, fine bool, item *int) int {
	if os.Getenv("VERIF_FREE") != "" {
		return freeRuns(res, scenario, body, item)
	}
	e := &sched.Explorer{Body: body, Bound: bound, Fine: fine}
	e.Stop = func() bool { return time.Now().After(globalDeadline) }
	// work sharing: the whole scenario is one work item unless it is big
	// (callers shard by scenario through item counters); inside a scenario we
	// additionally split depth-2 subtrees across shards.
	_, n := vout.Shard()
	if n > 1 {
		base := *item
		e.Owner = func(k int) bool { return vout.Mine(base + k) }
	}
	outcomes := map[string]int{}
	e.Check = func(x *sched.Exec) {
		res.Add("executions", 1)
		res.Add("transitions", int64(len(x.Choices)))
		// distinct choice-prefix nodes: the points of this execution past the prefix it shares with its parent
		res.Add("states", int64(len(x.Choices)-x.PrefixLen+1))
		res.Max("points_per_execution", int64(len(x.Points)))
		res.Add(fmt.Sprintf("executions_preemptions_%d", min(x.Preemptions, 3)), 1)
		v, _ := x.Obs.(*Verdict)
		for i, p := range x.Panics {
			if p != nil {
				res.Violate(prop+":"+scenario+":panic", fmt.Sprintf("thread %d panicked: %v (trace %v)", i, p, x.Trace),
					SchedReplay{scenario, params, x.Choices, fine, x.Trace})
			}
		}
		if x.Deadlock {
			res.Add("deadlocks", 1)
			res.Note("deadlock in %s: %v", scenario, x.Trace)
		}
		if v == nil {
			return
		}
		outcomes[v.Outcome]++
		res.Distinct("nontrivial", scenario+"|"+v.Outcome)
		if v.Violation != "" {
			// reproduce before believing: 3 replays must show the same verdict
			same := 0
			for r := 0; r < 3; r++ {
				y := sched.RunOnce(body, x.Choices, fine)
				res.Add("replays_checked", 1)
				if w, _ := y.Obs.(*Verdict); w != nil && w.Sig == v.Sig && canonTrace(y.Trace) == canonTrace(x.Trace) {
					same++
				}
			}
			if same < 3 {
				res.Add("unreproducible", 1)
				res.Note("violation %s reproduced only %d/3 times; not reported (scenario %s choices %v)", v.Sig, same, scenario, x.Choices)
				res.NotExhaustive("an execution was not reproducible")
				return
			}
			res.Violate(v.Sig, fmt.Sprintf("scenario %s %v: %s\nschedule: %s", scenario, params, v.Violation, strings.Join(x.Trace, " | ")),
				SchedReplay{scenario, params, x.Choices, fine, x.Trace})
		} else if e.Executions%50 == 0 {
			y := sched.RunOnce(body, x.Choices, fine)
			res.Add("replays_checked", 1)
			w, _ := y.Obs.(*Verdict)
			if w == nil || w.Outcome != v.Outcome || canonTrace(y.Trace) != canonTrace(x.Trace) {
				res.Add("replay_divergences", 1)
				res.Note("replay divergence in %s choices %v:\n first %v\n again %v", scenario, x.Choices, x.Trace, y.Trace)
			}
		}
	}
	e.Run()
	res.Add("prefix_retries", int64(e.Retries))
	if e.Stopped {
		res.NotExhaustive("internal deadline reached in scenario " + scenario)
	}
	for _, er := range e.Errors {
		res.Add("harness_errors", 1)
		res.Note("harness error in %s: %s", scenario, er)
		res.NotExhaustive("harness error")
	}
	if e.Executions > 0 && len(outcomes) > 0 {
		res.Max("distinct_outcomes_in_one_scenario", int64(len(outcomes)))
	}
	if tot, ops := ImpureReport(); tot > 0 {
		res.Max("impure_ops_total", int64(tot))
		for _, o := range ops {
			res.Note("impure op (unmanaged goroutine during exploration): %s", o)
		}
	}
	*item += 1000003 // decorrelate owners between scenarios
	return e.Executions
}

// freeRuns is the separate race-detector pass (unit "race", built with -race,
// no sync rewrite): the scenario's threads run as ordinary goroutines a few
// times.  Under the cooperative scheduler every hand-off is a happens-before
// edge, which blinds the detector; here nothing is ordered by the harness.
// This pass decides nothing: verdicts of free runs are only counted, and data
// races the detector logs are reported as notes (a data race in the
// repository is not by itself a violation of any listed property).
func freeRuns(res *vout.Result, scenario string, body sched.Body, item *int) int {
	*item++
	if !vout.Mine(*item) {
		return 0
	}
	n := 4
	if vout.Thorough() {
		n = 20
	}
	for i := 0; i < n; i++ {
		x := sched.RunFree(body)
		res.Add("free_runs", 1)
		if v, _ := x.Obs.(*Verdict); v != nil && v.Violation != "" {
			res.Add("free_runs_with_a_verdict_violation", 1)
			res.Distinct("free_run_violation_signatures", v.Sig)
		}
		for _, p := range x.Panics {
			if p != nil {
				res.Add("free_run_panics", 1)
				res.Note("free run of %s panicked: %v", scenario, p)
			}
		}
	}
	res.Distinct("nontrivial", "free|"+scenario)
	collectRaceLogs(res)
	return n
}

var raceSeen = map[string]bool{}

func collectRaceLogs(res *vout.Result) {
	files, _ := filepath.Glob(filepath.Join(os.Getenv("VERIF_SCRATCH"), "race.*"))
	for _, f := range files {
		b, err := os.ReadFile(f)
		if err != nil {
			continue
		}
		for _, rep := range strings.Split(string(b), "==================") {
			if !strings.Contains(rep, "WARNING: DATA RACE") {
				continue
			}
			// key: the first two source locations of the report
			var locs []string
			for _, l := range strings.Split(rep, "\n") {
				l = strings.TrimSpace(l)
				if strings.HasPrefix(l, "/") && strings.Contains(l, ".go:") {
					if i := strings.Index(l, " "); i > 0 {
						l = l[:i]
					}
					locs = append(locs, strings.TrimPrefix(l, os.Getenv("VERIF_REPO")))
					if len(locs) == 2 {
						break
					}
				}
			}
			key := strings.Join(locs, " <-> ")
			if !raceSeen[key] {
				raceSeen[key] = true
				res.Distinct("data_races_reported", key)
				res.Note("race detector (free-running pass): %s", key)
			}
		}
	}
}
