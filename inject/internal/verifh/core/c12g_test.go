package core

// C12 part G: identity groups and the namespace scope of a token.  A token of
// org/team/ obtained by a login carries an entity; every namespace of the tree
// (root, org/, org/team/, org/team/sub/, other/) holds an all-powerful policy and
// - as far as the identity store accepts it - a group with that policy whose
// member is the entity.  With the default group-policy application mode the
// token authorises requests only in its own namespace and below, whichever
// groups the entity is in, with and without unsafe_cross_namespace_identity.

import (
	"fmt"
	"strings"
	"testing"
	"time"

	"github.com/openbao/openbao/sdk/v2/helper/verif/vout"
	"github.com/openbao/openbao/sdk/v2/logical"
)

func c12PartG(t *testing.T, res *vout.Result) {
	const admHCL = `path "*" { capabilities = ["create","read","update","delete","list","sudo"] }`
	tree := []string{"", "org/", "org/team/", "org/team/sub/", "other/"}
	for _, xns := range []bool{false, true} {
		s := Build(t, Options{XNSIdentity: xns})
		for _, p := range tree[1:] {
			s.mkNS(t, p, false)
		}
		for _, p := range tree {
			ns := s.nsByPath(t, p)
			s.Must(s.ReqNS(ns, s.Root, logical.UpdateOperation, "sys/mounts/m", map[string]interface{}{"type": "rec"}))
			s.Must(s.ReqNS(ns, s.Root, logical.UpdateOperation, "m/kv/x", map[string]interface{}{"value": "DATA-" + p}))
			s.Must(s.ReqNS(ns, s.Root, logical.UpdateOperation, "sys/policies/acl/adm", map[string]interface{}{"policy": admHCL}))
		}
		team := s.nsByPath(t, "org/team/")
		s.Must(s.ReqNS(team, s.Root, logical.UpdateOperation, "sys/auth/ra", map[string]interface{}{"type": "recauth"}))
		ar := s.Must(s.ReqNS(team, s.Root, logical.ReadOperation, "sys/auth", nil))
		accessor := ""
		if m, ok := ar.Data["ra/"].(map[string]interface{}); ok {
			accessor, _ = m["accessor"].(string)
		}
		s.Rec.mu.Lock()
		s.Rec.LoginAuth = func(req *logical.Request) *logical.Auth {
			return &logical.Auth{
				Policies:     []string{"default"},
				LeaseOptions: logical.LeaseOptions{TTL: time.Hour, Renewable: true},
				DisplayName:  "alice",
				Alias:        &logical.Alias{Name: "alice", MountAccessor: accessor, MountType: "recauth"},
			}
		}
		s.Rec.mu.Unlock()
		lr, le := s.ReqNS(team, "", logical.UpdateOperation, "auth/ra/login", map[string]interface{}{})
		if !OK(lr, le) || lr == nil || lr.Auth == nil || lr.Auth.EntityID == "" {
			t.Fatalf("harness: login with an alias produced no entity: %s (auth %+v)", ErrText(lr, le), lr)
		}
		tok, entity := lr.Auth.ClientToken, lr.Auth.EntityID
		probe := func(stage string) {
			for _, target := range tree {
				tns := s.nsByPath(t, target)
				for _, op := range []logical.Operation{logical.ReadOperation, logical.UpdateOperation} {
					s.Rec.Reset()
					r, e := s.ReqNS(tns, tok, op, "m/kv/x", map[string]interface{}{"value": "changed"})
					res.Add("evaluations", 1)
					inside := strings.HasPrefix(target, "org/team/")
					art := map[string]interface{}{"unsafe_cross_namespace_identity": xns, "stage": stage, "target": target, "op": string(op)}
					if !inside {
						if OK(r, e) {
							res.Violate("c12:groups:token-authorised-outside-its-namespace", fmt.Sprintf("%v: the token of org/team/ was authorised in namespace %q (%s m/kv/x): %s", art, target, op, respText(r)), art)
						}
						if n := s.Rec.NumOpCalls(); n > 0 {
							res.Violate("c12:groups:backend-invoked-outside-token-namespace", fmt.Sprintf("%v: a backend of namespace %q was invoked for the token of org/team/", art, target), art)
						}
					}
					res.Distinct("nontrivial", fmt.Sprintf("G|%v|%s|%s|%s|%v", xns, stage, target, op, OK(r, e)))
				}
			}
		}
		probe("no-groups")
		// one group per namespace, then all of them together
		made := 0
		for _, p := range tree {
			ns := s.nsByPath(t, p)
			gr, ge := s.ReqNS(ns, s.Root, logical.UpdateOperation, "identity/group", map[string]interface{}{
				"name": "g-" + strings.ReplaceAll(strings.TrimSuffix(p, "/"), "/", "-"), "policies": []string{"adm"}, "member_entity_ids": []string{entity}})
			if !OK(gr, ge) {
				res.Add("group_creations_refused", 1)
				continue
			}
			made++
			res.Add("groups_created", 1)
			probe("group-in:" + p)
		}
		if made > 0 {
			// inside its own namespace the group's policy must be effective (vacuity guard:
			// the groups do apply somewhere)
			s.Rec.Reset()
			r, e := s.ReqNS(team, tok, logical.ReadOperation, "m/kv/x", nil)
			if OK(r, e) {
				res.Add("group_policy_effective_inside", 1)
			}
		}
		s.Rec.mu.Lock()
		s.Rec.LoginAuth = nil
		s.Rec.mu.Unlock()
		s.Close()
	}
}
