package core

// C12 part R: remounting a mount ACROSS namespaces.  The mount's entries are
// copied from the source namespace's storage area to the destination's.  For
// every storage key shape a backend may have written (including the
// traversal-style ones of c12Keys) the move must
//   * touch nothing outside the moved mount's own prefix (other mounts of the
//     source namespace keep every entry),
//   * leave the mount, now living in the destination namespace, writing into
//     the destination namespace's storage area,
//   * take the data along (when the migration reports success).
// One fresh Core per key shape; run in its own process because a violation
// may leave the migration goroutine spinning while holding the mounts lock.

import (
	"fmt"
	"os"
	"strings"
	"testing"
	"time"

	"github.com/openbao/openbao/sdk/v2/helper/verif/vout"
	"github.com/openbao/openbao/sdk/v2/logical"
)

func TestVerifC12Remount(t *testing.T) {
	res := vout.New("C12", "remount")
	finish := func() {
		if err := res.Write(); err != nil {
			t.Fatal(err)
		}
	}
	if vout.ReplayPath() != "" {
		finish()
		return
	}
	nsSeg := func(k string) string {
		parts := strings.SplitN(k, "/", 3)
		if len(parts) == 3 && parts[0] == "namespaces" {
			return parts[0] + "/" + parts[1] + "/"
		}
		return ""
	}
	// Keys with an empty path segment ("/x", "a//b") are left out: with such an entry in
	// the mount the storage walk of a cross-namespace remount never terminates on the
	// unchanged tree (it re-lists the mount's root for the "" directory).  That is an
	// availability defect, not a confinement one: C12 has no opinion, DESIGN.md 8.5 notes it.
	var keys []string
	for _, k := range append([]string{"plain"}, c12Keys...) {
		if !strings.HasPrefix(k, "/") && !strings.Contains(k, "//") {
			keys = append(keys, k)
		}
	}
	res.Bound("key_shapes", len(keys))
	for i, key := range keys {
		for _, auth := range []bool{false, true} {
			if !vout.Mine(2*i + map[bool]int{false: 0, true: 1}[auth]) {
				continue
			}
			s := Build(t, Options{})
			s.mkNS(t, "ns1/", false)
			s.mkNS(t, "ns3/", false)
			ns1, ns3 := s.nsByPath(t, "ns1/"), s.nsByPath(t, "ns3/")
			sys, typ, pre := "sys/mounts/", "rec", ""
			if auth {
				sys, typ, pre = "sys/auth/", "recauth", "auth/"
			}
			s.Must(s.ReqNS(ns1, s.Root, logical.UpdateOperation, sys+"m", map[string]interface{}{"type": typ}))
			s.Must(s.ReqNS(ns1, s.Root, logical.UpdateOperation, sys+"other", map[string]interface{}{"type": typ}))
			s.Must(s.ReqNS(ns3, s.Root, logical.UpdateOperation, sys+"peer", map[string]interface{}{"type": typ}))
			probe := func(nsPath, mp, k string) string {
				before := s.Phys.Snapshot()
				s.Must(s.prog(s.nsByPath(t, nsPath), s.Root, mp, []map[string]interface{}{{"op": "put", "key": k}}))
				for pk := range s.Phys.Snapshot() {
					if _, ok := before[pk]; !ok {
						return pk
					}
				}
				return ""
			}
			mKey := probe("ns1/", pre+"m/", "probe-c12")
			oKey := probe("ns1/", pre+"other/", "probe-c12")
			pKey := probe("ns3/", pre+"peer/", "probe-c12")
			mPrefix := strings.TrimSuffix(mKey, "probe-c12")
			if mKey == "" || oKey == "" || pKey == "" || nsSeg(pKey) == "" || nsSeg(pKey) == nsSeg(mKey) {
				t.Fatalf("harness: could not discover prefixes (%q %q %q)", mKey, oKey, pKey)
			}
			// the key shape under test, written by the backend of the mount that is going to move
			r, e := s.prog(ns1, s.Root, pre+"m/", []map[string]interface{}{{"op": "put", "key": key}})
			stored := OK(r, e) && r != nil && fmt.Sprint(r.Data["results"]) == "[ok:]"
			outside := map[string]string{}
			for k, v := range s.Phys.Snapshot() {
				rest := strings.TrimPrefix(k, nsSeg(k)) // backend data lives under <namespace area>logical/<uuid>/ or auth/<uuid>/
				if !strings.HasPrefix(k, mPrefix) && (strings.HasPrefix(rest, "logical/") || strings.HasPrefix(rest, "auth/")) {
					outside[k] = string(v)
				}
			}
			art := map[string]interface{}{"key": key, "auth": auth, "stored": stored}
			resp, err := s.Req(s.Root, logical.UpdateOperation, "sys/remount", map[string]interface{}{"from": "ns1/" + pre + "m/", "to": "ns3/" + pre + "moved/"})
			res.Add("evaluations", 1)
			if !OK(resp, err) || resp == nil {
				res.Add("remount_refused", 1)
				res.Note("remount refused for %v: %s", art, ErrText(resp, err))
				s.Close()
				continue
			}
			mig, _ := resp.Data["migration_id"].(string)
			status := "in-progress"
			deadline := time.Now().Add(8 * time.Second)
			for time.Now().Before(deadline) {
				st, serr := s.Req(s.Root, logical.ReadOperation, "sys/remount/status/"+mig, nil)
				if OK(st, serr) && st != nil {
					if info, ok := st.Data["migration_info"].(map[string]interface{}); ok {
						status = fmt.Sprint(info["status"])
					} else {
						status = fmt.Sprint(st.Data["migration_info"])
					}
				}
				if !strings.Contains(status, "in-progress") {
					break
				}
				time.Sleep(5 * time.Millisecond)
			}
			// SAFETY (judged whatever the progress): nothing outside the moved mount's prefix may change
			violated := false
			now := s.Phys.Snapshot()
			for k, v := range outside {
				nv, ok := now[k]
				if !ok {
					res.Violate("c12:remount:moved-entries-of-another-mount", fmt.Sprintf("%v: remount ns1/%sm/ -> ns3/%smoved/ removed %q, an entry outside the moved mount's prefix %q (migration status %s)", art, pre, pre, k, mPrefix, status), art)
					violated = true
					break
				} else if string(nv) != v {
					res.Violate("c12:remount:changed-entries-of-another-mount", fmt.Sprintf("%v: remount changed %q outside the moved mount's prefix", art, k), art)
					violated = true
					break
				}
			}
			if !violated && strings.Contains(status, "in-progress") {
				// not finished within the grace period and no damage visible: no verdict
				res.Add("remount_unfinished", 1)
				res.Note("remount unfinished after the grace period: %v", art)
				res.NotExhaustive("a remount did not finish within the grace period")
			}
			if violated || strings.Contains(status, "in-progress") {
				// the migration goroutine may be spinning with the mounts lock held: leave the process
				res.Distinct("nontrivial", fmt.Sprintf("R|%s|%v|%s", keyShape(key), auth, "violated-or-unfinished"))
				finish()
				os.Exit(0)
			}
			if strings.Contains(status, "success") {
				before := s.Phys.Snapshot()
				r, e := s.prog(ns3, s.Root, pre+"moved/", []map[string]interface{}{{"op": "put", "key": "after-xns-remount"}, {"op": "get", "key": "probe-c12"}, {"op": "get", "key": key}})
				if OK(r, e) && r != nil {
					for k := range s.Phys.Snapshot() {
						if _, old := before[k]; old || !strings.HasSuffix(k, "/after-xns-remount") {
							continue
						}
						if nsSeg(k) != nsSeg(pKey) {
							res.Violate("c12:remount:mount-writes-outside-its-namespace", fmt.Sprintf("%v: after the remount a write through the mount (now in ns3, storage area %q) landed at %q (ns1's area is %q)", art, nsSeg(pKey), k, nsSeg(mKey)), art)
						}
					}
					if rs, ok := r.Data["results"].([]string); ok && len(rs) == 3 {
						if rs[1] != "ok:PROG-VALUE" {
							res.Violate("c12:remount:data-did-not-follow-the-mount", fmt.Sprintf("%v: the entry written before the remount reads %q at the new location", art, rs[1]), art)
						}
						if stored && rs[2] != "ok:PROG-VALUE" {
							res.Violate("c12:remount:odd-key-did-not-follow-the-mount", fmt.Sprintf("%v: the entry with key %q written before the remount reads %q at the new location", art, key, rs[2]), art)
						}
					}
				} else {
					res.Violate("c12:remount:moved-mount-unusable", fmt.Sprintf("%v: migration reported success but the mount does not answer at ns3/%smoved/: %s", art, pre, ErrText(r, e)), art)
				}
			} else {
				res.Add("remount_failed_status", 1)
				res.Note("remount of %v ended with status %s", art, status)
			}
			res.Distinct("nontrivial", fmt.Sprintf("R|%s|%v|%s", keyShape(key), auth, status))
			s.Close()
		}
	}
	finish()
}
