package core

// C19 part E: "at most n requests in total - counting DENIED and failed ones".  A
// use-limited token bound to an identity entity; the entity is disabled and enabled again
// between presentations of the token.  Every history (all sequences up to length n+3 over
// {present, disable entity, enable entity}) on a fresh server:
//
//	* a presentation is accepted only while the entity is enabled and fewer than n
//	  presentations (accepted OR refused) came before it;
//	* the backend handled at most n requests in total;
//	* after the n-th presentation the token is gone: refused even with the entity enabled
//	  again, and the lease of the secret it obtained is revoked after quiescence.

import (
	"fmt"
	"strings"
	"testing"
	"time"

	"github.com/openbao/openbao/sdk/v2/helper/verif/vout"
	"github.com/openbao/openbao/sdk/v2/logical"
)

func c19eImage(t *testing.T) *Image {
	s := Build(t, Options{})
	defer s.Close()
	s.Mount("rec/", "rec")
	s.EnableAuth("ra/", "recauth")
	s.WritePolicy("p19", c19Policy)
	s.Must(s.Req(s.Root, logical.UpdateOperation, "rec/kv/a", map[string]interface{}{"value": "A"}))
	return s.Image()
}

func c19eRun(t *testing.T, img *Image, n int, h string) (string, string, string) {
	s := Boot(t, img)
	defer s.Close()
	s.Rec.mu.Lock()
	s.Rec.LoginAuth = func(*logical.Request) *logical.Auth {
		return &logical.Auth{Policies: []string{"p19"}, Alias: &logical.Alias{Name: "e19"}, NumUses: n,
			LeaseOptions: logical.LeaseOptions{TTL: time.Hour, Renewable: true}}
	}
	s.Rec.mu.Unlock()
	defer func() {
		s.Rec.mu.Lock()
		s.Rec.LoginAuth = nil
		s.Rec.mu.Unlock()
	}()
	resp, err := s.Req("", logical.UpdateOperation, "auth/ra/login", map[string]interface{}{})
	if !OK(resp, err) || resp == nil || resp.Auth == nil || resp.Auth.EntityID == "" {
		t.Fatalf("harness: login did not return an entity-bound token: %s", ErrText(resp, err))
	}
	tok, entity := resp.Auth.ClientToken, resp.Auth.EntityID
	setDisabled := func(d bool) {
		s.Must(s.Req(s.Root, logical.UpdateOperation, "identity/entity/id/"+entity, map[string]interface{}{"disabled": d}))
	}
	enabled := true
	presented, accepted := 0, 0
	var secret string
	s.Rec.Reset()
	for i, ev := range h {
		switch ev {
		case 'D':
			setDisabled(true)
			enabled = false
		case 'E':
			setDisabled(false)
			enabled = true
		case 'P':
			before := s.Rec.NumOpCalls()
			r, e := s.Req(tok, logical.ReadOperation, "rec/lease/x", nil)
			ok := OK(r, e) && r != nil && r.Secret != nil
			handled := s.Rec.NumOpCalls() > before
			want := enabled && presented < n
			presented++
			// a secret leased on the FINAL use is not returned (other clause of the statement):
			// the n-th accepted presentation reaches the backend but hands nothing out
			final := presented == n
			switch {
			case handled && !want:
				return "request-authorised-beyond-the-limit", fmt.Sprintf("history %q step %d: presentation %d of a %d-use token reached the backend (entity enabled=%v)", h, i, presented, n, enabled), ""
			case want && !handled:
				return "live-token-refused", fmt.Sprintf("history %q step %d: presentation %d of a %d-use token with its entity enabled was refused: %s", h, i, presented, n, ErrText(r, e)), ""
			case ok && final:
				return "secret-returned-on-final-use", fmt.Sprintf("history %q step %d: the final use returned a leased secret", h, i), ""
			}
			if handled {
				accepted++
				if ok && r.Data != nil {
					secret, _ = r.Data["id"].(string)
				}
			}
		}
	}
	if presented >= n {
		s.Drain()
		if !enabled {
			setDisabled(false)
		}
		if s.Usable(tok) {
			return "token-alive-after-uses", fmt.Sprintf("history %q: after %d presentations of a %d-use token (entity enabled again, quiescence) the token is still accepted", h, presented, n), ""
		}
		if secret != "" && s.Rec.RevokedCount(secret) == 0 {
			return "lease-not-revoked-after-last-use", fmt.Sprintf("history %q: the token is spent but the secret it leased was never revoked", h), ""
		}
	}
	return "", "", fmt.Sprintf("n=%d presented=%d accepted=%d enabled=%v", n, presented, accepted, enabled)
}

func c19PartE(t *testing.T, res *vout.Result) {
	img := c19eImage(t)
	maxN := 2
	if vout.Thorough() {
		maxN = 3
	}
	res.Bound("entity_histories_max_n", maxN)
	count := 0
	for n := 1; n <= maxN; n++ {
		var rec func(h string)
		rec = func(h string) {
			if len(h) > 0 && strings.Contains(h, "P") {
				count++
				if vout.Mine(count) {
					sig, msg, key := c19eRun(t, img, n, h)
					res.Add("executions", 1)
					res.Add("entity_histories", 1)
					if sig != "" {
						res.Violate("c19:entity:"+sig, fmt.Sprintf("n=%d: %s", n, msg), map[string]interface{}{"part": "E", "n": n, "history": h})
					} else {
						res.Distinct("nontrivial", "E|"+key)
					}
				}
			}
			if len(h) == n+3 {
				return
			}
			for _, ev := range "PDE" {
				// toggling to the state already in force adds nothing
				if ev == 'E' && !strings.Contains(h, "D") {
					continue
				}
				rec(h + string(ev))
			}
		}
		rec("")
	}
}
