package core

// C05 part W: "every lease present in storage is tracked for expiry ... including after
// restart" while the restart's lease restore is still running. One restore worker is
// pinned right after it has read lease L from storage (physx.HoldGets); a renewal of L
// (shortening it to 60 s) is issued meanwhile; the worker is released. Two orders are
// possible and both are driven: the renewal waits for the worker (it must, the restore
// holds the lease's restore lock), or - if it does not wait - it completes first and the
// worker then continues with its stale copy. In both cases, once the restore has finished,
// the expiry the manager TRACKS for L must be the expiry STORED for L: a lease tracked
// with a later expiry than the stored one is not revoked when its real expiry passes.
// This is a targeted pair of schedules, not an exhaustive exploration: the restore
// workers are the server's own goroutines, outside the cooperative scheduler.

import (
	"fmt"
	"testing"
	"time"

	"github.com/openbao/openbao/sdk/v2/helper/verif/vout"
	"github.com/openbao/openbao/sdk/v2/logical"
	"github.com/openbao/openbao/v2/internal/vault"
)

func c05wPart(t *testing.T, res *vout.Result) {
	for _, noCache := range []bool{true, false} {
		s0 := Build(t, Options{NoCache: noCache})
		s0.Mount("rec/", "rec")
		lr := s0.Must(s0.Req(s0.Root, logical.ReadOperation, "rec/lease/x", map[string]interface{}{"ttl": 3600, "max_ttl": 7200}))
		leaseID := lr.Secret.LeaseID
		img := s0.Image()
		s0.Close()

		s, err := BootSealed(t, img.Data, img)
		if err != nil {
			t.Fatalf("harness: %v", err)
		}
		if noCache {
			s.Core.VerifDisablePhysicalCache()
		}
		release := s.Phys.HoldGets("sys/expire/id/rec/lease/")
		for _, k := range img.Keys {
			if _, uerr := vault.TestCoreUnseal(s.Core, vault.TestKeyCopy(k)); uerr != nil {
				t.Fatalf("harness: unseal: %v", uerr)
			}
		}
		s.hookExpiry()
		pinned := false
		for t0 := time.Now(); time.Since(t0) < 20*time.Second; time.Sleep(200 * time.Microsecond) {
			if s.Phys.Held() > 0 {
				pinned = true
				break
			}
			if s.Core.VerifExpiration().VerifRestoreDone() {
				break
			}
		}
		if !pinned {
			release()
			res.Note("part W (nocache=%v): no restore worker read the lease record from storage; nothing judged", noCache)
			s.Close()
			continue
		}
		done := make(chan string, 1)
		go func() {
			r, e := s.Req(s.Root, logical.UpdateOperation, "sys/leases/renew", map[string]interface{}{"lease_id": leaseID, "increment": 60})
			done <- ErrText(r, e)
		}()
		order := "renewal-waited-for-the-restore-worker"
		select {
		case <-done:
			order = "renewal-overtook-the-pinned-restore-worker"
			done <- ""
		case <-time.After(300 * time.Millisecond):
		}
		release()
		select {
		case <-done:
		case <-time.After(30 * time.Second):
			res.Note("part W: the renewal did not return within 30 s after the worker was released")
			res.NotExhaustive("part W liveness")
		}
		s.settle()
		res.Add("executions", 1)
		res.Add("evaluations", 1)
		res.Add("W_runs", 1)
		_, stored, ok := c05ReadLease(s, leaseID)
		cached, tracked := s.Core.VerifExpiration().VerifCachedExpiry(leaseID)
		art := map[string]interface{}{"part": "W", "nocache": noCache, "order": order}
		switch {
		case !ok:
			// the lease is gone: nothing to track
		case !tracked:
			res.Violate("c05:restore:lease-not-tracked-after-restore", fmt.Sprintf("%v: lease %s is stored but not in the pending set after the restore finished", art, leaseID), art)
		case cached.Sub(stored.ExpireTime) > 5*time.Second:
			res.Violate("c05:restore:tracked-with-later-expiry-than-stored", fmt.Sprintf("%v: lease %s is stored with expiry in %v but tracked with expiry in %v: it will not be revoked when its stored expiry passes", art, leaseID, time.Until(stored.ExpireTime).Round(time.Second), time.Until(cached).Round(time.Second)), art)
		}
		res.Distinct("nontrivial", fmt.Sprintf("W|nocache=%v|%s", noCache, order))
		s.Close()
	}
}
