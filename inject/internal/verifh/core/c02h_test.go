package core

// C02 part H: explicit-state BFS over histories of management operations.  The reference state
// is a pure model (policies, token liveness, entity, group, namespace lock, mount location);
// every transition (representative history of a state + one operation) is replayed on a fresh
// Core booted from one image, a probe battery runs after every step and is judged after the
// last one in BOTH directions: refused where the reference refuses, granted where it grants
// ("honoured by the very next request" - this is what catches stale caches either way).

import (
	"encoding/json"
	"fmt"
	"os"
	"strings"
	"testing"
	"time"

	"github.com/openbao/openbao/sdk/v2/helper/verif/c03ref"
	"github.com/openbao/openbao/sdk/v2/helper/verif/vout"
	"github.com/openbao/openbao/sdk/v2/logical"
	"github.com/openbao/openbao/v2/internal/helper/namespace"
)

type c02HState struct {
	P      int // policy hp: 0 absent, 1 full, 2 restricted
	Q      bool
	T1     bool // alive
	TE     bool
	EDis   bool
	EPol   bool
	InG    bool
	Locked bool
	Moved  bool
}

func c02HInit() c02HState { return c02HState{P: 1, T1: true, TE: true} }

func (s c02HState) key() string {
	return fmt.Sprintf("P%d Q%v T1%v TE%v dis%v epol%v grp%v lock%v moved%v", s.P, s.Q, s.T1, s.TE, s.EDis, s.EPol, s.InG, s.Locked, s.Moved)
}

var c02HOps = []string{"permit-P", "restrict-P", "delete-P", "grant-Q", "delete-Q", "revoke-T1", "revoke-self-T1", "revoke-accessor-TE",
	"disable-E", "enable-E", "grant-identity-policy", "drop-identity-policy", "join-group", "leave-group", "lock-ns1", "unlock-ns1", "remount", "tune-m", "patch-P-refused"}

func c02HNext(s c02HState, op string) c02HState {
	switch op {
	case "permit-P":
		s.P = 1
	case "restrict-P":
		s.P = 2
	case "delete-P":
		s.P = 0
	case "grant-Q":
		s.Q = true
	case "delete-Q":
		s.Q = false
	case "revoke-T1", "revoke-self-T1":
		s.T1 = false
	case "revoke-accessor-TE":
		s.TE = false
	case "disable-E":
		s.EDis = true
	case "enable-E":
		s.EDis = false
	case "grant-identity-policy":
		s.EPol = true
	case "drop-identity-policy":
		s.EPol = false
	case "join-group":
		s.InG = true
	case "leave-group":
		s.InG = false
	case "lock-ns1":
		s.Locked = true
	case "unlock-ns1":
		s.Locked = false
	case "remount":
		s.Moved = !s.Moved
	case "tune-m":
	case "patch-P-refused":
		// a PATCH of the policy carrying the full grant but a stale check-and-set value: it
		// is refused, nothing changes
	default:
		panic("unknown op " + op)
	}
	return s
}

var (
	c02PFull       = []c03ref.Stanza{c02St("m/kv/*", "read", "list", "update", "create", "delete")}
	c02PRestricted = []c03ref.Stanza{c02St("m/kv/a", "read"), c02St("m/kv/b", "deny")}
	c02PQ          = []c03ref.Stanza{c02St("m/kv/b", "read"), c02St("mm/kv/*", "read", "list")}
	c02PR          = []c03ref.Stanza{c02St("m/rootonly/*", "read", "sudo")}
)

type c02HSetup struct {
	img      *Image
	tmpl     *c02World // namespaces, mounts, static policies
	nsObj    map[string]*namespace.Namespace
	T1       string
	TE       string
	TEacc    string
	TB       string
	Tns      string
	EntityID string
	GroupID  string
}

func c02BuildH(t *testing.T) *c02HSetup {
	s := Build(t, Options{})
	f := c02Base(t, s)
	defer func() { f.s.Close() }()
	f.seed("", "m/kv/a", c02Canary+"m-a")
	f.seed("", "m/kv/b", c02Canary+"m-b")
	f.seed("", "m/kv/d", c02Canary+"m-d")
	f.seed("", "m/rootonly/r", c02Canary+"m-rootonly")
	f.seed("", "m/open/x", "OPEN-m-x")
	f.seed("", "mm/kv/a", c02Canary+"mm-a")
	f.seed("ns1/", "m/kv/a", c02Canary+"ns1-m-a")
	for _, n := range f.w.NS {
		f.policy(n, "default", c02St("auth/token/lookup-self", "read"), c02St("auth/token/revoke-self", "update"))
	}
	f.policy("", "hp", c02PFull...)
	f.policy("", "hr", c02PR...)
	f.policy("ns1/", "pns", c02St("m/kv/*", "read", "list"))
	st := &c02HSetup{tmpl: f.w, nsObj: f.nsObj}
	st.T1, _ = f.create("", s.Root, map[string]interface{}{"policies": []string{"default", "hp", "hq"}})
	c02LoginSpecs["h-svc"] = func() *logical.Auth {
		return &logical.Auth{Policies: []string{"default"}, Alias: &logical.Alias{Name: "e1"}, LeaseOptions: logical.LeaseOptions{TTL: 100 * time.Hour, Renewable: true}}
	}
	c02LoginSpecs["h-batch"] = func() *logical.Auth {
		return &logical.Auth{Policies: []string{"default"}, Alias: &logical.Alias{Name: "e1"}, TokenType: logical.TokenTypeBatch, LeaseOptions: logical.LeaseOptions{TTL: 100 * time.Hour}}
	}
	a := f.login("", "auth/a/login", "h-svc")
	st.TE, st.TEacc, st.EntityID = a.ClientToken, a.Accessor, a.EntityID
	b := f.login("", "auth/a/login", "h-batch")
	st.TB = b.ClientToken
	if st.EntityID == "" || b.EntityID != st.EntityID {
		t.Fatalf("harness: login did not bind the tokens to one entity (%q %q)", st.EntityID, b.EntityID)
	}
	st.Tns, _ = f.create("ns1/", s.Root, map[string]interface{}{"policies": []string{"default", "pns"}})
	resp := s.Must(s.Req(s.Root, logical.UpdateOperation, "identity/group", map[string]interface{}{"name": "g1", "policies": []string{"hr"}}))
	if resp != nil && resp.Data != nil {
		st.GroupID, _ = resp.Data["id"].(string)
	}
	if st.GroupID == "" {
		t.Fatalf("harness: group not created")
	}
	st.img = f.s.Image()
	return st
}

// world builds the reference for a model state.
func (st *c02HSetup) world(m c02HState) *c02World {
	w := &c02World{NS: st.tmpl.NS, Locked: map[string]bool{"ns1/": m.Locked}, Pols: map[string]c03ref.Pol{}, Ents: map[string]*c02Entity{}, Groups: map[string][]string{"g1": {"hr"}}}
	for k, p := range st.tmpl.Pols {
		if k != "|hp" && k != "|hq" {
			w.Pols[k] = p
		}
	}
	switch m.P {
	case 1:
		w.Pols["|hp"] = c03ref.Pol{Rules: c02PFull}
	case 2:
		w.Pols["|hp"] = c03ref.Pol{Rules: c02PRestricted}
	}
	if m.Q {
		w.Pols["|hq"] = c03ref.Pol{Rules: c02PQ}
	}
	for _, mo := range st.tmpl.Mounts {
		if mo.Abs == "mm/" && m.Moved {
			cp := *mo
			cp.Abs = "mv/"
			w.Mounts = append(w.Mounts, &cp)
			continue
		}
		w.Mounts = append(w.Mounts, mo)
	}
	e := &c02Entity{Disabled: m.EDis}
	if m.EPol {
		e.Pols = []string{"hq"}
	}
	if m.InG {
		e.Groups = []string{"g1"}
	}
	w.Ents["e1"] = e
	return w
}

func (st *c02HSetup) creds(m c02HState, root string) map[string]*c02Cred {
	return map[string]*c02Cred{
		"T1":     {Name: "T1", Class: "service", Kind: "service", Token: st.T1, Live: m.T1, Why: "revoked", Pols: []string{"default", "hp", "hq"}},
		"TE":     {Name: "TE", Class: "service-entity", Kind: "service", Token: st.TE, Live: m.TE, Why: "revoked", Pols: []string{"default"}, Entity: "e1"},
		"TB":     {Name: "TB", Class: "batch-entity", Kind: "batch", Token: st.TB, Live: true, Pols: []string{"default"}, Entity: "e1"},
		"Tns":    {Name: "Tns", Class: "namespace", Kind: "service", Token: st.Tns, Live: true, NS: "ns1/", Pols: []string{"default", "pns"}},
		"root":   {Name: "root", Class: "root", Kind: "service", Token: root, Live: true, Root: true},
		"absent": {Name: "absent", Class: "absent", Kind: "none", Why: "absent"},
	}
}

type c02BItem struct {
	Cred string
	Ctx  string
	Path string
	Op   logical.Operation
}

func (b c02BItem) String() string { return fmt.Sprintf("%s:%s:%s%s", b.Cred, b.Op, b.Ctx, b.Path) }

var c02Battery = []c02BItem{
	{"T1", "", "m/kv/a", logical.ReadOperation}, {"T1", "", "m/kv/a", logical.UpdateOperation}, {"T1", "", "m/kv/b", logical.ReadOperation},
	{"T1", "", "m/kv/", logical.ListOperation}, {"T1", "", "m/kv/d", logical.DeleteOperation}, {"T1", "", "mm/kv/a", logical.ReadOperation},
	{"T1", "", "mv/kv/a", logical.ReadOperation}, {"T1", "", "m/rootonly/r", logical.ReadOperation}, {"T1", "", "auth/token/lookup-self", logical.ReadOperation},
	{"T1", "", "ns1/m/kv/a", logical.ReadOperation}, {"T1", "", "m/kv/", logical.ScanOperation}, {"T1", "", "m/kv/a", logical.PatchOperation},
	{"TE", "", "m/kv/a", logical.ReadOperation}, {"TE", "", "m/kv/b", logical.ReadOperation}, {"TE", "", "mm/kv/a", logical.ReadOperation},
	{"TE", "", "mm/kv/", logical.ListOperation}, {"TE", "", "m/rootonly/r", logical.ReadOperation}, {"TE", "", "auth/token/lookup-self", logical.ReadOperation},
	{"TE", "", "m/kv/b", logical.UpdateOperation}, {"TE", "", "m/kv/b", logical.DeleteOperation},
	{"TB", "", "m/kv/b", logical.ReadOperation}, {"TB", "", "mm/kv/a", logical.ReadOperation}, {"TB", "", "m/rootonly/r", logical.ReadOperation},
	{"TB", "", "auth/token/lookup-self", logical.ReadOperation}, {"TB", "", "mm/kv/", logical.ListOperation}, {"TB", "", "mm/kv/a", logical.UpdateOperation},
	{"Tns", "ns1/", "m/kv/a", logical.ReadOperation}, {"Tns", "ns1/", "auth/token/lookup-self", logical.ReadOperation}, {"Tns", "", "ns1/m/kv/a", logical.ReadOperation},
	{"Tns", "", "m/kv/a", logical.ReadOperation}, {"Tns", "ns1/", "m/kv/a", logical.UpdateOperation}, {"Tns", "ns1/", "m/kv/", logical.ListOperation},
	{"root", "", "mm/kv/a", logical.ReadOperation}, {"root", "", "mv/kv/a", logical.ReadOperation}, {"root", "ns1/", "m/kv/a", logical.ReadOperation},
	{"root", "", "m/kv/b", logical.ReadOperation}, {"root", "", "m/rootonly/r", logical.ReadOperation},
	{"absent", "", "m/kv/a", logical.ReadOperation}, {"absent", "", "m/open/x", logical.ReadOperation}, {"absent", "ns1/", "m/kv/a", logical.ReadOperation},
	{"absent", "", "auth/token/lookup-self", logical.ReadOperation},
}

// c02HRun is one live system of the H / S parts.
type c02HRun struct {
	st   *c02HSetup
	drv  *c02Driver
	root string
}

func (st *c02HSetup) boot(t *testing.T, img *Image) *c02HRun {
	s := Boot(t, img)
	d := &c02Driver{t: t, s: s, nsObj: st.nsObj}
	return &c02HRun{st: st, drv: d, root: s.Root}
}

// apply performs one management operation as root; m is the state BEFORE it.
func (r *c02HRun) apply(op string, m c02HState) (bool, string) {
	s := r.drv.s
	var resp *logical.Response
	var err error
	switch op {
	case "permit-P":
		resp, err = s.Req(s.Root, logical.UpdateOperation, "sys/policies/acl/hp", map[string]interface{}{"policy": c02HCL(c02PFull)})
	case "restrict-P":
		resp, err = s.Req(s.Root, logical.UpdateOperation, "sys/policies/acl/hp", map[string]interface{}{"policy": c02HCL(c02PRestricted)})
	case "delete-P":
		resp, err = s.Req(s.Root, logical.DeleteOperation, "sys/policies/acl/hp", nil)
	case "patch-P-refused":
		resp, err = s.Req(s.Root, logical.PatchOperation, "sys/policies/acl/hp", map[string]interface{}{"policy": c02HCL(append(append([]c03ref.Stanza{}, c02PFull...), c02PR...)), "cas": 987654})
		if OK(resp, err) && m.P != 0 {
			return false, "a policy PATCH with a stale cas value was accepted"
		}
		return true, ""
	case "grant-Q":
		resp, err = s.Req(s.Root, logical.UpdateOperation, "sys/policies/acl/hq", map[string]interface{}{"policy": c02HCL(c02PQ)})
	case "delete-Q":
		resp, err = s.Req(s.Root, logical.DeleteOperation, "sys/policies/acl/hq", nil)
	case "revoke-T1":
		resp, err = s.Req(s.Root, logical.UpdateOperation, "auth/token/revoke", map[string]interface{}{"token": r.st.T1})
	case "revoke-self-T1":
		resp, err = s.Req(r.st.T1, logical.UpdateOperation, "auth/token/revoke-self", nil)
		if !m.T1 {
			return true, "" // refused: the token is dead already
		}
	case "revoke-accessor-TE":
		resp, err = s.Req(s.Root, logical.UpdateOperation, "auth/token/revoke-accessor", map[string]interface{}{"accessor": r.st.TEacc})
		if !m.TE {
			return true, "" // "invalid accessor" once the token is gone
		}
	case "disable-E":
		resp, err = s.Req(s.Root, logical.UpdateOperation, "identity/entity/id/"+r.st.EntityID, map[string]interface{}{"disabled": true})
	case "enable-E":
		resp, err = s.Req(s.Root, logical.UpdateOperation, "identity/entity/id/"+r.st.EntityID, map[string]interface{}{"disabled": false})
	case "grant-identity-policy":
		resp, err = s.Req(s.Root, logical.UpdateOperation, "identity/entity/id/"+r.st.EntityID, map[string]interface{}{"policies": []string{"hq"}})
	case "drop-identity-policy":
		resp, err = s.Req(s.Root, logical.UpdateOperation, "identity/entity/id/"+r.st.EntityID, map[string]interface{}{"policies": []string{}})
	case "join-group":
		resp, err = s.Req(s.Root, logical.UpdateOperation, "identity/group/id/"+r.st.GroupID, map[string]interface{}{"member_entity_ids": []string{r.st.EntityID}})
	case "leave-group":
		resp, err = s.Req(s.Root, logical.UpdateOperation, "identity/group/id/"+r.st.GroupID, map[string]interface{}{"member_entity_ids": []string{}})
	case "lock-ns1":
		resp, err = s.Req(s.Root, logical.UpdateOperation, "sys/namespaces/api-lock/lock/ns1", nil)
		if m.Locked {
			return true, ""
		}
	case "unlock-ns1":
		resp, err = s.Req(s.Root, logical.UpdateOperation, "sys/namespaces/api-lock/unlock/ns1", nil)
		if !m.Locked {
			return true, ""
		}
	case "remount":
		from, to := "mm/", "mv/"
		if m.Moved {
			from, to = "mv/", "mm/"
		}
		resp, err = s.Req(s.Root, logical.UpdateOperation, "sys/remount", map[string]interface{}{"from": from, "to": to})
		if OK(resp, err) && resp != nil && resp.Data != nil {
			// asynchronous: "the next request" is the next one after completion was reported
			id, _ := resp.Data["migration_id"].(string)
			done := false
			for t0 := time.Now(); time.Since(t0) < 30*time.Second && !done; {
				sr, se := s.Req(s.Root, logical.ReadOperation, "sys/remount/status/"+id, nil)
				if OK(sr, se) && sr != nil && sr.Data != nil {
					status := fmt.Sprint(sr.Data["migration_info"])
					if info, ok := sr.Data["migration_info"].(map[string]interface{}); ok {
						status = fmt.Sprint(info["status"])
					}
					if strings.Contains(status, "success") {
						done = true
					} else if strings.Contains(status, "failure") {
						return false, "remount reported failure"
					}
				}
				if !done {
					time.Sleep(500 * time.Microsecond)
				}
			}
			if !done {
				return false, "remount did not complete"
			}
		}
	case "tune-m":
		resp, err = s.Req(s.Root, logical.UpdateOperation, "sys/mounts/m/tune", map[string]interface{}{"description": "tuned", "listing_visibility": "unauth"})
	default:
		return false, "unknown operation " + op
	}
	return OK(resp, err), ErrText(resp, err)
}

type c02BRes struct {
	Item c02BItem
	Eff  *c02Eff
	Dec  *c02Dec
}

// battery issues the probe battery; judge=false only warms / keeps the hidden state in step.
func (r *c02HRun) battery(m c02HState) []c02BRes {
	w := r.st.world(m)
	creds := r.st.creds(m, r.root)
	var out []c02BRes
	r.drv.resnap()
	for _, it := range c02Battery {
		c := creds[it.Cred]
		eff := r.drv.do(it.Ctx, "", it.Path, it.Op, c)
		out = append(out, c02BRes{it, eff, w.decide(it.Ctx, "", it.Path, c, c.addr())})
	}
	return out
}

// c02JudgeBattery: both directions.  Returns violations and the canonical outcome string.
func c02JudgeBattery(part, lastOp string, rs []c02BRes, creds map[string]*c02Cred, res *vout.Result) ([]c02Vio, string) {
	var out []c02Vio
	var oc []string
	for _, b := range rs {
		c := creds[b.Item.Cred]
		allow, _ := b.Dec.AllowsResp(b.Item.Op)
		// (part S: the battery also runs in executions of shared schedule prefixes that every shard
		// executes; only part-specific counters are bumped there)
		if part == "H" {
			res.Add("evaluations", 1)
		}
		res.Add(part+"_battery_requests", 1)
		if allow {
			res.Add(part+"_reference_allows", 1)
		} else {
			res.Add(part+"_reference_refuses", 1)
		}
		if part == "H" {
			if allow {
				res.Add("reference_allows", 1)
			} else {
				res.Add("reference_refuses", 1)
			}
			if len(b.Eff.Ops) > 0 {
				res.Add("handler_invoked", 1)
			}
			if b.Eff.OK {
				res.Add("ok_responses", 1)
			} else {
				res.Add("error_responses", 1)
			}
		}
		if b.Eff.OK {
			oc = append(oc, "1")
		} else {
			oc = append(oc, "0")
		}
		for _, v := range c02Judge(part, b.Dec, b.Item.Op, c, b.Eff) {
			v.Desc = fmt.Sprintf("probe %s: %s", b.Item, v.Desc)
			out = append(out, v)
		}
		if allow && !b.Eff.OK {
			out = append(out, c02Vio{fmt.Sprintf("c02:%s:grant-not-honoured:%s:%s", part, lastOp, c.Kind),
				fmt.Sprintf("probe %s is granted by the reference state but was refused: %s", b.Item, b.Eff.Err)})
		} else if allow && b.Dec.Mount != nil && (b.Dec.Mount.Kind == "rec" || b.Dec.Mount.Kind == "recauth") && len(b.Eff.Ops) == 0 {
			out = append(out, c02Vio{fmt.Sprintf("c02:%s:grant-not-honoured:%s:%s", part, lastOp, c.Kind),
				fmt.Sprintf("probe %s is granted by the reference state, answered without error, but the backend was never invoked", b.Item)})
		}
	}
	return out, strings.Join(oc, "")
}

type c02HArt struct {
	Part string   `json:"part"`
	Hist []string `json:"history"`
}

// c02HReplay replays one history; judges the battery after the last step.
func c02HReplay(t *testing.T, st *c02HSetup, hist []string, res *vout.Result) ([]c02Vio, string, string) {
	r := st.boot(t, st.img)
	defer r.drv.s.Close()
	m := c02HInit()
	var rs []c02BRes
	for i, op := range hist {
		ok, txt := r.apply(op, m)
		if !ok {
			return nil, "", fmt.Sprintf("management operation %s (step %d of %v) failed: %s", op, i, hist, txt)
		}
		m = c02HNext(m, op)
		rs = r.battery(m)
	}
	if len(hist) == 0 {
		rs = r.battery(m)
	}
	last := "initial"
	if len(hist) > 0 {
		last = hist[len(hist)-1]
	}
	vs, oc := c02JudgeBattery("H", last, rs, st.creds(m, r.root), res)
	return vs, oc, ""
}

func c02PartH(t *testing.T, res *vout.Result, deadline time.Time) {
	st := c02BuildH(t)
	depth := 3
	if vout.Thorough() {
		depth = 5
	}
	if v := os.Getenv("VERIF_C02_DEPTH"); v != "" {
		fmt.Sscan(v, &depth)
	}
	res.Bound("H_depth", depth)
	res.Bound("H_alphabet", len(c02HOps))
	res.Bound("H_battery_requests", len(c02Battery))
	// ---- pure BFS over the reference model: states with their shortest history
	type node struct {
		st   c02HState
		hist []string
	}
	seen := map[string]bool{c02HInit().key(): true}
	frontier := []node{{c02HInit(), nil}}
	var expand []node // every state whose outgoing transitions are replayed
	nstates := 1
	for d := 0; d < depth; d++ {
		var next []node
		for _, n := range frontier {
			expand = append(expand, n)
			for _, op := range c02HOps {
				ns := c02HNext(n.st, op)
				if !seen[ns.key()] {
					seen[ns.key()] = true
					nstates++
					next = append(next, node{ns, append(append([]string{}, n.hist...), op)})
				}
			}
		}
		frontier = next
	}
	res.Bound("H_states", nstates)
	res.Bound("H_transitions", len(expand)*len(c02HOps))
	res.Max("depth", int64(depth))
	k := 0
	// the initial state's own battery
	if vout.Mine(0) {
		vs, oc, herr := c02HReplay(t, st, nil, res)
		if herr != "" {
			t.Fatalf("harness: %s", herr)
		}
		res.Distinct("battery_outcomes", oc)
		for _, v := range vs {
			res.Violate(v.Sig, "initial state: "+v.Desc, c02HArt{"H", nil})
		}
	}
	for si, n := range expand {
		if vout.Mine(si) {
			res.Add("states", 1)
		}
		for _, op := range c02HOps {
			k++
			if !vout.Mine(k) {
				continue
			}
			if time.Now().After(deadline) {
				res.NotExhaustive("part H: internal deadline reached")
				return
			}
			if k%64 == 0 && c02MemMB() > c02MemBudgetMB {
				res.NotExhaustive(fmt.Sprintf("part H: memory budget of this worker reached after %d transitions (shut-down Cores are not reclaimed)", k))
				return
			}
			hist := append(append([]string{}, n.hist...), op)
			vs, oc, herr := c02HReplay(t, st, hist, res)
			res.Add("transitions", 1)
			res.Add("H_transitions_replayed", 1)
			if herr != "" {
				res.Add("harness_errors", 1)
				res.Note("part H: %s", herr)
				res.NotExhaustive("part H: a management operation failed")
				continue
			}
			after := c02HNext(n.st, op)
			res.Distinct("battery_outcomes", oc)
			res.Distinct("nontrivial", "H|"+after.key()+"|"+op+"|"+oc)
			for _, v := range vs {
				res.Violate(v.Sig, fmt.Sprintf("history %v (reference state %s): %s", hist, after.key(), v.Desc), c02HArt{"H", hist})
			}
			if k%211 == 0 {
				res.Sample(map[string]interface{}{"history": hist, "state": after.key(), "battery": oc})
			}
		}
	}
}

// ---------------------------------------------------------------- replay of artefacts

func c02Replay(t *testing.T, res *vout.Result) {
	b, err := os.ReadFile(vout.ReplayPath())
	if err != nil {
		t.Fatal(err)
	}
	var art struct {
		Replay map[string]json.RawMessage `json:"replay"`
	}
	if err := json.Unmarshal(b, &art); err != nil {
		t.Fatal(err)
	}
	switch {
	case art.Replay["scenario"] != nil:
		var rp SchedReplay
		if _, err := vout.LoadReplay(&rp); err != nil {
			t.Fatal(err)
		}
		c02ReplayS(t, res, rp)
	case art.Replay["history"] != nil:
		var h c02HArt
		if _, err := vout.LoadReplay(&h); err != nil {
			t.Fatal(err)
		}
		st := c02BuildH(t)
		vs, _, herr := c02HReplay(t, st, h.Hist, res)
		if herr != "" {
			t.Fatalf("harness: %s", herr)
		}
		for _, v := range vs {
			res.Violate(v.Sig, v.Desc, h)
		}
	default:
		t.Log("C02 part L artefacts name (credential, channel, path form, operation); the enumeration is deterministic: re-run the check with VERIF_PART=L")
	}
}
