package core

// C07 part N: the namespace dimension of the quantifier ("all parent tokens
// (policies, TTL, uses, type, namespace)").
//
//   same    parents that live IN ns1 create tokens in ns1: the never-clauses are
//           those of the root namespace (judged by c07Judge);
//   cross   parents that live in the ROOT namespace create tokens in ns1 through
//           ns1/auth/token/create[-orphan]: a caller without sudo must be refused
//           (the child could only carry policies of ns1, which its parent does not
//           have), and a root token is never produced, whoever asks.

import (
	"fmt"
	"sort"
	"testing"

	"github.com/openbao/openbao/sdk/v2/helper/verif/vout"
	"github.com/openbao/openbao/sdk/v2/logical"
)

func c07PartN(t *testing.T, s *Sys, res *vout.Result, count *int, paramsA []c07Params) {
	s.mkNS(t, "ns1/", false)
	ns1 := s.nsByPath(t, "ns1/")
	for name, hcl := range map[string]string{
		"p1": `path "rec/a" { capabilities = ["read"] }`,
		"p2": `path "rec/b" { capabilities = ["read"] }`,
		"creator": `path "auth/token/create" { capabilities = ["update"] }
path "auth/token/create-orphan" { capabilities = ["update"] }`,
		"sudocreator": `path "auth/token/create" { capabilities = ["update", "sudo"] }
path "auth/token/create-orphan" { capabilities = ["update", "sudo"] }`,
	} {
		s.Must(s.ReqNS(ns1, s.Root, logical.UpdateOperation, "sys/policies/acl/"+name, map[string]interface{}{"policy": hcl}))
	}
	s.WritePolicy("nscreator", `path "ns1/auth/token/create" { capabilities = ["update"] }
path "ns1/auth/token/create/*" { capabilities = ["update"] }
path "ns1/auth/token/create-orphan" { capabilities = ["update"] }`)
	s.WritePolicy("nssudocreator", `path "ns1/auth/token/create" { capabilities = ["update", "sudo"] }
path "ns1/auth/token/create/*" { capabilities = ["update", "sudo"] }
path "ns1/auth/token/create-orphan" { capabilities = ["update", "sudo"] }`)
	// token roles of ns1 (used through ns1/auth/token/create/<role> by callers of the root namespace)
	s.Must(s.ReqNS(ns1, s.Root, logical.UpdateOperation, "auth/token/roles/nr-empty", map[string]interface{}{}))
	s.Must(s.ReqNS(ns1, s.Root, logical.UpdateOperation, "auth/token/roles/nr-allow-p1", map[string]interface{}{"allowed_policies": "p1"}))
	s.Must(s.ReqNS(ns1, s.Root, logical.UpdateOperation, "auth/token/roles/nr-orphan", map[string]interface{}{"orphan": true}))

	mkIn := func(inNS bool, data map[string]interface{}) func() string {
		return func() string {
			var resp *logical.Response
			var err error
			if inNS {
				resp, err = s.ReqNS(ns1, s.Root, logical.UpdateOperation, "auth/token/create", data)
			} else {
				resp, err = s.Req(s.Root, logical.UpdateOperation, "auth/token/create", data)
			}
			if !OK(resp, err) || resp == nil || resp.Auth == nil {
				t.Fatalf("harness: parent creation failed: %s", ErrText(resp, err))
			}
			return resp.Auth.ClientToken
		}
	}
	type nsParent struct {
		c07Parent
		inNS bool
		mkN  func() string
	}
	parents := []nsParent{
		{c07Parent{Name: "ns1:default+p1", Policies: []string{"default", "p1", "creator"}}, true, mkIn(true, map[string]interface{}{"policies": []string{"p1", "creator"}, "ttl": "2h"})},
		{c07Parent{Name: "ns1:sudo-creator", Policies: []string{"default", "p1", "sudocreator"}, Sudo: true}, true, mkIn(true, map[string]interface{}{"policies": []string{"p1", "sudocreator"}, "ttl": "2h"})},
		{c07Parent{Name: "ns1:use-limited", Policies: []string{"default", "p1", "creator"}, Limited: true}, true, mkIn(true, map[string]interface{}{"policies": []string{"p1", "creator"}, "ttl": "2h", "num_uses": 5})},
		{c07Parent{Name: "root-ns:nscreator", Policies: []string{"default", "p1", "nscreator"}}, false, mkIn(false, map[string]interface{}{"policies": []string{"p1", "nscreator"}, "ttl": "2h"})},
		{c07Parent{Name: "root-ns:nssudocreator", Policies: []string{"default", "p1", "nssudocreator"}, Sudo: true}, false, mkIn(false, map[string]interface{}{"policies": []string{"p1", "nssudocreator"}, "ttl": "2h"})},
		{c07Parent{Name: "root-ns:root", Policies: []string{"root"}, Root: true, Sudo: true, NeverExp: true}, false, func() string { return s.Root }},
	}
	for _, par := range parents {
		for _, endpoint := range []string{"create", "create-orphan", "create/nr-empty", "create/nr-allow-p1", "create/nr-orphan"} {
			if par.inNS && len(endpoint) > len("create-orphan") {
				continue // roles inside one namespace are part R's business
			}
			for pi, p := range paramsA {
				if len(endpoint) > len("create-orphan") && pi%4 != 1 && !vout.Thorough() {
					continue
				}
				if endpoint == "create-orphan" && pi%4 != 0 && !vout.Thorough() {
					continue
				}
				*count++
				if !vout.Mine(*count) {
					continue
				}
				tok := par.mkN()
				d := p.data()
				if p.ID != "" {
					d["id"] = fmt.Sprintf("%s-n%d", p.ID, *count)
				}
				resp, err := s.ReqNS(ns1, tok, logical.UpdateOperation, "auth/token/"+endpoint, d)
				res.Add("evaluations", 1)
				art := map[string]interface{}{"parent": par.Name, "namespace": "ns1/", "endpoint": endpoint, "params": p}
				if !OK(resp, err) || resp == nil || resp.Auth == nil {
					res.Add("refused", 1)
					res.Distinct("nontrivial", fmt.Sprintf("N|%s|%s|refused|%s", par.Name, endpoint, c07ErrClass(ErrText(resp, err))))
					continue
				}
				res.Add("created", 1)
				m := &c07Made{id: resp.Auth.ClientToken, policies: append([]string{}, resp.Auth.Policies...), tokenType: resp.Auth.TokenType.String(), ttl: resp.Auth.TTL.Seconds()}
				if lr, lerr := s.ReqNS(ns1, s.Root, logical.UpdateOperation, "auth/token/lookup", map[string]interface{}{"token": resp.Auth.ClientToken}); OK(lr, lerr) && lr != nil && lr.Data != nil {
					if ps, ok := lr.Data["policies"].([]string); ok {
						m.policies = ps
					}
					m.orphan, _ = lr.Data["orphan"].(bool)
					m.period = num(lr.Data["period"])
					m.ttl = num(lr.Data["ttl"])
					if id, ok := lr.Data["id"].(string); ok {
						m.id = id
					}
					if tt, ok := lr.Data["type"].(string); ok {
						m.tokenType = tt
					}
				} else if resp.Auth.TokenType != logical.TokenTypeBatch {
					res.Violate("c07:ns:created-token-not-lookupable", fmt.Sprintf("%v: %s", art, ErrText(lr, lerr)), art)
					continue
				}
				if par.inNS {
					pp := p
					if p.ID != "" {
						pp.ID = d["id"].(string)
					}
					if sig, msg := c07Judge(par.c07Parent, endpoint, pp, m); sig != "" {
						res.Violate("c07:ns:"+endpoint+":"+sig, fmt.Sprintf("%v -> policies=%v orphan=%v period=%v ttl=%v: %s", art, m.policies, m.orphan, m.period, m.ttl, msg), art)
					}
				} else {
					if !par.Sudo {
						res.Violate("c07:ns:cross-namespace-create-without-sudo", fmt.Sprintf("%v: a root-namespace caller without sudo created a token in ns1 carrying %v", art, m.policies), art)
					}
					if has(m.policies, "root") {
						if !par.Root {
							res.Violate("c07:ns:root-from-non-root", fmt.Sprintf("%v: the token created in ns1 carries root, its parent does not", art), art)
						} else {
							// The statement permits a root child of a root parent.  The implementation has a
							// stricter rule of its own ("root tokens may not be created from a parent
							// namespace") which only matches the literal spelling "root"; counted, not judged.
							res.Add("root_parent_made_root_token_in_child_namespace", 1)
							res.Distinct("root_in_child_namespace_spellings", fmt.Sprint(p.Policies))
						}
					}
					if m.ttl == 0 && m.tokenType != "batch" {
						res.Violate("c07:ns:non-expiring-token", fmt.Sprintf("%v: the token created in ns1 never expires", art), art)
					}
					if m.ttl > c07MountMax.Seconds()+2 {
						res.Violate("c07:ns:ttl-exceeds-mount-max", fmt.Sprintf("%v: ttl %v", art, m.ttl), art)
					}
				}
				sort.Strings(m.policies)
				res.Distinct("nontrivial", fmt.Sprintf("N|%s|%s|%v|o=%v|p=%v|%s", par.Name, endpoint, m.policies, m.orphan, m.period > 0, m.tokenType))
			}
		}
	}
}
