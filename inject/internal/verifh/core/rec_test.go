package core

// Recording logical/auth backend.  It implements logical.Backend directly (no
// framework) so that every invocation is visible to the oracles:
//
//   kv/<key>      read / create / update / delete / list on the mount's storage
//   lease/<name>  read: issues a leased dynamic secret (id recorded);
//                 revoke/renew operations are recorded too
//   open/<x>      declared unauthenticated
//   rootonly/<x>  declared root-protected (sudo required)
//   login         (credential type) declared unauthenticated; returns an Auth
//                 built from the request data (policies, ttl, max_ttl, period, ...)
//   prog          runs the storage program named in the request data (C12)
//
// The state is shared by all mounts of one system and survives restarts of the
// Core within one execution (Fork keeps the issued/revoked sets).

import (
	"context"
	"encoding/json"
	"fmt"
	"sort"
	"strings"
	"sync"
	"time"

	log "github.com/hashicorp/go-hclog"
	"github.com/openbao/openbao/sdk/v2/logical"
)

type RecCall struct {
	Mount string // mount uuid-less identity: the mount path given at Setup is unknown; we use BackendUUID
	Op    logical.Operation
	Path  string
	Exist bool // true = existence check, not an operation
	Token string
}

type RecState struct {
	mu      sync.Mutex
	Calls   []RecCall
	Issued  []string
	Revoked map[string]int
	Renewed map[string]int
	seq     int
	// LoginAuth, when set, overrides what login returns.
	LoginAuth func(req *logical.Request) *logical.Auth
	// RevokeErr makes secret revocation fail at the backend.
	RevokeErr error
	// OnLease, when set, is called once while the backend is generating a leased secret
	// (the harness uses it to cancel the client's request context at that moment).
	OnLease func(handlerCtx context.Context)
	// Tagger, when set, labels the physical operations issued while the
	// backend runs a storage program ("prog" path) so that the harness can
	// tell the backend's own storage traffic from the core's bookkeeping.
	Tagger func(tag string)
}

func NewRecState() *RecState {
	return &RecState{Revoked: map[string]int{}, Renewed: map[string]int{}}
}

// Fork returns a state that shares history (used across restarts).
func (r *RecState) Fork() *RecState { return r }

func (r *RecState) Reset() {
	r.mu.Lock()
	r.Calls = nil
	r.mu.Unlock()
}

// ResetCounts forgets which secrets were revoked / renewed so far. Boot (the start of
// an execution) calls it: secrets issued while an image was built keep their ids in every
// execution started from that image, and a revocation counted in an EARLIER execution
// must not satisfy "this secret was revoked" in a later one.
func (r *RecState) ResetCounts() {
	r.mu.Lock()
	r.Revoked = map[string]int{}
	r.Renewed = map[string]int{}
	r.mu.Unlock()
}

func (r *RecState) OpCalls() []RecCall {
	r.mu.Lock()
	defer r.mu.Unlock()
	var out []RecCall
	for _, c := range r.Calls {
		if !c.Exist {
			out = append(out, c)
		}
	}
	return out
}

func (r *RecState) NumOpCalls() int { return len(r.OpCalls()) }

func (r *RecState) IssuedIDs() []string {
	r.mu.Lock()
	defer r.mu.Unlock()
	return append([]string{}, r.Issued...)
}

func (r *RecState) RevokedCount(id string) int {
	r.mu.Lock()
	defer r.mu.Unlock()
	return r.Revoked[id]
}

type recBackend struct {
	st   *RecState
	typ  logical.BackendType
	conf *logical.BackendConfig
}

func (r *RecState) Factory(typ logical.BackendType) logical.Factory {
	return func(ctx context.Context, conf *logical.BackendConfig) (logical.Backend, error) {
		return &recBackend{st: r, typ: typ, conf: conf}, nil
	}
}

func (b *recBackend) Initialize(context.Context, *logical.InitializationRequest) error { return nil }
func (b *recBackend) System() logical.SystemView                                      { return b.conf.System }
func (b *recBackend) Logger() log.Logger                                              { return log.NewNullLogger() }
func (b *recBackend) Cleanup(context.Context)                                         {}
func (b *recBackend) InvalidateKey(context.Context, string)                           {}
func (b *recBackend) Setup(context.Context, *logical.BackendConfig) error             { return nil }
func (b *recBackend) Type() logical.BackendType                                       { return b.typ }

func (b *recBackend) SpecialPaths() *logical.Paths {
	p := &logical.Paths{
		Unauthenticated: []string{"open/*"},
		Root:            []string{"rootonly/*"},
	}
	if b.typ == logical.TypeCredential {
		p.Unauthenticated = append(p.Unauthenticated, "login", "login/*")
	}
	return p
}

func (b *recBackend) HandleExistenceCheck(ctx context.Context, req *logical.Request) (bool, bool, error) {
	b.st.mu.Lock()
	b.st.Calls = append(b.st.Calls, RecCall{Mount: req.MountPoint, Op: req.Operation, Path: req.Path, Exist: true, Token: req.ClientToken})
	b.st.mu.Unlock()
	if strings.HasPrefix(req.Path, "kv/") {
		e, err := req.Storage.Get(ctx, req.Path)
		if err != nil {
			return true, false, err
		}
		return true, e != nil, nil
	}
	return false, false, nil
}

func (b *recBackend) HandleRequest(ctx context.Context, req *logical.Request) (*logical.Response, error) {
	b.st.mu.Lock()
	b.st.Calls = append(b.st.Calls, RecCall{Mount: req.MountPoint, Op: req.Operation, Path: req.Path, Token: req.ClientToken})
	b.st.mu.Unlock()

	switch req.Operation {
	case logical.RevokeOperation:
		// like a backend that talks to an external system, refuse to work under a dead context
		if cerr := ctx.Err(); cerr != nil {
			return nil, cerr
		}
		id, _ := req.Secret.InternalData["id"].(string)
		b.st.mu.Lock()
		err := b.st.RevokeErr
		if err == nil {
			b.st.Revoked[id]++
		}
		b.st.mu.Unlock()
		return nil, err
	case logical.RenewOperation:
		if req.Secret != nil {
			id, _ := req.Secret.InternalData["id"].(string)
			b.st.mu.Lock()
			b.st.Renewed[id]++
			b.st.mu.Unlock()
			if fresh, _ := req.Secret.InternalData["fresh"].(bool); fresh {
				// like the backends that answer a renewal with a newly built
				// Secret (zero IssueTime) instead of echoing the request's
				ttl, _ := intField(req.Secret.InternalData, "ttl")
				maxTTL, _ := intField(req.Secret.InternalData, "max_ttl")
				return &logical.Response{Secret: &logical.Secret{
					LeaseOptions: logical.LeaseOptions{TTL: time.Duration(ttl) * time.Second, MaxTTL: time.Duration(maxTTL) * time.Second, Renewable: true},
					InternalData: req.Secret.InternalData,
				}}, nil
			}
			resp := &logical.Response{Secret: req.Secret}
			return resp, nil
		}
		if req.Auth != nil {
			if fresh, _ := req.Auth.InternalData["fresh"].(bool); fresh {
				ttl, _ := intField(req.Auth.InternalData, "ttl")
				maxTTL, _ := intField(req.Auth.InternalData, "max_ttl")
				return &logical.Response{Auth: &logical.Auth{
					Policies:     req.Auth.Policies,
					DisplayName:  req.Auth.DisplayName,
					InternalData: req.Auth.InternalData,
					LeaseOptions: logical.LeaseOptions{TTL: time.Duration(ttl) * time.Second, MaxTTL: time.Duration(maxTTL) * time.Second, Renewable: true},
				}}, nil
			}
			return &logical.Response{Auth: req.Auth}, nil
		}
		return nil, nil
	}

	switch {
	case strings.HasPrefix(req.Path, "kv/"), strings.HasPrefix(req.Path, "open/"), strings.HasPrefix(req.Path, "rootonly/"):
		return b.kv(ctx, req)
	case strings.HasPrefix(req.Path, "lease/"):
		if req.Operation != logical.ReadOperation {
			return nil, logical.ErrUnsupportedOperation
		}
		b.st.mu.Lock()
		b.st.seq++
		id := fmt.Sprintf("sec-%d", b.st.seq)
		b.st.Issued = append(b.st.Issued, id)
		onLease := b.st.OnLease
		b.st.OnLease = nil
		b.st.mu.Unlock()
		if onLease != nil {
			onLease(ctx)
		}
		ttl := 3600 * time.Second
		if d, ok := intField(req.Data, "ttl"); ok {
			ttl = time.Duration(d) * time.Second
		}
		var maxTTL time.Duration
		if d, ok := intField(req.Data, "max_ttl"); ok {
			maxTTL = time.Duration(d) * time.Second
		}
		resp := &logical.Response{
			Data: map[string]interface{}{"id": id, "password": "CANARY-" + id},
			Secret: &logical.Secret{
				LeaseOptions: logical.LeaseOptions{TTL: ttl, MaxTTL: maxTTL, Renewable: true},
				InternalData: map[string]interface{}{"id": id, "secret_type": "rec"},
			},
		}
		if strings.HasPrefix(req.Path, "lease/witherr/") {
			// an engine that generates the secret and reports an error from the same call
			// (the account was created, a later grant failed)
			return resp, fmt.Errorf("rec: secret %s generated, a later step failed", id)
		}
		if strings.HasPrefix(req.Path, "lease/fresh/") {
			resp.Secret.InternalData["fresh"] = true
			resp.Secret.InternalData["ttl"] = int(ttl / time.Second)
			resp.Secret.InternalData["max_ttl"] = int(maxTTL / time.Second)
		}
		return resp, nil
	case req.Path == "prog":
		// run the storage program named by the request: [{"op":"put|get|list|delete","key":"..."}]
		ops, _ := req.Data["ops"].([]interface{})
		var results []string
		b.st.mu.Lock()
		tagger := b.st.Tagger
		b.st.mu.Unlock()
		if tagger != nil {
			tagger("prog")
			defer tagger("")
		}
		for _, raw := range ops {
			m, _ := raw.(map[string]interface{})
			op, _ := m["op"].(string)
			key, _ := m["key"].(string)
			var err error
			out := ""
			switch op {
			case "put":
				err = req.Storage.Put(ctx, &logical.StorageEntry{Key: key, Value: []byte("PROG-VALUE")})
			case "get":
				var e *logical.StorageEntry
				e, err = req.Storage.Get(ctx, key)
				if e != nil {
					out = string(e.Value)
				}
			case "delete":
				err = req.Storage.Delete(ctx, key)
			case "list":
				var ks []string
				ks, err = req.Storage.List(ctx, key)
				out = strings.Join(ks, ",")
			}
			if err != nil {
				results = append(results, "err:"+err.Error())
			} else {
				results = append(results, "ok:"+out)
			}
		}
		return &logical.Response{Data: map[string]interface{}{"results": results}}, nil
	case req.Path == "login" || strings.HasPrefix(req.Path, "login/"):
		b.st.mu.Lock()
		la := b.st.LoginAuth
		b.st.mu.Unlock()
		if la != nil {
			return &logical.Response{Auth: la(req)}, nil
		}
		auth := &logical.Auth{
			Policies:     []string{"default"},
			LeaseOptions: logical.LeaseOptions{TTL: time.Hour, Renewable: true},
			DisplayName:  "rec-user",
		}
		if p, ok := req.Data["policies"].([]string); ok {
			auth.Policies = p
		}
		if d, ok := intField(req.Data, "ttl"); ok {
			auth.TTL = time.Duration(d) * time.Second
		}
		if d, ok := intField(req.Data, "max_ttl"); ok {
			auth.MaxTTL = time.Duration(d) * time.Second
		}
		if d, ok := intField(req.Data, "period"); ok {
			auth.Period = time.Duration(d) * time.Second
		}
		if d, ok := intField(req.Data, "explicit_max_ttl"); ok {
			auth.ExplicitMaxTTL = time.Duration(d) * time.Second
		}
		if f, _ := req.Data["fresh"].(bool); f {
			auth.InternalData = map[string]interface{}{"fresh": true, "ttl": int(auth.TTL / time.Second), "max_ttl": int(auth.MaxTTL / time.Second)}
		}
		return &logical.Response{Auth: auth}, nil
	}
	return nil, logical.ErrUnsupportedPath
}

func (b *recBackend) kv(ctx context.Context, req *logical.Request) (*logical.Response, error) {
	switch req.Operation {
	case logical.ReadOperation:
		e, err := req.Storage.Get(ctx, req.Path)
		if err != nil || e == nil {
			return nil, err
		}
		return &logical.Response{Data: map[string]interface{}{"value": string(e.Value)}}, nil
	case logical.CreateOperation, logical.UpdateOperation, logical.PatchOperation:
		v, _ := req.Data["value"].(string)
		err := req.Storage.Put(ctx, &logical.StorageEntry{Key: req.Path, Value: []byte(v)})
		return nil, err
	case logical.DeleteOperation:
		return nil, req.Storage.Delete(ctx, req.Path)
	case logical.ListOperation, logical.ScanOperation:
		ks, err := req.Storage.List(ctx, req.Path)
		if err != nil {
			return nil, err
		}
		sort.Strings(ks)
		return logical.ListResponse(ks), nil
	}
	return nil, logical.ErrUnsupportedOperation
}

func intField(m map[string]interface{}, k string) (int, bool) {
	switch v := m[k].(type) {
	case int:
		return v, true
	case int64:
		return int(v), true
	case float64:
		return int(v), true
	case json.Number:
		n, err := v.Int64()
		return int(n), err == nil
	}
	return 0, false
}
