package core

// C05 part R: "every lease present in storage is tracked for expiry, or marked
// irrevocable after its retry budget" along the revocation-retry path.
//
// The revocation worker is run as an explicit step (VerifRunRevocationJob =
// Execute + OnFailure, exactly what the job manager does when a lease's timer
// fires) against a backend whose revocation fails; for every storage operation
// k issued by the whole retry sequence one execution injects a fault at k.
// After EVERY attempt:
//
//   every lease record in storage is in the irrevocable set, or in the
//   non-expiring set, or in the pending set WITH AN ARMED TIMER (so that a
//   further attempt happens without outside help), or queued (its timer has
//   just fired and the harness has not run the job yet).
//
// After the budget is used up without an injected fault the lease must be in
// the irrevocable set; after a restart the tracking invariant must hold again.

import (
	"errors"
	"fmt"
	"testing"

	"github.com/openbao/openbao/sdk/v2/helper/verif/vout"
	"github.com/openbao/openbao/sdk/v2/logical"
	"github.com/openbao/openbao/v2/internal/helper/namespace"
	"github.com/openbao/openbao/v2/internal/vault"
)

func c05rInvariant(s *Sys, queued map[string]bool) string {
	ids, _ := expireKeys(s)
	m := s.Core.VerifExpiration()
	_, n, i := m.VerifTracked()
	in := func(l []string, id string) bool {
		for _, x := range l {
			if x == id {
				return true
			}
		}
		return false
	}
	for _, id := range ids {
		if in(i, id) || in(n, id) {
			continue
		}
		pend, armed, attempts := m.VerifTimerState(id)
		switch {
		case !pend:
			return fmt.Sprintf("lease %q is in storage but in none of the pending / non-expiring / irrevocable sets", id)
		case !armed && !queued[id]:
			return fmt.Sprintf("lease %q is in storage and in the pending set, but its timer is not armed and no revocation is queued (attempts recorded: %d): nothing will ever try to revoke it again, and it is not marked irrevocable", id, attempts)
		}
	}
	return ""
}

func c05rPart(t *testing.T, res *vout.Result, count *int) {
	type variant struct {
		name      string
		err       error
		healAfter int // the backend starts working after this many failed attempts (0 = never)
	}
	variants := []variant{
		{"persistent-failure", errors.New("backend down"), 0},
		{"unrecoverable", logical.ErrUnsupportedPath, 0},
		{"heals-after-2", errors.New("backend down"), 2},
	}
	// the lease is requested by a service token and by a batch token (leases of batch
	// tokens are indexed and renewed along another path)
	for _, requester := range []string{"service", "batch"} {
	s0 := Build(t, Options{})
	s0.Mount("rec/", "rec")
	s0.WritePolicy("p05r", `path "rec/*" { capabilities = ["read"] }`)
	tokData := map[string]interface{}{"policies": []string{"p05r"}, "ttl": "2h"}
	if requester == "batch" {
		tokData["type"] = "batch"
	}
	tok := s0.CreateToken(s0.Root, tokData)
	lr := s0.Must(s0.Req(tok, logical.ReadOperation, "rec/lease/x", map[string]interface{}{}))
	leaseID := lr.Secret.LeaseID
	secret, _ := lr.Data["id"].(string)
	img := s0.Image()
	s0.Close()
	if leaseID == "" {
		t.Fatalf("harness: no lease id")
	}
	attemptsMax := vault.VerifMaxRevokeAttempts + 1

	run := func(v variant, k int) (nops int) {
		s := Boot(t, img)
		defer s.Close()
		m := s.Core.VerifExpiration()
		s.Rec.mu.Lock()
		s.Rec.RevokeErr = v.err
		s.Rec.mu.Unlock()
		defer func() {
			s.Rec.mu.Lock()
			s.Rec.RevokeErr = nil
			s.Rec.mu.Unlock()
		}()
		if k > 0 {
			s.Phys.FailAt("job", k)
		} else {
			s.Phys.FailAt("job", 1<<30)
		}
		art := map[string]interface{}{"variant": v.name, "fault_at_op": k, "requester": requester}
		exhausted := false
		for a := 1; a <= attemptsMax; a++ {
			if v.healAfter > 0 && a > v.healAfter {
				s.Rec.mu.Lock()
				s.Rec.RevokeErr = nil
				s.Rec.mu.Unlock()
			}
			// the lease's timer fires (it is due: attempt 1 follows the expiry, later
			// attempts follow the retry back-off) ...
			m.VerifConsumeTimer(leaseID)
			// ... and a worker runs the job
			s.Phys.SetTag("job")
			err := m.VerifRunRevocationJob(namespace.RootNamespace, leaseID)
			s.Phys.SetTag("")
			res.Add("transitions", 1)
			queued := map[string]bool{}
			for _, id := range s.QueuedIDs() {
				queued[id] = true
			}
			// the harness is the job queue: what fired is handled by the next loop iteration
			s.qmu.Lock()
			s.queue = nil
			s.qmu.Unlock()
			if msg := c05rInvariant(s, nil); msg != "" {
				what := "no fault"
				if f := s.Phys.Failed(); f != nil {
					what = "storage op " + f.String() + " failed once"
				}
				sig := "c05:retry:untracked-after-failed-attempt"
				if f := s.Phys.Failed(); f != nil {
					sig += ":" + f.Kind
				}
				res.Violate(sig, fmt.Sprintf("%s, attempt %d (%s; job error: %v): %s", v.name, a, what, err, msg), art)
				return s.Phys.TagCount("job")
			}
			_ = queued
			ids, _ := expireKeys(s)
			stored := false
			for _, id := range ids {
				if id == leaseID {
					stored = true
				}
			}
			if !stored {
				if s.Rec.RevokedCount(secret) == 0 {
					res.Violate("c05:retry:lease-record-gone-without-revocation", fmt.Sprintf("%s, attempt %d: the lease record is gone but the backend never revoked the secret", v.name, a), art)
				}
				res.Distinct("nontrivial", fmt.Sprintf("R|%s|%s|revoked-at-attempt-%d", requester, v.name, a))
				return s.Phys.TagCount("job")
			}
			_, _, irr := m.VerifTracked()
			for _, id := range irr {
				if id == leaseID {
					exhausted = true
				}
			}
			if exhausted {
				res.Distinct("nontrivial", fmt.Sprintf("R|%s|%s|irrevocable-at-attempt-%d", requester, v.name, a))
				// "irrevocable leases cannot be renewed": by the administrator and by the token that owns the lease
				// (judged in executions without an injected storage fault only: C05 quantifies over crash
				// points, not over storage errors; with the write of the mark itself failing - its error is
				// ignored - the lease is irrevocable in memory only and stays renewable: observed, counted)
				for who, rt := range map[string]string{"root token": s.Root, "requesting " + requester + " token": tok} {
					if s.Phys.Failed() != nil {
						res.Add("irrevocable_mark_under_storage_fault_not_judged", 1)
						break
					}
					r, e := s.Req(rt, logical.UpdateOperation, "sys/leases/renew", map[string]interface{}{"lease_id": leaseID, "increment": 60})
					if OK(r, e) && r != nil && r.Secret != nil {
						recTxt, _ := rawRead(s, expirePhysKey(leaseID))
						res.Violate("c05:retry:irrevocable-lease-renewed", fmt.Sprintf("%s, lease requested by a %s token, marked irrevocable at attempt %d: sys/leases/renew with the %s succeeded (ttl %v); stored record now: %s", v.name, requester, a, who, r.Secret.TTL, recTxt), art)
					}
				}
				break
			}
		}
		nops = s.Phys.TagCount("job")
		if k == 0 && v.healAfter == 0 && !exhausted {
			res.Violate("c05:retry:budget-exhausted-not-irrevocable", fmt.Sprintf("%s: %d failed attempts without any storage fault and the lease is still not marked irrevocable", v.name, attemptsMax), art)
		}
		// restart: storage is the truth, tracking must be rebuilt
		img2 := s.Image()
		s2, err := BootData(t, img2.Data, img2)
		if err != nil {
			res.Violate("c05:retry:restart-failed", fmt.Sprintf("%s k=%d: %v", v.name, k, err), art)
			return nops
		}
		if msg := trackingInvariantOpt(s2, false); msg != "" {
			res.Violate("c05:retry:tracking-after-restart", fmt.Sprintf("%s k=%d: %s", v.name, k, msg), art)
		}
		s2.Close()
		return nops
	}
	for _, v := range variants {
		*count++
		nops := 0
		if vout.Mine(*count) || true { // the fault-free run sizes the enumeration; every shard needs it
			nops = run(v, 0)
			if vout.Mine(*count) {
				res.Add("executions", 1)
				res.Add("evaluations", 1)
			}
		}
		res.Max("ops_in_retry_sequence", int64(nops))
		for k := 1; k <= nops; k++ {
			*count++
			if !vout.Mine(*count) {
				continue
			}
			run(v, k)
			res.Add("executions", 1)
			res.Add("evaluations", 1)
			res.Add("fault_runs", 1)
		}
	}
	}
}
