package core

// C06: no dynamic secret or token is handed out without a durable lease.
//
// For every request kind that generates a leased secret, a login token or a
// child token (also with response wrapping; transactional and plain storage):
//   F  fail the k-th storage operation of the request, for every k;
//   K  crash after the j-th durable mutation of the request, for every j, and
//      restart.
// Oracle (fault): the client got the secret/token  =>  its lease record (and for
// secrets the token->lease index entry) exists; the client got an error  =>  the
// fresh secret was revoked at its backend, the set of lease/index records is
// exactly what it was before the request, and no token minted by the request is
// usable.  Oracle (crash): after restart every index entry points at an existing
// lease and every stored lease is tracked by the expiration manager.

import (
	"context"
	"github.com/openbao/openbao/v2/internal/helper/namespace"
	"sync"
	"encoding/json"
	"fmt"
	"os"
	"sort"
	"strings"
	"testing"
	"time"

	"github.com/openbao/openbao/sdk/v2/helper/verif/vout"
	"github.com/openbao/openbao/sdk/v2/helper/consts"
	"github.com/openbao/openbao/sdk/v2/logical"
	"github.com/openbao/openbao/v2/internal/vault"
)

const c06Policy = `
path "rec/*" { capabilities = ["read", "create", "update", "list"] }
path "auth/token/create" { capabilities = ["update"] }
path "auth/token/create-orphan" { capabilities = ["update", "sudo"] }
path "ns1/rec/*" { capabilities = ["read", "create", "update", "list"] }
`

type c06Kind struct {
	Name string
	Wrap bool
}

func c06Kinds() []c06Kind {
	var out []c06Kind
	// secret-by-batch: the requester of the leased secret is a batch token with a
	// parent (its leases are indexed under the parent token)
	// ns:* : the same requests inside a child namespace (lease ids carry the namespace id,
	// lease, index and token records live in the namespace's storage area)
	// xns:secret: a token of the ROOT namespace reads a leased secret from a mount of the
	// child namespace (lease in the child's area, index under the parent's token)
	for _, n := range []string{"secret", "secret-by-batch", "login", "create", "create-orphan", "create-batch", "create-root", "ns:secret", "ns:login", "ns:create", "xns:secret"} {
		out = append(out, c06Kind{n, false})
	}
	for _, n := range []string{"secret", "login", "create"} {
		out = append(out, c06Kind{n, true})
	}
	return out
}

type c06Out struct {
	ok       bool
	errTxt   string
	secretID string // secret returned to the client
	leaseID  string
	token    string // client token returned (or wrapping token when wrapped)
	wrapped  bool
}

func c06Image(t *testing.T, nonTxn bool) (*Image, string) {
	s := Build(t, Options{NonTxn: nonTxn})
	defer s.Close()
	s.Mount("rec/", "rec")
	s.EnableAuth("ra/", "recauth")
	s.WritePolicy("p06", c06Policy)
	tok := s.CreateToken(s.Root, map[string]interface{}{"policies": []string{"p06"}, "ttl": "2h"})
	c06Batch[nonTxn] = s.CreateToken(tok, map[string]interface{}{"policies": []string{"p06"}, "ttl": "1h", "type": "batch"})
	s.mkNS(t, "ns1/", false)
	ns1 := s.nsByPath(t, "ns1/")
	c06NS = ns1
	s.Must(s.ReqNS(ns1, s.Root, logical.UpdateOperation, "sys/mounts/rec", map[string]interface{}{"type": "rec"}))
	s.Must(s.ReqNS(ns1, s.Root, logical.UpdateOperation, "sys/auth/ra", map[string]interface{}{"type": "recauth"}))
	s.Must(s.ReqNS(ns1, s.Root, logical.UpdateOperation, "sys/policies/acl/p06", map[string]interface{}{"policy": c06Policy}))
	r := s.Must(s.ReqNS(ns1, s.Root, logical.UpdateOperation, "auth/token/create", map[string]interface{}{"policies": []string{"p06"}, "ttl": "2h"}))
	c06NSTok[nonTxn] = r.Auth.ClientToken
	return s.Image(), tok
}

var (
	c06Batch = map[bool]string{}
	c06NSTok = map[bool]string{}
	c06NS    *namespace.Namespace
)

func c06Do(s *Sys, tok string, k c06Kind) c06Out {
	req := &logical.Request{ClientToken: tok, Connection: &logical.Connection{RemoteAddr: "127.0.0.1"}}
	if k.Wrap {
		req.WrapInfo = &logical.RequestWrapInfo{TTL: time.Hour}
	}
	switch k.Name {
	case "secret":
		req.Operation, req.Path = logical.ReadOperation, "rec/lease/x"
	case "secret-by-batch":
		req.ClientToken = c06Batch[s.Opt.NonTxn]
		req.Operation, req.Path = logical.ReadOperation, "rec/lease/x"
	case "ns:secret":
		req.ClientToken = c06NSTok[s.Opt.NonTxn]
		req.Operation, req.Path = logical.ReadOperation, "rec/lease/x"
	case "xns:secret":
		req.Operation, req.Path = logical.ReadOperation, "ns1/rec/lease/x"
	case "ns:login":
		req.ClientToken = ""
		req.Operation, req.Path, req.Data = logical.UpdateOperation, "auth/ra/login", map[string]interface{}{}
	case "ns:create":
		req.ClientToken = c06NSTok[s.Opt.NonTxn]
		req.Operation, req.Path, req.Data = logical.UpdateOperation, "auth/token/create", map[string]interface{}{"policies": []string{"default"}, "ttl": "1h"}
	case "login":
		req.ClientToken = ""
		req.Operation, req.Path, req.Data = logical.UpdateOperation, "auth/ra/login", map[string]interface{}{}
	case "create":
		req.Operation, req.Path, req.Data = logical.UpdateOperation, "auth/token/create", map[string]interface{}{"policies": []string{"default"}, "ttl": "1h"}
	case "create-root":
		// a child of the root token without policies or TTL: inherits [root], never expires
		// (token lookup does not consult the expiration manager for such tokens)
		req.ClientToken = s.Root
		req.Operation, req.Path, req.Data = logical.UpdateOperation, "auth/token/create", map[string]interface{}{}
	case "create-orphan":
		req.Operation, req.Path, req.Data = logical.UpdateOperation, "auth/token/create-orphan", map[string]interface{}{"policies": []string{"default"}, "ttl": "1h"}
	case "create-batch":
		req.Operation, req.Path, req.Data = logical.UpdateOperation, "auth/token/create", map[string]interface{}{"policies": []string{"default"}, "ttl": "1h", "type": "batch"}
	}
	ctx := rootCtx()
	if strings.HasPrefix(k.Name, "ns:") {
		ctx = namespace.ContextWithNamespace(ctx, c06NS)
	}
	resp, err := s.Core.HandleRequest(ctx, req)
	o := c06Out{ok: OK(resp, err), errTxt: ErrText(resp, err)}
	if !o.ok || resp == nil {
		return o
	}
	if resp.WrapInfo != nil && resp.WrapInfo.Token != "" {
		o.wrapped = true
		o.token = resp.WrapInfo.Token
		return o
	}
	if resp.Secret != nil {
		o.leaseID = resp.Secret.LeaseID
	}
	if resp.Data != nil {
		if id, ok := resp.Data["id"].(string); ok {
			o.secretID = id
		}
	}
	if resp.Auth != nil {
		o.token = resp.Auth.ClientToken
		o.leaseID = "(token)"
	}
	return o
}

// expireKeys returns the physical keys of lease records and index records.
// expirePhys remembers under which physical key a lease record was last seen
// (root namespace: sys/expire/id/<id>; child namespace: namespaces/<uuid>/sys/expire/id/<id>,
// the id then ends in ".<namespace id>").
var expirePhys sync.Map

func expirePhysKey(id string) string {
	if v, ok := expirePhys.Load(id); ok {
		return v.(string)
	}
	return "sys/expire/id/" + id
}

func expireKeys(s *Sys) (ids, idx []string) {
	for k := range s.Phys.Snapshot() {
		root := strings.HasPrefix(k, "sys/expire/")
		if !root && !strings.HasPrefix(k, "namespaces/") {
			continue
		}
		if i := strings.Index(k, "sys/expire/id/"); i >= 0 && (root == (i == 0)) {
			id := k[i+len("sys/expire/id/"):]
			ids = append(ids, id)
			expirePhys.Store(id, k)
		} else if i := strings.Index(k, "sys/expire/token/"); i >= 0 && (root == (i == 0)) {
			idx = append(idx, k)
		}
	}
	sort.Strings(ids)
	sort.Strings(idx)
	return
}

func tokenKeys(s *Sys) []string {
	var out []string
	for k := range s.Phys.Snapshot() {
		if strings.HasPrefix(k, "sys/token/id/") || strings.HasPrefix(k, "sys/token/accessor/") || strings.HasPrefix(k, "sys/token/parent/") {
			out = append(out, k)
		}
	}
	sort.Strings(out)
	return out
}

// rawRead decrypts one physical key through sys/raw.
func rawRead(s *Sys, key string) (string, bool) {
	resp, err := s.Req(s.Root, logical.ReadOperation, "sys/raw/"+key, nil)
	if !OK(resp, err) || resp == nil || resp.Data == nil {
		return "", false
	}
	v, _ := resp.Data["value"].(string)
	return v, true
}

// trackingInvariant: {lease ids in storage} == pending ∪ nonexpiring ∪ irrevocable,
// and every token->lease index entry names an existing lease.
func trackingInvariant(s *Sys) string { return trackingInvariantOpt(s, true) }

func trackingInvariantOpt(s *Sys, checkIndex bool) string {
	ids, idx := expireKeys(s)
	p, n, i := s.Core.VerifExpiration().VerifTracked()
	tracked := map[string]bool{}
	for _, l := range [][]string{p, n, i} {
		for _, id := range l {
			tracked[id] = true
		}
	}
	stored := map[string]bool{}
	for _, id := range ids {
		stored[id] = true
		if !tracked[id] {
			return fmt.Sprintf("lease %q is in storage but not tracked for expiry (pending=%d nonexpiring=%d irrevocable=%d)", id, len(p), len(n), len(i))
		}
	}
	for id := range tracked {
		if !stored[id] {
			return fmt.Sprintf("lease %q is tracked in memory but has no record in storage", id)
		}
	}
	if !checkIndex {
		return ""
	}
	for _, k := range idx {
		v, ok := rawRead(s, k)
		if !ok {
			return fmt.Sprintf("index entry %s cannot be read", k)
		}
		var e struct {
			LeaseID string `json:"lease_id"`
		}
		if json.Unmarshal([]byte(v), &e) != nil || e.LeaseID == "" {
			// older index format stores the bare lease id
			e.LeaseID = strings.Trim(v, "\"")
		}
		if !stored[e.LeaseID] {
			return fmt.Sprintf("token->lease index entry %s points at lease %q which has no record", k, e.LeaseID)
		}
	}
	return ""
}

// c06Usable presents a token in the namespace it was minted in.
func c06Usable(s *Sys, kind c06Kind, tok string) bool {
	if strings.HasPrefix(kind.Name, "ns:") {
		resp, err := s.ReqNS(c06NS, tok, logical.ReadOperation, "auth/token/lookup-self", nil)
		return OK(resp, err)
	}
	return s.Usable(tok)
}

// c06IndexWorks: "its token index entry exists" judged by what the entry is for: revoking
// the token that requested the secret revokes the secret at its backend. Only for requesters
// the harness can revoke (service tokens); returns "" when it held or does not apply.
func c06IndexWorks(s *Sys, kind c06Kind, tok, secretID string) string {
	if kind.Wrap || secretID == "" {
		return ""
	}
	var resp *logical.Response
	var err error
	switch kind.Name {
	case "secret", "xns:secret":
		resp, err = s.Req(s.Root, logical.UpdateOperation, "auth/token/revoke", map[string]interface{}{"token": tok})
	case "ns:secret":
		resp, err = s.ReqNS(c06NS, s.Root, logical.UpdateOperation, "auth/token/revoke", map[string]interface{}{"token": c06NSTok[s.Opt.NonTxn]})
	default:
		return ""
	}
	if !OK(resp, err) {
		return ""
	}
	s.Drain()
	if s.Rec.RevokedCount(secretID) == 0 {
		return fmt.Sprintf("the client holds secret %s; its requesting token was then revoked successfully, but the secret was never revoked at its backend: the lease is not indexed under the token that requested it", secretID)
	}
	return ""
}

// c06UsableDuringRestore starts a new process on the store content with the lease restore
// pinned at one (unrelated) lease record, so that the expiration manager is still in
// restore mode, and presents the token. pinned=false: no restore worker read that record
// (nothing judged).
func c06UsableDuringRestore(t *testing.T, s *Sys, kind c06Kind, holdKey, tok string) (usable, pinned bool) {
	img2 := s.Image()
	s2, err := BootSealed(t, img2.Data, img2)
	if err != nil {
		t.Fatalf("harness: %v", err)
	}
	defer s2.Close()
	release := s2.Phys.HoldGets(holdKey)
	defer release()
	for _, k := range img2.Keys {
		if _, uerr := vault.TestCoreUnseal(s2.Core, vault.TestKeyCopy(k)); uerr != nil {
			t.Fatalf("harness: unseal: %v", uerr)
		}
	}
	s2.hookExpiry()
	for t0 := time.Now(); time.Since(t0) < 20*time.Second; time.Sleep(200 * time.Microsecond) {
		if s2.Phys.Held() > 0 {
			pinned = true
			break
		}
		if s2.Core.VerifExpiration().VerifRestoreDone() {
			break
		}
	}
	if !pinned {
		return false, false
	}
	done := make(chan bool, 1)
	go func() { done <- c06Usable(s2, kind, tok) }()
	select {
	case usable = <-done:
	case <-time.After(20 * time.Second):
		// the request waits for the restore: nothing was accepted while restoring
	}
	release()
	s2.settle()
	return usable, true
}

// c06PartQ: unusual but legitimate inputs that reach the lease registration on paths of their
// own: (1) an engine that returns a freshly generated secret TOGETHER WITH an error, (2) a
// request that authenticates inline (X-Vault-Inline-Auth-Path, single-request tokens cannot
// hold leases). Whatever the core answers, the two outcomes of the statement are the only
// ones: a durable lease + index entry exist for the generated secret, or the secret was
// revoked at its backend and nothing of it reached the client.
func c06PartQ(t *testing.T, res *vout.Result, img *Image, tok string) {
	for _, kind := range []string{"secret+error", "secret-inline-auth"} {
		s := Boot(t, img)
		idsB, idxB := expireKeys(s)
		issuedB := len(s.Rec.IssuedIDs())
		req := &logical.Request{ClientToken: tok, Operation: logical.ReadOperation, Path: "rec/lease/x", Connection: &logical.Connection{RemoteAddr: "127.0.0.1"}}
		if kind == "secret+error" {
			req.Path = "rec/lease/witherr/x"
		} else {
			req.ClientToken = ""
			req.Headers = map[string][]string{consts.InlineAuthPathHeaderName: {"auth/ra/login"}}
			s.Rec.mu.Lock()
			s.Rec.LoginAuth = func(*logical.Request) *logical.Auth {
				return &logical.Auth{Policies: []string{"p06"}, LeaseOptions: logical.LeaseOptions{TTL: time.Hour}}
			}
			s.Rec.mu.Unlock()
		}
		resp, err := s.Core.HandleRequest(rootCtx(), req)
		s.Rec.mu.Lock()
		s.Rec.LoginAuth = nil
		s.Rec.mu.Unlock()
		s.settle()
		res.Add("executions", 1)
		res.Add("quirk_runs", 1)
		idsA, idxA := expireKeys(s)
		issued := s.Rec.IssuedIDs()[issuedB:]
		rp := map[string]interface{}{"kind": kind}
		txt := respText(resp) + " " + ErrText(resp, err)
		for _, id := range issued {
			leased := len(idsA) > len(idsB) && len(idxA) > len(idxB)
			revoked := s.Rec.RevokedCount(id) > 0
			inHand := strings.Contains(txt, "CANARY-"+id)
			switch {
			case !leased && !revoked:
				res.Violate("c06:quirk:secret-neither-leased-nor-revoked", fmt.Sprintf("%s: the engine generated secret %s; afterwards there is no lease + index record for it and it was not revoked at its backend either (client got: ok=%v, secret in the answer=%v)", kind, id, OK(resp, err), inHand), rp)
			case inHand && !leased:
				res.Violate("c06:quirk:credential-without-lease", fmt.Sprintf("%s: the answer to the client carries secret %s but no lease + index record exists", kind, id), rp)
			}
			res.Distinct("nontrivial", fmt.Sprintf("Q|%s|leased=%v|revoked=%v|inhand=%v", kind, leased, revoked, inHand))
		}
		if len(issued) == 0 {
			res.Distinct("nontrivial", fmt.Sprintf("Q|%s|engine-not-reached|ok=%v", kind, OK(resp, err)))
		}
		if msg := trackingInvariant(s); msg != "" {
			res.Violate("c06:quirk:tracking", fmt.Sprintf("%s: %s", kind, msg), rp)
		}
		s.Close()
	}
}

// c06PartX: the client goes away (its request context is cancelled) while the backend is
// generating the leased secret. Whatever happens next, the two outcomes of the statement
// are the only ones: the client holds the secret and a lease + index exist, or the client
// got an error, the fresh secret was revoked at its backend and no lease / index remain.
func c06PartX(t *testing.T, res *vout.Result, img *Image, tok string) {
	for _, who := range []string{"service", "batch"} {
		s := Boot(t, img)
		idsB, idxB := expireKeys(s)
		issuedB := len(s.Rec.IssuedIDs())
		ctx, cancel := context.WithCancel(rootCtx())
		s.Rec.mu.Lock()
		s.Rec.OnLease = func(hctx context.Context) {
			cancel()
			// the core hands the backend a context derived from the client's; the cancellation
			// reaches it through a goroutine (the wait only bounds the harness's patience)
			for t0 := time.Now(); hctx.Err() == nil && time.Since(t0) < 5*time.Second; {
				time.Sleep(100 * time.Microsecond)
			}
		}
		s.Rec.mu.Unlock()
		req := &logical.Request{ClientToken: tok, Operation: logical.ReadOperation, Path: "rec/lease/x", Connection: &logical.Connection{RemoteAddr: "127.0.0.1"}}
		if who == "batch" {
			req.ClientToken = c06Batch[s.Opt.NonTxn]
		}
		resp, err := s.Core.HandleRequest(ctx, req)
		cancel()
		s.settle()
		ok := OK(resp, err) && resp != nil && resp.Secret != nil
		res.Add("executions", 1)
		res.Add("cancel_runs", 1)
		idsA, idxA := expireKeys(s)
		issued := s.Rec.IssuedIDs()[issuedB:]
		rp := map[string]interface{}{"kind": "secret-ctx-cancel", "requester": who}
		if ok {
			if len(idsA) <= len(idsB) {
				res.Violate("c06:cancel:credential-without-lease", fmt.Sprintf("client context cancelled during generation (%s token): the secret was returned but no lease record exists", who), rp)
			}
		} else {
			for _, id := range issued {
				if s.Rec.RevokedCount(id) == 0 {
					res.Violate("c06:cancel:secret-not-revoked", fmt.Sprintf("client context cancelled during generation (%s token): the client got an error (%s) but fresh secret %s was not revoked at its backend", who, ErrText(resp, err), id), rp)
				}
			}
			if extra := append(diffKeys(idsB, idsA), diffKeys(idxB, idxA)...); len(extra) > 0 {
				res.Violate("c06:cancel:partial-lease-records", fmt.Sprintf("client context cancelled during generation (%s token): the client got an error but lease/index records remain: %v", who, extra), rp)
			}
		}
		if msg := trackingInvariant(s); msg != "" {
			res.Violate("c06:cancel:tracking", fmt.Sprintf("client context cancelled during generation (%s token): %s", who, msg), rp)
		}
		res.Distinct("nontrivial", fmt.Sprintf("X|%s|ok=%v|issued=%d", who, ok, len(issued)))
		s.Close()
	}
}

func TestVerifC06(t *testing.T) {
	res := vout.New("C06", "core")
	defer func() {
		if err := res.Write(); err != nil {
			t.Fatal(err)
		}
	}()
	if vout.ReplayPath() != "" {
		t.Log("C06 artefacts name (kind, wrap, nonTxn, k or j); re-run the check to reproduce (the enumeration is deterministic)")
		return
	}
	only := os.Getenv("VERIF_KIND")
	item := 0
	storages := []bool{false}
	if vout.Thorough() {
		storages = []bool{false, true}
	}
	for _, nonTxn := range storages {
		img, tok := c06Image(t, nonTxn)
		if i, _ := vout.Shard(); i == 0 && only == "" {
			c06PartX(t, res, img, tok)
			c06PartQ(t, res, img, tok)
		}
		for _, kind := range c06Kinds() {
			if only != "" && only != kind.Name {
				continue
			}
			label := fmt.Sprintf("%s wrap=%v nonTxn=%v", kind.Name, kind.Wrap, nonTxn)
			// ---- pass 0 (fault free): op count, mutation count, the ids the request generates
			s0 := Boot(t, img)
			ids0, idx0 := expireKeys(s0)
			tk0 := tokenKeys(s0)
			s0.Phys.FailAt("call", 1<<30)
			s0.Phys.ResetMutations()
			s0.Phys.SetTag("call")
			o0 := c06Do(s0, tok, kind)
			s0.Phys.SetTag("")
			nops, nmut := s0.Phys.TagCount("call"), s0.Phys.Mutations()
			// index (1-based, among the call's operations) of the last write of a lease or
			// index record: faults after it hit work that follows a COMPLETED registration
			// (response wrapping), for which the statement requires nothing
			regEnd, n := 0, 0
			inRun, done := false, false
			for _, op := range s0.Phys.Log() {
				if op.Tag != "call" {
					continue
				}
				n++
				isWrite := op.Kind == "put" || op.Kind == "delete"
				if done || !isWrite {
					continue
				}
				if strings.HasPrefix(op.Key, "sys/expire/") {
					regEnd, inRun = n, true
				} else if inRun {
					done = true // the first contiguous run of lease/index writes is the credential's own registration
				}
			}
			if regEnd == 0 {
				regEnd = nops
			}
			if !o0.ok {
				t.Fatalf("harness: fault-free %s failed: %s", label, o0.errTxt)
			}
			// fault-free sanity = the positive half of the oracle
			ids1, idx1 := expireKeys(s0)
			if kind.Name != "create-batch" && len(ids1) <= len(ids0) {
				res.Violate("c06:no-lease-for-handed-out-credential", fmt.Sprintf("%s: request succeeded fault-free but no lease record was added", label), map[string]interface{}{"kind": kind, "nonTxn": nonTxn, "k": 0})
			}
			if strings.Contains(kind.Name, "secret") && !kind.Wrap && len(idx1) <= len(idx0) {
				res.Violate("c06:no-index-for-leased-secret", fmt.Sprintf("%s: request succeeded fault-free but no token->lease index entry was added", label), map[string]interface{}{"kind": kind, "nonTxn": nonTxn, "k": 0})
			}
			if msg := trackingInvariant(s0); msg != "" {
				res.Violate("c06:tracking", fmt.Sprintf("%s fault-free: %s", label, msg), map[string]interface{}{"kind": kind, "nonTxn": nonTxn, "k": 0})
			}
			tok0 := o0.token // deterministic randomness: the same id is generated in every pass
			if msg := c06IndexWorks(s0, kind, tok, o0.secretID); msg != "" {
				res.Violate("c06:lease-not-indexed-under-requesting-token", fmt.Sprintf("%s fault-free: %s", label, msg), map[string]interface{}{"kind": kind, "nonTxn": nonTxn, "k": 0})
			}
			s0.Close()
			res.Max("ops_in_request", int64(nops))
			_ = tk0

			// ---- F: fail op k
			for k := 1; k <= nops; k++ {
				item++
				if !vout.Mine(item) {
					continue
				}
				s := Boot(t, img)
				idsB, idxB := expireKeys(s)
				issuedB := len(s.Rec.IssuedIDs())
				s.Phys.FailAt("call", k)
				s.Phys.SetTag("call")
				o := c06Do(s, tok, kind)
				s.Phys.SetTag("")
				failed := s.Phys.Failed()
				what := "not reached"
				if failed != nil {
					what = failed.String()
				}
				res.Add("executions", 1)
				res.Add("fault_runs", 1)
				rp := map[string]interface{}{"kind": kind, "nonTxn": nonTxn, "k": k, "failed_op": what}
				idsA, idxA := expireKeys(s)
				issued := s.Rec.IssuedIDs()[issuedB:]
				if o.ok {
					// the client holds a credential: it must be backed by a lease
					if kind.Name != "create-batch" && len(idsA) <= len(idsB) {
						res.Violate("c06:fault:credential-without-lease", fmt.Sprintf("%s, op %d [%s] failed: the client still received its %s but no lease record exists", label, k, what, kind.Name), rp)
					}
					if strings.Contains(kind.Name, "secret") && !kind.Wrap && len(idxA) <= len(idxB) {
						res.Violate("c06:fault:secret-without-index", fmt.Sprintf("%s, op %d [%s] failed: the client received the secret but the token->lease index entry is missing", label, k, what), rp)
					}
					if msg := c06IndexWorks(s, kind, tok, o.secretID); msg != "" {
						res.Violate("c06:fault:lease-not-indexed-under-requesting-token", fmt.Sprintf("%s, op %d [%s] failed: %s", label, k, what, msg), rp)
					}
				} else if k > regEnd {
					res.Add("faults_after_completed_registration", 1)
				} else {
					for _, id := range issued {
						if s.Rec.RevokedCount(id) == 0 {
							res.Violate("c06:fault:secret-not-revoked", fmt.Sprintf("%s, op %d [%s] failed: the client got an error but fresh secret %s was not revoked at its backend", label, k, what, id), rp)
						}
					}
					if fmt.Sprint(idsA) != fmt.Sprint(idsB) || fmt.Sprint(idxA) != fmt.Sprint(idxB) {
						// a revocation lease of the *calling* token is legitimate bookkeeping; anything else is residue
						extra := diffKeys(idsB, idsA)
						extraIdx := diffKeys(idxB, idxA)
						if len(extra)+len(extraIdx) > 0 {
							res.Violate("c06:fault:partial-lease-records", fmt.Sprintf("%s, op %d [%s] failed: the client got an error but lease/index records remain: %v %v", label, k, what, extra, extraIdx), rp)
						}
					}
					if tok0 != "" && !strings.Contains(kind.Name, "secret") && kind.Name != "create-batch" {
						if c06Usable(s, kind, tok0) {
							res.Violate("c06:fault:usable-token-after-error", fmt.Sprintf("%s, op %d [%s] failed: the client got an error but the token minted by the request is usable", label, k, what), rp)
						} else if len(idsB) > 0 {
							// ... and it stays unusable on a restarted node whose lease restore is still
							// running (pinned at an unrelated lease record)
							usable, pinned := c06UsableDuringRestore(t, s, kind, expirePhysKey(idsB[0]), tok0)
							if pinned {
								res.Add("restore_window_probes", 1)
							}
							if usable {
								res.Violate("c06:fault:usable-token-after-error:during-lease-restore", fmt.Sprintf("%s, op %d [%s] failed: the client got an error; after a restart, while the lease restore is still running, the token minted by the failed request is accepted", label, k, what), rp)
							}
						}
					}
				}
				if msg := trackingInvariant(s); msg != "" && failed != nil {
					res.Violate("c06:fault:tracking", fmt.Sprintf("%s, op %d [%s] failed: %s", label, k, what, msg), rp)
				}
				if failed != nil {
					res.Distinct("nontrivial", fmt.Sprintf("F|%s|%v|%v|%s|%v", kind.Name, kind.Wrap, nonTxn, failed.Kind+":"+keyClass(failed.Key), o.ok))
				}
				s.Close()
			}
			// ---- D (thorough): two faults.  Op k1 fails, and so does a later op k2 of what
			// the request then does (typically the clean-up).  The statement quantifies over
			// single failures; under two, only what it states unconditionally is judged: a
			// client that got the credential has its lease (and index) record.
			if vout.Thorough() {
				for k1 := 1; k1 <= nops; k1++ {
					item++
					if !vout.Mine(item) {
						continue
					}
					sp := Boot(t, img)
					sp.Phys.FailAt("call", k1)
					sp.Phys.SetTag("call")
					_ = c06Do(sp, tok, kind)
					sp.Phys.SetTag("")
					n1 := sp.Phys.TagCount("call")
					sp.Close()
					for k2 := k1 + 1; k2 <= n1; k2++ {
						s := Boot(t, img)
						idsB, idxB := expireKeys(s)
						s.Phys.FailAt("call", k1)
						s.Phys.FailAlso(k2)
						s.Phys.SetTag("call")
						o := c06Do(s, tok, kind)
						s.Phys.SetTag("")
						fl := s.Phys.FailedAll()
						res.Add("executions", 1)
						res.Add("double_fault_runs", 1)
						var whats []string
						for _, f := range fl {
							whats = append(whats, f.String())
						}
						rp := map[string]interface{}{"kind": kind, "nonTxn": nonTxn, "k1": k1, "k2": k2, "failed_ops": whats}
						idsA, idxA := expireKeys(s)
						if o.ok {
							if kind.Name != "create-batch" && len(idsA) <= len(idsB) {
								res.Violate("c06:fault2:credential-without-lease", fmt.Sprintf("%s, ops %d and %d %v failed: the client still received its %s but no lease record exists", label, k1, k2, whats, kind.Name), rp)
							}
							if strings.Contains(kind.Name, "secret") && !kind.Wrap && len(idxA) <= len(idxB) {
								res.Violate("c06:fault2:secret-without-index", fmt.Sprintf("%s, ops %d and %d %v failed: the client received the secret but the token->lease index entry is missing", label, k1, k2, whats), rp)
							}
						} else if k1 <= regEnd && tok0 != "" && !strings.Contains(kind.Name, "secret") && kind.Name != "create-batch" && s.Usable(tok0) {
							// not judged: when the clean-up's own storage operation fails as well the
							// token record cannot be removed (seen for create-root: lease write and
							// token-entry rewrite both failing); the statement covers single failures
							res.Add("double_fault_token_left_usable", 1)
						}
						if len(fl) == 2 {
							res.Distinct("nontrivial", fmt.Sprintf("D|%s|%v|%v|%s|%s|%v", kind.Name, kind.Wrap, nonTxn, fl[0].Kind+":"+keyClass(fl[0].Key), fl[1].Kind+":"+keyClass(fl[1].Key), o.ok))
						}
						s.Close()
					}
				}
			}
			// ---- K: crash after mutation j, restart
			for j := 1; j <= nmut; j++ {
				item++
				if !vout.Mine(item) {
					continue
				}
				s := Boot(t, img)
				s.Phys.CrashAfter(j)
				_ = c06Do(s, tok, kind)
				crashed, snap := s.Phys.Crashed()
				s.Close()
				if !crashed {
					continue
				}
				res.Add("executions", 1)
				res.Add("crash_runs", 1)
				rp := map[string]interface{}{"kind": kind, "nonTxn": nonTxn, "j": j}
				s2, err := BootData(t, snap, img)
				if err != nil {
					res.Violate("c06:crash:restart-failed", fmt.Sprintf("%s: crash after mutation %d: %v", label, j, err), rp)
					continue
				}
				if msg := trackingInvariant(s2); msg != "" {
					res.Violate("c06:crash:tracking", fmt.Sprintf("%s: crash after durable mutation %d of %d, restart: %s", label, j, nmut, msg), rp)
				}
				res.Distinct("nontrivial", fmt.Sprintf("K|%s|%v|%v|%d", kind.Name, kind.Wrap, nonTxn, j))
				s2.Close()
			}
			res.Add("states", 1)
			res.Sample(map[string]interface{}{"request": label, "storage_ops": nops, "durable_mutations": nmut})
		}
	}
}

func diffKeys(before, after []string) []string {
	b := map[string]bool{}
	for _, k := range before {
		b[k] = true
	}
	var out []string
	for _, k := range after {
		if !b[k] {
			out = append(out, k)
		}
	}
	return out
}

func keyClass(k string) string {
	parts := strings.Split(k, "/")
	for i, p := range parts {
		if len(p) >= 16 && maskRun.MatchString(p) { // uuids, salted ids, accessors: not part of a signature
			parts[i] = "#"
		}
	}
	if len(parts) > 2 && parts[0] == "namespaces" {
		parts = append([]string{"namespaces", "#"}, parts[2:]...)
		if len(parts) > 4 {
			parts = parts[:4]
		}
		return strings.Join(parts, "/")
	}
	if len(parts) > 3 {
		parts = parts[:3]
	}
	return strings.Join(parts, "/")
}
