package core

// C10 part S: key-management operations racing each other. The periodic
// auto-rotate check (which persists the encryption counters together with the
// whole keyring), an encryption-key rotation, a root-key rotation and an
// ordinary write run as two managed threads under every interleaving at
// storage-operation + contended-lock granularity (preemption bound 2 / 3).
// Afterwards a further entry is written, the server is restarted from the
// store and unsealed with the shares: every entry written before, during and
// after the race must read back ("every entry written earlier is readable
// again after unsealing", "new writes use the newest key term").

import (
	"context"
	"fmt"
	"strings"
	"testing"

	"github.com/openbao/openbao/sdk/v2/helper/verif/sched"
	"github.com/openbao/openbao/sdk/v2/helper/verif/vout"
	"github.com/openbao/openbao/sdk/v2/logical"
)

func c10sDo(s *Sys, op string, i int) (bool, string) {
	switch op {
	case "autocheck":
		b := s.Core.VerifBarriers()[""]
		if b == nil {
			return false, "no root barrier"
		}
		_, err := b.CheckBarrierAutoRotate(context.Background())
		if err != nil {
			return false, err.Error()
		}
		return true, ""
	case "rotate", "rotate-root":
		_, err := c10Act(s, op)
		if err != nil {
			return false, err.Error()
		}
		return true, ""
	case "write":
		r, e := s.Req(s.Root, logical.UpdateOperation, fmt.Sprintf("rec/kv/race%d", i), map[string]interface{}{"value": fmt.Sprintf("RACE-%d", i)})
		return OK(r, e), ErrText(r, e)
	}
	return false, "unknown op"
}

func c10sBody(t *testing.T, img *Image, ops []string) sched.Body {
	return func(sc *sched.Scheduler) func(x *sched.Exec) {
		s := Boot(t, img)
		// an encryption since the last persist, so that the auto-rotate check has counters to persist
		s.Must(s.Req(s.Root, logical.UpdateOperation, "rec/kv/before", map[string]interface{}{"value": "BEFORE"}))
		oks := make([]bool, len(ops))
		txt := make([]string, len(ops))
		for i, op := range ops {
			i, op := i, op
			sc.Go(fmt.Sprintf("%d.%s", i, op), func() { oks[i], txt[i] = c10sDo(s, op, i) })
		}
		return func(x *sched.Exec) {
			v := &Verdict{}
			x.Obs = v
			fail := func(sig, msg string) {
				if v.Violation == "" {
					v.Sig, v.Violation = "c10:sched:"+sig, msg
				}
			}
			var parts []string
			for i, op := range ops {
				parts = append(parts, fmt.Sprintf("%s:%v", op, oks[i]))
				if !oks[i] {
					// the statement presumes operations that succeed; a refusal under contention is recorded
					v.Outcome = strings.Join(parts, " ") + " (refused: " + txt[i] + ")"
				}
			}
			wr, we := s.Req(s.Root, logical.UpdateOperation, "rec/kv/after", map[string]interface{}{"value": "AFTER"})
			if !OK(wr, we) {
				fail("write-refused-after-race", fmt.Sprintf("%v: a write after the operations finished failed: %s", ops, ErrText(wr, we)))
			}
			img2 := s.Image()
			s.Close()
			s2, err := BootData(t, img2.Data, img2)
			if err != nil {
				fail("unsealable-after-race", fmt.Sprintf("%v (%v): restart + unseal with the shares failed: %v", ops, parts, err))
				if v.Outcome == "" {
					v.Outcome = strings.Join(parts, " ") + " unsealable"
				}
				return
			}
			defer s2.Close()
			want := map[string]string{"before": "BEFORE", "after": "AFTER"}
			for i, op := range ops {
				if op == "write" && oks[i] {
					want[fmt.Sprintf("race%d", i)] = fmt.Sprintf("RACE-%d", i)
				}
			}
			for k, val := range want {
				r, e := s2.Req(s2.Root, logical.ReadOperation, "rec/kv/"+k, nil)
				got := ""
				if OK(r, e) && r != nil && r.Data != nil {
					got = fmt.Sprint(r.Data["value"])
				}
				if got != val {
					fail("entry-lost-after-race", fmt.Sprintf("%v (%v): after restart entry %q reads %q (%s), written %q", ops, parts, k, got, ErrText(r, e), val))
				}
			}
			if v.Outcome == "" {
				v.Outcome = strings.Join(parts, " ")
			}
		}
	}
}

func TestVerifC10Sched(t *testing.T) {
	res := vout.New("C10", "sched")
	defer func() {
		if err := res.Write(); err != nil {
			t.Fatal(err)
		}
	}()
	bound := 2
	if vout.Thorough() {
		bound = 3
	}
	res.Bound("sched_preemption_bound", bound)
	s0 := Build(t, Options{})
	s0.Mount("rec/", "rec")
	img := s0.Image()
	s0.Close()
	if vout.ReplayPath() != "" {
		var rp SchedReplay
		if _, err := vout.LoadReplay(&rp); err != nil {
			t.Fatal(err)
		}
		var ops []string
		for _, k := range rp.Params["ops"].([]interface{}) {
			ops = append(ops, k.(string))
		}
		x := sched.RunOnce(c10sBody(t, img, ops), rp.Choices, rp.Fine)
		if v, _ := x.Obs.(*Verdict); v != nil && v.Violation != "" {
			res.Violate(v.Sig, v.Violation, rp)
		}
		return
	}
	item := 0
	scen := [][]string{{"autocheck", "rotate"}, {"autocheck", "rotate-root"}, {"rotate", "rotate"}, {"rotate", "rotate-root"}, {"autocheck", "write"}, {"rotate", "write"}, {"autocheck", "autocheck"}}
	if vout.Thorough() {
		scen = append(scen, []string{"autocheck", "rotate", "write"}, []string{"rotate-root", "rotate-root"}, []string{"rotate-root", "write"})
	}
	res.Bound("sched_scenarios", len(scen))
	for _, ops := range scen {
		name := "S:" + strings.Join(ops, "+")
		b := bound
		if len(ops) > 2 {
			b = bound - 1
		}
		exploreScenario(res, "c10", name, map[string]interface{}{"ops": ops}, c10sBody(t, img, ops), b, false, &item)
		// and once more with every lock operation a scheduling point (one preemption)
		exploreScenario(res, "c10", name+":fine", map[string]interface{}{"ops": ops, "fine": true}, c10sBody(t, img, ops), 1, true, &item)
	}
}
