package core

// C16 part S: concurrent revocations.  Two (three) managed threads revoke the
// same serial / two serials of one issuer / a serial while the CRL is rotated,
// under every interleaving at storage-operation + contended-lock granularity
// up to the preemption bound.  After all threads have finished:
//   * every caller that was told "revoked at T" was told the SAME T for the same
//     serial, and the status API reports that T ("revocation is idempotent and
//     never alters an entry of an already reported revocation");
//   * the general oracle of part H holds (CRL lists every reported serial and
//     verifies, OCSP and status agree).

import (
	"fmt"
	"os"
	"sort"
	"strings"
	"testing"

	"github.com/openbao/openbao/sdk/v2/helper/verif/sched"
	"github.com/openbao/openbao/sdk/v2/helper/verif/vout"
	"github.com/openbao/openbao/sdk/v2/logical"
)

type c16sImage struct {
	img   *Image
	certs []*c16Cert
}

func c16sBuild(t *testing.T) *c16sImage {
	base := c16Image(t, false)
	s := Boot(t, base)
	defer s.Close()
	w := c16NewWorld(t, s)
	for i := 0; i < 2; i++ {
		if ok, txt := w.issue("i1"); !ok {
			t.Fatalf("harness: issue: %s", txt)
		}
	}
	s.settle()
	return &c16sImage{img: s.Image(), certs: w.certs}
}

func c16sBody(t *testing.T, im *c16sImage, ops []string) sched.Body {
	return func(sc *sched.Scheduler) func(x *sched.Exec) {
		s := Boot(t, im.img)
		w := c16NewWorld(t, s)
		for _, c := range im.certs {
			cc := *c
			w.certs = append(w.certs, &cc)
		}
		type out struct {
			ok   bool
			time string
			txt  string
		}
		outs := make([]out, len(ops))
		for i, op := range ops {
			i, op := i, op
			sc.Go(fmt.Sprintf("%d.%s", i, op), func() {
				switch {
				case strings.HasPrefix(op, "revoke"):
					ci := int(op[len(op)-1] - '0')
					resp, err := s.Req(s.Root, logical.UpdateOperation, "pki/revoke", map[string]interface{}{"serial_number": w.certs[ci].serial})
					outs[i].ok = OK(resp, err)
					outs[i].txt = ErrText(resp, err)
					if outs[i].ok && resp != nil && resp.Data != nil {
						outs[i].time = fmt.Sprint(resp.Data["revocation_time_rfc3339"])
					}
				case op == "rotate":
					ok, txt := w.rotate()
					outs[i].ok, outs[i].txt = ok, txt
				case op == "delissuer2":
					// removing an issuer rebuilds the CRLs without taking the revocation lock:
					// a rebuild in flight while the revocation reaches its own rebuild
					resp, err := s.Req(s.Root, logical.DeleteOperation, "pki/issuer/i2", nil)
					outs[i].ok, outs[i].txt = OK(resp, err), ErrText(resp, err)
				}
			})
		}
		return func(x *sched.Exec) {
			defer s.Close()
			v := &Verdict{}
			x.Obs = v
			fail := func(sig, msg string) {
				if v.Violation == "" {
					v.Sig, v.Violation = "c16:sched:"+sig, msg
				}
			}
			times := map[int]map[string]bool{}
			var parts []string
			for i, op := range ops {
				parts = append(parts, fmt.Sprintf("%s:%v", op, outs[i].ok))
				if !strings.HasPrefix(op, "revoke") {
					continue
				}
				ci := int(op[len(op)-1] - '0')
				if outs[i].ok {
					w.certs[ci].revoked = true
					if times[ci] == nil {
						times[ci] = map[string]bool{}
					}
					times[ci][outs[i].time] = true
				}
			}
			for ci, ts := range times {
				if len(ts) > 1 {
					var l []string
					for k := range ts {
						l = append(l, k)
					}
					sort.Strings(l)
					fail("callers-told-different-revocation-times", fmt.Sprintf("two successful revocations of serial %s reported different revocation times %v: the later call rewrote the entry of an already reported revocation", w.certs[ci].serial, l))
				}
				resp, err := s.Req(s.Root, logical.ReadOperation, "pki/cert/"+w.certs[ci].serial, nil)
				if OK(resp, err) && resp != nil && resp.Data != nil {
					now := fmt.Sprint(resp.Data["revocation_time_rfc3339"])
					if !ts[now] {
						fail("stored-revocation-time-differs", fmt.Sprintf("serial %s: callers were told %v, the status API now reports %s", w.certs[ci].serial, ts, now))
					}
				}
			}
			for i, op := range ops {
				if op == "delissuer2" && outs[i].ok {
					w.issuerGone["i2"] = true
				}
			}
			// auto_rebuild is off in this image: "the CRL served once the revoke call has returned
			// already lists the serial" - judged BEFORE any further rotation
			if sig, msg := w.check(); sig != "" {
				fail(sig+":before-any-further-rotation", msg)
			}
			// a rotate after quiescence makes "the CRL served now" well defined for auto-rebuild configurations
			if ok, txt := w.rotate(); !ok {
				fail("rotate-failed-after-quiescence", txt)
			}
			w.rotatedSinceRevoke = true
			if sig, msg := w.check(); sig != "" {
				fail(sig, msg)
			}
			sort.Strings(parts)
			v.Outcome = strings.Join(parts, " ")
		}
	}
}

// c16sCfgBody: the CRL configuration is switched from auto_rebuild=on to off while another
// request that consults that configuration (OCSP, a certificate status read, a revocation
// of another serial) is in flight. After both have finished the configuration API is
// asked; if it says auto_rebuild is off, a revocation follows and the CRL served right
// after it must list the serial (last sentence of the statement) - whatever the
// interleaving of the configuration write with the reader was.
func c16sCfgBody(t *testing.T, im *c16sImage, reader string, noCache bool) sched.Body {
	img := *im.img
	img.Opt.NoCache = noCache
	return func(sc *sched.Scheduler) func(x *sched.Exec) {
		s := Boot(t, &img)
		w := c16NewWorld(t, s)
		for _, c := range im.certs {
			cc := *c
			w.certs = append(w.certs, &cc)
		}
		s.Must(s.Req(s.Root, logical.UpdateOperation, "pki/config/crl", map[string]interface{}{"auto_rebuild": true, "enable_delta": false}))
		// make sure the engine has the "on" configuration loaded
		_, _ = w.certStatusRevoked(w.certs[1])
		cfgOK := false
		sc.Go("cfg", func() {
			r, e := s.Req(s.Root, logical.UpdateOperation, "pki/config/crl", map[string]interface{}{"auto_rebuild": false, "enable_delta": false})
			cfgOK = OK(r, e)
		})
		sc.Go("reader", func() {
			switch reader {
			case "ocsp":
				_, _ = w.ocspRevoked(w.certs[1])
			case "status":
				_, _ = w.certStatusRevoked(w.certs[1])
			case "revoke1":
				_, _ = w.revoke(1)
			case "crl":
				_, _, _ = w.crl("i1")
			}
		})
		return func(x *sched.Exec) {
			defer s.Close()
			v := &Verdict{}
			x.Obs = v
			resp, err := s.Req(s.Root, logical.ReadOperation, "pki/config/crl", nil)
			auto := true
			if OK(resp, err) && resp != nil && resp.Data != nil {
				auto, _ = resp.Data["auto_rebuild"].(bool)
			}
			v.Outcome = fmt.Sprintf("cfg=%v auto=%v", cfgOK, auto)
			if os.Getenv("VERIF_DEBUG") != "" {
				for _, tr := range x.Trace {
					if strings.HasPrefix(tr, "reader:get:") && strings.HasSuffix(tr, "/config/crl") {
						fmt.Printf("DEBUG reader reloaded config: %v\n", canonTrace(x.Trace))
						break
					}
				}
			}
			if !cfgOK || auto {
				return
			}
			if ok, txt := w.revoke(0); !ok {
				v.Sig, v.Violation = "c16:sched:revoke-refused", "revocation refused after the configuration change: "+txt
				return
			}
			rl, _, cerr := w.crl("i1")
			if cerr != nil {
				v.Sig, v.Violation = "c16:sched:crl-fetch-failed", cerr.Error()
				return
			}
			listed := false
			if rl != nil {
				for _, e := range rl.RevokedCertificateEntries {
					if strings.EqualFold(strings.ReplaceAll(w.certs[0].serial, ":", ""), fmt.Sprintf("%x", e.SerialNumber)) ||
						strings.EqualFold(strings.TrimLeft(strings.ReplaceAll(w.certs[0].serial, ":", ""), "0"), fmt.Sprintf("%x", e.SerialNumber)) {
						listed = true
					}
				}
			}
			if !listed {
				v.Sig = "c16:sched:crl-served-after-revoke-lacks-serial-with-auto-rebuild-off"
				v.Violation = fmt.Sprintf("config/crl reports auto_rebuild=false; revoke(%s) returned success; the complete CRL of its issuer served right afterwards does not list it", w.certs[0].serial)
			}
		}
	}
}

func c16PartS(t *testing.T, res *vout.Result, item *int) {
	im := c16sBuild(t)
	bound := 2
	if vout.Thorough() {
		bound = 3
	}
	res.Bound("preemption_bound", bound)
	scen := [][]string{{"revoke0", "revoke0"}, {"revoke0", "revoke1"}, {"revoke0", "rotate"}, {"revoke0", "delissuer2"}}
	if vout.Thorough() {
		scen = append(scen, []string{"revoke0", "revoke0", "rotate"}, []string{"revoke0", "revoke0", "revoke1"}, []string{"revoke0", "revoke1", "delissuer2"})
	}
	// with and without the physical read cache (its per-key lock serialises a read of
	// config/crl with the write in flight; disable_cache and cache misses do not)
	for _, noCache := range []bool{false, true} {
		for _, reader := range []string{"ocsp", "status", "revoke1", "crl"} {
			exploreScenario(res, "c16", fmt.Sprintf("S:config-off||%s:nocache=%v", reader, noCache), map[string]interface{}{"reader": reader, "nocache": noCache}, c16sCfgBody(t, im, reader, noCache), bound, false, item)
		}
	}
	for _, ops := range scen {
		name := "S:" + strings.Join(ops, "+")
		b := bound
		if len(ops) > 2 {
			b = bound - 1
		}
		exploreScenario(res, "c16", name, map[string]interface{}{"ops": ops}, c16sBody(t, im, ops), b, false, item)
	}
}
