package core

// C05 part H: "On the active node every lease present in storage is tracked for
// expiry ..., including after restart or LEADERSHIP CHANGE, so it is revoked once
// its expiry passes" and "no sequence of renewals moves it past that bound" when
// the renewals are served by different nodes.
//
// Two real Cores share one physical store and one in-memory HA lock (the pair of
// C10's HA unit).  Explicit-state enumeration (state = operation list, replayed on
// a fresh pair) of every history up to the depth bound over
//
//	tok / sec / nssec / plogin   issue a token (ttl 100 s, explicit max 1000 s), a leased
//	                             secret (ttl 100 s, max 1000 s) in the root namespace and in
//	                             a child namespace, a periodic login (period 100 s, explicit
//	                             max 1000 s) on the active node
//	renew                        renew every live lease with a huge increment
//	revoke                       revoke the oldest live lease (sys/leases/revoke, sync)
//	failover                     seal the active node; the standby takes over; the sealed
//	                             node is unsealed again and becomes the standby
//	stepdown                     sys/step-down: the active node stays unsealed, keeps its
//	                             Core object and becomes the standby
//	restart                      both processes replaced by new ones on the same store
//	agefailover / agerestart /   every stored lease record is moved 2000 s into the past
//	agestepdown                  (through sys/raw, as in part R), then the leadership change
//
// that contains at least one leadership change.  After EVERY step, on the node that
// is active then:
//
//	* {lease records in storage} = pending ∪ non-expiring ∪ irrevocable of the active
//	  node's expiration manager, and every pending lease has an armed timer or a
//	  queued revocation;
//	* every renewal answered: stored expiry <= stored issue time + effective max and
//	  the reported ttl ends before that bound (2 s slack); the issue time of a lease
//	  never moves;
//	* after an ageing + leadership change: the aged leases are due on the new active
//	  node (timer armed / fired), and after quiescence (Drain: the due leases handed
//	  to the real revocation path) their records are gone, their secrets were revoked
//	  at the backend, their tokens are refused, and they can no longer be renewed.
//
// Nothing is asserted about the standby (the statement speaks of the active node).
// Waiting for a node to become active is bounded by a liveness deadline only
// (NotExhaustive, never a violation).

import (
	"fmt"
	"os"
	"sort"
	"strconv"
	"strings"
	"testing"
	"time"

	"github.com/openbao/openbao/sdk/v2/helper/verif/physx"
	"github.com/openbao/openbao/sdk/v2/helper/verif/sched"
	"github.com/openbao/openbao/sdk/v2/helper/verif/vout"
	"github.com/openbao/openbao/sdk/v2/logical"
	"github.com/openbao/openbao/v2/internal/helper/namespace"
	"github.com/openbao/openbao/v2/internal/vault"
)

type c05hLease struct {
	kind          string
	id            string
	token, secret string
	ns            *namespace.Namespace
	issue         time.Time
	aged          bool
	gone          bool
}

type c05hWorld struct {
	t      *testing.T
	p      *c10haPair
	s      *Sys // the active node
	leases []*c05hLease
	nsec   int
}

const c05hEffMax = 1000 * time.Second

// pause of a node after sys/step-down before it contends for the lock again (production: 10 s)
const c05hStepDownSleep = 300 * time.Millisecond

var c05hRegained int64

var c05hLeader = map[string]bool{"failover": true, "stepdown": true, "agefailover": true, "agestepdown": true}

func c05hBoot(t *testing.T, img *Image) (*c05hWorld, *c10haOutcome) {
	sched.InstallDetRand(0x5eed)
	sched.ResetDetRand()
	img.Rec.ResetCounts()
	inner := newInner(Options{})
	if err := physx.Restore(inner, img.Data); err != nil {
		t.Fatalf("harness: %v", err)
	}
	phys := physx.New(inner)
	p := &c10haPair{t: t, inner: inner, phys: phys, ctl: physx.Ctl(phys), ha: c10haNewHA(t), rec: img.Rec,
		root: img.Root, shares: img.Keys, shareN: len(img.Keys), shareT: len(img.Keys)}
	w := &c05hWorld{t: t, p: p}
	if out := p.start(); out != nil {
		return w, out
	}
	w.activate()
	return w, nil
}

// activate: the harness's view of the node that is active now (expiry recorder installed).
func (w *c05hWorld) activate() {
	w.s = w.p.sys(w.p.active)
	w.s.hookExpiry()
}

func (w *c05hWorld) close() {
	for _, c := range w.p.nodes {
		if c == nil {
			continue
		}
		func() {
			defer func() { _ = recover() }()
			if m := c.VerifExpiration(); m != nil {
				m.VerifStopTimers()
			}
		}()
	}
	w.p.close()
}

func (w *c05hWorld) live() []*c05hLease {
	var out []*c05hLease
	for _, l := range w.leases {
		if !l.gone {
			out = append(out, l)
		}
	}
	return out
}

func (w *c05hWorld) issue(kind string) string {
	s := w.s
	before, _ := expireKeys(s)
	var resp *logical.Response
	var err error
	ns := namespace.RootNamespace
	switch kind {
	case "tok":
		resp, err = s.Req(s.Root, logical.UpdateOperation, "auth/token/create", map[string]interface{}{"policies": []string{"p05"}, "ttl": "100s", "explicit_max_ttl": "1000s"})
	case "sec":
		resp, err = s.Req(s.Root, logical.ReadOperation, "rec/lease/x", map[string]interface{}{"ttl": 100, "max_ttl": 1000})
	case "nssec":
		ns = c05NS1
		resp, err = s.ReqNS(ns, s.Root, logical.ReadOperation, "rec/lease/x", map[string]interface{}{"ttl": 100, "max_ttl": 1000})
	case "plogin":
		resp, err = s.Req("", logical.UpdateOperation, "auth/ra/login", map[string]interface{}{"policies": []string{"p05"}, "period": 100, "explicit_max_ttl": 1000})
	}
	if !OK(resp, err) || resp == nil {
		return fmt.Sprintf("issuing %s on the active node failed: %s", kind, ErrText(resp, err))
	}
	l := &c05hLease{kind: kind, ns: ns}
	if resp.Auth != nil {
		l.token = resp.Auth.ClientToken
	}
	if resp.Secret != nil {
		l.secret, _ = resp.Data["id"].(string)
	}
	after, _ := expireKeys(s)
	for _, id := range diffKeys(before, after) {
		l.id = id
	}
	if l.id == "" {
		w.t.Fatalf("harness: issue %s: no lease record appeared", kind)
	}
	_, rec, ok := c05ReadLease(s, l.id)
	if !ok {
		w.t.Fatalf("harness: issue %s: lease record %s unreadable", kind, l.id)
	}
	l.issue = rec.IssueTime
	w.leases = append(w.leases, l)
	return ""
}

func (w *c05hWorld) renewOne(l *c05hLease) (bool, time.Duration, string) {
	data := map[string]interface{}{"increment": 1000000}
	var resp *logical.Response
	var err error
	if l.token != "" {
		resp, err = w.s.ReqNS(l.ns, l.token, logical.UpdateOperation, "auth/token/renew-self", data)
	} else {
		data["lease_id"] = l.id
		resp, err = w.s.ReqNS(l.ns, w.s.Root, logical.UpdateOperation, "sys/leases/renew", data)
	}
	if !OK(resp, err) || resp == nil {
		return false, 0, ErrText(resp, err)
	}
	if resp.Auth != nil {
		return true, resp.Auth.TTL, ""
	}
	if resp.Secret != nil {
		return true, resp.Secret.TTL, ""
	}
	return true, 0, ""
}

func (w *c05hWorld) renew() (string, string) {
	for _, l := range w.live() {
		ok, ttl, txt := w.renewOne(l)
		_, after, exists := c05ReadLease(w.s, l.id)
		if !ok {
			if time.Now().Before(l.issue.Add(c05hEffMax).Add(-c05Slack)) && !strings.Contains(txt, "past the max TTL") {
				return "live-lease-renewal-refused", fmt.Sprintf("renewal of the %s lease %s refused (%s) with budget left", l.kind, l.id, txt)
			}
			continue
		}
		if !exists {
			return "renewed-lease-has-no-record", fmt.Sprintf("renewal of the %s lease %s succeeded but no lease record is stored", l.kind, l.id)
		}
		if !after.IssueTime.Equal(l.issue) {
			return "issue-time-moved", fmt.Sprintf("%s lease %s: the stored issue time moved from %v to %v (by %v) in a renewal after a leadership change", l.kind, l.id, l.issue, after.IssueTime, after.IssueTime.Sub(l.issue).Round(time.Second))
		}
		bound := l.issue.Add(c05hEffMax)
		if after.ExpireTime.After(bound.Add(c05Slack)) {
			return "expiry-past-max", fmt.Sprintf("%s lease %s: renewal moved the stored expiry to issue+%v, effective max is %v", l.kind, l.id, after.ExpireTime.Sub(l.issue).Round(time.Second), c05hEffMax)
		}
		if time.Now().Add(ttl).After(bound.Add(c05Slack)) {
			return "reported-ttl-past-max", fmt.Sprintf("%s lease %s: renewal reported ttl=%v which ends %v after issue+max", l.kind, l.id, ttl, time.Now().Add(ttl).Sub(bound).Round(time.Second))
		}
		if l.kind == "plogin" && ttl > 100*time.Second+c05Slack {
			return "ttl-exceeds-period", fmt.Sprintf("%s lease %s: renewal reported ttl=%v, period is 100s", l.kind, l.id, ttl)
		}
	}
	return "", ""
}

func (w *c05hWorld) revoke() (string, string) {
	lv := w.live()
	if len(lv) == 0 {
		return "", ""
	}
	l := lv[0]
	resp, err := w.s.ReqNS(l.ns, w.s.Root, logical.UpdateOperation, "sys/leases/revoke", map[string]interface{}{"lease_id": l.id, "sync": true})
	if !OK(resp, err) {
		return "live-lease-revocation-refused", fmt.Sprintf("sys/leases/revoke of the %s lease %s on the active node: %s", l.kind, l.id, ErrText(resp, err))
	}
	w.s.Drain()
	if _, _, exists := c05ReadLease(w.s, l.id); exists {
		return "revoked-lease-still-stored", fmt.Sprintf("%s lease %s revoked successfully but its record is still stored", l.kind, l.id)
	}
	l.gone = true
	return "", ""
}

func (w *c05hWorld) age() {
	if err := c05Age(w.s, 2000*time.Second); err != nil {
		w.t.Fatalf("harness: %v", err)
	}
	for _, l := range w.live() {
		l.aged = true
		l.issue = l.issue.Add(-2000 * time.Second)
	}
}

// change performs the leadership change; returns (timeout, description).
func (w *c05hWorld) change(how string) (bool, string) {
	p := w.p
	a, b := p.active, 1-p.active
	switch how {
	case "failover":
		if p.nodes[b].Sealed() {
			w.t.Fatalf("harness: the standby is sealed before the fail-over; its log:\n%s", p.logs[b])
		}
		if m := p.nodes[a].VerifExpiration(); m != nil {
			m.VerifStopTimers()
		}
		if err := p.nodes[a].Seal(p.root); err != nil {
			w.t.Fatalf("harness: sealing the active node failed: %v", err)
		}
	case "stepdown":
		if m := p.nodes[a].VerifExpiration(); m != nil {
			m.VerifStopTimers()
		}
		req := &logical.Request{Operation: logical.UpdateOperation, Path: "sys/step-down", ClientToken: p.root}
		if err := p.nodes[a].StepDown(rootCtx(), req); err != nil {
			w.t.Fatalf("harness: sys/step-down failed: %v", err)
		}
	case "restart":
		w.close()
		if out := p.start(); out != nil {
			if out.timeout {
				return true, out.desc
			}
			w.t.Fatalf("harness: restart of the pair: %s", out.desc)
		}
		w.activate()
		return false, ""
	}
	if how == "stepdown" {
		// The node that stepped down pauses (c05hStepDownSleep) before it contends for the lock
		// again, the standby is already waiting on it: normally the standby takes over. Under
		// heavy load the old node may win the lock back; that is a leadership change as well
		// (active -> standby -> active on the same Core object) and is accepted and counted.
		deadline := time.Now().Add(c10haWait)
		sawStandby := false
		for {
			if !p.nodes[b].Standby() && !p.nodes[b].Sealed() {
				break
			}
			if p.nodes[a].Standby() {
				sawStandby = true
			} else if sawStandby && !p.nodes[a].Sealed() {
				b = a
				c05hRegained++
				break
			}
			if time.Now().After(deadline) {
				return true, "no node became active within the liveness bound after the step-down"
			}
			time.Sleep(200 * time.Microsecond)
		}
	} else {
		switch c10haWaitActive(p.nodes[b]) {
		case "timeout":
			return true, fmt.Sprintf("node %d did not become active within the liveness bound", b)
		case "sealed":
			w.t.Fatalf("harness: standby sealed itself on take-over; its log:\n%s", p.logs[b])
		}
	}
	if !c10haSettle(p.nodes[b], p.ctl) {
		return true, "the new active node did not settle within the liveness bound"
	}
	p.active = b
	w.activate()
	if how == "failover" {
		if ok, err := c10haUnseal(p.nodes[a], p.shares); !ok {
			w.t.Fatalf("harness: the sealed node does not unseal again: %v", err)
		}
	}
	return false, ""
}

// afterChange judges the aged leases on the node that is active now.
func (w *c05hWorld) afterChange(cut0 int64) (string, string) {
	for _, l := range w.live() {
		if !l.aged {
			continue
		}
		if _, _, exists := c05ReadLease(w.s, l.id); exists && !w.s.willFireSince(l.id, cut0) {
			return "expired-lease-without-timer", fmt.Sprintf("%s lease %s expired (record aged 2000 s); on the node that took over it is in the pending set but its timer is not armed and no revocation is queued", l.kind, l.id)
		}
	}
	w.s.Drain()
	for _, l := range w.live() {
		if !l.aged {
			continue
		}
		if _, _, exists := c05ReadLease(w.s, l.id); exists {
			return "expired-lease-not-revoked", fmt.Sprintf("%s lease %s expired (record aged 2000 s) but is still stored on the node that took over, after quiescence", l.kind, l.id)
		}
		if l.token != "" {
			r, e := w.s.ReqNS(l.ns, l.token, logical.ReadOperation, "auth/token/lookup-self", nil)
			if OK(r, e) {
				return "expired-token-usable", fmt.Sprintf("token of the %s lease %s expired but is still accepted by the node that took over", l.kind, l.id)
			}
		}
		if l.secret != "" && w.s.Rec.RevokedCount(l.secret) == 0 {
			return "expired-secret-not-revoked", fmt.Sprintf("secret of the %s lease %s expired but was never revoked at its backend", l.kind, l.id)
		}
		if ok, _, _ := w.renewOne(l); ok {
			return "expired-lease-renewed", fmt.Sprintf("%s lease %s expired and was revoked, yet a renewal succeeded", l.kind, l.id)
		}
		l.gone = true
	}
	return "", ""
}

func (w *c05hWorld) invariant() string {
	s := w.s
	if msg := trackingInvariantOpt(s, false); msg != "" {
		return msg
	}
	pend, _, _ := s.Core.VerifExpiration().VerifTracked()
	for _, id := range pend {
		if !s.willFire(id) {
			return fmt.Sprintf("lease %q is in the pending set of the active node but its timer is not armed and no revocation is queued", id)
		}
	}
	// model agreement: the harness's live leases are exactly the stored ones
	ids, _ := expireKeys(s)
	stored := map[string]bool{}
	for _, id := range ids {
		stored[id] = true
	}
	for _, l := range w.live() {
		if !stored[l.id] {
			return fmt.Sprintf("%s lease %s, never revoked and not expired, has no record in storage any more", l.kind, l.id)
		}
	}
	return ""
}

func (w *c05hWorld) key() string {
	var parts []string
	for _, l := range w.leases {
		st := "live"
		if l.gone {
			st = "gone"
		}
		life := ""
		if !l.gone {
			if _, rec, ok := c05ReadLease(w.s, l.id); ok {
				life = rec.ExpireTime.Sub(rec.IssueTime).Round(10 * time.Second).String()
			}
		}
		parts = append(parts, l.kind+":"+st+":"+life)
	}
	sort.Strings(parts)
	return fmt.Sprintf("active=%d|%s", w.p.active, strings.Join(parts, ","))
}

// c05hRun replays one history; returns (step, sig, msg, timeout, key).
func c05hRun(t *testing.T, img *Image, hist []string, res *vout.Result) (int, string, string, bool, string) {
	w, out := c05hBoot(t, img)
	defer w.close()
	if out != nil {
		if out.timeout {
			return 0, "", out.desc, true, ""
		}
		t.Fatalf("harness: pair does not start: %s", out.desc)
	}
	for i, op := range hist {
		res.Add("transitions", 1)
		var sig, msg string
		switch op {
		case "tok", "sec", "nssec", "plogin":
			if m := w.issue(op); m != "" {
				sig, msg = "issue-refused", m
			}
		case "renew":
			sig, msg = w.renew()
		case "revoke":
			sig, msg = w.revoke()
		case "failover", "stepdown", "restart", "agefailover", "agestepdown", "agerestart":
			how := strings.TrimPrefix(op, "age")
			if how != op {
				w.age()
			}
			cut0 := strategyCutOff.Load()
			if to, desc := w.change(how); to {
				return i, "", desc, true, ""
			}
			sig, msg = w.afterChange(cut0)
		default:
			t.Fatalf("harness: unknown op %q", op)
		}
		if sig == "" {
			if m := w.invariant(); m != "" {
				sig, msg = "tracking", m
			}
		}
		if sig != "" {
			return i, sig, fmt.Sprintf("history %v, step %d (%s), active node %d: %s", hist, i, op, w.p.active, msg), false, ""
		}
	}
	return len(hist), "", "", false, w.key()
}

func c05hPart(t *testing.T, res *vout.Result, count *int) {
	img := c05Image(t)
	alphabet := []string{"tok", "sec", "nssec", "plogin", "renew", "revoke", "failover", "restart", "agefailover", "agerestart"}
	alphabet = append(alphabet, "stepdown", "agestepdown")
	defer vault.VerifSetStepDownSleep(vault.VerifSetStepDownSleep(c05hStepDownSleep))
	depth := 3
	if vout.Thorough() {
		depth = 4
	}
	if v, err := strconv.Atoi(os.Getenv("VERIF_C05H_DEPTH")); err == nil && v > 0 {
		depth = v
	}
	res.Bound("ha_history_depth", depth)
	res.Bound("ha_alphabet", alphabet)
	deadline := globalDeadline
	stopped := false
	var rec func(h []string)
	rec = func(h []string) {
		if stopped {
			return
		}
		if len(h) < depth {
			for _, op := range alphabet {
				// a step-down costs idle waiting (the pause before the node contends again): at most one per history
				if (op == "stepdown" || op == "agestepdown") && strings.Contains(strings.Join(h, ">"), "stepdown") {
					continue
				}
				rec(append(append([]string{}, h...), op))
			}
			return
		}
		leader := false
		for _, op := range h {
			leader = leader || c05hLeader[op]
		}
		if !leader {
			return
		}
		// histories that only issue after the last leadership change add nothing beyond their prefix... they still
		// exercise "issue on the new active node", keep them.
		*count++
		if !vout.Mine(*count) {
			return
		}
		if time.Now().After(deadline) {
			stopped = true
			res.NotExhaustive(fmt.Sprintf("part H: time budget reached at history %v", h))
			return
		}
		step, sig, msg, timeout, key := c05hRun(t, img, h, res)
		res.Add("executions", 1)
		res.Add("evaluations", 1)
		res.Add("ha_histories", 1)
		switch {
		case timeout:
			res.NotExhaustive(fmt.Sprintf("part H: liveness bound hit in history %v at step %d: %s", h, step, msg))
		case sig != "":
			res.Violate("c05:ha:"+sig, msg, map[string]interface{}{"part": "H", "hist": h})
		default:
			res.Distinct("nontrivial", "H|"+key)
			if *count%97 == 0 {
				res.Sample(map[string]interface{}{"part": "H (HA pair, leadership changes)", "history": strings.Join(h, " > "), "state": key})
			}
		}
	}
	rec(nil)
	res.Add("ha_stepdown_lock_regained_by_same_node", c05hRegained)
}
