package core

// C16: a revoked certificate is reported revoked everywhere until it expires.
//
//  H  BFS over histories of {issue(i1|i2), revoke(c), rotate-crl, tidy,
//     config(auto_rebuild on|off), delete issuer i2, restart} on the real PKI
//     engine mounted in a real Core with two issuers; after EVERY step, for every
//     serial whose revoke call reported success: cert status API says revoked,
//     OCSP says revoked (while its issuer exists), the complete CRL of its issuer
//     fetched now (auto-rebuild off; with it on: after an explicit rotate) lists
//     it, verifies under the issuer, CRL numbers strictly increase whenever the
//     CRL changes, other revoked serials never disappear; revoke is idempotent.
//  F/K  every single failing storage operation, and a crash after every durable
//     mutation, of a revocation and of a CRL rotation; retry (after restart) until
//     the API reports success; same oracle.

import (
	"crypto/ecdsa"
	"crypto/elliptic"
	crand "crypto/rand"
	"crypto/x509/pkix"
	"crypto/x509"
	"encoding/base64"
	"encoding/pem"
	"fmt"
	"math/big"
	"os"
	"sort"
	"strings"
	"testing"
	"time"

	"github.com/openbao/openbao/sdk/v2/helper/verif/vout"
	"github.com/openbao/openbao/sdk/v2/logical"
	"github.com/openbao/openbao/v2/internal/builtin/logical/pki"
	"golang.org/x/crypto/ocsp"
)

type c16Cert struct {
	serial  string // colon form as returned by the API
	issuer  string // i1 | i2
	cert    *x509.Certificate
	revoked bool // a revoke call reported success
}

type c16World struct {
	s           *Sys
	issuers     map[string]*x509.Certificate
	issuerGone  map[string]bool
	certs       []*c16Cert
	autoRebuild bool
	delta       bool // enable_delta (needs auto_rebuild)
	reimports   int  // how often issuer i2 was deleted and imported again (new issuer id each time)
	colliders   int  // imported foreign CAs whose own serial equals that of a leaf issued here
	keyless     *c16Cert // a subordinate CA certificate signed by i2 and imported WITHOUT its key
	defaultIss  string              // issuer the harness made the mount's default ("" = as created: i1)
	subCAs      map[string]*c16Cert // keyed intermediates created inside the mount: int1 (signed by i2), int2 (signed by int1)
	deltaRotatedSinceRevoke bool
	rotatedSinceRevoke bool
	lastCRLNum  map[string]*big.Int
	lastCRLRaw  map[string]string
	lastRevoked map[string]map[string]bool // issuer -> serials seen on its CRL
}

func c16Image(t *testing.T, nonTxn bool) *Image {
	s := Build(t, Options{NonTxn: nonTxn, Extra: map[string]logical.Factory{"pki": pki.Factory}})
	defer s.Close()
	s.Must(s.Req(s.Root, logical.UpdateOperation, "sys/mounts/pki", map[string]interface{}{"type": "pki", "config": map[string]interface{}{"max_lease_ttl": "87600h"}}))
	for _, n := range []string{"i1", "i2"} {
		// i2 is generated "exported" so that the harness can delete and re-import it (same certificate, new issuer id)
		resp := s.Must(s.Req(s.Root, logical.UpdateOperation, "pki/root/generate/exported", map[string]interface{}{
			"common_name": "root " + n, "key_type": "ec", "key_bits": 256, "issuer_name": n, "ttl": "8760h"}))
		if n == "i2" {
			c16I2Bundle = fmt.Sprint(resp.Data["certificate"]) + "\n" + fmt.Sprint(resp.Data["private_key"])
		}
	}
	s.Must(s.Req(s.Root, logical.UpdateOperation, "pki/roles/r", map[string]interface{}{
		"allow_any_name": true, "key_type": "ec", "key_bits": 256, "ttl": "1h", "no_store": false, "generate_lease": false}))
	s.settle()
	return s.Image()
}

var c16I2Bundle string

func c16NewWorld(t *testing.T, s *Sys) *c16World {
	w := &c16World{s: s, issuers: map[string]*x509.Certificate{}, issuerGone: map[string]bool{},
		lastCRLNum: map[string]*big.Int{}, lastCRLRaw: map[string]string{}, lastRevoked: map[string]map[string]bool{}}
	for _, n := range []string{"i1", "i2"} {
		resp, err := s.Req(s.Root, logical.ReadOperation, "pki/issuer/"+n, nil)
		if !OK(resp, err) || resp == nil {
			t.Fatalf("harness: read issuer %s: %s", n, ErrText(resp, err))
		}
		c, perr := parseCertPEM(resp.Data["certificate"].(string))
		if perr != nil {
			t.Fatalf("harness: %v", perr)
		}
		w.issuers[n] = c
	}
	return w
}

func parseCertPEM(p string) (*x509.Certificate, error) {
	b, _ := pem.Decode([]byte(p))
	if b == nil {
		return nil, fmt.Errorf("no PEM block")
	}
	return x509.ParseCertificate(b.Bytes)
}

func (w *c16World) issue(issuer string) (bool, string) {
	resp, err := w.s.Req(w.s.Root, logical.UpdateOperation, "pki/issuer/"+issuer+"/issue/r", map[string]interface{}{
		"common_name": fmt.Sprintf("c%d.example.com", len(w.certs))})
	if !OK(resp, err) || resp == nil {
		return false, ErrText(resp, err)
	}
	c, perr := parseCertPEM(resp.Data["certificate"].(string))
	if perr != nil {
		return false, perr.Error()
	}
	w.certs = append(w.certs, &c16Cert{serial: resp.Data["serial_number"].(string), issuer: issuer, cert: c})
	return true, ""
}

// revoke returns (api reported success, text).
func (w *c16World) revoke(i int) (bool, string) {
	resp, err := w.s.Req(w.s.Root, logical.UpdateOperation, "pki/revoke", map[string]interface{}{"serial_number": w.certs[i].serial})
	if !OK(resp, err) {
		return false, ErrText(resp, err)
	}
	return true, ""
}

func (w *c16World) rotate() (bool, string) {
	resp, err := w.s.Req(w.s.Root, logical.ReadOperation, "pki/crl/rotate", nil)
	if !OK(resp, err) {
		return false, ErrText(resp, err)
	}
	if resp != nil && resp.Data != nil {
		if ok, isb := resp.Data["success"].(bool); isb && !ok {
			return false, "success=false"
		}
	}
	return true, ""
}

func (w *c16World) tidy() error {
	resp, err := w.s.Req(w.s.Root, logical.UpdateOperation, "pki/tidy", map[string]interface{}{
		"tidy_cert_store": true, "tidy_revoked_certs": true, "tidy_revoked_cert_issuer_associations": true, "safety_buffer": "1s"})
	if !OK(resp, err) {
		return fmt.Errorf("%s", ErrText(resp, err))
	}
	deadline := time.Now().Add(20 * time.Second)
	for {
		st, err := w.s.Req(w.s.Root, logical.ReadOperation, "pki/tidy-status", nil)
		if OK(st, err) && st != nil && st.Data != nil {
			if state, _ := st.Data["state"].(string); state == "Finished" || state == "Error" || state == "Cancelled" {
				return nil
			}
		}
		if time.Now().After(deadline) {
			return fmt.Errorf("tidy did not finish")
		}
		time.Sleep(time.Millisecond)
	}
}

func (w *c16World) crl(issuer string) (*x509.RevocationList, string, error) {
	resp, err := w.s.Req(w.s.Root, logical.ReadOperation, "pki/issuer/"+issuer+"/crl/der", nil)
	if !OK(resp, err) || resp == nil {
		return nil, "", fmt.Errorf("fetch: %s", ErrText(resp, err))
	}
	raw, _ := resp.Data[logical.HTTPRawBody].([]byte)
	if len(raw) == 0 {
		if sraw, ok := resp.Data[logical.HTTPRawBody].(string); ok {
			raw = []byte(sraw)
		}
	}
	if len(raw) == 0 {
		return nil, "", nil // no CRL built yet
	}
	rl, perr := x509.ParseRevocationList(raw)
	if perr != nil {
		return nil, "", fmt.Errorf("parse: %v", perr)
	}
	return rl, string(raw), nil
}

// deltaCRL fetches the delta CRL of an issuer (nil = none published).
func (w *c16World) deltaCRL(issuer string) (*x509.RevocationList, error) {
	resp, err := w.s.Req(w.s.Root, logical.ReadOperation, "pki/issuer/"+issuer+"/crl/delta/der", nil)
	if !OK(resp, err) || resp == nil {
		return nil, fmt.Errorf("fetch: %s", ErrText(resp, err))
	}
	raw, _ := resp.Data[logical.HTTPRawBody].([]byte)
	if len(raw) == 0 {
		if sraw, ok := resp.Data[logical.HTTPRawBody].(string); ok {
			raw = []byte(sraw)
		}
	}
	if len(raw) == 0 {
		return nil, nil
	}
	rl, perr := x509.ParseRevocationList(raw)
	if perr != nil {
		return nil, fmt.Errorf("parse: %v", perr)
	}
	return rl, nil
}

func (w *c16World) certStatusRevoked(c *c16Cert) (bool, error) {
	resp, err := w.s.Req(w.s.Root, logical.ReadOperation, "pki/cert/"+c.serial, nil)
	if !OK(resp, err) || resp == nil || resp.Data == nil {
		return false, fmt.Errorf("%s", ErrText(resp, err))
	}
	switch v := resp.Data["revocation_time"].(type) {
	case int64:
		return v > 0, nil
	case int:
		return v > 0, nil
	case float64:
		return v > 0, nil
	}
	return false, nil
}

func (w *c16World) ocspRevoked(c *c16Cert) (int, error) {
	iss := w.issuers[c.issuer]
	der, err := ocsp.CreateRequest(c.cert, iss, nil)
	if err != nil {
		return 0, err
	}
	resp, rerr := w.s.Req("", logical.ReadOperation, "pki/ocsp/"+base64.StdEncoding.EncodeToString(der), nil)
	if !OK(resp, rerr) || resp == nil {
		return 0, fmt.Errorf("%s", ErrText(resp, rerr))
	}
	raw, _ := resp.Data[logical.HTTPRawBody].([]byte)
	pr, perr := ocsp.ParseResponse(raw, iss)
	if perr != nil {
		return 0, fmt.Errorf("parse ocsp response: %v", perr)
	}
	return pr.Status, nil
}

// check is the oracle; returns (sig, msg).
func (w *c16World) check() (string, string) {
	for n, iss := range w.issuers {
		if w.issuerGone[n] {
			continue
		}
		rl, raw, err := w.crl(n)
		if err != nil {
			return "crl-unavailable", fmt.Sprintf("CRL of issuer %s: %v", n, err)
		}
		on := map[string]bool{}
		if rl != nil {
			if err := rl.CheckSignatureFrom(iss); err != nil {
				return "crl-bad-signature", fmt.Sprintf("CRL of issuer %s does not verify under the issuer: %v", n, err)
			}
			for _, e := range rl.RevokedCertificateEntries {
				on[e.SerialNumber.String()] = true
			}
			if prev := w.lastCRLNum[n]; prev != nil && raw != w.lastCRLRaw[n] && rl.Number.Cmp(prev) <= 0 {
				return "crl-number-not-increasing", fmt.Sprintf("issuer %s published a different CRL with number %v after number %v", n, rl.Number, prev)
			}
			w.lastCRLNum[n], w.lastCRLRaw[n] = rl.Number, raw
		}
		for s := range w.lastRevoked[n] {
			if !on[s] {
				// A certificate revoked while its own issuer was absent is parked on another
				// issuer's CRL; when its issuer comes back the entry moves to that issuer's CRL,
				// where the main clause below requires it. Only entries of certificates THIS
				// issuer issued must never leave its CRL.
				foreign := false
				known := append([]*c16Cert{}, w.certs...)
				if w.keyless != nil {
					known = append(known, w.keyless) // (thorough-tier false alarm: the key-less issuer revoked while ITS issuer was absent)
				}
				for _, sc := range w.subCAs {
					known = append(known, sc)
				}
				for _, c := range known {
					if c.cert.SerialNumber.String() == s && c.issuer != n {
						foreign = true
					}
				}
				if foreign {
					continue
				}
				return "crl-entry-disappeared", fmt.Sprintf("serial %s was on issuer %s's CRL and is unexpired, but is no longer listed", s, n)
			}
		}
		w.lastRevoked[n] = on
		// delta CRL: while enabled, a revocation may be published on the delta instead of the
		// complete CRL; a relying party consults both
		onDelta := map[string]bool{}
		if w.delta {
			drl, derr := w.deltaCRL(n)
			if derr != nil {
				return "delta-crl-unavailable", fmt.Sprintf("delta CRL of issuer %s: %v", n, derr)
			}
			if drl != nil {
				if err := drl.CheckSignatureFrom(iss); err != nil {
					return "delta-crl-bad-signature", fmt.Sprintf("delta CRL of issuer %s does not verify under the issuer: %v", n, err)
				}
				for _, e := range drl.RevokedCertificateEntries {
					onDelta[e.SerialNumber.String()] = true
				}
				if rl != nil && drl.Number != nil && rl.Number != nil && drl.Number.Cmp(rl.Number) < 0 {
					return "delta-crl-older-than-complete", fmt.Sprintf("issuer %s: delta CRL number %v is below the complete CRL number %v", n, drl.Number, rl.Number)
				}
			}
		}
		crlCerts := append([]*c16Cert{}, w.certs...)
		if w.keyless != nil {
			crlCerts = append(crlCerts, w.keyless)
		}
		for _, nm := range []string{"int1", "int2"} {
			if sc := w.subCAs[nm]; sc != nil {
				crlCerts = append(crlCerts, sc)
			}
		}
		for _, c := range crlCerts {
			if c.issuer != n || !c.revoked {
				continue
			}
			mustBeListed := !w.autoRebuild || w.rotatedSinceRevoke
			if w.delta && w.deltaRotatedSinceRevoke && !on[c.cert.SerialNumber.String()] && !onDelta[c.cert.SerialNumber.String()] {
				return "revoked-serial-missing-from-crl-and-delta", fmt.Sprintf("serial %s (issuer %s) was reported revoked and the delta CRL was rotated since, but neither the complete nor the delta CRL lists it", c.serial, n)
			}
			if w.delta && onDelta[c.cert.SerialNumber.String()] {
				continue // published on the delta
			}
			if mustBeListed && !on[c.cert.SerialNumber.String()] {
				return "revoked-serial-missing-from-crl", fmt.Sprintf("serial %s (issuer %s) was reported revoked but the complete CRL served now does not list it (auto_rebuild=%v)", c.serial, n, w.autoRebuild)
			}
		}
	}
	// (the certificate status API only knows certificates the mount stores; the subordinate CA
	// signed outside of the mount is judged on its issuer's CRL only)
	for _, c := range w.certs {
		rev, err := w.certStatusRevoked(c)
		if err != nil {
			return "cert-status-unavailable", fmt.Sprintf("cert/%s: %v", c.serial, err)
		}
		if c.revoked && !rev {
			return "status-api-not-revoked", fmt.Sprintf("serial %s was reported revoked but the certificate status API shows no revocation time", c.serial)
		}
		if !c.revoked && rev {
			// a failed revoke may legitimately have recorded the revocation; not a violation
			continue
		}
		if !w.issuerGone[c.issuer] {
			st, err := w.ocspRevoked(c)
			if err != nil {
				return "ocsp-unavailable", fmt.Sprintf("OCSP for %s: %v", c.serial, err)
			}
			if c.revoked && st != ocsp.Revoked {
				return "ocsp-not-revoked", fmt.Sprintf("serial %s was reported revoked but OCSP answers status %d", c.serial, st)
			}
		}
	}
	return "", ""
}

type c16Op struct {
	Kind string `json:"k"`
	Arg  int    `json:"a,omitempty"`
}

func (o c16Op) String() string { return fmt.Sprintf("%s(%d)", o.Kind, o.Arg) }

func c16Alphabet(ncerts int) []c16Op {
	out := []c16Op{{"issue", 1}, {"issue", 2}, {"rotate", 0}, {"tidy", 0}, {"auto-rebuild", 1}, {"auto-rebuild", 0}, {"delete-issuer2", 0}, {"restart", 0}, {"reimport-issuer2", 0}, {"delta", 1}, {"delta", 0}, {"rotate-delta", 0}, {"import-colliding-ca", 0}, {"import-keyless-sub", 0}, {"revoke-keyless-sub", 0}, {"add-int", 1}, {"add-int", 2}, {"revoke-int", 1}, {"revoke-int", 2}, {"reimport-int", 1}, {"reissue-i1", 0}, {"set-default", 1}, {"set-default", 2}, {"set-default", 3}}
	for i := 0; i < ncerts; i++ {
		out = append(out, c16Op{"revoke", i})
	}
	return out
}

func (w *c16World) apply(t *testing.T, op c16Op) (string, string) {
	switch op.Kind {
	case "issue":
		n := fmt.Sprintf("i%d", op.Arg)
		ok, txt := w.issue(n)
		if !ok && !w.issuerGone[n] {
			return "issue-failed", txt
		}
	case "revoke":
		c := w.certs[op.Arg]
		ok, txt := w.revoke(op.Arg)
		if !ok && op.Arg == 0 && w.colliders > 0 {
			// the engine refuses to revoke by a serial number that is also an imported issuer's
			// own ("adding issuer to its own CRL is not allowed"): a refusal imposes nothing
			break
		}
		if !ok {
			return "revoke-failed", fmt.Sprintf("revoke(%s) failed: %s", c.serial, txt)
		}
		if !c.revoked {
			c.revoked = true
			w.rotatedSinceRevoke = false
			w.deltaRotatedSinceRevoke = false
		}
	case "rotate":
		if ok, txt := w.rotate(); !ok {
			return "rotate-failed", txt
		}
		w.rotatedSinceRevoke = true
		w.deltaRotatedSinceRevoke = true
	case "delta":
		on := op.Arg == 1
		data := map[string]interface{}{"enable_delta": on}
		if on {
			data["auto_rebuild"] = true
		}
		resp, err := w.s.Req(w.s.Root, logical.UpdateOperation, "pki/config/crl", data)
		if !OK(resp, err) {
			return "config-failed", ErrText(resp, err)
		}
		if on {
			w.autoRebuild = true
		}
		w.delta = on
		w.deltaRotatedSinceRevoke = false
	case "rotate-delta":
		resp, err := w.s.Req(w.s.Root, logical.ReadOperation, "pki/crl/rotate-delta", nil)
		if !OK(resp, err) {
			return "rotate-delta-failed", ErrText(resp, err)
		}
		if w.delta {
			w.deltaRotatedSinceRevoke = true
		}
	case "tidy":
		if err := w.tidy(); err != nil {
			t.Fatalf("harness: tidy: %v", err)
		}
	case "auto-rebuild":
		on := op.Arg == 1
		resp, err := w.s.Req(w.s.Root, logical.UpdateOperation, "pki/config/crl", map[string]interface{}{"auto_rebuild": on, "enable_delta": false})
		if !OK(resp, err) {
			return "config-failed", ErrText(resp, err)
		}
		w.delta = false
		if w.autoRebuild && !on {
			// switching auto-rebuild off: the statement's "CRL served once revoke returned" applies to
			// revocations made from now on; earlier ones need a rotate first
			pending := false
			for _, c := range w.certs {
				if c.revoked {
					pending = true
				}
			}
			if pending && !w.rotatedSinceRevoke {
				if ok, txt := w.rotate(); !ok {
					return "rotate-failed", txt
				}
				w.rotatedSinceRevoke = true
			}
		}
		w.autoRebuild = on
	case "delete-issuer2":
		resp, err := w.s.Req(w.s.Root, logical.DeleteOperation, "pki/issuer/i2", nil)
		if OK(resp, err) {
			w.issuerGone["i2"] = true
		}
	case "reimport-issuer2":
		// the issuer is removed and the very same certificate + key imported again: it gets a
		// NEW issuer id; certificates it issued and that were revoked stay revoked and must be
		// on the CRL served for it (a rotate is part of the step so that "served now" is meaningful)
		if !w.issuerGone["i2"] {
			if resp, err := w.s.Req(w.s.Root, logical.DeleteOperation, "pki/issuer/i2", nil); !OK(resp, err) {
				return "delete-issuer-failed", ErrText(resp, err)
			}
		}
		resp, err := w.s.Req(w.s.Root, logical.UpdateOperation, "pki/issuers/import/bundle", map[string]interface{}{"pem_bundle": c16I2Bundle})
		if !OK(resp, err) || resp == nil {
			return "import-issuer-failed", ErrText(resp, err)
		}
		var id string
		switch v := resp.Data["imported_issuers"].(type) {
		case []string:
			if len(v) > 0 {
				id = v[0]
			}
		case []interface{}:
			if len(v) > 0 {
				id = fmt.Sprint(v[0])
			}
		}
		if id == "" {
			t.Fatalf("harness: import reported no new issuer: %v", resp.Data)
		}
		if r2, e2 := w.s.Req(w.s.Root, logical.UpdateOperation, "pki/issuer/"+id, map[string]interface{}{"issuer_name": "i2"}); !OK(r2, e2) {
			return "rename-issuer-failed", ErrText(r2, e2)
		}
		w.issuerGone["i2"] = false
		w.reimports++
		delete(w.lastCRLNum, "i2") // a new issuer identity starts a new CRL series
		delete(w.lastCRLRaw, "i2")
		if ok, txt := w.rotate(); !ok {
			return "rotate-failed", txt
		}
		w.rotatedSinceRevoke = true
	case "import-colliding-ca":
		// a foreign CA whose own certificate carries the serial number of the first leaf issued
		// here is imported as a further issuer (serial numbers are only unique per issuer); a
		// rotate is part of the step. The leaf's revocation must stay on its issuer's CRL.
		if len(w.certs) == 0 || w.colliders > 0 {
			break
		}
		bundle, berr := c16CollidingCA(w.certs[0].cert.SerialNumber)
		if berr != nil {
			t.Fatalf("harness: %v", berr)
		}
		resp, err := w.s.Req(w.s.Root, logical.UpdateOperation, "pki/issuers/import/bundle", map[string]interface{}{"pem_bundle": bundle})
		if !OK(resp, err) {
			// a refusal is the engine's right; nothing else changes
			break
		}
		w.colliders++
		if ok, txt := w.rotate(); !ok {
			return "rotate-failed", txt
		}
		w.rotatedSinceRevoke = true
	case "reimport-int":
		// the intermediate int1 is removed and its very certificate imported again (its key
		// is still in the mount): a new issuer id for the same certificate; if it was revoked
		// it stays revoked (a rotate is part of the step so that "served now" is meaningful)
		sc := w.subCAs["int1"]
		if sc == nil || w.issuerGone["i2"] || w.subCAs["int2"] != nil {
			break
		}
		if resp, err := w.s.Req(w.s.Root, logical.DeleteOperation, "pki/issuer/int1", nil); !OK(resp, err) {
			return "delete-issuer-failed", ErrText(resp, err)
		}
		certPEM := string(pem.EncodeToMemory(&pem.Block{Type: "CERTIFICATE", Bytes: sc.cert.Raw}))
		r3, e3 := w.s.Req(w.s.Root, logical.UpdateOperation, "pki/issuers/import/cert", map[string]interface{}{"pem_bundle": certPEM})
		if !OK(r3, e3) || r3 == nil {
			return "import-issuer-failed", "re-importing the intermediate: " + ErrText(r3, e3)
		}
		var id string
		switch v := r3.Data["imported_issuers"].(type) {
		case []string:
			if len(v) > 0 {
				id = v[0]
			}
		case []interface{}:
			if len(v) > 0 {
				id = fmt.Sprint(v[0])
			}
		}
		if id == "" {
			t.Fatalf("harness: re-import of the intermediate reported no new issuer: %v", r3.Data)
		}
		rename := map[string]interface{}{"issuer_name": "int1"}
		if sc.revoked {
			// (an update that does not name the usages asks for all of them; a revoked issuer may
			// not get certificate signing back)
			rename["usage"] = "crl-signing,ocsp-signing"
		}
		if r4, e4 := w.s.Req(w.s.Root, logical.UpdateOperation, "pki/issuer/"+id, rename); !OK(r4, e4) {
			return "rename-issuer-failed", ErrText(r4, e4)
		}
		delete(w.lastCRLNum, "int1")
		delete(w.lastCRLRaw, "int1")
		if ok, txt := w.rotate(); !ok {
			return "rotate-failed", txt
		}
		w.rotatedSinceRevoke = true
		w.deltaRotatedSinceRevoke = true
	case "reissue-i1":
		// issuer 1 is re-issued on its existing key with the same subject (i1b): the two are
		// equivalent issuers and share one CRL
		if w.issuers["i1b"] != nil {
			break
		}
		ri, ei := w.s.Req(w.s.Root, logical.ReadOperation, "pki/issuer/i1", nil)
		if !OK(ri, ei) || ri == nil {
			return "issuer-unreadable", ErrText(ri, ei)
		}
		rr, er := w.s.Req(w.s.Root, logical.UpdateOperation, "pki/issuers/generate/root/existing", map[string]interface{}{
			"key_ref": fmt.Sprint(ri.Data["key_id"]), "common_name": "root i1", "issuer_name": "i1b", "ttl": "8760h"})
		if !OK(rr, er) || rr == nil {
			return "reissue-failed", "re-issuing issuer 1 on its existing key: " + ErrText(rr, er)
		}
		c, perr := parseCertPEM(fmt.Sprint(rr.Data["certificate"]))
		if perr != nil {
			t.Fatalf("harness: %v", perr)
		}
		w.issuers["i1b"] = c
	case "set-default":
		name := []string{"", "i1", "i1b", "i2"}[op.Arg]
		if w.issuers[name] == nil || w.issuerGone[name] {
			break
		}
		resp, err := w.s.Req(w.s.Root, logical.UpdateOperation, "pki/config/issuers", map[string]interface{}{"default": name})
		if !OK(resp, err) {
			return "config-failed", "config/issuers default=" + name + ": " + ErrText(resp, err)
		}
		w.defaultIss = name
	case "add-int":
		// a keyed intermediate CA created inside the mount: int1 is signed by issuer i2, int2 by
		// int1 (generate CSR -> sign-intermediate -> import the certificate next to its key)
		name, parent := fmt.Sprintf("int%d", op.Arg), "i2"
		if op.Arg == 2 {
			parent = "int1"
		}
		if w.subCAs == nil {
			w.subCAs = map[string]*c16Cert{}
		}
		if op.Arg == 2 && w.subCAs["int1"] == nil && !w.issuerGone["i2"] {
			// composite: the chain i2 -> int1 -> int2 in one step (keeps "revoke both" within the depth bound)
			if sig, msg := w.apply(t, c16Op{"add-int", 1}); sig != "" {
				return sig, msg
			}
		}
		if w.subCAs[name] != nil || w.issuerGone[parent] || (op.Arg == 2 && (w.subCAs["int1"] == nil || w.subCAs["int1"].revoked)) {
			break
		}
		r1, e1 := w.s.Req(w.s.Root, logical.UpdateOperation, "pki/issuers/generate/intermediate/internal", map[string]interface{}{"common_name": "intermediate " + name, "key_type": "ec", "key_bits": 256})
		if !OK(r1, e1) || r1 == nil {
			return "intermediate-failed", "generating an intermediate CSR: " + ErrText(r1, e1)
		}
		r2, e2 := w.s.Req(w.s.Root, logical.UpdateOperation, "pki/issuer/"+parent+"/sign-intermediate", map[string]interface{}{"csr": r1.Data["csr"], "common_name": "intermediate " + name, "ttl": "200h"})
		if !OK(r2, e2) || r2 == nil {
			return "intermediate-failed", "signing the intermediate with " + parent + ": " + ErrText(r2, e2)
		}
		certPEM := fmt.Sprint(r2.Data["certificate"])
		r3, e3 := w.s.Req(w.s.Root, logical.UpdateOperation, "pki/issuers/import/cert", map[string]interface{}{"pem_bundle": certPEM})
		if !OK(r3, e3) || r3 == nil {
			return "intermediate-failed", "importing the signed intermediate: " + ErrText(r3, e3)
		}
		var id string
		switch v := r3.Data["imported_issuers"].(type) {
		case []string:
			if len(v) > 0 {
				id = v[0]
			}
		case []interface{}:
			if len(v) > 0 {
				id = fmt.Sprint(v[0])
			}
		}
		if id == "" {
			t.Fatalf("harness: import of the intermediate reported no new issuer: %v", r3.Data)
		}
		if r4, e4 := w.s.Req(w.s.Root, logical.UpdateOperation, "pki/issuer/"+id, map[string]interface{}{"issuer_name": name}); !OK(r4, e4) {
			return "rename-issuer-failed", ErrText(r4, e4)
		}
		c, perr := parseCertPEM(certPEM)
		if perr != nil {
			t.Fatalf("harness: %v", perr)
		}
		w.subCAs[name] = &c16Cert{serial: fmt.Sprint(r2.Data["serial_number"]), issuer: parent, cert: c}
		w.issuers[name] = c
	case "revoke-int":
		name := fmt.Sprintf("int%d", op.Arg)
		sc := w.subCAs[name]
		if sc == nil {
			break
		}
		resp, err := w.s.Req(w.s.Root, logical.UpdateOperation, "pki/issuer/"+name+"/revoke", nil)
		if !OK(resp, err) {
			if sc.revoked {
				break
			}
			return "revoke-failed", "issuer/" + name + "/revoke failed: " + ErrText(resp, err)
		}
		if !sc.revoked {
			sc.revoked = true
			w.rotatedSinceRevoke = false
			w.deltaRotatedSinceRevoke = false
		}
	case "import-keyless-sub":
		// a subordinate CA certificate signed by issuer i2 (whose key the harness holds) is
		// imported as a further issuer WITHOUT its private key (the key lives elsewhere)
		if w.keyless != nil || w.issuerGone["i2"] {
			break
		}
		certPEM, kc, kerr := c16KeylessSub(w.issuers["i2"])
		if kerr != nil {
			t.Fatalf("harness: %v", kerr)
		}
		resp, err := w.s.Req(w.s.Root, logical.UpdateOperation, "pki/issuers/import/cert", map[string]interface{}{"pem_bundle": certPEM})
		if !OK(resp, err) || resp == nil {
			return "import-issuer-failed", "importing a certificate-only subordinate issuer: " + ErrText(resp, err)
		}
		var id string
		switch v := resp.Data["imported_issuers"].(type) {
		case []string:
			if len(v) > 0 {
				id = v[0]
			}
		case []interface{}:
			if len(v) > 0 {
				id = fmt.Sprint(v[0])
			}
		}
		if id == "" {
			t.Fatalf("harness: import reported no new issuer: %v", resp.Data)
		}
		if r2, e2 := w.s.Req(w.s.Root, logical.UpdateOperation, "pki/issuer/"+id, map[string]interface{}{"issuer_name": "ksub"}); !OK(r2, e2) {
			return "rename-issuer-failed", ErrText(r2, e2)
		}
		w.keyless = kc
	case "revoke-keyless-sub":
		// the subordinate CA itself is revoked (issuer/<ref>/revoke): its serial belongs on the
		// CRL of ITS issuer, i2
		if w.keyless == nil {
			break
		}
		resp, err := w.s.Req(w.s.Root, logical.UpdateOperation, "pki/issuer/ksub/revoke", nil)
		if !OK(resp, err) {
			if w.keyless.revoked {
				break // a second revocation may be refused
			}
			return "revoke-failed", "issuer/ksub/revoke failed: " + ErrText(resp, err)
		}
		if !w.keyless.revoked {
			w.keyless.revoked = true
			w.rotatedSinceRevoke = false
			w.deltaRotatedSinceRevoke = false
		}
	case "restart":
		img2 := w.s.Image()
		w.s.Close()
		ns, err := BootData(t, img2.Data, img2)
		if err != nil {
			t.Fatalf("harness: restart: %v", err)
		}
		w.s = ns
	}
	return w.check()
}

func (w *c16World) canon() string {
	var parts []string
	for _, c := range w.certs {
		parts = append(parts, fmt.Sprintf("%s:%v", c.issuer, c.revoked))
	}
	sort.Strings(parts)
	return fmt.Sprintf("%v auto=%v rot=%v gone=%v delta=%v drot=%v reimports=%d", parts, w.autoRebuild, w.rotatedSinceRevoke, w.issuerGone["i2"], w.delta, w.deltaRotatedSinceRevoke, w.reimports) + fmt.Sprintf(" colliders=%d", w.colliders) + fmt.Sprintf(" keyless=%v/%v", w.keyless != nil, w.keyless != nil && w.keyless.revoked) + fmt.Sprintf(" i1b=%v default=%s", w.issuers["i1b"] != nil, w.defaultIss) + fmt.Sprintf(" int1=%v/%v int2=%v/%v", w.subCAs["int1"] != nil, w.subCAs["int1"] != nil && w.subCAs["int1"].revoked, w.subCAs["int2"] != nil, w.subCAs["int2"] != nil && w.subCAs["int2"].revoked)
}

// c16KeylessSub builds a subordinate CA certificate signed with issuer i2's key (from the
// exported bundle) and returns ONLY the certificate as PEM.
func c16KeylessSub(i2 *x509.Certificate) (string, *c16Cert, error) {
	var parentKey *ecdsa.PrivateKey
	rest := []byte(c16I2Bundle)
	for {
		var blk *pem.Block
		blk, rest = pem.Decode(rest)
		if blk == nil {
			break
		}
		if strings.Contains(blk.Type, "PRIVATE KEY") {
			if k, err := x509.ParseECPrivateKey(blk.Bytes); err == nil {
				parentKey = k
			} else if k8, err8 := x509.ParsePKCS8PrivateKey(blk.Bytes); err8 == nil {
				parentKey, _ = k8.(*ecdsa.PrivateKey)
			}
		}
	}
	if parentKey == nil {
		return "", nil, fmt.Errorf("no EC private key in the exported bundle of i2")
	}
	key, err := ecdsa.GenerateKey(elliptic.P256(), crand.Reader)
	if err != nil {
		return "", nil, err
	}
	serial, _ := crand.Int(crand.Reader, new(big.Int).Lsh(big.NewInt(1), 100))
	tmpl := &x509.Certificate{
		SerialNumber: serial, Subject: pkix.Name{CommonName: "subordinate ca whose key lives elsewhere"},
		NotBefore: time.Now().Add(-time.Hour), NotAfter: time.Now().Add(240 * time.Hour),
		IsCA: true, BasicConstraintsValid: true, KeyUsage: x509.KeyUsageCertSign | x509.KeyUsageCRLSign,
	}
	der, err := x509.CreateCertificate(crand.Reader, tmpl, i2, &key.PublicKey, parentKey)
	if err != nil {
		return "", nil, err
	}
	c, err := x509.ParseCertificate(der)
	if err != nil {
		return "", nil, err
	}
	var hexs []string
	for _, b := range c.SerialNumber.Bytes() {
		hexs = append(hexs, fmt.Sprintf("%02x", b))
	}
	return string(pem.EncodeToMemory(&pem.Block{Type: "CERTIFICATE", Bytes: der})), &c16Cert{serial: strings.Join(hexs, ":"), issuer: "i2", cert: c}, nil
}

// c16CollidingCA builds a self-signed EC CA certificate with the given serial number and
// returns certificate + key as a PEM bundle.
func c16CollidingCA(serial *big.Int) (string, error) {
	key, err := ecdsa.GenerateKey(elliptic.P256(), crand.Reader)
	if err != nil {
		return "", err
	}
	tmpl := &x509.Certificate{
		SerialNumber: new(big.Int).Set(serial), Subject: pkix.Name{CommonName: "foreign ca with a colliding serial"},
		NotBefore: time.Now().Add(-time.Hour), NotAfter: time.Now().Add(240 * time.Hour),
		IsCA: true, BasicConstraintsValid: true, KeyUsage: x509.KeyUsageCertSign | x509.KeyUsageCRLSign,
	}
	der, err := x509.CreateCertificate(crand.Reader, tmpl, tmpl, &key.PublicKey, key)
	if err != nil {
		return "", err
	}
	kb, err := x509.MarshalECPrivateKey(key)
	if err != nil {
		return "", err
	}
	return string(pem.EncodeToMemory(&pem.Block{Type: "CERTIFICATE", Bytes: der})) + string(pem.EncodeToMemory(&pem.Block{Type: "EC PRIVATE KEY", Bytes: kb})), nil
}

func c16Replay(t *testing.T, img *Image, hist []c16Op, res *vout.Result) (*c16World, string, string) {
	s := Boot(t, img)
	w := c16NewWorld(t, s)
	defer func() { w.s.Close() }()
	if sig, msg := w.check(); sig != "" {
		return w, sig, "initial state: " + msg
	}
	for i, op := range hist {
		res.Add("transitions", 1)
		if sig, msg := w.apply(t, op); sig != "" {
			return w, sig, fmt.Sprintf("history %v step %d (%s): %s", hist, i, op, msg)
		}
	}
	return w, "", ""
}

func TestVerifC16(t *testing.T) {
	res := vout.New("C16", "core")
	defer func() {
		if err := res.Write(); err != nil {
			t.Fatal(err)
		}
	}()
	img := c16Image(t, false)
	if vout.ReplayPath() != "" {
		var a struct {
			Scenario string  `json:"scenario"`
			Hist     []c16Op `json:"hist"`
		}
		if _, err := vout.LoadReplay(&a); err != nil {
			t.Fatal(err)
		}
		if a.Scenario == "history" {
			if _, sig, msg := c16Replay(t, img, a.Hist, res); sig != "" {
				res.Violate("c16:history:"+sig, msg, a)
			}
		}
		return
	}
	only := os.Getenv("VERIF_PART")
	depth := 3
	if vout.Thorough() {
		depth = 4
	}
	res.Bound("history_depth", depth)
	count := 0
	if only == "" || only == "H" {
		seen := map[string]bool{}
		type node struct {
			h []c16Op
			n int
		}
		// two starting configurations: the default one and delta CRLs enabled (auto_rebuild + enable_delta)
		// ... and a pre-state that takes six steps to reach: a revoked leaf of issuer 2 whose issuer
		// was then removed (an "unassigned" revocation, carried by the default issuer's CRL), a
		// revoked leaf of issuer 1, and issuer 1 re-issued on its key (two equivalent issuers
		// sharing one CRL)
		frontier := []node{{nil, 0}, {[]c16Op{{"delta", 1}}, 0},
			{[]c16Op{{"issue", 2}, {"revoke", 0}, {"delete-issuer2", 0}, {"issue", 1}, {"revoke", 1}, {"reissue-i1", 0}}, 2}}
		for d := 0; d < depth; d++ {
			var next []node
			for _, nd := range frontier {
				for _, op := range c16Alphabet(nd.n) {
					if nd.n >= 3 && op.Kind == "issue" {
						continue
					}
					count++
					last := d == depth-1
					if last && !vout.Mine(count) {
						continue
					}
					h := append(append([]c16Op{}, nd.h...), op)
					w, sig, msg := c16Replay(t, img, h, res)
					res.Add("executions", 1)
					if sig != "" {
						if last || vout.Mine(count) {
							res.Violate("c16:history:"+sig, msg, map[string]interface{}{"scenario": "history", "hist": h})
						}
						continue
					}
					key := w.canon()
					if !last {
						if seen[key] {
							continue
						}
						seen[key] = true
						next = append(next, node{h, len(w.certs)})
					}
					if vout.Mine(count) {
						res.Add("states", 1)
						res.Distinct("nontrivial", "H|"+key)
						if count%53 == 0 {
							res.Sample(map[string]interface{}{"history": fmt.Sprint(h), "state": key})
						}
					}
				}
			}
			frontier = next
		}
	}
	// ---- F / K on revoke and rotate
	if only == "" || only == "S" {
		c16PartS(t, res, &count)
	}
	if only == "" || only == "F" {
		for _, nonTxn := range []bool{false, true} {
			if nonTxn && !vout.Thorough() {
				continue
			}
			fimg := img
			if nonTxn {
				fimg = c16Image(t, true)
			}
			// base: two certs on i1, one on i2, the first already revoked
			sb := Boot(t, fimg)
			wb := c16NewWorld(t, sb)
			for _, iss := range []string{"i1", "i1", "i2"} {
				if ok, txt := wb.issue(iss); !ok {
					t.Fatalf("harness: %s", txt)
				}
			}
			if ok, txt := wb.revoke(0); !ok {
				t.Fatalf("harness: %s", txt)
			}
			wb.certs[0].revoked = true
			base := sb.Image()
			baseCerts := wb.certs
			sb.Close()
			mk := func(s *Sys) *c16World {
				w := c16NewWorld(t, s)
				for _, c := range baseCerts {
					cc := *c
					w.certs = append(w.certs, &cc)
				}
				return w
			}
			for _, what := range []string{"revoke", "rotate"} {
				act := func(w *c16World) (bool, string) {
					if what == "revoke" {
						return w.revoke(1)
					}
					return w.rotate()
				}
				s0 := Boot(t, base)
				w0 := mk(s0)
				s0.Phys.FailAt("call", 1<<30)
				s0.Phys.ResetMutations()
				s0.Phys.SetTag("call")
				ok0, txt0 := act(w0)
				s0.Phys.SetTag("")
				nops, nmut := s0.Phys.TagCount("call"), s0.Phys.Mutations()
				s0.Close()
				if !ok0 {
					t.Fatalf("harness: fault-free %s failed: %s", what, txt0)
				}
				res.Max("ops_in_"+what, int64(nops))
				for k := 1; k <= nops; k++ {
					count++
					if !vout.Mine(count) {
						continue
					}
					s := Boot(t, base)
					w := mk(s)
					s.Phys.FailAt("call", k)
					s.Phys.SetTag("call")
					ok, _ := act(w)
					s.Phys.SetTag("")
					failed := s.Phys.Failed()
					attempts := 1
					for !ok && attempts < 5 {
						ok, _ = act(w)
						attempts++
					}
					res.Add("executions", 1)
					res.Add("fault_runs", 1)
					whatFailed := "not reached"
					if failed != nil {
						whatFailed = failed.String()
						res.Distinct("nontrivial", fmt.Sprintf("F|%v|%s|%s|%d", nonTxn, what, failed.Kind+":"+keyClass(failed.Key), attempts))
					}
					art := map[string]interface{}{"scenario": "fault", "what": what, "k": k, "nonTxn": nonTxn}
					if !ok {
						res.Violate("c16:fault:never-succeeds", fmt.Sprintf("%s nonTxn=%v: after storage op %d [%s] failed once, fault-free retries keep failing", what, nonTxn, k, whatFailed), art)
					} else {
						if what == "revoke" {
							w.certs[1].revoked = true
						} else {
							w.rotatedSinceRevoke = true
						}
						if sig, msg := w.check(); sig != "" {
							res.Violate("c16:fault:"+sig, fmt.Sprintf("%s nonTxn=%v: storage op %d [%s] failed, the API reported success after %d attempt(s), but %s", what, nonTxn, k, whatFailed, attempts, msg), art)
						}
					}
					s.Close()
				}
				for j := 1; j <= nmut; j++ {
					count++
					if !vout.Mine(count) {
						continue
					}
					s := Boot(t, base)
					w := mk(s)
					s.Phys.CrashAfter(j)
					_, _ = act(w)
					crashed, snap := s.Phys.Crashed()
					s.Close()
					if !crashed {
						continue
					}
					res.Add("executions", 1)
					res.Add("crash_runs", 1)
					art := map[string]interface{}{"scenario": "crash", "what": what, "j": j, "nonTxn": nonTxn}
					s2, err := BootData(t, snap, base)
					if err != nil {
						res.Violate("c16:crash:restart-failed", fmt.Sprintf("%s: crash after mutation %d: %v", what, j, err), art)
						continue
					}
					w2 := mk(s2)
					ok := false
					for a := 0; a < 4 && !ok; a++ {
						ok, _ = func() (bool, string) {
							if what == "revoke" {
								return w2.revoke(1)
							}
							return w2.rotate()
						}()
					}
					if !ok {
						res.Violate("c16:crash:never-succeeds", fmt.Sprintf("%s: crash after durable mutation %d of %d, restart: retries keep failing", what, j, nmut), art)
					} else {
						if what == "revoke" {
							w2.certs[1].revoked = true
						} else {
							w2.rotatedSinceRevoke = true
						}
						if sig, msg := w2.check(); sig != "" {
							res.Violate("c16:crash:"+sig, fmt.Sprintf("%s nonTxn=%v: crash after durable mutation %d of %d, restart, retry reported success, but %s", what, nonTxn, j, nmut, msg), art)
						}
					}
					res.Distinct("nontrivial", fmt.Sprintf("K|%v|%s|%d", nonTxn, what, j))
					s2.Close()
				}
			}
		}
	}
	_ = strings.TrimSpace
}
