package core

// C10 (Core level, per-namespace barrier): "root AND per-namespace barriers".
//
// A namespace with its own Shamir seal (3 shares, threshold 3, like the root seal of the
// root-level unit) holds a mount with an
// earlier entry.  For each key-management operation addressed to THAT namespace
//
//	ns-rotate              <ns>/sys/rotate            encryption-key rotation of the namespace barrier
//	ns-rotate-root         <ns>/sys/rotate/root       share-less root-key rotation
//	ns-rotate-root-shares  <ns>/sys/rotate/root/init (5 shares, threshold 2) + update with the
//	                       old shares: new root key and new shares
//
// (a) the server is crashed after every prefix of the operation's durable writes and
// restarted: the root barrier is unsealed with the root shares, then the namespace must
// unseal with its old share or with the new shares the operation would have returned
// (the harness holds both, more than an operator has), and the namespace's earlier
// entry and the root namespace's entry must read back;
// (b) every storage operation of the call fails once, the process lives on and
// acknowledges one more write inside the namespace, the server is restarted: the
// namespace must unseal with the shares the operator holds (the new ones only if the
// call handed them out) and every acknowledged entry must read back;
// (c) histories (depth 2 / 3) over these operations plus seal / unseal of the namespace
// and a write: after every step a restarted copy unseals with the currently held
// shares and everything acknowledged reads back, a sealed namespace serves nothing,
// and a new write's record in the namespace's storage carries the newest key term.

import (
	"encoding/binary"
	"fmt"
	"strings"
	"testing"

	"github.com/openbao/openbao/sdk/v2/helper/verif/vout"
	"github.com/openbao/openbao/sdk/v2/logical"
	"github.com/openbao/openbao/v2/internal/helper/namespace"
)

const c10nNS = "sealme"

func c10nImage(t *testing.T) (*Image, []string) {
	s := Build(t, Options{})
	defer s.Close()
	resp, err := s.Req(s.Root, logical.UpdateOperation, "sys/namespaces/"+c10nNS, map[string]interface{}{"seal": `seal "shamir" { shares = "3" threshold = "3" }`})
	if !OK(resp, err) || resp == nil {
		t.Fatalf("harness: create namespace: %s", ErrText(resp, err))
	}
	shares, _ := resp.Data["key_shares"].([]string)
	if len(shares) != 3 {
		t.Fatalf("harness: sealable namespace returned %d key shares", len(shares))
	}
	if ok, last := c10nUnseal(s, shares); !ok {
		t.Fatalf("harness: new namespace does not unseal: %s", last)
	}
	s.Mount("rec/", "rec")
	s.Must(s.Req(s.Root, logical.UpdateOperation, "rec/kv/r", map[string]interface{}{"value": "EARLIER-ROOT"}))
	ns := s.nsByPath(t, c10nNS+"/")
	s.Must(s.ReqNS(ns, s.Root, logical.UpdateOperation, "sys/mounts/rec", map[string]interface{}{"type": "rec"}))
	s.Must(s.ReqNS(ns, s.Root, logical.UpdateOperation, "rec/kv/a", map[string]interface{}{"value": "EARLIER-NS"}))
	s.settle()
	return s.Image(), shares
}

// c10nBoot: the image's server, namespace unsealed with its share (a restart leaves it sealed).
func c10nBoot(t *testing.T, img *Image, shares []string) *Sys {
	s := Boot(t, img)
	if ok, last := c10nUnseal(s, shares); !ok {
		t.Fatalf("harness: the image's namespace does not unseal with its share: %s", last)
	}
	return s
}

func c10nNamespace(s *Sys) *namespace.Namespace { return s.nsByPath(s.T, c10nNS+"/") }

// c10nAct performs the operation inside the namespace; share-based rotation returns the new shares.
func c10nAct(s *Sys, ns *namespace.Namespace, held []string, what string) ([]string, error) {
	switch what {
	case "ns-rotate":
		resp, err := s.ReqNS(ns, s.Root, logical.UpdateOperation, "sys/rotate", nil)
		if !OK(resp, err) {
			return nil, fmt.Errorf("%s", ErrText(resp, err))
		}
	case "ns-rotate-root":
		resp, err := s.ReqNS(ns, s.Root, logical.UpdateOperation, "sys/rotate/root", nil)
		if !OK(resp, err) {
			return nil, fmt.Errorf("%s", ErrText(resp, err))
		}
	case "ns-rotate-root-shares":
		resp, err := s.ReqNS(ns, s.Root, logical.UpdateOperation, "sys/rotate/root/init", map[string]interface{}{"secret_shares": 5, "secret_threshold": 2})
		if !OK(resp, err) || resp == nil {
			return nil, fmt.Errorf("rotate init: %s", ErrText(resp, err))
		}
		nonce, _ := resp.Data["nonce"].(string)
		for _, k := range held {
			resp, err := s.ReqNS(ns, s.Root, logical.UpdateOperation, "sys/rotate/root/update", map[string]interface{}{"key": k, "nonce": nonce})
			if !OK(resp, err) {
				_, _ = s.ReqNS(ns, s.Root, logical.DeleteOperation, "sys/rotate/root/init", nil)
				return nil, fmt.Errorf("rotate update: %s", ErrText(resp, err))
			}
			if resp != nil {
				if c, _ := resp.Data["complete"].(bool); c {
					ks, _ := resp.Data["keys"].([]string)
					if len(ks) == 0 {
						return nil, fmt.Errorf("rotation completed without new shares")
					}
					return ks, nil
				}
			}
		}
		return nil, fmt.Errorf("root rotation did not complete")
	default:
		return nil, fmt.Errorf("unknown operation %s", what)
	}
	return nil, nil
}

func c10nSealed(s *Sys) bool {
	resp, err := s.Req(s.Root, logical.ReadOperation, "sys/namespaces/"+c10nNS+"/seal-status", nil)
	if !OK(resp, err) || resp == nil {
		s.T.Fatalf("harness: namespace seal-status: %s", ErrText(resp, err))
	}
	sealed, _ := resp.Data["sealed"].(bool)
	return sealed
}

// c10nUnseal supplies the shares one by one; reports whether the namespace ended up unsealed.
func c10nUnseal(s *Sys, shares []string) (bool, string) {
	last := ""
	for _, k := range shares {
		if !c10nSealed(s) {
			break
		}
		resp, err := s.Req(s.Root, logical.UpdateOperation, "sys/namespaces/"+c10nNS+"/unseal", map[string]interface{}{"key": k})
		if !OK(resp, err) {
			last = ErrText(resp, err)
		}
	}
	ok := !c10nSealed(s)
	if ok {
		s.settle()
	}
	return ok, last
}

func c10nRead(s *Sys, ns *namespace.Namespace, key, want string) string {
	resp, err := s.ReqNS(ns, s.Root, logical.ReadOperation, "rec/kv/"+key, nil)
	if !OK(resp, err) || resp == nil || resp.Data["value"] != want {
		got := ErrText(resp, err)
		if OK(resp, err) && resp != nil {
			got = fmt.Sprint(resp.Data["value"])
		}
		return fmt.Sprintf("entry %s does not read back as %q (%s)", key, want, got)
	}
	return ""
}

// c10nRecover: a new process on the store content; root unseals with the root shares
// (harness error otherwise: these operations must not touch the root barrier - reported
// as a violation of its own), then the namespace is offered each candidate share set on
// a process of its own.
func c10nRecover(t *testing.T, snap map[string][]byte, img *Image, cands [][]string) (*Sys, string) {
	var errs []string
	for _, cand := range cands {
		if len(cand) == 0 {
			continue
		}
		sx, err := BootData(t, snap, img)
		if err != nil {
			return nil, "ROOT: the root barrier does not unseal with the root shares after an operation on the namespace's keys: " + err.Error()
		}
		ok, last := c10nUnseal(sx, cand)
		if ok {
			return sx, ""
		}
		errs = append(errs, fmt.Sprintf("%d share(s): %s", len(cand), last))
		sx.Close()
	}
	return nil, strings.Join(errs, "; ")
}

// c10nTerm: key term in the header of the stored record of the namespace's entry key.
func c10nTerm(s *Sys, ns *namespace.Namespace, key string) (uint32, bool) {
	for k, v := range s.Phys.Snapshot() {
		if strings.HasPrefix(k, "namespaces/"+ns.UUID+"/logical/") && strings.HasSuffix(k, "/kv/"+key) && len(v) >= 4 {
			return binary.BigEndian.Uint32(v[:4]), true
		}
	}
	return 0, false
}

func TestVerifC10CoreNS(t *testing.T) {
	res := vout.New("C10", "corens")
	defer func() {
		if err := res.Write(); err != nil {
			t.Fatal(err)
		}
	}()
	if vout.ReplayPath() != "" {
		t.Log("C10 corens artefacts name (operation, crash index j / fault index k / history); re-run the check to reproduce (deterministic enumeration)")
		return
	}
	img, oldShares := c10nImage(t)
	count := 0
	ops := []string{"ns-rotate", "ns-rotate-root", "ns-rotate-root-shares"}
	for _, what := range ops {
		s0 := c10nBoot(t, img, oldShares)
		ns := c10nNamespace(s0)
		s0.Phys.ResetMutations()
		newShares, err := c10nAct(s0, ns, oldShares, what)
		if err != nil {
			t.Fatalf("harness: fault-free %s failed: %v", what, err)
		}
		nmut := s0.Phys.Mutations()
		snap0 := s0.Phys.Snapshot()
		s0.Close()
		valid := oldShares
		if len(newShares) > 0 {
			valid = newShares
		}
		if sx, why := c10nRecover(t, snap0, img, [][]string{valid}); sx == nil {
			res.Violate("c10:corens:completed-operation-unsealable:"+what, fmt.Sprintf("after a completed %s the namespace does not unseal with the valid shares: %s", what, why), map[string]interface{}{"op": what, "j": 0})
		} else {
			if m := c10nRead(sx, c10nNamespace(sx), "a", "EARLIER-NS"); m != "" {
				res.Violate("c10:corens:entry-lost:"+what, fmt.Sprintf("after a completed %s: %s", what, m), map[string]interface{}{"op": what, "j": 0})
			}
			sx.Close()
		}
		res.Max("durable_mutations", int64(nmut))
		// ---- (a) crash after every durable write
		for j := 1; j <= nmut; j++ {
			count++
			if !vout.Mine(count) {
				continue
			}
			s := c10nBoot(t, img, oldShares)
			nsx := c10nNamespace(s)
			s.Phys.CrashAfter(j)
			_, _ = c10nAct(s, nsx, oldShares, what)
			crashed, snap := s.Phys.Crashed()
			s.Close()
			if !crashed {
				continue
			}
			res.Add("executions", 1)
			res.Add("crash_runs", 1)
			art := map[string]interface{}{"op": what, "j": j, "of": nmut}
			sx, why := c10nRecover(t, snap, img, [][]string{oldShares, newShares})
			if sx == nil {
				if strings.HasPrefix(why, "ROOT:") {
					res.Violate(fmt.Sprintf("c10:corens:crash:%s:root-unsealable", what), fmt.Sprintf("crash after durable write %d of %d of %s: %s", j, nmut, what, why), art)
				} else {
					res.Violate(fmt.Sprintf("c10:corens:crash:%s:unsealable:after-write-%d-of-%d", what, j, nmut), fmt.Sprintf("crash after durable write %d of %d of %s in namespace %s/: after the restart the namespace unseals neither with its old share nor with the new shares (%s)", j, nmut, what, c10nNS, why), art)
				}
				res.Distinct("nontrivial", fmt.Sprintf("%s|%d|unsealable", what, j))
				continue
			}
			if m := c10nRead(sx, c10nNamespace(sx), "a", "EARLIER-NS"); m != "" {
				res.Violate(fmt.Sprintf("c10:corens:crash:%s:entry-lost", what), fmt.Sprintf("crash after durable write %d of %d of %s: namespace unsealed, but %s", j, nmut, what, m), art)
			}
			if m := c10nRead(sx, namespace.RootNamespace, "r", "EARLIER-ROOT"); m != "" {
				res.Violate(fmt.Sprintf("c10:corens:crash:%s:root-entry-lost", what), fmt.Sprintf("crash after durable write %d of %d of %s: %s", j, nmut, what, m), art)
			}
			res.Distinct("nontrivial", fmt.Sprintf("%s|%d|ok", what, j))
			sx.Close()
		}
		// ---- (b) survived faults
		sF := c10nBoot(t, img, oldShares)
		nsF := c10nNamespace(sF)
		sF.Phys.FailAt("call", 1<<30)
		sF.Phys.SetTag("call")
		_, _ = c10nAct(sF, nsF, oldShares, what)
		sF.Phys.SetTag("")
		nops := sF.Phys.TagCount("call")
		sF.Close()
		res.Max("ops_in_operation", int64(nops))
		for k := 1; k <= nops; k++ {
			count++
			if !vout.Mine(count) {
				continue
			}
			s := c10nBoot(t, img, oldShares)
			nsx := c10nNamespace(s)
			s.Phys.FailAt("call", k)
			s.Phys.SetTag("call")
			shares, aerr := c10nAct(s, nsx, oldShares, what)
			s.Phys.SetTag("")
			failed := s.Phys.Failed()
			fwhat, fop := "not reached", "none"
			if failed != nil {
				fwhat = failed.String()
				fop = failed.Kind + "(" + c10nKeyClass(failed.Key) + ")"
			}
			res.Add("executions", 1)
			res.Add("fault_runs", 1)
			art := map[string]interface{}{"op": what, "fault_at_op": k, "failed_op": fwhat}
			later := OK(s.ReqNS(nsx, s.Root, logical.UpdateOperation, "rec/kv/later", map[string]interface{}{"value": "LATER"}))
			snap := s.Phys.Snapshot()
			s.Close()
			holds, held := oldShares, "old share"
			if aerr == nil && len(shares) > 0 {
				holds, held = shares, "new shares"
			}
			sx, why := c10nRecover(t, snap, img, [][]string{holds})
			if sx == nil {
				sig := fmt.Sprintf("c10:corens:fault:%s:unsealable-with-held-keys:%s:%s", what, map[bool]string{true: "call-succeeded", false: "call-failed"}[aerr == nil], fop)
				res.Violate(sig, fmt.Sprintf("%s in namespace %s/ with storage op %d [%s] failing (call error: %v): after a restart the namespace does not unseal with the %s, the only ones the operator holds (%s)", what, c10nNS, k, fwhat, aerr, held, why), art)
				res.Distinct("nontrivial", fmt.Sprintf("F|%s|%v|unsealable", what, aerr == nil))
				continue
			}
			nsr := c10nNamespace(sx)
			if m := c10nRead(sx, nsr, "a", "EARLIER-NS"); m != "" {
				res.Violate(fmt.Sprintf("c10:corens:fault:%s:entry-lost", what), fmt.Sprintf("%s with storage op %d [%s] failing: namespace unsealed with the %s, but %s", what, k, fwhat, held, m), art)
			}
			if later {
				if m := c10nRead(sx, nsr, "later", "LATER"); m != "" {
					res.Violate(fmt.Sprintf("c10:corens:fault:%s:later-entry-lost", what), fmt.Sprintf("%s with storage op %d [%s] failing (call error: %v): an entry acknowledged AFTER the failed operation: %s", what, k, fwhat, aerr, m), art)
				}
			}
			res.Distinct("nontrivial", fmt.Sprintf("F|%s|%v|%v|ok", what, aerr == nil, later))
			sx.Close()
		}
		res.Add("states", 1)
		res.Sample(map[string]interface{}{"operation": what, "namespace": c10nNS + "/", "durable_mutations": nmut, "storage_ops": nops})
	}

	// ---- (c) histories
	alphabet := []string{"write", "ns-rotate", "ns-rotate-root", "ns-rotate-root-shares", "seal", "unseal", "restart"}
	depth := 2
	if vout.Thorough() {
		depth = 3
	}
	res.Bound("ns_history_depth", depth)
	res.Bound("ns_alphabet", alphabet)
	var rec func(h []string)
	rec = func(h []string) {
		if len(h) > 0 {
			count++
			if vout.Mine(count) {
				sig, msg, key := c10nHistory(t, img, oldShares, h)
				res.Add("executions", 1)
				res.Add("ns_histories", 1)
				res.Add("states", 1)
				res.Add("transitions", int64(len(h)))
				if sig != "" {
					res.Violate("c10:corens:history:"+sig, fmt.Sprintf("history %v: %s", h, msg), map[string]interface{}{"history": h})
				} else {
					res.Distinct("nontrivial", "H|"+key)
				}
			}
		}
		if len(h) == depth {
			return
		}
		for _, op := range alphabet {
			rec(append(append([]string{}, h...), op))
		}
	}
	rec(nil)
}

func c10nKeyClass(k string) string {
	if strings.HasPrefix(k, "namespaces/") {
		parts := strings.SplitN(k, "/", 3)
		if len(parts) == 3 {
			return "namespaces/#/" + parts[2]
		}
	}
	return k
}

// c10nHistory replays one history on a fresh server.  Model: entries acknowledged inside
// the namespace, the share set the operator holds, sealed or not, number of completed
// encryption-key rotations.  After every step: a sealed namespace serves nothing; an
// unsealed one reads every entry back; a new write carries the newest term; and a
// restarted copy of the store unseals (root, then namespace with the held shares) and
// reads everything back.
func c10nHistory(t *testing.T, img *Image, oldShares []string, h []string) (string, string, string) {
	s := c10nBoot(t, img, oldShares)
	defer func() { s.Close() }()
	held := oldShares
	sealed := false
	entries := map[string]string{"a": "EARLIER-NS"}
	rotations := 0
	ns := c10nNamespace(s)
	term0, ok := c10nTerm(s, ns, "a")
	if !ok {
		t.Fatalf("harness: cannot find the stored record of the namespace's entry")
	}
	for i, op := range h {
		switch op {
		case "write":
			name := fmt.Sprintf("w%d", i)
			resp, err := s.ReqNS(ns, s.Root, logical.UpdateOperation, "rec/kv/"+name, map[string]interface{}{"value": "V-" + name})
			if sealed {
				if OK(resp, err) {
					return "sealed-namespace-serves", fmt.Sprintf("step %d: a write inside the sealed namespace was accepted", i), ""
				}
				break
			}
			if !OK(resp, err) {
				return "write-refused", fmt.Sprintf("step %d: write inside the unsealed namespace refused: %s", i, ErrText(resp, err)), ""
			}
			entries[name] = "V-" + name
			if tm, ok := c10nTerm(s, ns, name); !ok || tm != term0+uint32(rotations) {
				return "write-not-under-newest-term", fmt.Sprintf("step %d: the record of a new write inside the namespace carries term %d, %d completed rotations after term %d give %d", i, tm, rotations, term0, term0+uint32(rotations)), ""
			}
		case "ns-rotate", "ns-rotate-root", "ns-rotate-root-shares":
			shares, err := c10nAct(s, ns, held, op)
			if sealed {
				if err == nil {
					return "sealed-namespace-serves", fmt.Sprintf("step %d: %s succeeded on the sealed namespace", i, op), ""
				}
				break
			}
			if err != nil {
				return "operation-refused", fmt.Sprintf("step %d: %s on the unsealed namespace failed: %v", i, op, err), ""
			}
			if op == "ns-rotate" {
				rotations++
			}
			if len(shares) > 0 {
				held = shares
			}
		case "seal":
			r, e := s.Req(s.Root, logical.UpdateOperation, "sys/namespaces/"+c10nNS+"/seal", nil)
			if !sealed && !OK(r, e) {
				return "seal-failed", fmt.Sprintf("step %d: sealing the unsealed namespace failed: %s", i, ErrText(r, e)), ""
			}
			sealed = true
		case "unseal":
			if ok, last := c10nUnseal(s, held); !ok {
				return "unsealable-with-held-shares", fmt.Sprintf("step %d: the namespace does not unseal with the %d share(s) the operator holds: %s", i, len(held), last), ""
			}
			sealed = false
		case "restart":
			im := s.Image()
			s.Close()
			nsys, err := BootData(t, im.Data, im)
			if err != nil {
				return "root-unsealable", fmt.Sprintf("step %d: after a restart the root barrier does not unseal: %v", i, err), ""
			}
			s = nsys
			sealed = true
		}
		if c10nSealed(s) != sealed {
			return "seal-state", fmt.Sprintf("step %d (%s): the namespace reports sealed=%v, the history says %v", i, op, !sealed, sealed), ""
		}
		if sealed {
			if resp, err := s.ReqNS(ns, s.Root, logical.ReadOperation, "rec/kv/a", nil); OK(resp, err) && resp != nil && resp.Data["value"] == "EARLIER-NS" {
				return "sealed-namespace-serves", fmt.Sprintf("step %d (%s): a read inside the sealed namespace returned the entry", i, op), ""
			}
		} else {
			ns = c10nNamespace(s)
			for k, v := range entries {
				if m := c10nRead(s, ns, k, v); m != "" {
					return "entry-lost", fmt.Sprintf("step %d (%s): %s", i, op, m), ""
				}
			}
		}
		// a restarted copy
		sx, why := c10nRecover(t, s.Phys.Snapshot(), img, [][]string{held})
		if sx == nil {
			return "unsealable-with-held-shares-after-restart", fmt.Sprintf("step %d (%s): a restarted copy of the store: the namespace does not unseal with the %d share(s) the operator holds (%s)", i, op, len(held), why), ""
		}
		nsr := c10nNamespace(sx)
		for k, v := range entries {
			if m := c10nRead(sx, nsr, k, v); m != "" {
				sx.Close()
				return "entry-lost-after-restart", fmt.Sprintf("step %d (%s): on a restarted copy: %s", i, op, m), ""
			}
		}
		sx.Close()
	}
	return "", "", fmt.Sprintf("sealed=%v|held=%d|rot=%d|entries=%d", sealed, len(held), rotations, len(entries))
}
