package core

// C02: a request reaches a secrets / auth / system backend handler and returns anything other
// than an error only if it targets a path the mounted backend declares unauthenticated, or
// carries a live token whose policies allow the operation on the namespace-qualified path
// (+ sudo on root-protected paths).  Any other request is refused without the operation
// handler being invoked and without a change to backend storage; policy and token changes
// are honoured by the very next request.
//
// Three enumerations on the real Core (c02l / c02h / c02s files), ONE oracle (this file):
//
//   effect = operation-handler invocation of the recording backend | non-error response |
//            stored canary in the response | change of the physical store
//   every effect needs: an unauthenticated path, or a live credential whose reference ACL
//   (engine/c03ref, written from the policy documentation) grants the operation on the
//   namespace-qualified path, + sudo on root-protected paths.
//
// The reference below is written from the statement; where the statement is silent the
// reading under which the unchanged tree is consistent is taken and written down here:
//
//   R1  a refused request by a use-limited token may write token / lease bookkeeping
//       (sys/token/, sys/expire/): the use count is decremented whenever the token was found.
//   R2  a token of namespace N is live everywhere; its policies are qualified with N's path.
//       auth/token/*-self are served in the token's own namespace.
//   R3  create vs update is decided by the backend's existence check, which is routed before
//       the ACL decision by design: a response is judged on either capability, an operation
//       handler invocation on the operation that was executed.
//   R4  a path with a "." or ".." segment has no target: refused for every credential.
//   R5  a request that names a mount without its trailing slash ("m" for "m/") targets the
//       mount root; the mount's special paths are matched on the path as written.
//   R6  base64url slack bits, another routing suffix / the legacy prefix on a batch token are
//       re-spellings of the same credential, not forgeries.
//   R7  the version varint of a signed service token is not authenticated: a token whose
//       payload and MAC are those of a live token is that token.
//   Refuse-sound: a refusal is never an alarm, except in H / S where the reference is exact
//   (existing keys on existing mounts) and "honoured by the very next request" is judged in
//   both directions.

import (
	"context"
	"encoding/base64"
	"fmt"
	"net"
	"os"
	"runtime"
	"sort"
	"strings"
	"testing"
	"time"

	"github.com/openbao/openbao/sdk/v2/helper/verif/c03ref"
	"github.com/openbao/openbao/sdk/v2/helper/verif/vout"
	"github.com/openbao/openbao/sdk/v2/logical"
	"github.com/openbao/openbao/v2/internal/helper/namespace"
)

const c02Canary = "CANARY-"

// ---------------------------------------------------------------- reference world

type c02Mount struct {
	Abs    string // absolute mount path (namespace path included), ends in "/"
	NS     string // namespace path ("" = root)
	Kind   string // rec | recauth | sys | token | other
	Prefix string // physical storage prefix (rec / recauth), discovered at fixture time
}

type c02Entity struct {
	Disabled bool
	Deleted  bool
	Pols     []string // identity policies (root namespace)
	Groups   []string
}

type c02World struct {
	NS      []string // namespace paths, "" first
	Locked  map[string]bool
	Mounts  []*c02Mount
	Pols    map[string]c03ref.Pol // key: ns + "|" + name
	Ents    map[string]*c02Entity
	Groups  map[string][]string // group name -> policies (root namespace)
	aclMemo map[string]*c03ref.ACL
}

// c02Cred is one credential state.
type c02Cred struct {
	Name   string
	Class  string // evidence class
	Token  string
	Live   bool   // exists, unexpired, unrevoked, within its use count
	Why    string // when !Live: class of death (absent, garbage, revoked, ...)
	NS     string // namespace of the token
	Pols   []string
	Root   bool
	CIDR   string // bound CIDR block
	Addr   string // address the credential is presented from ("" = 127.0.0.1)
	Entity string
	Uses   bool   // use-limited (R1)
	Kind   string // service | batch (for signatures)
}

func (c *c02Cred) addr() string {
	if c == nil || c.Addr == "" {
		return "127.0.0.1"
	}
	return c.Addr
}

// special paths, written from the backends' declarations (rec: rec_test.go; system and
// token store: the hard-coded list of paths that are probed)
func (m *c02Mount) unauth(remain string) bool {
	switch m.Kind {
	case "rec":
		return strings.HasPrefix(remain, "open/")
	case "recauth":
		return strings.HasPrefix(remain, "open/") || remain == "login" || strings.HasPrefix(remain, "login/")
	case "sys":
		switch remain {
		case "seal-status", "leader", "health", "init", "internal/ui/mounts", "internal/ui/namespaces", "wrapping/lookup", "wrapping/pubkey", "internal/specs/openapi", "replication/status", "decode-token", "mfa/validate", "unseal":
			return true
		}
		return strings.HasPrefix(remain, "internal/ui/mounts/")
	}
	return false
}

func (m *c02Mount) rootPath(remain string) bool {
	switch m.Kind {
	case "rec", "recauth":
		return strings.HasPrefix(remain, "rootonly/")
	case "sys":
		return remain == "raw" || strings.HasPrefix(remain, "raw/") || remain == "audit" || strings.HasPrefix(remain, "audit/") ||
			strings.HasPrefix(remain, "auth/") || remain == "remount" || remain == "leases" || strings.HasPrefix(remain, "leases/lookup/") ||
			strings.HasPrefix(remain, "leases/revoke-prefix/") || strings.HasPrefix(remain, "leases/revoke-force/")
	case "token":
		return strings.HasPrefix(remain, "accessors") || strings.HasPrefix(remain, "revoke-orphan/")
	}
	return false
}

var c02OpInfo = map[logical.Operation]c03ref.OpInfo{}

func init() {
	for _, o := range c03ref.AllOps {
		if _, dup := c02OpInfo[logical.Operation(o.Op)]; !dup {
			c02OpInfo[logical.Operation(o.Op)] = o
		}
	}
}

var c02Ops = []logical.Operation{logical.ReadOperation, logical.ListOperation, logical.UpdateOperation, logical.CreateOperation,
	logical.DeleteOperation, logical.PatchOperation, logical.ScanOperation}

// c02CanonHeader: the namespace header names a namespace path: a leading slash is optional,
// empty and "." segments are ignored, ".." goes one level up, the result ends in "/".
func c02CanonHeader(h string) string {
	var out []string
	for _, s := range strings.Split(h, "/") {
		switch s {
		case "", ".":
		case "..":
			if len(out) > 0 && out[len(out)-1] != ".." {
				out = out[:len(out)-1]
			} else {
				out = append(out, "..")
			}
		default:
			out = append(out, s)
		}
	}
	if len(out) == 0 {
		return ""
	}
	return strings.Join(out, "/") + "/"
}

func (w *c02World) resolve(ctxNS, hdr, path string) (ns, rel, why string) {
	h := c02CanonHeader(hdr)
	if h == "root/" {
		h = ""
	}
	h = c02CanonHeader(ctxNS + h)
	full := h + path
	best := ""
	for _, n := range w.NS {
		if strings.HasPrefix(full, n) && len(n) > len(best) {
			best = n
		}
	}
	if !strings.HasPrefix(best, h) {
		return "", "", "no-namespace"
	}
	if !strings.HasPrefix(best, ctxNS) {
		return "", "", "namespace-escape"
	}
	return best, full[len(best):], ""
}

func (w *c02World) mountFor(ns, abs string) *c02Mount {
	var best *c02Mount
	for _, m := range w.Mounts {
		if m.NS == ns && strings.HasPrefix(abs, m.Abs) && (best == nil || len(m.Abs) > len(best.Abs)) {
			best = m
		}
	}
	return best
}

func (w *c02World) live(c *c02Cred, addr string) (bool, string) {
	if c == nil || c.Token == "" {
		return false, "dead-absent"
	}
	if !c.Live {
		return false, "dead-" + c.Why
	}
	if c.CIDR != "" {
		_, n, err := net.ParseCIDR(c.CIDR)
		ip := net.ParseIP(addr)
		if err != nil || ip == nil || !n.Contains(ip) {
			return false, "dead-cidr-mismatch"
		}
	}
	if c.Entity != "" {
		e := w.Ents[c.Entity]
		if e == nil || e.Deleted {
			return false, "entity-deleted"
		}
		if e.Disabled {
			return false, "entity-disabled"
		}
	}
	return true, ""
}

func (w *c02World) aclFor(c *c02Cred) *c03ref.ACL {
	type np struct{ ns, name string }
	var names []np
	for _, p := range c.Pols {
		names = append(names, np{c.NS, p})
	}
	if c.Entity != "" {
		if e := w.Ents[c.Entity]; e != nil {
			for _, p := range e.Pols {
				names = append(names, np{"", p})
			}
			for _, g := range e.Groups {
				for _, p := range w.Groups[g] {
					names = append(names, np{"", p})
				}
			}
		}
	}
	var ks []string
	for _, n := range names {
		ks = append(ks, n.ns+"|"+n.name)
	}
	sort.Strings(ks)
	key := strings.Join(ks, ",")
	if a, ok := w.aclMemo[key]; ok {
		return a
	}
	var pols []c03ref.Pol
	for _, k := range ks {
		if p, ok := w.Pols[k]; ok {
			pols = append(pols, p)
		}
	}
	a := c03ref.Build(pols)
	if w.aclMemo == nil {
		w.aclMemo = map[string]*c03ref.ACL{}
	}
	w.aclMemo[key] = a
	return a
}

// c02Dec is the reference decision for (namespace forms, path, credential); Allows answers
// per operation.
type c02Dec struct {
	Why     string // refused for every operation, before the policy stage
	Unauth  bool
	NS      string
	Rel     string
	Mount   *c02Mount
	Remain  string
	Sudo    bool
	root    bool
	acl     *c03ref.ACL
	aclPath string
}

func (w *c02World) decide(ctxNS, hdr, path string, c *c02Cred, addr string) *c02Dec {
	d := &c02Dec{}
	for _, s := range strings.Split(path, "/") {
		if s == "." || s == ".." {
			d.Why = "relative-path" // R4
			return d
		}
	}
	ns, rel, why := w.resolve(ctxNS, hdr, path)
	if why != "" {
		d.Why = why
		return d
	}
	d.NS, d.Rel = ns, rel
	for l := range w.Locked {
		if w.Locked[l] && strings.HasPrefix(ns, l) {
			d.Why = "namespace-locked"
			return d
		}
	}
	abs := ns + rel
	m := w.mountFor(ns, abs)
	adjusted := false
	if m == nil && !strings.HasSuffix(abs, "/") {
		m = w.mountFor(ns, abs+"/") // R5
		adjusted = true
	}
	if m == nil {
		d.Why = "no-mount"
		return d
	}
	d.Mount = m
	if !adjusted {
		d.Remain = strings.TrimPrefix(abs, m.Abs)
		d.Unauth = m.unauth(d.Remain)
		d.Sudo = m.rootPath(d.Remain)
	}
	if d.Unauth {
		return d
	}
	ok, why := w.live(c, addr)
	if !ok {
		d.Why = why
		return d
	}
	effNS := ns
	if m.Kind == "token" && (d.Remain == "lookup-self" || d.Remain == "renew-self" || d.Remain == "revoke-self") {
		effNS = c.NS // R2
	}
	if c.Root {
		if strings.HasPrefix(effNS, c.NS) {
			d.root = true
		} else {
			d.Why = "root-of-other-namespace"
		}
		return d
	}
	d.acl = w.aclFor(c)
	d.aclPath = effNS + rel
	return d
}

func (d *c02Dec) Allows(op logical.Operation) (bool, string) {
	if d.Why != "" {
		return false, d.Why
	}
	if d.Unauth {
		return true, "unauthenticated-path"
	}
	if d.root {
		return true, "root"
	}
	info, ok := c02OpInfo[op]
	if !ok {
		return false, "operation-unknown"
	}
	e, _, _, _ := d.acl.Decide(d.aclPath, info.ListLike)
	okp, why, _, _ := e.Permits(info, nil, 0)
	if !okp {
		return false, why
	}
	if d.Sudo && e.Caps&c03ref.Sudo == 0 {
		return false, "needs-sudo"
	}
	return true, "acl"
}

// AllowsResp: a response is judged on either write capability (R3).
func (d *c02Dec) AllowsResp(op logical.Operation) (bool, string) {
	ok, why := d.Allows(op)
	if ok {
		return ok, why
	}
	switch op {
	case logical.CreateOperation:
		if ok2, _ := d.Allows(logical.UpdateOperation); ok2 {
			return true, "acl-update"
		}
	case logical.UpdateOperation:
		if ok2, _ := d.Allows(logical.CreateOperation); ok2 {
			return true, "acl-create"
		}
	}
	return false, why
}

// ---------------------------------------------------------------- effects and the oracle

type c02Eff struct {
	Ops     []logical.Operation // operation-handler invocations of the recording backends
	OK      bool
	Canary  bool
	Changed []string // physical keys changed, bookkeeping excluded
	Book    []string // token / lease bookkeeping keys changed
	Status  int      // HTTP status (0 = Core channel)
	Err     string
}

func c02StripNS(k string) string {
	if strings.HasPrefix(k, "namespaces/") {
		p := strings.SplitN(k, "/", 3)
		if len(p) == 3 {
			return p[2]
		}
	}
	return k
}

func c02IsBook(k string) bool {
	k = c02StripNS(k)
	return strings.HasPrefix(k, "sys/token/") || strings.HasPrefix(k, "sys/expire/")
}

type c02Vio struct {
	Sig  string
	Desc string
}

// c02Judge applies the oracle to one request.  exact: a grant of the reference must be
// honoured (H and S parts only).
func c02Judge(part string, d *c02Dec, op logical.Operation, c *c02Cred, eff *c02Eff) []c02Vio {
	var out []c02Vio
	add := func(class, why, msg string) {
		out = append(out, c02Vio{fmt.Sprintf("c02:%s:%s:%s", part, class, why), msg})
	}
	for _, x := range eff.Ops {
		if ok, why := d.Allows(x); !ok {
			add("handler-invoked", why, fmt.Sprintf("the backend's operation handler ran (%s) although the reference refuses: %s", x, why))
			break
		}
	}
	ok, why := d.AllowsResp(op)
	if ok {
		return out
	}
	if eff.OK {
		add("non-error-response", why, fmt.Sprintf("the request was answered without an error (status %d) although the reference refuses: %s", eff.Status, why))
	}
	if eff.Canary {
		add("data-returned", why, "the response carries stored data although the reference refuses: "+why)
	}
	if len(eff.Changed) > 0 {
		add("storage-changed", why, fmt.Sprintf("the refused request changed physical keys %v", c02KeyClasses(eff.Changed)))
	} else if len(eff.Book) > 0 && (c == nil || !c.Uses) {
		add("storage-changed", why, fmt.Sprintf("the refused request (credential not use-limited) changed bookkeeping keys %v", c02KeyClasses(eff.Book))) // R1
	}
	return out
}

func c02KeyClasses(keys []string) []string {
	seen := map[string]bool{}
	var out []string
	for _, k := range keys {
		c := keyClass(k)
		if !seen[c] {
			seen[c] = true
			out = append(out, c)
		}
	}
	sort.Strings(out)
	return out
}

// ---------------------------------------------------------------- driving the real system

type c02Driver struct {
	t     *testing.T
	s     *Sys
	nsObj map[string]*namespace.Namespace
	cur   map[string]string // last known physical content
}

func c02NewDriver(t *testing.T, s *Sys, nsPaths []string) *c02Driver {
	d := &c02Driver{t: t, s: s, nsObj: map[string]*namespace.Namespace{"": namespace.RootNamespace}}
	for _, p := range nsPaths {
		if p != "" {
			d.nsObj[p] = s.nsByPath(t, p)
		}
	}
	d.resnap()
	return d
}

func (d *c02Driver) resnap() {
	d.cur = map[string]string{}
	for k, v := range d.s.Phys.Snapshot() {
		d.cur[k] = string(v)
	}
}

// diff compares the store with the last known content and makes the new content current.
func (d *c02Driver) diff() (changed, book []string) {
	now := d.s.Phys.Snapshot()
	for k, v := range now {
		if old, ok := d.cur[k]; !ok || old != string(v) {
			if c02IsBook(k) {
				book = append(book, k)
			} else {
				changed = append(changed, k)
			}
		}
	}
	for k := range d.cur {
		if _, ok := now[k]; !ok {
			if c02IsBook(k) {
				book = append(book, k)
			} else {
				changed = append(changed, k)
			}
		}
	}
	d.cur = map[string]string{}
	for k, v := range now {
		d.cur[k] = string(v)
	}
	sort.Strings(changed)
	sort.Strings(book)
	return
}

func (d *c02Driver) wrote(from int) bool {
	for _, op := range d.s.Phys.LogSince(from) {
		if (op.Kind == "put" || op.Kind == "delete") && op.Err == "" {
			return true
		}
	}
	return false
}

func c02Data(op logical.Operation) map[string]interface{} {
	switch op {
	case logical.UpdateOperation, logical.CreateOperation, logical.PatchOperation:
		return map[string]interface{}{"value": "WRITTEN-BY-PROBE"}
	}
	return nil
}

func (d *c02Driver) ctx(ctxNS, hdr string) context.Context {
	ns := d.nsObj[ctxNS]
	if ns == nil {
		d.t.Fatalf("harness: unknown namespace %q", ctxNS)
	}
	ctx := namespace.ContextWithNamespace(context.Background(), ns)
	if hdr != "" {
		ctx = namespace.ContextWithNamespaceHeader(ctx, hdr)
	}
	return ctx
}

// raw issues one request through Core.HandleRequest without observing anything (threads of S).
func (d *c02Driver) raw(ctxNS, hdr, path string, op logical.Operation, tok, addr string) (*logical.Response, error) {
	req := &logical.Request{Operation: op, Path: path, ClientToken: tok, Data: c02Data(op),
		Connection: &logical.Connection{RemoteAddr: addr}}
	return d.s.Core.HandleRequest(d.ctx(ctxNS, hdr), req)
}

// do issues one request through Core.HandleRequest and collects its effects.
func (d *c02Driver) do(ctxNS, hdr, path string, op logical.Operation, c *c02Cred) *c02Eff {
	d.s.Rec.Reset()
	from := d.s.Phys.LogLen()
	tok := ""
	if c != nil {
		tok = c.Token
	}
	resp, err := d.raw(ctxNS, hdr, path, op, tok, c.addr())
	eff := &c02Eff{OK: OK(resp, err), Err: ErrText(resp, err)}
	for _, call := range d.s.Rec.OpCalls() {
		eff.Ops = append(eff.Ops, call.Op)
	}
	eff.Canary = strings.Contains(respText(resp), c02Canary) || strings.Contains(eff.Err, c02Canary)
	if d.wrote(from) {
		eff.Changed, eff.Book = d.diff()
	}
	return eff
}

// ---------------------------------------------------------------- token re-spellings (R6 / R7)

// minimal protobuf wire reader: last value of every (field, wire type); ok=false when malformed.
func c02PB(b []byte) (bytesF map[int][]byte, varF map[int]uint64, ok bool) {
	bytesF, varF = map[int][]byte{}, map[int]uint64{}
	uv := func() (uint64, bool) {
		var x uint64
		for i := 0; i < 10; i++ {
			if len(b) == 0 {
				return 0, false
			}
			c := b[0]
			b = b[1:]
			x |= uint64(c&0x7f) << (7 * uint(i))
			if c < 0x80 {
				return x, true
			}
		}
		return 0, false
	}
	for len(b) > 0 {
		tag, good := uv()
		if !good || tag>>3 == 0 || tag>>3 > 1<<29-1 {
			return nil, nil, false
		}
		f := int(tag >> 3)
		switch tag & 7 {
		case 0:
			v, good := uv()
			if !good {
				return nil, nil, false
			}
			varF[f] = v
		case 1:
			if len(b) < 8 {
				return nil, nil, false
			}
			b = b[8:]
		case 2:
			n, good := uv()
			if !good || n > uint64(len(b)) {
				return nil, nil, false
			}
			bytesF[f] = append([]byte{}, b[:n]...)
			b = b[n:]
		case 5:
			if len(b) < 4 {
				return nil, nil, false
			}
			b = b[4:]
		default:
			return nil, nil, false
		}
	}
	return bytesF, varF, true
}

// c02ServiceParts returns (payload, mac, inner id) of a signed service token.
func c02ServiceParts(tok string) (payload, mac []byte, inner string, ok bool) {
	if !strings.HasPrefix(tok, "hvs.") {
		return nil, nil, "", false
	}
	raw, err := base64.RawURLEncoding.DecodeString(tok[4:])
	if err != nil {
		return nil, nil, "", false
	}
	bf, _, good := c02PB(raw)
	if !good || bf[3] == nil {
		return nil, nil, "", false
	}
	pf, _, good := c02PB(bf[3])
	if !good {
		return nil, nil, "", false
	}
	return bf[3], bf[2], string(pf[1]), true
}

// c02BatchBody returns the ciphertext of a batch token, whatever prefix / routing suffix it carries.
func c02BatchBody(tok string) ([]byte, bool) {
	var rest string
	switch {
	case strings.HasPrefix(tok, "hvb."):
		rest = tok[4:]
	case strings.HasPrefix(tok, "b."):
		rest = tok[2:]
	default:
		return nil, false
	}
	if i := strings.LastIndex(rest, "."); i >= 0 && i < len(rest)-1 {
		rest = rest[:i]
	}
	raw, err := base64.RawURLEncoding.DecodeString(rest)
	if err != nil || len(raw) == 0 {
		return nil, false
	}
	return raw, true
}

// c02Equivalent: is mut a re-spelling of the same credential as orig (R6 / R7)?
func c02Equivalent(orig, mut string) bool {
	if orig == mut {
		return true
	}
	if p, m, _, ok := c02ServiceParts(orig); ok {
		p2, m2, _, ok2 := c02ServiceParts(mut)
		return ok2 && string(p) == string(p2) && string(m) == string(m2)
	}
	if b, ok := c02BatchBody(orig); ok {
		b2, ok2 := c02BatchBody(mut)
		return ok2 && string(b) == string(b2)
	}
	return false
}

// ---------------------------------------------------------------- memory budget

func c02MemMB() int64 {
	var m runtime.MemStats
	runtime.ReadMemStats(&m)
	return int64(m.Sys >> 20)
}

// Shut-down Cores are not reclaimed by the collector (about 1.2 MB stay behind per booted
// Core), and 16 workers share the machine: a worker that passes this budget stops enumerating
// and reports exhaustive=false.  In the thorough tier part S therefore runs every scenario in
// child processes of the worker (c02s_test.go), which hand their memory back when they exit.
const c02MemBudgetMB = 2800

// ---------------------------------------------------------------- the test

func TestVerifC02(t *testing.T) {
	res := vout.New("C02", "core")
	defer func() {
		if err := res.Write(); err != nil {
			t.Fatal(err)
		}
	}()
	only := os.Getenv("VERIF_PART")
	item := 0
	deadline := time.Now().Add(time.Duration(vout.DeadlineS()) * time.Second)

	if vout.ReplayPath() != "" {
		c02Replay(t, res)
		return
	}
	if ch := os.Getenv("VERIF_C02_CHILD"); ch != "" {
		c02ChildS(t, res, ch)
		return
	}
	if only == "" || only == "L" {
		c02PartL(t, res, deadline)
	}
	if only == "" || only == "H" {
		c02PartH(t, res, deadline)
	}
	if only == "" || only == "S" {
		c02PartS(t, res, &item)
	}
	if only == "" || only == "T" {
		c02tPart(t, res)
	}
	res.Max("mem_sys_mb", c02MemMB())
	// vacuity guards
	if only == "" {
		if n := res.SetSize("outcome_classes"); n < 10 {
			t.Fatalf("vacuity guard: only %d distinct (reference verdict, outcome) classes in part L", n)
		}
		if n := res.SetSize("battery_outcomes"); n < 3 {
			t.Fatalf("vacuity guard: only %d distinct battery outcomes in part H", n)
		}
		for _, k := range []string{"L_reference_allows", "L_reference_refuses", "L_handler_invoked", "H_reference_allows", "H_reference_refuses", "S_reference_allows", "S_reference_refuses"} {
			if res.Counters[k] == 0 {
				t.Fatalf("vacuity guard: counter %s is zero in this shard", k)
			}
		}
	}
}
