package core

// C18: a response-wrapping token reveals its payload exactly once under every
// interleaving of concurrent unwrap / rewrap / lookup / revoke / misuse
// requests, is gone afterwards, never leaks the payload to the original
// requester, grants nothing else and reports its creation path.

import (
	"encoding/json"
	"fmt"
	"os"
	"sort"
	"strings"
	"testing"
	"time"

	"github.com/openbao/openbao/sdk/v2/helper/verif/sched"
	"github.com/openbao/openbao/sdk/v2/helper/verif/vout"
	"github.com/openbao/openbao/sdk/v2/logical"
)

const c18Canary = "PAYLOAD-CANARY-18"

const c18Policy = `
path "sys/wrapping/*" { capabilities = ["update"] }
`

var c18Kinds = []string{"unwrap1", "unwrap3", "rewrap", "lookup", "revoke", "cubby", "misuse"}

type c18Setup struct {
	img      *Image
	wrapTok  string
	accessor string
	third    string
	wrapKind string
	path     string
	baseKeys []string
	nsPrefix string // "ns1/" when the wrapping request was made inside the child namespace
}

type c18Result struct {
	kind      string
	ok        bool
	disclosed bool   // response carried the payload canary
	newTok    string // rewrap result
	crPath    string // lookup result
	errTxt    string
}

func respText(resp *logical.Response) string {
	if resp == nil {
		return ""
	}
	b, _ := json.Marshal(resp.Data)
	s := string(b)
	if raw, ok := resp.Data[logical.HTTPRawBody]; ok {
		switch r := raw.(type) {
		case []byte:
			s += string(r)
		case string:
			s += r
		}
	}
	if resp.Auth != nil {
		s += " AUTH:" + resp.Auth.ClientToken
	}
	return s
}

// c18Local strips the storage prefix of a namespace from a key.
func c18Local(k string) string {
	if strings.HasPrefix(k, "namespaces/") {
		if p := strings.SplitN(k, "/", 3); len(p) == 3 {
			return p[2]
		}
	}
	return k
}

func c18TrackedKeys(s *Sys) []string {
	var out []string
	for k := range s.Phys.Snapshot() {
		l := c18Local(k)
		if strings.HasPrefix(l, "sys/token/") && !strings.HasPrefix(l, "sys/token/salt") ||
			strings.HasPrefix(l, "sys/expire/") || strings.Contains(k, "/response") {
			out = append(out, k)
		}
	}
	sort.Strings(out)
	return out
}

func c18Build(t *testing.T, wrapKind string) *c18Setup {
	s := Build(t, Options{})
	defer s.Close()
	s.Mount("rec/", "rec")
	s.EnableAuth("ra/", "recauth")
	s.WritePolicy("p18", c18Policy)
	s.Must(s.Req(s.Root, logical.UpdateOperation, "rec/kv/a", map[string]interface{}{"value": c18Canary}))
	third := s.CreateToken(s.Root, map[string]interface{}{"policies": []string{"p18"}, "ttl": "1h"})
	st := &c18Setup{third: third, wrapKind: wrapKind}
	st.baseKeys = c18TrackedKeys(s)
	if wrapKind == "nssecret" {
		// the wrapping request is made inside a child namespace: the wrapping token, its
		// lease and its cubbyhole live there; the unwrap requests come from the root namespace
		st.nsPrefix = "ns1/"
		s.mkNS(t, "ns1/", false)
		s.Must(s.Req(s.Root, logical.UpdateOperation, "ns1/sys/mounts/rec", map[string]interface{}{"type": "rec"}))
		s.Must(s.Req(s.Root, logical.UpdateOperation, "ns1/rec/kv/a", map[string]interface{}{"value": c18Canary}))
		st.baseKeys = c18TrackedKeys(s)
	}
	req := &logical.Request{ClientToken: s.Root, Connection: &logical.Connection{RemoteAddr: "127.0.0.1"},
		WrapInfo: &logical.RequestWrapInfo{TTL: time.Hour}}
	switch wrapKind {
	case "entitysecret":
		// the wrap is requested by a token bound to an identity entity whose OWN policies
		// (identity policies) grant the secrets mount: the wrapping token must not inherit
		// anything of that identity
		s.Rec.mu.Lock()
		s.Rec.LoginAuth = func(*logical.Request) *logical.Auth {
			return &logical.Auth{Policies: []string{"p18"}, Alias: &logical.Alias{Name: "e18"}, LeaseOptions: logical.LeaseOptions{TTL: time.Hour}}
		}
		s.Rec.mu.Unlock()
		lr, lerr := s.Req("", logical.UpdateOperation, "auth/ra/login", map[string]interface{}{})
		s.Rec.mu.Lock()
		s.Rec.LoginAuth = nil
		s.Rec.mu.Unlock()
		if !OK(lr, lerr) || lr == nil || lr.Auth == nil || lr.Auth.EntityID == "" {
			t.Fatalf("harness: entity-bound login failed: %s", ErrText(lr, lerr))
		}
		s.WritePolicy("p18e", `path "rec/kv/*" { capabilities = ["read", "list", "update"] }`)
		s.Must(s.Req(s.Root, logical.UpdateOperation, "identity/entity/id/"+lr.Auth.EntityID, map[string]interface{}{"policies": []string{"p18e"}}))
		req.ClientToken = lr.Auth.ClientToken
		req.Operation, req.Path = logical.ReadOperation, "rec/kv/a"
	case "nssecret":
		req.Operation, req.Path = logical.ReadOperation, "ns1/rec/kv/a"
	case "secret":
		req.Operation, req.Path = logical.ReadOperation, "rec/kv/a"
	case "list":
		s.Must(s.Req(s.Root, logical.UpdateOperation, "rec/kv/"+c18Canary, map[string]interface{}{"value": "x"}))
		req.Operation, req.Path = logical.ListOperation, "rec/kv/"
	case "login":
		req.ClientToken = ""
		req.Operation, req.Path = logical.UpdateOperation, "auth/ra/login"
		req.Data = map[string]interface{}{}
	}
	st.path = strings.TrimPrefix(req.Path, "ns1/")
	resp, err := s.Core.HandleRequest(rootCtx(), req)
	if !OK(resp, err) || resp == nil || resp.WrapInfo == nil || resp.WrapInfo.Token == "" {
		t.Fatalf("harness: wrapping request failed: %s", ErrText(resp, err))
	}
	// the wrapping response to the original caller carries no payload
	if strings.Contains(respText(resp), c18Canary) || (resp.Auth != nil && resp.Auth.ClientToken != "") {
		t.Fatalf("VIOLATION-AT-SETUP: wrapping response to the requester carries payload: %s", respText(resp))
	}
	st.wrapTok = resp.WrapInfo.Token
	st.accessor = resp.WrapInfo.Accessor
	if wrapKind == "login" {
		// the payload of a wrapped login is the new client token; track it by shape
	}
	st.img = s.Image()
	return st
}

// disclosed: does this successful response reveal the wrapped payload?
func c18Disclosed(wrapKind string, resp *logical.Response) bool {
	if resp == nil {
		return false
	}
	txt := respText(resp)
	if wrapKind == "login" {
		return strings.Contains(txt, "client_token") || (resp.Auth != nil && resp.Auth.ClientToken != "")
	}
	return strings.Contains(txt, c18Canary)
}

func c18Do(s *Sys, st *c18Setup, kind string, tok string) c18Result {
	r := c18Result{kind: kind}
	var resp *logical.Response
	var err error
	switch kind {
	case "unwrap1":
		resp, err = s.Req(tok, logical.UpdateOperation, "sys/wrapping/unwrap", nil)
	case "unwrap3":
		resp, err = s.Req(st.third, logical.UpdateOperation, "sys/wrapping/unwrap", map[string]interface{}{"token": tok})
	case "rewrap":
		resp, err = s.Req(st.third, logical.UpdateOperation, "sys/wrapping/rewrap", map[string]interface{}{"token": tok})
		if OK(resp, err) && resp != nil && resp.WrapInfo != nil {
			r.newTok = resp.WrapInfo.Token
		}
	case "lookup":
		resp, err = s.Req(st.third, logical.UpdateOperation, "sys/wrapping/lookup", map[string]interface{}{"token": tok})
		if OK(resp, err) && resp != nil && resp.Data != nil {
			if cp, ok := resp.Data["creation_path"].(string); ok {
				r.crPath = cp
			} else {
				r.crPath = "<absent>"
			}
		} else {
			r.crPath = "<no-data>"
		}
	case "revoke":
		resp, err = s.Req(s.Root, logical.UpdateOperation, "auth/token/revoke-accessor", map[string]interface{}{"accessor": st.accessor})
	case "cubby":
		// the token's own cubbyhole is addressed in the token's namespace
		resp, err = s.Req(tok, logical.ReadOperation, st.nsPrefix+"cubbyhole/response", nil)
	case "misuse":
		resp, err = s.Req(tok, logical.ReadOperation, st.nsPrefix+"rec/kv/a", nil)
	}
	r.ok = OK(resp, err)
	r.errTxt = ErrText(resp, err)
	if r.ok {
		r.disclosed = c18Disclosed(st.wrapKind, resp)
	}
	return r
}

func c18Body(t *testing.T, st *c18Setup, kinds []string) sched.Body {
	return func(sc *sched.Scheduler) func(x *sched.Exec) {
		s := Boot(t, st.img)
		s.Rec.Reset()
		results := make([]c18Result, len(kinds))
		for i, k := range kinds {
			i, k := i, k
			sc.Go(fmt.Sprintf("r%d", i), func() { results[i] = c18Do(s, st, k, st.wrapTok) })
		}
		return func(x *sched.Exec) {
			defer s.Close()
			v := &Verdict{}
			x.Obs = v
			fail := func(sig, msg string) {
				if v.Violation == "" {
					v.Sig = "c18:" + sig
					v.Violation = msg
				}
			}
			s.Drain()
			disclosures := 0
			var outs []string
			killer := false // a thread kind after which zero disclosures are legitimate
			var rewrapped []string
			for _, r := range results {
				o := r.kind + ":"
				if r.ok {
					o += "ok"
				} else {
					o += "refused"
				}
				if r.disclosed {
					o += "+payload"
					disclosures++
				}
				outs = append(outs, o)
				switch r.kind {
				case "revoke", "misuse":
					killer = true
				case "misuse2":
				}
				if r.kind == "misuse" && r.ok {
					fail("wrapping-token-granted-access", "the wrapping token was accepted on rec/kv/a")
				}
				if r.kind == "lookup" && r.ok && r.crPath != "<no-data>" && r.crPath != st.path {
					fail("lookup-wrong-creation-path", fmt.Sprintf("lookup reported creation_path %q, the token was created by %q", r.crPath, st.path))
				}
				if r.newTok != "" {
					rewrapped = append(rewrapped, r.newTok)
				}
			}
			sort.Strings(outs)
			// sequential tail: repeated attempts on the original and on every
			// rewrapped token; every disclosure counts
			tail := []string{"unwrap1", "unwrap3", "cubby"}
			for _, k := range tail {
				r := c18Do(s, st, k, st.wrapTok)
				if r.disclosed {
					disclosures++
				}
			}
			for _, w := range rewrapped {
				for _, k := range tail {
					r := c18Do(s, st, k, w)
					if r.disclosed {
						disclosures++
					}
				}
			}
			s.Drain()
			v.Outcome = fmt.Sprintf("%v disclosures=%d rewraps=%d", outs, disclosures, len(rewrapped))
			if disclosures > 1 {
				fail("payload-disclosed-more-than-once", fmt.Sprintf("the wrapped payload was obtained %d times (%v)", disclosures, outs))
			}
			if disclosures == 0 && !killer {
				fail("payload-lost", fmt.Sprintf("nobody obtained the payload although the token was never revoked or misused (%v)", outs))
			}
			// afterwards the token and its stored payload no longer exist
			if s.Usable(st.wrapTok) {
				fail("wrapping-token-still-usable", "the wrapping token is still accepted after the payload was retrieved")
			}
			left := c18TrackedKeys(s)
			base := map[string]bool{}
			for _, k := range st.baseKeys {
				base[k] = true
			}
			var extra []string
			for _, k := range left {
				if !base[k] {
					extra = append(extra, k)
				}
			}
			// a wrapped login leaves the wrapped (inner) token alive: that is the payload itself
			if st.wrapKind != "login" && len(extra) > 0 {
				sig := "wrapping-residue-in-storage"
				// One shape is told apart (it exists on the unchanged tree, F20): the only record
				// left is the wrapping token's own entry, and a request consuming the token wrote
				// it (the use-count store of UseToken) after an explicit revocation running in
				// another thread had already deleted it. UseToken and revokeInternal share no lock.
				// On the unchanged tree this needs three preemptions when only two requests run
				// (the quick tier covers all pairs up to two preemptions exhaustively and never
				// sees it): with fewer it is not that finding and keeps the plain signature.
				if len(extra) == 1 && strings.HasPrefix(c18Local(extra[0]), "sys/token/id/") && (len(kinds) >= 3 || x.Preemptions >= 3) {
					revoker := ""
					for i, k := range kinds {
						if k == "revoke" {
							revoker = fmt.Sprintf("r%d", i)
						}
					}
					deleted := -1
					for i, tr := range x.Trace {
						if revoker != "" && tr == revoker+":delete:"+extra[0] {
							deleted = i
						}
						if deleted >= 0 && i > deleted && strings.HasSuffix(tr, ":put:"+extra[0]) && !strings.HasPrefix(tr, revoker+":") {
							sig += ":token-entry-rewritten-by-a-use-after-explicit-revocation-deleted-it"
							break
						}
					}
				}
				fail(sig, fmt.Sprintf("after retrieval and quiescence these token/lease/cubbyhole records remain: %v", extra))
			}
		}
	}
}

func TestVerifC18(t *testing.T) {
	res := vout.New("C18", "core")
	defer func() {
		if err := res.Write(); err != nil {
			t.Fatal(err)
		}
	}()
	bound := 2
	res.Bound("preemption_bound", bound)
	setups := map[string]*c18Setup{}
	get := func(k string) *c18Setup {
		if setups[k] == nil {
			setups[k] = c18Build(t, k)
		}
		return setups[k]
	}

	if vout.ReplayPath() != "" {
		var rp SchedReplay
		if _, err := vout.LoadReplay(&rp); err != nil {
			t.Fatal(err)
		}
		var kinds []string
		for _, k := range rp.Params["kinds"].([]interface{}) {
			kinds = append(kinds, k.(string))
		}
		st := get(rp.Params["wrap"].(string))
		n := 1
		if os.Getenv("VERIF_REPEAT") != "" {
			n = 10
		}
		for i := 0; i < n; i++ {
			x := sched.RunOnce(c18Body(t, st, kinds), rp.Choices, rp.Fine)
			if v, _ := x.Obs.(*Verdict); v != nil && v.Violation != "" && x.Stuck == "" {
				res.Violate(v.Sig, v.Violation, rp)
			}
			t.Logf("trace: %v stuck=%q", x.Trace, x.Stuck)
		}
		return
	}

	// ---- R: rewrap chains.  The payload moves to a new wrapping token k times; after every
	// hop lookup of the newest token still reports the path that created the RESPONSE, the
	// older tokens disclose nothing and are refused, and the newest one yields the payload
	// exactly once.
	if i, _ := vout.Shard(); i == 2%16 && (os.Getenv("VERIF_PART") == "" || os.Getenv("VERIF_PART") == "R") {
		// ---- G: "the token grants nothing beyond retrieving that payload" when the wrap was
		// requested by a token bound to an identity entity whose own policies grant the mount
		st := get("entitysecret")
		s := Boot(t, st.img)
		art := map[string]interface{}{"wrap": "entitysecret"}
		// (one presentation only: a wrapping token has a single use, a refused request spends it)
		for _, k := range []string{"lookup", "misuse"} {
			r := c18Do(s, st, k, st.wrapTok)
			res.Add("transitions", 1)
			if k == "misuse" && r.ok {
				res.Violate("c18:wrapping-token-granted-access", fmt.Sprintf("%v: the wrapping token of a response requested by an entity-bound token was accepted on rec/kv/a (the requester's identity policies grant it)", art), art)
			}
		}
		res.Add("executions", 1)
		res.Distinct("nontrivial", "G|entitysecret")
		s.Close()
	}
	if os.Getenv("VERIF_PART") == "" || os.Getenv("VERIF_PART") == "R" {
		rcount := 0
		hopsMax := 3
		if vout.Thorough() {
			hopsMax = 5
		}
		for _, wk := range []string{"secret", "list", "login", "nssecret"} {
			for hops := 1; hops <= hopsMax; hops++ {
				rcount++
				if !vout.Mine(rcount + 7) {
					continue
				}
				st := get(wk)
				s := Boot(t, st.img)
				art := map[string]interface{}{"wrap": wk, "rewraps": hops}
				toks := []string{st.wrapTok}
				okChain := true
				for h := 1; h <= hops; h++ {
					r := c18Do(s, st, "rewrap", toks[len(toks)-1])
					res.Add("transitions", 1)
					if r.disclosed {
						res.Violate("c18:chain:rewrap-disclosed-payload", fmt.Sprintf("%v: rewrap %d returned the payload", art, h), art)
					}
					if !r.ok || r.newTok == "" {
						res.Violate("c18:chain:rewrap-of-live-token-refused", fmt.Sprintf("%v: rewrap %d of the live wrapping token failed: %s", art, h, r.errTxt), art)
						okChain = false
						break
					}
					toks = append(toks, r.newTok)
					l := c18Do(s, st, "lookup", r.newTok)
					if l.ok && l.crPath != "<no-data>" && l.crPath != st.path {
						res.Violate("c18:chain:lookup-wrong-creation-path", fmt.Sprintf("%v: after rewrap %d lookup reports creation_path %q, the response was created by %q", art, h, l.crPath, st.path), art)
					}
				}
				if okChain {
					for _, old := range toks[:len(toks)-1] {
						for _, k := range []string{"unwrap1", "unwrap3", "cubby", "lookup"} {
							r := c18Do(s, st, k, old)
							if r.disclosed {
								res.Violate("c18:chain:superseded-token-disclosed-payload", fmt.Sprintf("%v: %s with a token that was rewrapped away returned the payload", art, k), art)
							}
						}
					}
					n := 0
					for _, k := range []string{"unwrap3", "unwrap1", "unwrap3"} {
						if c18Do(s, st, k, toks[len(toks)-1]).disclosed {
							n++
						}
					}
					if n != 1 {
						res.Violate("c18:chain:payload-not-exactly-once", fmt.Sprintf("%v: three unwrap attempts on the newest token disclosed the payload %d times", art, n), art)
					}
				}
				s.Drain()
				res.Add("executions", 1)
				res.Add("chain_runs", 1)
				res.Distinct("nontrivial", fmt.Sprintf("R|%s|%d", wk, hops))
				s.Close()
			}
		}
	}

	if os.Getenv("VERIF_PART") == "" || os.Getenv("VERIF_PART") == "F" {
		c18PartF(t, res, get)
	}
	if os.Getenv("VERIF_PART") == "F" {
		return
	}
	// ---- E: expiry.  The wrapping token's TTL runs out (stored lease times moved two
	// hours back, restart, due leases handled) after every prefix of non-consuming calls:
	// from then on nobody obtains the payload, the token is refused and no record of it or
	// of its payload remains.
	if os.Getenv("VERIF_PART") == "" || os.Getenv("VERIF_PART") == "E" {
		ecount := 0
		for _, wk := range []string{"secret", "list", "login", "nssecret"} {
			for _, pre := range [][]string{nil, {"lookup"}, {"rewrap"}, {"lookup", "rewrap"}, {"rewrap", "rewrap"}} {
				ecount++
				if !vout.Mine(ecount) {
					continue
				}
				st := get(wk)
				s := Boot(t, st.img)
				toks := []string{st.wrapTok}
				for _, k := range pre {
					r := c18Do(s, st, k, toks[len(toks)-1])
					if r.newTok != "" {
						toks = append(toks, r.newTok)
					}
					if r.disclosed {
						res.Violate("c18:expiry:non-consuming-call-disclosed-payload", fmt.Sprintf("%s %v: %s returned the payload", wk, pre, k), nil)
					}
				}
				if err := c05Age(s, 2*time.Hour); err != nil {
					t.Fatalf("harness: %v", err)
				}
				img2 := s.Image()
				s.Close()
				s2, err := BootData(t, img2.Data, img2)
				if err != nil {
					t.Fatalf("harness: restart: %v", err)
				}
				s2.Drain()
				res.Add("executions", 1)
				res.Add("expiry_runs", 1)
				art := map[string]interface{}{"wrap": wk, "before_expiry": pre}
				for _, tk := range toks {
					for _, k := range []string{"lookup", "unwrap1", "unwrap3", "cubby", "rewrap"} {
						r := c18Do(s2, st, k, tk)
						if r.disclosed {
							res.Violate("c18:expiry:payload-disclosed-after-expiry", fmt.Sprintf("%v: %s with an expired wrapping token returned the payload", art, k), art)
						}
						if r.ok && (k == "rewrap" || k == "lookup") && r.crPath != "<no-data>" {
							res.Violate("c18:expiry:expired-token-accepted", fmt.Sprintf("%v: %s accepted an expired wrapping token", art, k), art)
						}
					}
					if s2.Usable(tk) {
						res.Violate("c18:expiry:expired-token-accepted", fmt.Sprintf("%v: the expired wrapping token is still accepted", art), art)
					}
				}
				s2.Drain()
				base := map[string]bool{}
				for _, k := range st.baseKeys {
					base[k] = true
				}
				var extra []string
				for _, k := range c18TrackedKeys(s2) {
					if !base[k] {
						extra = append(extra, k)
					}
				}
				if len(extra) > 0 {
					res.Violate("c18:expiry:residue-in-storage", fmt.Sprintf("%v: after the wrapping token expired these token/lease/cubbyhole records remain: %v", art, extra), art)
				}
				res.Distinct("nontrivial", fmt.Sprintf("E|%s|%v", wk, pre))
				s2.Close()
			}
		}
	}
	if os.Getenv("VERIF_PART") == "E" {
		return
	}

	item := 0
	wraps := []string{"secret", "nssecret"}
	if vout.Thorough() {
		wraps = []string{"secret", "list", "login", "nssecret"}
	}
	for _, w := range wraps {
		st := get(w)
		for _, kinds := range multisets(c18Kinds, 2) {
			if w == "nssecret" && !vout.Thorough() && !(kinds[0] == "unwrap3" || kinds[1] == "unwrap3") {
				continue // quick tier: the cross-namespace pairs that contain a third-party unwrap
			}
			name := w + ":" + strings.Join(kinds, "+")
			params := map[string]interface{}{"wrap": w, "kinds": kinds}
			ex := exploreScenario(res, "c18", name, params, c18Body(t, st, kinds), bound, false, &item)
			if ex > 0 && item%5 == 0 {
				res.Sample(map[string]interface{}{"scenario": name, "executions_in_this_shard": ex})
			}
		}
		if w == "nssecret" {
			continue
		}
		if vout.Thorough() {
			for _, kinds := range multisets([]string{"unwrap1", "unwrap3", "rewrap", "lookup", "revoke"}, 3) {
				name := w + ":" + strings.Join(kinds, "+")
				params := map[string]interface{}{"wrap": w, "kinds": kinds}
				exploreScenario(res, "c18", name, params, c18Body(t, st, kinds), 2, false, &item)
			}
		}
	}
}
