package core

// C19: a token with a use limit of n authorises at most n requests in total
// under any interleaving of m > n concurrent requests (storage-operation
// granularity), is revoked with its leases after the last use, never returns a
// secret leased on the final use and never creates child tokens.

import (
	"fmt"
	"os"
	"sort"
	"strings"
	"testing"

	"github.com/openbao/openbao/sdk/v2/helper/verif/sched"
	"github.com/openbao/openbao/sdk/v2/helper/verif/vout"
	"github.com/openbao/openbao/sdk/v2/logical"
)

const c19Policy = `
path "rec/kv/*" { capabilities = ["read", "create", "update", "list"] }
path "rec/kv/denied" { capabilities = ["deny"] }
path "rec/lease/*" { capabilities = ["read"] }
path "auth/token/create" { capabilities = ["update", "sudo"] }
path "auth/token/create-orphan" { capabilities = ["update", "sudo"] }
path "ns1/rec/kv/*" { capabilities = ["read", "create", "update", "list"] }
path "ns1/rec/lease/*" { capabilities = ["read"] }
`

var c19Kinds = []string{"read", "write", "denied", "lease", "lookup", "create"}

type c19Result struct {
	kind   string
	ok     bool
	secret string // secret id returned to the client, if any
	errTxt string
	token  string // child token returned, if any
}

func c19Do(s *Sys, tok, kind string, i int) c19Result {
	r := c19Result{kind: kind}
	var resp *logical.Response
	var err error
	switch kind {
	case "read":
		resp, err = s.Req(tok, logical.ReadOperation, "rec/kv/a", nil)
	case "write":
		resp, err = s.Req(tok, logical.UpdateOperation, fmt.Sprintf("rec/kv/w%d", i), map[string]interface{}{"value": "v"})
	case "denied":
		resp, err = s.Req(tok, logical.ReadOperation, "rec/kv/denied", nil)
	case "lease":
		resp, err = s.Req(tok, logical.ReadOperation, "rec/lease/x", nil)
		if OK(resp, err) && resp != nil && resp.Data != nil {
			if id, ok := resp.Data["id"].(string); ok {
				r.secret = id
			}
		}
	case "ns-read":
		// the request addresses a mount of the child namespace with a token of the parent
		resp, err = s.Req(tok, logical.ReadOperation, "ns1/rec/kv/a", nil)
	case "ns-lease":
		resp, err = s.Req(tok, logical.ReadOperation, "ns1/rec/lease/x", nil)
		if OK(resp, err) && resp != nil && resp.Data != nil {
			if id, ok := resp.Data["id"].(string); ok {
				r.secret = id
			}
		}
	case "denied-seal":
		// sys/seal is not routed through handleRequest: Core.SealWithRequest checks
		// the token itself (the policy does not grant it, so the server stays up)
		err = s.Core.SealWithRequest(rootCtx(), &logical.Request{Operation: logical.UpdateOperation, Path: "sys/seal", ClientToken: tok,
			Connection: &logical.Connection{RemoteAddr: "127.0.0.1"}})
		if err == nil {
			err = fmt.Errorf("harness: the seal request was accepted")
			if !s.Core.Sealed() {
				err = nil
			}
		}
	case "lookup":
		resp, err = s.Req(tok, logical.ReadOperation, "auth/token/lookup-self", nil)
	case "create":
		resp, err = s.Req(tok, logical.UpdateOperation, "auth/token/create", map[string]interface{}{"policies": []string{"default"}})
		if OK(resp, err) && resp != nil && resp.Auth != nil {
			r.token = resp.Auth.ClientToken
		}
	case "create-orphan", "create-noparent":
		// the endpoints that mint a token WITHOUT a parent (nothing is written under the
		// creating token): the policy grants them with sudo
		path, data := "auth/token/create-orphan", map[string]interface{}{"policies": []string{"default"}}
		if kind == "create-noparent" {
			path, data = "auth/token/create", map[string]interface{}{"policies": []string{"default"}, "no_parent": true}
		}
		resp, err = s.Req(tok, logical.UpdateOperation, path, data)
		if OK(resp, err) && resp != nil && resp.Auth != nil {
			r.token = resp.Auth.ClientToken
		}
	}
	r.ok = OK(resp, err)
	r.errTxt = ErrText(resp, err)
	return r
}

func c19Image(t *testing.T, n int) (*Image, string) { return c19ImageShape(t, n, "") }

// shape "": a token with policy p19 and a ttl; shape "root-nottl": a use-limited
// token with the root policy and no ttl (its lease is filed as non-expiring).
func c19ImageShape(t *testing.T, n int, shape string) (*Image, string) {
	s := Build(t, Options{})
	defer s.Close()
	s.Mount("rec/", "rec")
	s.WritePolicy("p19", c19Policy)
	s.Must(s.Req(s.Root, logical.UpdateOperation, "rec/kv/a", map[string]interface{}{"value": "A"}))
	s.Must(s.Req(s.Root, logical.UpdateOperation, "sys/namespaces/ns1", nil))
	s.Must(s.Req(s.Root, logical.UpdateOperation, "ns1/sys/mounts/rec", map[string]interface{}{"type": "rec"}))
	s.Must(s.Req(s.Root, logical.UpdateOperation, "ns1/rec/kv/a", map[string]interface{}{"value": "A"}))
	data := map[string]interface{}{"policies": []string{"p19"}, "num_uses": n, "ttl": "1h"}
	if shape == "root-nottl" {
		data = map[string]interface{}{"policies": []string{"root"}, "num_uses": n}
	}
	tok := s.CreateToken(s.Root, data)
	return s.Image(), tok
}

func c19Body(t *testing.T, img *Image, tok string, n int, kinds []string) sched.Body {
	return func(sc *sched.Scheduler) func(x *sched.Exec) {
		s := Boot(t, img)
		s.Rec.Reset()
		issuedBefore := len(s.Rec.IssuedIDs())
		results := make([]c19Result, len(kinds))
		logStart := s.Phys.LogLen()
		for i, k := range kinds {
			i, k := i, k
			sc.Go(fmt.Sprintf("r%d", i), func() { results[i] = c19Do(s, tok, k, i) })
		}
		return func(x *sched.Exec) {
			defer s.Close()
			v := &Verdict{}
			x.Obs = v
			impure := s.Phys.Impure()
			s.Drain()
			// ---- authorised requests <= n
			authorised := 0
			var outs []string
			opCalls := s.Rec.OpCalls()
			invoked := map[string]int{}
			for _, c := range opCalls {
				if c.Op == logical.RevokeOperation || c.Op == logical.RenewOperation {
					continue
				}
				invoked[string(c.Op)+" "+c.Path]++
			}
			nInvoked := 0
			for _, c := range invoked {
				nInvoked += c
			}
			for _, r := range results {
				o := r.kind + ":"
				if r.ok {
					o += "ok"
				} else {
					o += "refused"
				}
				outs = append(outs, o)
			}
			// count: backend operation invocations (rec kinds) + successes of core-handled kinds
			authorised = nInvoked
			for _, r := range results {
				if (r.kind == "lookup" || strings.HasPrefix(r.kind, "create")) && r.ok {
					authorised++
				}
			}
			sort.Strings(outs)
			v.Outcome = fmt.Sprintf("%v auth=%d", outs, authorised)
			fail := func(sig, msg string) {
				if v.Violation == "" {
					v.Sig = "c19:" + sig
					v.Violation = msg
				}
			}
			if authorised > n {
				fail("more-than-n-uses", fmt.Sprintf("token with num_uses=%d authorised %d requests (backend invocations %v, results %v)", n, authorised, invoked, outs))
			}
			// ---- child creation never succeeds
			for _, r := range results {
				if strings.HasPrefix(r.kind, "create") && r.ok {
					fail("child-created", fmt.Sprintf("a use-limited token created a token (%s)", r.kind))
				}
			}
			// ---- after the last use the token is refused
			if len(kinds) >= n {
				if s.Usable(tok) {
					fail("token-alive-after-uses", fmt.Sprintf("after %d requests on a %d-use token (and quiescence) the token is still accepted", len(kinds), n))
				}
			}
			// ---- leases issued under it are revoked after quiescence
			issued := s.Rec.IssuedIDs()[issuedBefore:]
			if len(kinds) >= n {
				for _, id := range issued {
					if s.Rec.RevokedCount(id) == 0 {
						fail("lease-not-revoked", fmt.Sprintf("secret %s leased under the exhausted token was not revoked at its backend after quiescence", id))
					}
				}
			}
			// ---- a secret leased on the final use is not returned
			// the final use is the n-th token-entry write by a request thread
			var users []string
			for _, op := range s.Phys.LogSince(logStart) {
				if op.Kind == "put" && op.Thread != "" && strings.HasPrefix(op.Key, "sys/token/id/") && op.Err == "" {
					users = append(users, op.Thread)
				}
			}
			if len(users) >= n {
				final := users[n-1]
				for i, r := range results {
					if fmt.Sprintf("r%d", i) == final && r.kind == "lease" && r.ok && r.secret != "" {
						fail("secret-returned-on-final-use", fmt.Sprintf("request %s consumed the final use and still received leased secret %s", final, r.secret))
					}
				}
			}
			if impure > 0 {
				res19Impure(s, logStart)
			}
		}
	}
}

func multisets(kinds []string, m int) [][]string {
	var out [][]string
	var rec func(start int, cur []string)
	rec = func(start int, cur []string) {
		if len(cur) == m {
			out = append(out, append([]string{}, cur...))
			return
		}
		for i := start; i < len(kinds); i++ {
			rec(i, append(cur, kinds[i]))
		}
	}
	rec(0, nil)
	return out
}

func TestVerifC19(t *testing.T) {
	res := vout.New("C19", "core")
	defer func() {
		if err := res.Write(); err != nil {
			t.Fatal(err)
		}
	}()
	maxN, bound := 2, 2
	if vout.Thorough() {
		maxN, bound = 3, 3
	}
	res.Bound("max_n", maxN)
	res.Bound("preemption_bound", bound)

	if vout.ReplayPath() != "" {
		var rp SchedReplay
		if _, err := vout.LoadReplay(&rp); err != nil {
			t.Fatal(err)
		}
		n := int(rp.Params["n"].(float64))
		var kinds []string
		for _, k := range rp.Params["kinds"].([]interface{}) {
			kinds = append(kinds, k.(string))
		}
		shape, _ := rp.Params["shape"].(string)
		img, tok := c19ImageShape(t, n, shape)
		if os.Getenv("VERIF_REPEAT") != "" {
			seen := map[string]int{}
			for i := 0; i < 30; i++ {
				y := sched.RunOnce(c19Body(t, img, tok, n, kinds), rp.Choices, rp.Fine)
				seen[strings.Join(y.Trace, "\n")+"\nSTUCK:"+y.Stuck]++
			}
			for k, c := range seen {
				t.Logf("---- %d times:\n%s", c, k)
			}
			return
		}
		x := sched.RunOnce(c19Body(t, img, tok, n, kinds), rp.Choices, rp.Fine)
		if v, _ := x.Obs.(*Verdict); v != nil && v.Violation != "" && x.Stuck == "" {
			res.Violate(v.Sig, v.Violation, rp)
		}
		return
	}

	if p := os.Getenv("VERIF_PART"); p == "" || p == "E" {
		c19PartE(t, res)
		if os.Getenv("VERIF_PART") == "E" {
			return
		}
	}
	if p := os.Getenv("VERIF_PART"); p == "" || p == "F" {
		c19PartF(t, res)
		if os.Getenv("VERIF_PART") == "F" {
			return
		}
	}
	item := 0
	// ---- fine granularity: every lock acquisition of a request is a scheduling
	// point (not only storage operations).  Two requests on a 1-use token, one
	// preemption anywhere (thorough: two): covers check-then-act windows that
	// contain no storage operation because the entry is served from the cache.
	{
		img, tok := c19Image(t, 1)
		fb := 1
		if vout.Thorough() {
			fb = 2
		}
		for _, kinds := range multisets([]string{"read", "write", "lease", "lookup", "denied"}, 2) {
			params := map[string]interface{}{"n": 1, "kinds": kinds, "fine": true}
			name := fmt.Sprintf("fine:n=1:%s", strings.Join(kinds, "+"))
			exploreScenario(res, "c19", name, params, c19Body(t, img, tok, 1, kinds), fb, true, &item)
		}
		res.Bound("fine_mode_preemption_bound", fb)
	}
	// ---- the final use, for every kind of request that can be the final one (m = n
	// requests: n-1 lease-generating uses, then the final request), including the
	// requests the core authorises outside the ordinary request path (sys/seal)
	for n := 1; n <= 2; n++ {
		img, tok := c19Image(t, n)
		for _, final := range append(append([]string{}, c19Kinds...), "denied-seal", "create-orphan", "create-noparent") {
			var kinds []string
			for i := 0; i < n-1; i++ {
				kinds = append(kinds, "lease")
			}
			kinds = append(kinds, final)
			params := map[string]interface{}{"n": n, "kinds": kinds}
			name := fmt.Sprintf("final:n=%d:%s", n, strings.Join(kinds, "+"))
			exploreScenario(res, "c19", name, params, c19Body(t, img, tok, n, kinds), 1, false, &item)
		}
		// the final use (and the uses before it) address a mount of a child
		// namespace with the parent namespace's token
		for _, lead := range []string{"lease", "ns-lease"} {
			for _, final := range []string{"ns-read", "ns-lease", "read"} {
				if n == 1 && lead != "lease" || lead == "lease" && final == "read" {
					continue
				}
				var kinds []string
				for i := 0; i < n-1; i++ {
					kinds = append(kinds, lead)
				}
				kinds = append(kinds, final)
				params := map[string]interface{}{"n": n, "kinds": kinds}
				name := fmt.Sprintf("final-ns:n=%d:%s", n, strings.Join(kinds, "+"))
				exploreScenario(res, "c19", name, params, c19Body(t, img, tok, n, kinds), 1, false, &item)
			}
		}
		// a use-limited token that otherwise never expires (root policy, no ttl)
		rimg, rtok := c19ImageShape(t, n, "root-nottl")
		for _, final := range []string{"read", "lease", "lookup"} {
			var kinds []string
			for i := 0; i < n-1; i++ {
				kinds = append(kinds, "lease")
			}
			kinds = append(kinds, final)
			params := map[string]interface{}{"n": n, "kinds": kinds, "shape": "root-nottl"}
			name := fmt.Sprintf("final-root:n=%d:%s", n, strings.Join(kinds, "+"))
			exploreScenario(res, "c19", name, params, c19Body(t, rimg, rtok, n, kinds), 1, false, &item)
		}
	}
	for n := 1; n <= maxN; n++ {
		img, tok := c19Image(t, n)
		for m := n + 1; m <= n+1; m++ {
			for _, kinds := range multisets(c19Kinds, m) {
				params := map[string]interface{}{"n": n, "kinds": kinds}
				name := fmt.Sprintf("n=%d:%s", n, strings.Join(kinds, "+"))
				b := bound
				if m >= 3 && !vout.Thorough() {
					b = 1 // quick tier: three concurrent requests with one preemption, two requests with two
				}
				ex := exploreScenario(res, "c19", name, params, c19Body(t, img, tok, n, kinds), b, false, &item)
				if ex > 0 && item%7 == 0 {
					res.Sample(map[string]interface{}{"scenario": name, "executions_in_this_shard": ex})
				}
			}
		}
	}
}

var c19ImpureNotes int

func res19Impure(s *Sys, logStart int) {
	if c19ImpureNotes > 5 {
		return
	}
	c19ImpureNotes++
	var ops []string
	for _, op := range s.Phys.LogSince(logStart) {
		if op.Thread == "" {
			ops = append(ops, op.String())
		}
	}
	fmt.Printf("IMPURE ops by unmanaged goroutines during exploration: %v\n", ops)
}
