package core

// C14 part M: sequential histories against a FULL independent model of the
// versioned register - mount configuration and per-secret metadata (max_versions,
// cas_required), pruning, check-and-set against the current version, version LISTS for
// delete / undelete / destroy (including versions that do not exist, are already
// deleted, destroyed or pruned), removal of the whole secret - started from several
// pre-states so that the pruning regime is reached within the depth bound
// ("start from non-initial states too").
//
// After EVERY step the whole API-visible state is compared with the model: every
// version 1..8 read back, current version, the secret's max_versions / cas_required and
// the deleted / destroyed flag of every version the metadata lists.
//
// Reading of the statement where the documentation and the code differ: the number of
// versions kept is the LARGER of the secret's and the mount's max_versions (10 when
// neither is set) - the current code's reading (`max(k.MaxVersions, configMaxVersions)`);
// the API documentation reads "if not set, the backend's configured max version is
// used", which differs only when both are set and the secret's is the smaller one.
// Pruning happens when a version is added, never when a limit is lowered.

import (
	"fmt"
	"sort"
	"strings"
	"testing"

	"github.com/openbao/openbao/sdk/v2/helper/verif/vout"
	"github.com/openbao/openbao/sdk/v2/logical"
)

type c14mVer struct {
	x, y      string
	hasY      bool
	deleted   bool
	destroyed bool
}

type c14mModel struct {
	exists bool // the secret has metadata
	cur    int
	floor  int // versions <= floor were pruned
	vers   map[int]*c14mVer
	keyMax int
	keyCas bool
	cfgMax int
	cfgCas bool
}

func c14mNew() *c14mModel {
	return &c14mModel{exists: true, cur: 1, vers: map[int]*c14mVer{1: {x: "v1"}}}
}

func (m *c14mModel) eff() int {
	e := m.keyMax
	if m.cfgMax > e {
		e = m.cfgMax
	}
	if e == 0 {
		e = 10
	}
	return e
}

func (m *c14mModel) addVersion(v *c14mVer) string {
	if !m.exists {
		m.exists, m.cur, m.floor, m.vers, m.keyMax, m.keyCas = true, 0, 0, map[int]*c14mVer{}, 0, false
	}
	m.cur++
	m.vers[m.cur] = v
	if f := m.cur - m.eff(); f > m.floor {
		m.floor = f
	}
	for k := range m.vers {
		if k <= m.floor {
			delete(m.vers, k)
		}
	}
	return fmt.Sprintf("ok:v%d", m.cur)
}

func (m *c14mModel) read(v int) string {
	if !m.exists {
		return "absent"
	}
	if v == 0 {
		v = m.cur
	}
	e := m.vers[v]
	if e == nil {
		return "absent"
	}
	if e.deleted || e.destroyed {
		return fmt.Sprintf("gone(v%d destroyed=%v)", v, e.destroyed)
	}
	y := "<nil>"
	if e.hasY {
		y = e.y
	}
	return fmt.Sprintf("v%d{x=%s y=%s}", v, e.x, y)
}

// c14mOps: the alphabet. Version lists are written out in the operation name.
var c14mOps = []string{
	"put", "putcas=cur", "putcas=stale", "patch", "patchcas=cur",
	"del", "delete[1]", "delete[2,1]", "delete[2,9]", "undelete[1]", "undelete[1,2]", "destroy[1]", "destroy[2,9]",
	"keymax=1", "keymax=2", "cfgmax=2", "cfgmax=3", "keycas", "cfgcas", "metadel",
}

func c14mList(op string) []int {
	i := strings.Index(op, "[")
	var out []int
	for _, p := range strings.Split(strings.Trim(op[i:], "[]"), ",") {
		n := 0
		fmt.Sscanf(p, "%d", &n)
		out = append(out, n)
	}
	return out
}

// apply returns the expected observation ("" = the error class is not modelled, but the
// call must fail and change nothing; "?" = nothing modelled about the answer).
func (m *c14mModel) apply(op string, i int) string {
	casReq := m.cfgCas || (m.exists && m.keyCas)
	cur := 0
	if m.exists {
		cur = m.cur
	}
	switch {
	case op == "put" || strings.HasPrefix(op, "putcas="):
		if op == "put" && casReq {
			return "err:cas-required"
		}
		if op == "putcas=stale" {
			return "err:cas-mismatch"
		}
		return m.addVersion(&c14mVer{x: fmt.Sprintf("w%d", i)})
	case op == "patch" || op == "patchcas=cur":
		// a patch needs a live current version; which refusal wins (not found / cas required)
		// is not part of the register semantics
		if !m.exists {
			return ""
		}
		e := m.vers[cur]
		if e == nil || e.deleted || e.destroyed {
			return ""
		}
		if op == "patch" && casReq {
			return "err:cas-required"
		}
		return m.addVersion(&c14mVer{x: e.x, y: fmt.Sprintf("q%d", i), hasY: true})
	case op == "del":
		if m.exists {
			if e := m.vers[cur]; e != nil && !e.destroyed {
				e.deleted = true
			}
		}
		return "ok"
	case strings.HasPrefix(op, "delete["):
		if m.exists {
			for _, v := range c14mList(op) {
				if e := m.vers[v]; e != nil && !e.destroyed {
					e.deleted = true
				}
			}
		}
		return "ok"
	case strings.HasPrefix(op, "undelete["):
		if m.exists {
			for _, v := range c14mList(op) {
				if e := m.vers[v]; e != nil && !e.destroyed {
					e.deleted = false
				}
			}
		}
		return "ok"
	case strings.HasPrefix(op, "destroy["):
		if m.exists {
			for _, v := range c14mList(op) {
				if e := m.vers[v]; e != nil {
					e.destroyed = true // the deletion mark, if any, stays (not observable through reads)
				}
			}
		}
		return "ok"
	case op == "keymax=1" || op == "keymax=2":
		if !m.exists {
			// a metadata write creates the secret's metadata without any version
			m.exists, m.cur, m.floor, m.vers, m.keyMax, m.keyCas = true, 0, 0, map[int]*c14mVer{}, 0, false
		}
		m.keyMax = int(op[len(op)-1] - '0')
		return "ok"
	case op == "keycas":
		if !m.exists {
			m.exists, m.cur, m.floor, m.vers, m.keyMax, m.keyCas = true, 0, 0, map[int]*c14mVer{}, 0, false
		}
		m.keyCas = true
		return "ok"
	case op == "cfgmax=2" || op == "cfgmax=3":
		m.cfgMax = int(op[len(op)-1] - '0')
		return "ok"
	case op == "cfgcas":
		m.cfgCas = true
		return "ok"
	case op == "metadel":
		m.exists = false
		return "ok"
	}
	return "?"
}

func c14mDo(s *Sys, m *c14mModel, op string, i int) string {
	tok := s.Root
	cur := 0
	if m.exists {
		cur = m.cur
	}
	switch {
	case op == "put":
		return writeObs(s.Req(tok, logical.UpdateOperation, "kv2/data/s", map[string]interface{}{"data": map[string]interface{}{"x": fmt.Sprintf("w%d", i)}}))
	case op == "putcas=cur":
		return writeObs(s.Req(tok, logical.UpdateOperation, "kv2/data/s", map[string]interface{}{"data": map[string]interface{}{"x": fmt.Sprintf("w%d", i)}, "options": map[string]interface{}{"cas": cur}}))
	case op == "putcas=stale":
		stale := cur - 1
		if cur == 0 {
			stale = 1
		}
		return writeObs(s.Req(tok, logical.UpdateOperation, "kv2/data/s", map[string]interface{}{"data": map[string]interface{}{"x": fmt.Sprintf("w%d", i)}, "options": map[string]interface{}{"cas": stale}}))
	case op == "patch":
		return writeObs(s.Req(tok, logical.PatchOperation, "kv2/data/s", map[string]interface{}{"data": map[string]interface{}{"y": fmt.Sprintf("q%d", i)}}))
	case op == "patchcas=cur":
		return writeObs(s.Req(tok, logical.PatchOperation, "kv2/data/s", map[string]interface{}{"data": map[string]interface{}{"y": fmt.Sprintf("q%d", i)}, "options": map[string]interface{}{"cas": cur}}))
	case op == "del":
		return writeObs(s.Req(tok, logical.DeleteOperation, "kv2/data/s", nil))
	case strings.HasPrefix(op, "delete["):
		return writeObs(s.Req(tok, logical.UpdateOperation, "kv2/delete/s", map[string]interface{}{"versions": c14mList(op)}))
	case strings.HasPrefix(op, "undelete["):
		return writeObs(s.Req(tok, logical.UpdateOperation, "kv2/undelete/s", map[string]interface{}{"versions": c14mList(op)}))
	case strings.HasPrefix(op, "destroy["):
		return writeObs(s.Req(tok, logical.UpdateOperation, "kv2/destroy/s", map[string]interface{}{"versions": c14mList(op)}))
	case op == "keymax=1" || op == "keymax=2":
		return writeObs(s.Req(tok, logical.UpdateOperation, "kv2/metadata/s", map[string]interface{}{"max_versions": int(op[len(op)-1] - '0')}))
	case op == "keycas":
		return writeObs(s.Req(tok, logical.UpdateOperation, "kv2/metadata/s", map[string]interface{}{"cas_required": true}))
	case op == "cfgmax=2" || op == "cfgmax=3":
		return writeObs(s.Req(tok, logical.UpdateOperation, "kv2/config", map[string]interface{}{"max_versions": int(op[len(op)-1] - '0')}))
	case op == "cfgcas":
		return writeObs(s.Req(tok, logical.UpdateOperation, "kv2/config", map[string]interface{}{"cas_required": true}))
	case op == "metadel":
		return writeObs(s.Req(tok, logical.DeleteOperation, "kv2/metadata/s", nil))
	}
	return "unknown-op"
}

// c14mCompare checks every API-visible datum against the model; "" = agreement.
func c14mCompare(s *Sys, m *c14mModel) string {
	for v := 1; v <= 8; v++ {
		got := readObs(s.Req(s.Root, logical.ReadOperation, "kv2/data/s", map[string]interface{}{"version": v}))
		if want := m.read(v); got != want {
			return fmt.Sprintf("read of version %d answers %q, the model says %q", v, got, want)
		}
	}
	got := readObs(s.Req(s.Root, logical.ReadOperation, "kv2/data/s", nil))
	if want := m.read(0); got != want && !(m.exists && m.cur == 0 && got == "absent") {
		return fmt.Sprintf("read of the current version answers %q, the model says %q", got, want)
	}
	resp, err := s.Req(s.Root, logical.ReadOperation, "kv2/metadata/s", nil)
	if !m.exists {
		if OK(resp, err) && resp != nil && resp.Data != nil {
			return fmt.Sprintf("the secret was removed, but its metadata still reads: %v", resp.Data)
		}
		return ""
	}
	if !OK(resp, err) || resp == nil {
		return "metadata of an existing secret cannot be read: " + ErrText(resp, err)
	}
	if g := fmt.Sprint(resp.Data["current_version"]); g != fmt.Sprint(m.cur) {
		return fmt.Sprintf("current_version is %s, the model says %d", g, m.cur)
	}
	if g := fmt.Sprint(resp.Data["max_versions"]); g != fmt.Sprint(m.keyMax) {
		return fmt.Sprintf("the secret's max_versions is %s, the model says %d", g, m.keyMax)
	}
	if g := fmt.Sprint(resp.Data["cas_required"]); g != fmt.Sprint(m.keyCas) {
		return fmt.Sprintf("the secret's cas_required is %s, the model says %v", g, m.keyCas)
	}
	var gotVs, wantVs []string
	if vs, ok := resp.Data["versions"].(map[string]interface{}); ok {
		for k, v := range vs {
			mm, _ := v.(map[string]interface{})
			gotVs = append(gotVs, fmt.Sprintf("%s:del=%v,destroyed=%v", k, mm["deletion_time"] != "", mm["destroyed"]))
		}
	}
	for k, e := range m.vers {
		wantVs = append(wantVs, fmt.Sprintf("%d:del=%v,destroyed=%v", k, e.deleted, e.destroyed))
	}
	sort.Strings(gotVs)
	sort.Strings(wantVs)
	if strings.Join(gotVs, ";") != strings.Join(wantVs, ";") {
		return fmt.Sprintf("metadata lists versions [%s], the model says [%s]", strings.Join(gotVs, ";"), strings.Join(wantVs, ";"))
	}
	return ""
}

func (m *c14mModel) key() string {
	var vs []string
	for k, e := range m.vers {
		vs = append(vs, fmt.Sprintf("%d:%v%v%v", k, e.deleted, e.destroyed, e.hasY))
	}
	sort.Strings(vs)
	return fmt.Sprintf("ex=%v cur=%d floor=%d km=%d kc=%v cm=%d cc=%v [%s]", m.exists, m.cur, m.floor, m.keyMax, m.keyCas, m.cfgMax, m.cfgCas, strings.Join(vs, " "))
}

// pre-states (each a history of the same alphabet, so the model follows them too)
var c14mPre = [][]string{
	nil,
	{"cfgmax=3", "keymax=2", "put", "put"},         // secret's limit below the mount's, at the limit
	{"cfgmax=2", "put", "put", "delete[2,9]"},      // mount limit only, pruned once, one version deleted
	{"put", "put", "delete[1]", "destroy[2,9]"},    // three versions: deleted, destroyed, live
	{"cfgcas", "putcas=cur", "keymax=1", "metadel"}, // removed secret under a cas_required mount
}

func c14mRun(t *testing.T, img *Image, pre, h []string, res *vout.Result) (string, string, string) {
	s := Boot(t, img)
	defer s.Close()
	m := c14mNew()
	all := append(append([]string{}, pre...), h...)
	for i, op := range all {
		before := m.key()
		want := m.apply(op, i)
		got := c14mDoBefore(s, before, op, i)
		res.Add("transitions", 1)
		switch {
		case want == "":
			// a refused patch answers with an error or with a 404 body that carries no version
			if !strings.HasPrefix(got, "err") && got != "ok" {
				return "refusal-expected:" + strings.SplitN(op, "[", 2)[0], fmt.Sprintf("pre-state %v history %v step %d (%s): the engine answered %q, the model says the call must be refused", pre, h, i-len(pre), op, got), ""
			}
		case want != "?" && got != want:
			return "answer:" + strings.SplitN(op, "[", 2)[0], fmt.Sprintf("pre-state %v history %v step %d (%s): the engine answered %q, the versioned-register model says %q", pre, h, i-len(pre), op, got, want), ""
		}
		if i >= len(pre)-1 {
			if msg := c14mCompare(s, m); msg != "" {
				return "state-after:" + strings.SplitN(op, "[", 2)[0], fmt.Sprintf("pre-state %v history %v after step %d (%s, answered %q): %s", pre, h, i-len(pre), op, got, msg), ""
			}
		}
	}
	return "", "", m.key()
}

// c14mDoBefore issues the request with the check-and-set value derived from the model state
// BEFORE the step (key() carries ex= and cur=).
func c14mDoBefore(s *Sys, before, op string, i int) string {
	var ex bool
	var cur int
	fmt.Sscanf(before, "ex=%t cur=%d", &ex, &cur)
	return c14mDo(s, &c14mModel{exists: ex, cur: cur}, op, i)
}

func c14mPart(t *testing.T, img *Image, res *vout.Result) {
	depth0, depthPre := 3, 2
	if vout.Thorough() {
		depth0, depthPre = 4, 3
	}
	res.Bound("model_history_depth_from_initial_state", depth0)
	res.Bound("model_history_depth_from_pre_states", depthPre)
	res.Bound("model_pre_states", len(c14mPre))
	res.Bound("model_alphabet", c14mOps)
	count := 0
	for pi, pre := range c14mPre {
		depth := depthPre
		if pi == 0 {
			depth = depth0
		}
		var rec func(h []string)
		rec = func(h []string) {
			if len(h) > 0 || pi > 0 {
				// only leaves are run: every step of a history is judged, so a prefix adds nothing
				if len(h) == depth {
					count++
					if vout.Mine(count) {
						sig, msg, key := c14mRun(t, img, pre, h, res)
						res.Add("executions", 1)
						res.Add("states", 1)
						res.Add("model_histories", 1)
						if sig != "" {
							res.Violate("c14:model:"+sig, msg, SchedReplay{Scenario: "history", Params: map[string]interface{}{"ops": h, "pre": pre}})
						} else {
							res.Distinct("nontrivial", "M|"+key)
							if count%499 == 0 {
								res.Sample(map[string]interface{}{"part": "M (full model)", "pre_state": pre, "history": h, "model_state": key})
							}
						}
					}
				}
			}
			if len(h) == depth {
				return
			}
			for _, op := range c14mOps {
				rec(append(append([]string{}, h...), op))
			}
		}
		rec(nil)
	}
}
