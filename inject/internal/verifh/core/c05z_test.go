package core

// C05 part Z: "every lease present in storage is tracked for expiry ... every
// namespace incl. sealed/unsealed transitions".
//
// A namespace with its own (Shamir) seal holds a secrets mount, an auth mount
// and a child namespace.  Explicit-state BFS over histories of
//
//   issue a token / a leased secret in the sealable namespace, a leased secret
//   in its child, a leased secret in the root namespace; renew; age every
//   stored lease of the sealable subtree past its maximum (storage rewritten
//   through sys/raw, as in part R); seal the namespace; unseal it; restart the
//   server (the namespace comes back sealed)
//
// each history replayed on a fresh Core.  After every step:
//
//   * namespace unsealed: {lease records in storage} = tracked set (whole store);
//   * namespace sealed: the same for every lease outside the sealed subtree
//     (a sealed namespace's storage cannot be read, the statement can only ask
//     for tracking again once it is readable);
//   * after an unseal (or restart + unseal) following the ageing of leases:
//     once the due leases have been handed to the revocation path (Drain) the
//     aged lease records are gone, their secrets were revoked at the backend and
//     their tokens are refused.

import (
	"encoding/json"
	"fmt"
	"time"
	"strings"
	"testing"

	"github.com/openbao/openbao/sdk/v2/helper/verif/vout"
	"github.com/openbao/openbao/sdk/v2/logical"
	"github.com/openbao/openbao/v2/internal/helper/namespace"
)

type c05zLease struct {
	id, token, secret string
	sub               bool // lives in the sealable subtree
	aged              bool // storage says it is past its expiry
}

type c05zWorld struct {
	s      *Sys
	shares []string
	nsS    *namespace.Namespace
	nsK    *namespace.Namespace
	sealed bool
	leases []*c05zLease
}

// cycle = seal; unseal.  agecycle = age; seal; unseal.  agerestart = age; restart; unseal
// (composite steps so that "a lease expires across a sealed period" is reached
// within the depth bound).
var c05zOps = []string{"tok", "sec", "kidsec", "rootsec", "renew", "age", "seal", "unseal", "restart", "cycle", "agecycle", "agerestart"}

func c05zImage(t *testing.T) (*Image, []string) {
	s := Build(t, Options{})
	defer s.Close()
	shares := s.mkNS(t, "sealme/", true)
	if len(shares) == 0 {
		t.Fatalf("harness: sealable namespace returned no key shares")
	}
	s.Must(s.Req(s.Root, logical.UpdateOperation, "sys/namespaces/sealme/unseal", map[string]interface{}{"key": shares[0]}))
	s.mkNS(t, "sealme/kid/", false)
	s.Mount("rec/", "rec")
	for _, p := range []string{"sealme/", "sealme/kid/"} {
		ns := s.nsByPath(t, p)
		s.Must(s.ReqNS(ns, s.Root, logical.UpdateOperation, "sys/mounts/rec", map[string]interface{}{"type": "rec"}))
		s.Must(s.ReqNS(ns, s.Root, logical.UpdateOperation, "sys/auth/ra", map[string]interface{}{"type": "recauth"}))
	}
	s.settle()
	return s.Image(), shares
}

func (w *c05zWorld) inSub(id string) bool {
	return strings.HasSuffix(id, "."+w.nsS.ID) || strings.HasSuffix(id, "."+w.nsK.ID)
}

// invariant: stored == tracked, restricted to leases outside the sealed subtree while it is sealed.
func (w *c05zWorld) invariant() string {
	ids, _ := expireKeys(w.s)
	p, n, i := w.s.Core.VerifExpiration().VerifTracked()
	tracked := map[string]bool{}
	for _, l := range [][]string{p, n, i} {
		for _, id := range l {
			tracked[id] = true
		}
	}
	stored := map[string]bool{}
	for _, id := range ids {
		stored[id] = true
		if w.sealed && w.inSub(id) {
			continue
		}
		if !tracked[id] {
			return fmt.Sprintf("lease %q is in storage but not tracked for expiry (namespace sealed=%v)", id, w.sealed)
		}
	}
	for id := range tracked {
		if !stored[id] {
			return fmt.Sprintf("lease %q is tracked in memory but has no record in storage", id)
		}
	}
	for _, id := range p {
		if !w.s.willFire(id) {
			return fmt.Sprintf("lease %q is in the pending set but its timer is not armed and no revocation is queued", id)
		}
	}
	return ""
}

func (w *c05zWorld) issue(ns *namespace.Namespace, kind string, sub bool) string {
	before, _ := expireKeys(w.s)
	var resp *logical.Response
	var err error
	if kind == "tok" {
		resp, err = w.s.ReqNS(ns, w.s.Root, logical.UpdateOperation, "auth/token/create", map[string]interface{}{"ttl": "100s", "explicit_max_ttl": "1000s"})
	} else {
		resp, err = w.s.ReqNS(ns, w.s.Root, logical.ReadOperation, "rec/lease/x", map[string]interface{}{"ttl": 100, "max_ttl": 1000})
	}
	if w.sealed && sub {
		if OK(resp, err) && resp != nil && (resp.Auth != nil || resp.Secret != nil) {
			return "credential issued inside a sealed namespace"
		}
		return ""
	}
	if !OK(resp, err) || resp == nil {
		w.s.T.Fatalf("harness: issue %s: %s", kind, ErrText(resp, err))
	}
	l := &c05zLease{sub: sub}
	if resp.Auth != nil {
		l.token = resp.Auth.ClientToken
	}
	if resp.Secret != nil {
		l.secret, _ = resp.Data["id"].(string)
	}
	after, _ := expireKeys(w.s)
	for _, id := range diffKeys(before, after) {
		l.id = id
	}
	if l.id == "" {
		w.s.T.Fatalf("harness: issue %s: no lease record appeared", kind)
	}
	w.leases = append(w.leases, l)
	return ""
}

func (w *c05zWorld) leaseNS(l *c05zLease) *namespace.Namespace {
	switch {
	case strings.HasSuffix(l.id, "."+w.nsS.ID):
		return w.nsS
	case strings.HasSuffix(l.id, "."+w.nsK.ID):
		return w.nsK
	}
	return namespace.RootNamespace
}

// willFire reports whether something will try to revoke the tracked lease
// without outside help: its timer is armed, or it has fired and the expiry
// recorder holds the lease. A timer that fires concurrently with the probe is
// between the two for a moment, hence the polling; the 20 s are only ever
// reached when neither becomes true.
var willFireFailed bool

func (s *Sys) willFire(id string) bool { return s.willFireSince(id, -1) }

// willFireSince additionally accepts that the lease's timer fired into the
// cut-off production strategy (base_test.go) since the counter stood at cut0:
// between the unseal of a restarted server and the installation of the expiry
// recorder a timer of an already expired lease ends there (Drain revokes such
// leases). Only meaningful when a single lease can be due.
func (s *Sys) willFireSince(id string, cut0 int64) bool {
	if willFireFailed {
		// one such finding per worker process is enough; every further one
		// would cost the full waiting time again
		return true
	}
	deadline := time.Now().Add(20 * time.Second)
	for {
		for _, q := range s.QueuedIDs() {
			if q == id {
				return true
			}
		}
		pend, armed, _ := s.Core.VerifExpiration().VerifTimerState(id)
		if !pend || armed {
			return true
		}
		if cut0 >= 0 && strategyCutOff.Load() > cut0 {
			return true
		}
		if time.Now().After(deadline) {
			willFireFailed = true
			return false
		}
		time.Sleep(200 * time.Microsecond)
	}
}

// afterRestore: the namespace's leases were just reloaded from storage (unseal).
func (w *c05zWorld) afterRestore() string {
	w.s.settle()
	for _, l := range w.leases {
		if l.aged && !w.s.willFire(l.id) {
			return fmt.Sprintf("lease %s expired while the namespace was sealed; after the unseal it is in the pending set but its timer is not armed and no revocation is queued", l.id)
		}
	}
	w.s.Drain()
	var keep []*c05zLease
	for _, l := range w.leases {
		if !l.aged {
			keep = append(keep, l)
			continue
		}
		if _, ok := rawRead(w.s, expirePhysKey(l.id)); ok {
			return fmt.Sprintf("lease %s expired while the namespace was sealed / before the reload; after unseal and quiescence its record is still stored", l.id)
		}
		if l.secret != "" && w.s.Rec.RevokedCount(l.secret) == 0 {
			return fmt.Sprintf("secret of lease %s expired but was never revoked at its backend", l.id)
		}
		if l.token != "" {
			r, e := w.s.ReqNS(w.leaseNS(l), l.token, logical.ReadOperation, "auth/token/lookup-self", nil)
			if OK(r, e) {
				return fmt.Sprintf("token of lease %s expired but is still accepted", l.id)
			}
		}
	}
	w.leases = keep
	return ""
}

func (w *c05zWorld) apply(t *testing.T, op string) (string, string) {
	var steps []string
	switch op {
	case "cycle":
		steps = []string{"seal", "unseal"}
	case "agecycle":
		steps = []string{"age", "seal", "unseal"}
	case "agerestart":
		steps = []string{"age", "restart", "unseal"}
	default:
		return w.apply1(t, op)
	}
	for _, st := range steps {
		if sig, msg := w.apply1(t, st); sig != "" {
			return sig, "(" + st + " of " + op + ") " + msg
		}
	}
	return "", ""
}

func (w *c05zWorld) apply1(t *testing.T, op string) (string, string) {
	s := w.s
	switch op {
	case "tok":
		if m := w.issue(w.nsS, "tok", true); m != "" {
			return "issued-while-sealed", m
		}
	case "sec":
		if m := w.issue(w.nsS, "sec", true); m != "" {
			return "issued-while-sealed", m
		}
	case "kidsec":
		if w.sealed {
			// the child's namespace object is forgotten while the parent is sealed
			r, e := s.ReqNS(w.nsK, s.Root, logical.ReadOperation, "rec/lease/x", map[string]interface{}{"ttl": 100, "max_ttl": 1000})
			if OK(r, e) && r != nil && r.Secret != nil {
				return "issued-while-sealed", "credential issued inside the child of a sealed namespace"
			}
			return "", ""
		}
		if m := w.issue(w.nsK, "sec", true); m != "" {
			return "issued-while-sealed", m
		}
	case "rootsec":
		if m := w.issue(namespace.RootNamespace, "sec", false); m != "" {
			return "issued-while-sealed", m
		}
	case "renew":
		for _, l := range w.leases {
			if l.aged || (w.sealed && l.sub) {
				continue
			}
			var r *logical.Response
			var e error
			if l.token != "" {
				r, e = s.ReqNS(w.leaseNS(l), l.token, logical.UpdateOperation, "auth/token/renew-self", map[string]interface{}{"increment": 50})
			} else {
				r, e = s.ReqNS(w.leaseNS(l), s.Root, logical.UpdateOperation, "sys/leases/renew", map[string]interface{}{"lease_id": l.id, "increment": 50})
			}
			if !OK(r, e) {
				return "live-lease-renewal-refused", fmt.Sprintf("renewal of live lease %s refused: %s", l.id, ErrText(r, e))
			}
			break
		}
	case "age":
		if w.sealed {
			return "", ""
		}
		for _, l := range w.leases {
			if !l.sub || l.aged {
				continue
			}
			m, _, ok := c05ReadLease(s, l.id)
			if !ok {
				t.Fatalf("harness: cannot read lease %s", l.id)
			}
			for _, f := range []string{"issue_time", "expire_time", "last_renewal_time"} {
				m[f] = shiftTime(m[f], -2000)
			}
			if resp, err := s.Req(s.Root, logical.UpdateOperation, "sys/raw/"+expirePhysKey(l.id), map[string]interface{}{"value": jsonString(m)}); !OK(resp, err) {
				t.Fatalf("harness: cannot rewrite lease %s: %s", l.id, ErrText(resp, err))
			}
			l.aged = true
		}
	case "seal":
		r, e := s.Req(s.Root, logical.UpdateOperation, "sys/namespaces/sealme/seal", nil)
		if !w.sealed && !OK(r, e) {
			return "seal-failed", "sealing the unsealed namespace failed: " + ErrText(r, e)
		}
		w.sealed = true
	case "unseal":
		r, e := s.Req(s.Root, logical.UpdateOperation, "sys/namespaces/sealme/unseal", map[string]interface{}{"key": w.shares[0]})
		if !OK(r, e) {
			return "unseal-failed", "unsealing with the valid share failed: " + ErrText(r, e)
		}
		was := w.sealed
		w.sealed = false
		if was {
			if m := w.afterRestore(); m != "" {
				return "expired-not-revoked-after-unseal", m
			}
		}
	case "restart":
		img := s.Image()
		s.Close()
		ns, err := BootData(t, img.Data, img)
		if err != nil {
			t.Fatalf("harness: restart: %v", err)
		}
		w.s = ns
		w.sealed = true
		// leases outside the subtree that were aged? (none: only the subtree is aged)
		ns.Drain()
	}
	w.s.settle()
	if m := w.invariant(); m != "" {
		return "tracking", m
	}
	return "", ""
}

func shiftTime(v interface{}, seconds int) interface{} {
	str, ok := v.(string)
	if !ok {
		return v
	}
	tm, err := time.Parse(time.RFC3339Nano, str)
	if err != nil || tm.IsZero() {
		return v
	}
	return tm.Add(time.Duration(seconds) * time.Second).Format(time.RFC3339Nano)
}

func jsonString(v interface{}) string {
	b, _ := json.Marshal(v)
	return string(b)
}

func c05zRun(t *testing.T, img *Image, shares []string, hist []string, res *vout.Result) (string, string, string) {
	s := Boot(t, img)
	w := &c05zWorld{s: s, shares: shares, sealed: true}
	defer func() { w.s.Close() }()
	w.nsS = s.nsByPath(t, "sealme/")
	// a restart leaves the namespace sealed: bring it to the image's state
	s.Must(s.Req(s.Root, logical.UpdateOperation, "sys/namespaces/sealme/unseal", map[string]interface{}{"key": shares[0]}))
	w.sealed = false
	s.settle()
	w.nsK = s.nsByPath(t, "sealme/kid/")
	for step, op := range hist {
		res.Add("transitions", 1)
		sig, msg := w.apply(t, op)
		if sig != "" {
			return sig, fmt.Sprintf("history %v step %d (%s): %s", hist, step, op, msg), ""
		}
	}
	live, aged := 0, 0
	for _, l := range w.leases {
		if l.aged {
			aged++
		} else {
			live++
		}
	}
	return "", "", fmt.Sprintf("Z|sealed=%v|live=%d|aged=%d", w.sealed, live, aged)
}

func c05zPart(t *testing.T, res *vout.Result, count *int) {
	img, shares := c05zImage(t)
	depth := 3
	if vout.Thorough() {
		depth = 4
	}
	res.Bound("Z_history_depth", depth)
	res.Bound("Z_alphabet", c05zOps)
	var rec func(h []string)
	rec = func(h []string) {
		if len(h) > 0 {
			*count++
			if vout.Mine(*count) {
				sig, msg, key := c05zRun(t, img, shares, h, res)
				res.Add("executions", 1)
				res.Add("evaluations", 1)
				res.Add("Z_histories", 1)
				if sig != "" {
					res.Violate("c05:sealns:"+sig, msg, map[string]interface{}{"part": "Z", "hist": h})
				} else {
					res.Distinct("nontrivial", key)
				}
			}
		}
		if len(h) == depth {
			return
		}
		for _, op := range c05zOps {
			rec(append(append([]string{}, h...), op))
		}
	}
	rec(nil)
}
