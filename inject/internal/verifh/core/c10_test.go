package core

// C10 (Core level): a crash after any prefix of the storage writes of an
// encryption-key rotation, a root-key rotation or a rekey(shares, threshold)
// leaves a store that unseals with a currently valid set of unseal keys (the
// old shares, or the new shares the operation would have returned) and from
// which every earlier entry reads back.

import (
	"context"
	"encoding/hex"
	"fmt"
	"strings"
	"testing"

	"github.com/openbao/openbao/sdk/v2/helper/verif/vout"
	"github.com/openbao/openbao/sdk/v2/logical"
	"github.com/openbao/openbao/v2/internal/vault"
)

func c10Image(t *testing.T) *Image {
	s := Build(t, Options{})
	defer s.Close()
	s.Mount("rec/", "rec")
	s.Must(s.Req(s.Root, logical.UpdateOperation, "rec/kv/a", map[string]interface{}{"value": "EARLIER"}))
	return s.Image()
}

// c10Act performs the operation; for rekey it returns the new shares.
func c10Act(s *Sys, what string) ([][]byte, error) {
	switch what {
	case "rotate":
		resp, err := s.Req(s.Root, logical.UpdateOperation, "sys/rotate", nil)
		if !OK(resp, err) {
			return nil, fmt.Errorf("%s", ErrText(resp, err))
		}
	case "rotate-root":
		resp, err := s.Req(s.Root, logical.UpdateOperation, "sys/rotate/root", nil)
		if !OK(resp, err) {
			return nil, fmt.Errorf("%s", ErrText(resp, err))
		}
	case "rotate-root-shares":
		// the share-based root rotation API, to a configuration with a smaller
		// threshold than the old one (3,3) -> (5,2)
		resp, err := s.Req(s.Root, logical.UpdateOperation, "sys/rotate/root/init", map[string]interface{}{"secret_shares": 5, "secret_threshold": 2})
		if !OK(resp, err) || resp == nil {
			return nil, fmt.Errorf("rotate init: %s", ErrText(resp, err))
		}
		nonce, _ := resp.Data["nonce"].(string)
		for _, k := range s.Keys {
			resp, err := s.Req(s.Root, logical.UpdateOperation, "sys/rotate/root/update", map[string]interface{}{"key": hex.EncodeToString(k), "nonce": nonce})
			if !OK(resp, err) {
				_, _ = s.Req(s.Root, logical.DeleteOperation, "sys/rotate/root/init", nil)
				return nil, fmt.Errorf("rotate update: %s", ErrText(resp, err))
			}
			if resp != nil {
				if c, _ := resp.Data["complete"].(bool); c {
					var out [][]byte
					ks, _ := resp.Data["keys"].([]string)
					for _, k := range ks {
						b, _ := hex.DecodeString(k)
						out = append(out, b)
					}
					return out, nil
				}
			}
		}
		return nil, fmt.Errorf("root rotation did not complete")
	case "rekey":
		conf := &vault.SealConfig{Type: "shamir", SecretShares: 5, SecretThreshold: 3}
		if herr := s.Core.RekeyInit(conf, false); herr != nil {
			return nil, herr
		}
		rk, herr := s.Core.RekeyConfig(false)
		if herr != nil || rk == nil {
			return nil, fmt.Errorf("no rekey config: %v", herr)
		}
		for _, k := range s.Keys {
			r, herr := s.Core.RekeyUpdate(context.Background(), vault.TestKeyCopy(k), rk.Nonce, false)
			if herr != nil {
				return nil, herr
			}
			if r != nil {
				return r.SecretShares, nil
			}
		}
		return nil, fmt.Errorf("rekey did not complete")
	}
	return nil, nil
}

func TestVerifC10Core(t *testing.T) {
	res := vout.New("C10", "core")
	defer func() {
		if err := res.Write(); err != nil {
			t.Fatal(err)
		}
	}()
	if vout.ReplayPath() != "" {
		t.Log("C10 core artefacts name (operation, crash index j); re-run the check to reproduce (deterministic enumeration)")
		return
	}
	img := c10Image(t)
	count := 0
	for _, what := range []string{"rotate", "rotate-root", "rekey", "rotate-root-shares"} {
		s0 := Boot(t, img)
		s0.Phys.ResetMutations()
		newShares, err := c10Act(s0, what)
		if err != nil {
			t.Fatalf("harness: fault-free %s failed: %v", what, err)
		}
		nmut := s0.Phys.Mutations()
		// fault-free sanity: restart, unseal with the valid shares, read back
		snap0 := s0.Phys.Snapshot()
		s0.Close()
		valid := img.Keys
		if len(newShares) > 0 {
			valid = newShares
		}
		if sx, err := BootSealed(t, snap0, img); err == nil {
			ok, uerr := sx.TryUnseal(valid)
			if !ok {
				res.Violate("c10:core:completed-operation-unsealable", fmt.Sprintf("after a completed %s the store does not unseal with the valid shares: %v", what, uerr), map[string]interface{}{"op": what, "j": 0})
			} else if resp, err := sx.Req(sx.Root, logical.ReadOperation, "rec/kv/a", nil); !OK(resp, err) || resp == nil || resp.Data["value"] != "EARLIER" {
				res.Violate("c10:core:entry-lost", fmt.Sprintf("after a completed %s the earlier entry does not read back", what), map[string]interface{}{"op": what, "j": 0})
			}
			sx.Close()
		}
		res.Max("durable_mutations", int64(nmut))
		for j := 1; j <= nmut; j++ {
			count++
			if !vout.Mine(count) {
				continue
			}
			s := Boot(t, img)
			s.Phys.CrashAfter(j)
			_, _ = c10Act(s, what)
			crashed, snap := s.Phys.Crashed()
			s.Close()
			if !crashed {
				continue
			}
			res.Add("executions", 1)
			res.Add("crash_runs", 1)
			art := map[string]interface{}{"op": what, "j": j, "of": nmut}
			var unsealed *Sys
			var errs []string
			for _, cand := range [][][]byte{img.Keys, newShares} {
				if len(cand) == 0 {
					continue
				}
				sx, err := BootSealed(t, snap, img)
				if err != nil {
					t.Fatalf("harness: %v", err)
				}
				ok, uerr := sx.TryUnseal(cand)
				if ok {
					unsealed = sx
					break
				}
				errs = append(errs, fmt.Sprint(uerr))
				sx.Close()
			}
			if unsealed == nil {
				res.Violate(fmt.Sprintf("c10:core:crash:%s:unsealable:after-write-%d-of-%d", what, j, nmut), fmt.Sprintf("crash after durable write %d of %d of %s: the store unseals neither with the old shares nor with the new shares (%v)", j, nmut, what, errs), art)
				res.Distinct("nontrivial", fmt.Sprintf("%s|%d|unsealable", what, j))
				continue
			}
			resp, err := unsealed.Req(unsealed.Root, logical.ReadOperation, "rec/kv/a", nil)
			if !OK(resp, err) || resp == nil || resp.Data["value"] != "EARLIER" {
				res.Violate(fmt.Sprintf("c10:core:crash:%s:entry-lost", what), fmt.Sprintf("crash after durable write %d of %d of %s: unsealed, but the earlier entry does not read back (%s)", j, nmut, what, ErrText(resp, err)), art)
			}
			res.Distinct("nontrivial", fmt.Sprintf("%s|%d|ok", what, j))
			unsealed.Close()
		}
		// ---- survived faults: the k-th storage operation of the call fails once, the
		// process lives on, writes one more entry, is sealed (shut down) and unsealed
		// with the keys the operator holds: the NEW shares only if the call handed them
		// out, else the old ones.  Every acknowledged entry must read back.
		sF := Boot(t, img)
		sF.Phys.FailAt("call", 1<<30)
		sF.Phys.SetTag("call")
		_, _ = c10Act(sF, what)
		sF.Phys.SetTag("")
		nops := sF.Phys.TagCount("call")
		sF.Close()
		res.Max("ops_in_operation", int64(nops))
		for k := 1; k <= nops; k++ {
			count++
			if !vout.Mine(count) {
				continue
			}
			s := Boot(t, img)
			s.Phys.FailAt("call", k)
			s.Phys.SetTag("call")
			shares, aerr := c10Act(s, what)
			s.Phys.SetTag("")
			failed := s.Phys.Failed()
			fwhat := "not reached"
			if failed != nil {
				fwhat = failed.String()
			}
			res.Add("executions", 1)
			res.Add("fault_runs", 1)
			art := map[string]interface{}{"op": what, "fault_at_op": k, "failed_op": fwhat}
			later := OK(s.Req(s.Root, logical.UpdateOperation, "rec/kv/later", map[string]interface{}{"value": "LATER"}))
			snap := s.Phys.Snapshot()
			s.Close()
			holds := img.Keys
			held := "old shares"
			if aerr == nil && len(shares) > 0 {
				holds, held = shares, "new shares"
			}
			sx, err := BootSealed(t, snap, img)
			if err != nil {
				t.Fatalf("harness: %v", err)
			}
			ok, uerr := sx.TryUnseal(holds)
			if !ok {
				fop := "none"
				if failed != nil {
					fop = failed.Kind + "(" + failed.Key + ")"
				}
				sig := fmt.Sprintf("c10:core:fault:%s:unsealable-with-held-keys:%s:%s", what, map[bool]string{true: "call-succeeded", false: "call-failed"}[aerr == nil], fop)
				res.Violate(sig, fmt.Sprintf("%s with storage op %d [%s] failing (call error: %v): after a shutdown the store does not unseal with the %s, the only ones the operator holds (%v)", what, k, fwhat, aerr, held, uerr), art)
				res.Distinct("nontrivial", fmt.Sprintf("F|%s|%v|unsealable", what, aerr == nil))
				sx.Close()
				continue
			}
			if resp, err := sx.Req(sx.Root, logical.ReadOperation, "rec/kv/a", nil); !OK(resp, err) || resp == nil || resp.Data["value"] != "EARLIER" {
				res.Violate(fmt.Sprintf("c10:core:fault:%s:entry-lost", what), fmt.Sprintf("%s with storage op %d [%s] failing: unsealed with the %s, but the earlier entry does not read back (%s)", what, k, fwhat, held, ErrText(resp, err)), art)
			}
			if later {
				if resp, err := sx.Req(sx.Root, logical.ReadOperation, "rec/kv/later", nil); !OK(resp, err) || resp == nil || resp.Data["value"] != "LATER" {
					res.Violate(fmt.Sprintf("c10:core:fault:%s:later-entry-lost", what), fmt.Sprintf("%s with storage op %d [%s] failing (call error: %v): an entry acknowledged AFTER the failed operation does not read back after seal/unseal (%s)", what, k, fwhat, aerr, ErrText(resp, err)), art)
				}
			}
			res.Distinct("nontrivial", fmt.Sprintf("F|%s|%v|%v|ok", what, aerr == nil, later))
			sx.Close()
		}
		res.Add("states", 1)
		res.Sample(map[string]interface{}{"operation": what, "durable_mutations": nmut})
	}
}

// ---- H: histories of key-management operations on a live Core ------------------
//
// Every sequence (depth <= 2 quick / 3 thorough) over {generate-root attempt with
// forged shares (rejected), generate-root with the genuine shares, encryption-key
// rotation, share-less root-key rotation, rekey(5,3)}; after EVERY step the store
// is shut down and must unseal with the shares the operator holds at that moment,
// and every earlier entry must read back.

func c10GenRoot(s *Sys, keys [][]byte, forge bool) (completed bool, err error) {
	ctx := rootCtx()
	_ = s.Core.GenerateRootCancel(ctx)
	err = s.Core.GenerateRootInit(ctx, strings.Repeat("k", vault.TokenLength+vault.TokenPrefixLength), "", vault.GenerateStandardRootTokenStrategy)
	if err != nil {
		return false, fmt.Errorf("generate-root init: %v", err)
	}
	conf, cerr := s.Core.GenerateRootConfiguration(ctx)
	if cerr != nil || conf == nil {
		return false, fmt.Errorf("no generate-root configuration: %v", cerr)
	}
	for _, k := range keys {
		kk := vault.TestKeyCopy(k)
		if forge {
			kk[len(kk)-1] ^= 0x5a // same x-coordinate / length, different value
			kk[0] ^= 0x01
		}
		r, uerr := s.Core.GenerateRootUpdate(ctx, kk, conf.Nonce, vault.GenerateStandardRootTokenStrategy)
		if uerr != nil {
			_ = s.Core.GenerateRootCancel(ctx)
			return false, nil // rejected
		}
		if r != nil && r.EncodedToken != "" {
			return true, nil
		}
	}
	_ = s.Core.GenerateRootCancel(ctx)
	return false, nil
}

func TestVerifC10CoreHist(t *testing.T) {
	res := vout.New("C10", "corehist")
	defer func() {
		if err := res.Write(); err != nil {
			t.Fatal(err)
		}
	}()
	if vout.ReplayPath() != "" {
		return
	}
	img := c10Image(t)
	alphabet := []string{"genroot-forged", "genroot", "rotate", "rotate-root", "rekey"}
	depth := 2
	if vout.Thorough() {
		depth = 3
	}
	res.Bound("history_depth", depth)
	res.Bound("alphabet", alphabet)
	count := 0
	var rec func(h []string)
	rec = func(h []string) {
		if len(h) > 0 {
			count++
			if vout.Mine(count) {
				s := Boot(t, img)
				held := img.Keys
				art := map[string]interface{}{"history": h}
				sig := ""
				for i, op := range h {
					switch op {
					case "genroot-forged":
						done, err := c10GenRoot(s, held, true)
						if err != nil {
							t.Fatalf("harness: %v", err)
						}
						if done {
							sig = "generate-root-accepted-forged-shares"
						}
					case "genroot":
						done, err := c10GenRoot(s, held, false)
						if err != nil {
							t.Fatalf("harness: %v", err)
						}
						if !done {
							sig = "generate-root-refused-genuine-shares"
						}
					case "rekey":
						s.Keys = held
						shares, err := c10Act(s, "rekey")
						if err != nil {
							sig = "rekey-failed"
							res.Note("history %v step %d: rekey failed: %v", h, i, err)
						} else {
							held = shares
						}
					default:
						if _, err := c10Act(s, op); err != nil {
							sig = op + "-failed"
							res.Note("history %v step %d: %s failed: %v", h, i, op, err)
						}
					}
					if sig != "" {
						break
					}
					res.Add("transitions", 1)
					// shut down, unseal with the held shares, read back
					snap := s.Phys.Snapshot()
					sx, err := BootSealed(t, snap, img)
					if err != nil {
						t.Fatalf("harness: %v", err)
					}
					ok, uerr := sx.TryUnseal(held)
					if !ok {
						sig = "unsealable-with-held-shares"
						res.Violate("c10:corehist:"+sig, fmt.Sprintf("history %v: after step %d (%s) a shut-down store does not unseal with the shares the operator holds: %v", h, i, op, uerr), art)
					} else if resp, err := sx.Req(sx.Root, logical.ReadOperation, "rec/kv/a", nil); !OK(resp, err) || resp == nil || resp.Data["value"] != "EARLIER" {
						sig = "entry-lost"
						res.Violate("c10:corehist:"+sig, fmt.Sprintf("history %v: after step %d (%s) the earlier entry does not read back (%s)", h, i, op, ErrText(resp, err)), art)
					}
					sx.Close()
					if sig != "" {
						break
					}
				}
				if sig != "" && !strings.HasPrefix(sig, "unsealable") && sig != "entry-lost" {
					if strings.HasPrefix(sig, "generate-root") {
						res.Violate("c10:corehist:"+sig, fmt.Sprintf("history %v: %s", h, sig), art)
					} else {
						res.Add("histories_cut_short_by_refusal", 1)
					}
				}
				res.Add("executions", 1)
				res.Add("states", 1)
				res.Distinct("nontrivial", fmt.Sprintf("H|%v|%s", h, sig))
				s.Close()
			}
		}
		if len(h) == depth {
			return
		}
		for _, op := range alphabet {
			rec(append(append([]string{}, h...), op))
		}
	}
	rec(nil)
}

// ---- A: the same crash / fault enumeration with an auto-unseal ("stored key") seal --
//
// The barrier root key is kept in storage wrapped by an external wrapper; there
// are no unseal shares.  After a crash at any durable write, or a storage error
// at any operation, of an encryption-key rotation or a root-key rotation, a
// restarted node must unseal from its stored keys and read every earlier entry.

func TestVerifC10CoreAuto(t *testing.T) {
	res := vout.New("C10", "coreauto")
	defer func() {
		if err := res.Write(); err != nil {
			t.Fatal(err)
		}
	}()
	if vout.ReplayPath() != "" {
		return
	}
	s0 := Build(t, Options{AutoSeal: true})
	s0.Mount("rec/", "rec")
	s0.Must(s0.Req(s0.Root, logical.UpdateOperation, "rec/kv/a", map[string]interface{}{"value": "EARLIER"}))
	img := s0.Image()
	s0.Close()
	count := 0
	check := func(label string, snap map[string][]byte, art map[string]interface{}, later bool) {
		sx, err := BootSealed(t, snap, img)
		if err != nil {
			t.Fatalf("harness: %v", err)
		}
		defer sx.Close()
		ok, uerr := sx.TryUnseal(nil)
		if !ok {
			res.Violate(fmt.Sprintf("c10:coreauto:%v:%s:unsealable", art["op"], label), fmt.Sprintf("%v: a restarted node does not unseal from its stored keys: %v", art, uerr), art)
			res.Distinct("nontrivial", fmt.Sprintf("A|%v|unsealable", art["op"]))
			return
		}
		if resp, err := sx.Req(sx.Root, logical.ReadOperation, "rec/kv/a", nil); !OK(resp, err) || resp == nil || resp.Data["value"] != "EARLIER" {
			res.Violate("c10:coreauto:"+label+":entry-lost", fmt.Sprintf("%v: unsealed, but the earlier entry does not read back (%s)", art, ErrText(resp, err)), art)
		}
		if later {
			if resp, err := sx.Req(sx.Root, logical.ReadOperation, "rec/kv/later", nil); !OK(resp, err) || resp == nil || resp.Data["value"] != "LATER" {
				res.Violate("c10:coreauto:"+label+":later-entry-lost", fmt.Sprintf("%v: an entry acknowledged after the operation does not read back after a restart (%s)", art, ErrText(resp, err)), art)
			}
		}
		res.Distinct("nontrivial", fmt.Sprintf("A|%v|%s|ok", art["op"], label))
	}
	for _, what := range []string{"rotate", "rotate-root"} {
		sP := Boot(t, img)
		sP.Phys.ResetMutations()
		sP.Phys.FailAt("call", 1<<30)
		sP.Phys.SetTag("call")
		_, err := c10Act(sP, what)
		sP.Phys.SetTag("")
		nmut, nops := sP.Phys.Mutations(), sP.Phys.TagCount("call")
		snap0 := sP.Phys.Snapshot()
		sP.Close()
		if err != nil {
			res.Note("auto seal: fault-free %s is refused: %v", what, err)
			res.Distinct("nontrivial", "A|"+what+"|refused")
			continue
		}
		check("completed", snap0, map[string]interface{}{"op": what, "j": 0}, false)
		res.Max("durable_mutations", int64(nmut))
		for j := 1; j <= nmut; j++ {
			count++
			if !vout.Mine(count) {
				continue
			}
			s := Boot(t, img)
			s.Phys.CrashAfter(j)
			_, _ = c10Act(s, what)
			crashed, snap := s.Phys.Crashed()
			s.Close()
			if !crashed {
				continue
			}
			res.Add("executions", 1)
			res.Add("crash_runs", 1)
			check(fmt.Sprintf("crash-after-write-%d-of-%d", j, nmut), snap, map[string]interface{}{"op": what, "crash_after_write": j, "of": nmut}, false)
		}
		for k := 1; k <= nops; k++ {
			count++
			if !vout.Mine(count) {
				continue
			}
			s := Boot(t, img)
			s.Phys.FailAt("call", k)
			s.Phys.SetTag("call")
			_, aerr := c10Act(s, what)
			s.Phys.SetTag("")
			fop := "none"
			if f := s.Phys.Failed(); f != nil {
				fop = f.Kind + "(" + f.Key + ")"
			}
			later := OK(s.Req(s.Root, logical.UpdateOperation, "rec/kv/later", map[string]interface{}{"value": "LATER"}))
			snap := s.Phys.Snapshot()
			s.Close()
			res.Add("executions", 1)
			res.Add("fault_runs", 1)
			check("fault:"+fop, snap, map[string]interface{}{"op": what, "fault_at_op": k, "failed_op": fop, "call_error": fmt.Sprint(aerr)}, later)
		}
		res.Add("states", 1)
	}
}
