package core

// Shared plumbing for the Core-level harnesses: build a real vault.Core over
// the instrumented physical backend (engine/physx), snapshot it after a setup
// phase, and boot a fresh Core per execution from that snapshot (unseal only),
// so that every explored execution starts from the same persistent state
// without object cloning.

import (
	"context"
	"fmt"
	"regexp"
	"runtime"
	"sort"
	"strings"
	"sync"
	"sync/atomic"
	"testing"
	"time"

	log "github.com/hashicorp/go-hclog"
	"github.com/openbao/openbao/sdk/v2/helper/verif/physx"
	"github.com/openbao/openbao/sdk/v2/helper/verif/sched"
	"github.com/openbao/openbao/sdk/v2/helper/verif/vstmt"
	"github.com/openbao/openbao/sdk/v2/logical"
	"github.com/openbao/openbao/sdk/v2/physical"
	"github.com/openbao/openbao/sdk/v2/physical/inmem"
	"github.com/openbao/openbao/v2/internal/audit"
	"github.com/openbao/openbao/v2/internal/command/server"
	"github.com/openbao/openbao/v2/internal/helper/configutil"
	"github.com/openbao/openbao/v2/internal/helper/namespace"
	"github.com/openbao/openbao/v2/internal/vault"
	vaultseal "github.com/openbao/openbao/v2/internal/vault/seal"
	gti "github.com/mitchellh/go-testing-interface"
)

type Options struct {
	NonTxn bool // non-transactional storage
	NoCache bool // physical read cache switched off (disable_cache)
	// AutoSeal: the barrier root key is kept in storage, wrapped by an external
	// ("KMS"-style) wrapper with a fixed secret; unsealing needs no shares.
	AutoSeal bool
	Audit  map[string]audit.Factory
	Extra  map[string]logical.Factory
	ExtraCred map[string]logical.Factory
	// XNSIdentity: unsafe_cross_namespace_identity (entities and groups may be
	// referenced across namespaces, as in Vault Enterprise)
	XNSIdentity bool
}

type Queued struct {
	LeaseID string
	NS      *namespace.Namespace
}

type Sys struct {
	T    *testing.T
	Core *vault.Core
	Phys *physx.Backend
	Root string
	Keys [][]byte
	Rec  *RecState
	Opt  Options

	qmu   sync.Mutex
	queue []Queued
}

// Image is a restartable snapshot of a system.
type Image struct {
	Data map[string][]byte
	Root string
	Keys [][]byte
	Opt  Options
	Rec  *RecState
}

func newInner(opt Options) physical.Backend {
	conf := map[string]string{}
	if opt.NonTxn {
		conf["disable_transactions"] = "true"
	}
	b, err := inmem.NewInmem(conf, log.NewNullLogger())
	if err != nil {
		panic(err)
	}
	return b
}

func coreConfig(phys physical.Backend, opt Options, rec *RecState) *vault.CoreConfig {
	lb := map[string]logical.Factory{"rec": rec.Factory(logical.TypeLogical)}
	for k, v := range opt.Extra {
		lb[k] = v
	}
	cb := map[string]logical.Factory{"recauth": rec.Factory(logical.TypeCredential)}
	for k, v := range opt.ExtraCred {
		cb[k] = v
	}
	raw := new(server.Config)
	raw.SharedConfig = &configutil.SharedConfig{}
	raw.UnsafeAllowAPIAuditCreation = true
	var sealObj vault.Seal
	if opt.AutoSeal {
		sealObj = vault.NewTestSeal(&gti.RuntimeT{}, &vaultseal.TestSealOpts{Secret: []byte("verif-kms-secret-0123456789abcdef"), Logger: log.NewNullLogger()})
	}
	return &vault.CoreConfig{
		Seal:               sealObj,
		RawConfig:          raw,
		AuditBackends:      opt.Audit,
		Physical:           phys,
		LogicalBackends:    lb,
		CredentialBackends: cb,
		Logger:             log.NewNullLogger(),
		RollbackPeriod:     24 * time.Hour,
		EnableRaw:          true,

		UnsafeCrossNamespaceIdentity: opt.XNSIdentity,
	}
}

// unsealAny unseals with the stored keys (auto seal) or the given shares.
func unsealAny(c *vault.Core, opt Options, keys [][]byte) error {
	if opt.AutoSeal {
		if err := c.UnsealWithStoredKeys(rootCtx()); err != nil {
			return err
		}
		if c.Sealed() {
			return fmt.Errorf("core still sealed after unsealing with the stored keys")
		}
		return nil
	}
	for _, k := range keys {
		if _, err := vault.TestCoreUnseal(c, vault.TestKeyCopy(k)); err != nil {
			return fmt.Errorf("unseal: %w", err)
		}
	}
	if c.Sealed() {
		return fmt.Errorf("core still sealed after supplying all shares")
	}
	return nil
}

// The production expiry strategy (queue the lease for the revocation workers) must never
// run in these harnesses: between unseal and the installation of the recorder a timer of an
// already expired lease could fire and start an asynchronous revocation that races with the
// harness.  The overlay instruments the strategy's first statement (tools/stmtpoints); the
// hook ends the goroutine of the timer there.  Due leases are revoked by Sys.Drain.
var strategyCutOff atomic.Int64

func init() {
	vstmt.Set(func(label string) {
		if label == "expireLeaseStrategyFairsharing#0" {
			strategyCutOff.Add(1)
			runtime.Goexit()
		}
	})
}

// Build creates and initialises a brand-new system.
func Build(t *testing.T, opt Options) *Sys {
	t.Helper()
	sched.InstallDetRand(0x5eed)
	rec := NewRecState()
	phys := physx.New(newInner(opt))
	c := vault.TestCoreWithSealAndUINoCleanup(t, coreConfig(phys, opt, rec))
	keys, root := vault.TestCoreInit(t, c)
	if opt.NoCache {
		c.VerifDisablePhysicalCache()
	}
	if err := unsealAny(c, opt, keys); err != nil {
		t.Fatalf("%v", err)
	}
	s := &Sys{T: t, Core: c, Phys: physx.Ctl(phys), Root: root, Keys: keys, Rec: rec, Opt: opt}
	rec.mu.Lock()
	rec.Tagger = s.Phys.SetTag
	rec.mu.Unlock()
	s.hookExpiry()
	s.settle()
	return s
}

// settle waits until the background work started by unseal (lease restore)
// has finished, so that requests never race with it: owned nondeterminism.
func (s *Sys) settle() {
	deadline := time.Now().Add(20 * time.Second)
	for !s.Core.VerifExpiration().VerifRestoreDone() {
		if time.Now().After(deadline) {
			s.T.Fatalf("harness: lease restore did not finish")
		}
		time.Sleep(100 * time.Microsecond)
	}
	// let the store go quiet: no physical operation for 1ms
	for i := 0; i < 2000; i++ {
		n := s.Phys.LogLen()
		time.Sleep(500 * time.Microsecond)
		if s.Phys.LogLen() == n {
			return
		}
	}
}

func (s *Sys) hookExpiry() {
	s.Core.VerifExpiration().VerifSetExpireRecorder(func(leaseID string, ns *namespace.Namespace) {
		s.qmu.Lock()
		s.queue = append(s.queue, Queued{leaseID, ns})
		s.qmu.Unlock()
	})
}

// Image snapshots the persistent state (call while quiescent).
func (s *Sys) Image() *Image {
	return &Image{Data: s.Phys.Snapshot(), Root: s.Root, Keys: s.Keys, Opt: s.Opt, Rec: s.Rec}
}

// BootData starts a new Core over the given raw content (restart / crash
// recovery): NewCore + unseal with the saved shares.
// The deterministic random stream is NOT rewound here: a restart inside one
// execution must not hand out the identifiers of the first process again
// (Boot, the start of an execution, rewinds it).
func BootData(t *testing.T, data map[string][]byte, img *Image) (*Sys, error) {
	sched.InstallDetRand(0x5eed)
	inner := newInner(img.Opt)
	if err := physx.Restore(inner, data); err != nil {
		return nil, err
	}
	rec := img.Rec.Fork()
	phys := physx.New(inner)
	c := vault.TestCoreWithSealAndUINoCleanup(t, coreConfig(phys, img.Opt, rec))
	if img.Opt.NoCache {
		c.VerifDisablePhysicalCache()
	}
	if err := unsealAny(c, img.Opt, img.Keys); err != nil {
		_ = c.Shutdown()
		return nil, err
	}
	s := &Sys{T: t, Core: c, Phys: physx.Ctl(phys), Root: img.Root, Keys: img.Keys, Rec: rec, Opt: img.Opt}
	rec.mu.Lock()
	rec.Tagger = s.Phys.SetTag
	rec.mu.Unlock()
	s.hookExpiry()
	s.settle()
	return s, nil
}

// BootSealed starts a new Core over raw content and leaves it sealed.
func BootSealed(t *testing.T, data map[string][]byte, img *Image) (*Sys, error) {
	sched.InstallDetRand(0x5eed)
	inner := newInner(img.Opt)
	if err := physx.Restore(inner, data); err != nil {
		return nil, err
	}
	rec := img.Rec.Fork()
	phys := physx.New(inner)
	c := vault.TestCoreWithSealAndUINoCleanup(t, coreConfig(phys, img.Opt, rec))
	return &Sys{T: t, Core: c, Phys: physx.Ctl(phys), Root: img.Root, Keys: img.Keys, Rec: rec, Opt: img.Opt}, nil
}

// TryUnseal supplies the shares; reports whether the core ended up unsealed.
func (s *Sys) TryUnseal(keys [][]byte) (bool, error) {
	if s.Opt.AutoSeal {
		if err := s.Core.UnsealWithStoredKeys(rootCtx()); err != nil {
			return false, err
		}
		if !s.Core.Sealed() {
			s.hookExpiry()
			s.settle()
			return true, nil
		}
		return false, fmt.Errorf("still sealed after unsealing with the stored keys")
	}
	var last error
	for _, k := range keys {
		if _, err := vault.TestCoreUnseal(s.Core, vault.TestKeyCopy(k)); err != nil {
			last = err
		}
		if !s.Core.Sealed() {
			s.hookExpiry()
			s.settle()
			return true, nil
		}
	}
	return !s.Core.Sealed(), last
}

func Boot(t *testing.T, img *Image) *Sys {
	sched.InstallDetRand(0x5eed)
	sched.ResetDetRand()
	if img.Rec != nil {
		img.Rec.ResetCounts()
	}
	s, err := BootData(t, img.Data, img)
	if err != nil {
		t.Fatalf("harness: boot from image failed: %v", err)
	}
	return s
}

var (
	impureMu    sync.Mutex
	impureTally = map[string]int{}
	impureTotal int
)

var maskRun = regexp.MustCompile(`[A-Za-z0-9-]{16,}`)

// ImpureReport lists storage operations that unmanaged goroutines issued while
// an exploration was active (they are the unowned nondeterminism).
func ImpureReport() (int, []string) {
	impureMu.Lock()
	defer impureMu.Unlock()
	var out []string
	for k, v := range impureTally {
		out = append(out, fmt.Sprintf("%dx %s", v, k))
	}
	sort.Strings(out)
	return impureTotal, out
}

func (s *Sys) Close() {
	defer func() { _ = recover() }()
	if n := s.Phys.Impure(); n > 0 {
		impureMu.Lock()
		impureTotal += n
		for _, op := range s.Phys.ImpureOps() {
			impureTally[maskRun.ReplaceAllString(op, "#")]++
		}
		impureMu.Unlock()
	}
	if m := s.Core.VerifExpiration(); m != nil {
		m.VerifStopTimers()
	}
	_ = s.Core.ShutdownWait()
}

// Req issues one request through Core.HandleRequest in the root namespace.
func (s *Sys) Req(token string, op logical.Operation, path string, data map[string]interface{}) (*logical.Response, error) {
	return s.ReqNS(namespace.RootNamespace, token, op, path, data)
}

func (s *Sys) ReqNS(ns *namespace.Namespace, token string, op logical.Operation, path string, data map[string]interface{}) (*logical.Response, error) {
	req := &logical.Request{Operation: op, Path: path, ClientToken: token, Data: data,
		Connection: &logical.Connection{RemoteAddr: "127.0.0.1"}}
	ctx := namespace.ContextWithNamespace(context.Background(), ns)
	return s.Core.HandleRequest(ctx, req)
}

func rootCtx() context.Context {
	return namespace.ContextWithNamespace(context.Background(), namespace.RootNamespace)
}

// OK reports whether a request succeeded (no Go error, no error response).
func OK(resp *logical.Response, err error) bool {
	return err == nil && (resp == nil || !resp.IsError())
}

func ErrText(resp *logical.Response, err error) string {
	if err != nil {
		return err.Error()
	}
	if resp != nil && resp.IsError() {
		return resp.Error().Error()
	}
	return ""
}

// Must fails the harness (not the property) when a setup request fails.
func (s *Sys) Must(resp *logical.Response, err error) *logical.Response {
	s.T.Helper()
	if !OK(resp, err) {
		s.T.Fatalf("harness setup request failed: %s", ErrText(resp, err))
	}
	return resp
}

// Drain brings the system to quiescence deterministically: every tracked lease
// whose expiry has passed (this includes leases expired "now" by a lazy
// revocation) is revoked as an explicit step, until none is due.  It does not
// depend on timers having fired.  Returns the number of revocations attempted.
func (s *Sys) Drain() int {
	n := 0
	failed := map[string]int{}
	for round := 0; round < 20; round++ {
		due := s.Core.VerifExpiration().VerifDue(time.Now())
		progress := false
		for _, e := range due {
			if failed[e.LeaseID] >= 2 {
				continue
			}
			ctx := namespace.ContextWithNamespace(context.Background(), e.NS)
			if err := s.Core.VerifExpiration().Revoke(ctx, e.LeaseID); err != nil {
				failed[e.LeaseID]++
			}
			progress = true
			n++
		}
		if !progress {
			break
		}
	}
	s.qmu.Lock()
	s.queue = nil
	s.qmu.Unlock()
	return n
}

func (s *Sys) QueuedIDs() []string {
	s.qmu.Lock()
	defer s.qmu.Unlock()
	var out []string
	for _, q := range s.queue {
		out = append(out, q.LeaseID)
	}
	sort.Strings(out)
	return out
}

// WritePolicy installs an ACL policy.
func (s *Sys) WritePolicy(name, hcl string) {
	s.Must(s.Req(s.Root, logical.UpdateOperation, "sys/policies/acl/"+name, map[string]interface{}{"policy": hcl}))
}

// Mount mounts a secrets engine.
func (s *Sys) Mount(path, typ string) {
	s.Must(s.Req(s.Root, logical.UpdateOperation, "sys/mounts/"+strings.TrimSuffix(path, "/"), map[string]interface{}{"type": typ}))
}

func (s *Sys) EnableAuth(path, typ string) {
	s.Must(s.Req(s.Root, logical.UpdateOperation, "sys/auth/"+strings.TrimSuffix(path, "/"), map[string]interface{}{"type": typ}))
}

// CreateToken creates a token with the given parent and parameters and returns
// the client token.
func (s *Sys) CreateToken(parent string, data map[string]interface{}) string {
	resp := s.Must(s.Req(parent, logical.UpdateOperation, "auth/token/create", data))
	if resp == nil || resp.Auth == nil {
		s.T.Fatalf("harness: token create returned no auth")
	}
	return resp.Auth.ClientToken
}

// Usable probes a token with a real request (auth/token/lookup-self).
func (s *Sys) Usable(token string) bool {
	resp, err := s.Req(token, logical.ReadOperation, "auth/token/lookup-self", nil)
	return OK(resp, err)
}
