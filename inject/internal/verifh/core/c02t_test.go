package core

// C02 part T: identity-templated policy paths.  "whose policies allow that operation on
// that ... path" and "policy and token changes are honoured by the very next request" when
// the path of a rule is built from attributes of the caller's identity.
//
//	T1  every combination of entity name x entity metadata value from {plain, "+", "*",
//	    "a/b"} with one- and two-substitution templates: a value is substituted LITERALLY -
//	    a request whose segments are not literally the caller's values is refused, whatever
//	    characters the values contain (a value that is a wildcard must never act as one);
//	    with plain values the literal path is granted (vacuity guard).
//	T2  every history (depth <= 3) over {request, change the group's metadata, change the
//	    entity's metadata, rename the group back}: the very next request follows the
//	    attributes as they are now.

import (
	"fmt"
	"strings"
	"testing"
	"time"

	"github.com/openbao/openbao/sdk/v2/helper/verif/vout"
	"github.com/openbao/openbao/sdk/v2/logical"
)

func c02tLogin(t *testing.T, s *Sys, alias string, policies []string) (string, string) {
	s.Rec.mu.Lock()
	s.Rec.LoginAuth = func(*logical.Request) *logical.Auth {
		return &logical.Auth{Policies: policies, Alias: &logical.Alias{Name: alias}, LeaseOptions: logical.LeaseOptions{TTL: time.Hour}}
	}
	s.Rec.mu.Unlock()
	resp, err := s.Req("", logical.UpdateOperation, "auth/ra/login", map[string]interface{}{})
	s.Rec.mu.Lock()
	s.Rec.LoginAuth = nil
	s.Rec.mu.Unlock()
	if !OK(resp, err) || resp == nil || resp.Auth == nil || resp.Auth.EntityID == "" {
		t.Fatalf("harness: entity-bound login failed: %s", ErrText(resp, err))
	}
	return resp.Auth.ClientToken, resp.Auth.EntityID
}

func c02tImage(t *testing.T) *Image {
	s := Build(t, Options{})
	defer s.Close()
	s.Mount("m/", "rec")
	s.EnableAuth("ra/", "recauth")
	for _, p := range []string{"alice/prod/x", "other/prod/x", "alice/dev/x", "other/dev/x", "+/prod/x", "alice/x", "other/x", "staging/db", "dev/db", "prod/db"} {
		s.Must(s.Req(s.Root, logical.UpdateOperation, "m/kv/"+p, map[string]interface{}{"value": "V"}))
	}
	s.WritePolicy("t2", `path "m/kv/{{identity.entity.name}}/{{identity.entity.metadata.env}}/*" { capabilities = ["read"] }`)
	s.WritePolicy("t1", `path "m/kv/{{identity.entity.name}}/*" { capabilities = ["read"] }`)
	s.WritePolicy("tg", `path "m/kv/{{identity.groups.names.ops.metadata.env}}/*" { capabilities = ["read"] }`)
	s.WritePolicy("te", `path "m/kv/{{identity.entity.metadata.env}}/*" { capabilities = ["read"] }`)
	return s.Image()
}

func c02tPart(t *testing.T, res *vout.Result) {
	img := c02tImage(t)
	count := 0
	values := []string{"alice", "+", "*", "a/b", "prod"}
	// ---- T1
	for _, pol := range []string{"t1", "t2"} {
		for _, name := range values {
			for _, env := range values {
				if pol == "t1" && env != "prod" {
					continue
				}
				count++
				if !vout.Mine(count) {
					continue
				}
				s := Boot(t, img)
				tok, eid := c02tLogin(t, s, "al", []string{pol})
				r, e := s.Req(s.Root, logical.UpdateOperation, "identity/entity/id/"+eid, map[string]interface{}{"name": name, "metadata": map[string]interface{}{"env": env}})
				if !OK(r, e) {
					// the identity store may refuse such a name: nothing to judge
					res.Distinct("nontrivial", fmt.Sprintf("T1|%s|name=%s|refused-by-identity-store", pol, name))
					s.Close()
					continue
				}
				art := map[string]interface{}{"part": "T1", "policy": pol, "entity_name": name, "env": env}
				for _, a := range []string{"alice", "other", "+"} {
					for _, b := range []string{"prod", "dev"} {
						path := "m/kv/" + a + "/" + b + "/x"
						literal := a == name && b == env
						if pol == "t1" {
							path = "m/kv/" + a + "/x"
							literal = a == name
						}
						resp, err := s.Req(tok, logical.ReadOperation, path, nil)
						res.Add("evaluations", 1)
						ok := OK(resp, err) && resp != nil && resp.Data != nil
						if ok && !literal {
							res.Violate("c02:T:templated-value-acts-beyond-its-literal", fmt.Sprintf("%v: read of %s was granted; the caller's values are name=%q env=%q, substituted literally they do not name that path", art, path, name, env), art)
						}
						if !ok && literal && !strings.ContainsAny(name+env, "+*/") {
							res.Violate("c02:T:templated-path-not-granted", fmt.Sprintf("%v: read of %s (the literal substitution) was refused: %s", art, path, ErrText(resp, err)), art)
						}
						res.Distinct("nontrivial", fmt.Sprintf("T1|%s|%s|%s|%s|%v", pol, name, env, path, ok))
						if pol == "t1" {
							break
						}
					}
				}
				s.Close()
			}
		}
	}
	// ---- T2
	ops := []string{"req", "group-env=dev", "group-env=staging", "entity-env=dev", "entity-env=staging"}
	var rec func(h []string)
	rec = func(h []string) {
		if len(h) > 0 && h[len(h)-1] == "req" {
			count++
			if vout.Mine(count) {
				c02tHistory(t, img, h, res)
			}
		}
		if len(h) == 4 {
			return
		}
		for _, o := range ops {
			rec(append(append([]string{}, h...), o))
		}
	}
	rec(nil)
}

func c02tHistory(t *testing.T, img *Image, h []string, res *vout.Result) {
	s := Boot(t, img)
	defer s.Close()
	tok, eid := c02tLogin(t, s, "al", []string{"tg", "te"})
	genv, eenv := "staging", "prod"
	s.Must(s.Req(s.Root, logical.UpdateOperation, "identity/entity/id/"+eid, map[string]interface{}{"metadata": map[string]interface{}{"env": eenv}}))
	gr := s.Must(s.Req(s.Root, logical.UpdateOperation, "identity/group", map[string]interface{}{"name": "ops", "member_entity_ids": []string{eid}, "metadata": map[string]interface{}{"env": genv}}))
	gid, _ := gr.Data["id"].(string)
	if gid == "" {
		t.Fatalf("harness: group not created")
	}
	art := map[string]interface{}{"part": "T2", "history": h}
	for i, op := range h {
		switch {
		case op == "req":
			for _, seg := range []string{"staging", "dev", "prod"} {
				resp, err := s.Req(tok, logical.ReadOperation, "m/kv/"+seg+"/db", nil)
				res.Add("evaluations", 1)
				ok := OK(resp, err) && resp != nil && resp.Data != nil
				want := seg == genv || seg == eenv
				if ok != want {
					sig := "c02:T:stale-templated-policy:granted"
					if !ok {
						sig = "c02:T:stale-templated-policy:refused"
					}
					res.Violate(sig, fmt.Sprintf("%v step %d: read of m/kv/%s/db answered ok=%v; the group's env is %q and the entity's env is %q NOW", art, i, seg, ok, genv, eenv), art)
					return
				}
			}
		case strings.HasPrefix(op, "group-env="):
			genv = strings.TrimPrefix(op, "group-env=")
			s.Must(s.Req(s.Root, logical.UpdateOperation, "identity/group/id/"+gid, map[string]interface{}{"metadata": map[string]interface{}{"env": genv}}))
		case strings.HasPrefix(op, "entity-env="):
			eenv = strings.TrimPrefix(op, "entity-env=")
			s.Must(s.Req(s.Root, logical.UpdateOperation, "identity/entity/id/"+eid, map[string]interface{}{"metadata": map[string]interface{}{"env": eenv}}))
		}
	}
	res.Add("executions", 1)
	res.Distinct("nontrivial", fmt.Sprintf("T2|%v|g=%s|e=%s", h, genv, eenv))
}
