package core

// C11 (A): with audit devices enabled, a request is routed to a backend only
// after its request entry was accepted by at least one device, response data is
// returned only after its response entry was accepted by at least one device,
// and if every device fails the client gets an error carrying no secret.
//
// Every script of per-call behaviours {ok, error, panic} for (request, response)
// logging on k scripted devices is executed for every request kind on a real
// Core; devices, the recording backend and the client all append to one event
// log whose order is the oracle's input.

import (
	"context"
	"errors"
	"fmt"
	"sort"
	"strings"
	"sync"
	"testing"
	"time"

	"github.com/openbao/openbao/sdk/v2/helper/verif/vout"
	"github.com/openbao/openbao/sdk/v2/logical"
	"github.com/openbao/openbao/v2/internal/audit"
)

const c11Canary = "CANARY-C11-SECRET"

type c11Event struct {
	kind string // audit-req / audit-resp / backend-op / client
	dev  string
	ok   bool
}

type c11Log struct {
	mu     sync.Mutex
	events []c11Event
	script map[string][2]string // device -> (request behaviour, response behaviour)
	active bool
	lastNonHMACReq []string // the exemption list the broker handed to the device with the last request entry
}

var c11 = &c11Log{script: map[string][2]string{}}

func (l *c11Log) add(e c11Event) {
	l.mu.Lock()
	if l.active {
		l.events = append(l.events, e)
	}
	l.mu.Unlock()
}

type scriptedAudit struct{ name string }

func (s *scriptedAudit) behave(idx int, kind string) error {
	c11.mu.Lock()
	b := c11.script[s.name][idx]
	active := c11.active
	c11.mu.Unlock()
	if !active {
		return nil
	}
	switch b {
	case "error":
		c11.add(c11Event{kind, s.name, false})
		return errors.New("scripted audit failure")
	case "panic":
		c11.add(c11Event{kind, s.name, false})
		panic("scripted audit panic")
	}
	c11.add(c11Event{kind, s.name, true})
	return nil
}

func (s *scriptedAudit) LogRequest(_ context.Context, in *logical.LogInput) error {
	if in != nil {
		c11.mu.Lock()
		c11.lastNonHMACReq = append([]string{}, in.NonHMACReqDataKeys...)
		c11.mu.Unlock()
	}
	return s.behave(0, "audit-req")
}
func (s *scriptedAudit) LogResponse(_ context.Context, _ *logical.LogInput) error { return s.behave(1, "audit-resp") }
func (s *scriptedAudit) LogTestMessage(context.Context, *logical.LogInput, map[string]string) error {
	return nil
}
func (s *scriptedAudit) GetHash(_ context.Context, in string) (string, error) { return "hmac:" + in, nil }
func (s *scriptedAudit) Reload(context.Context) error                          { return nil }
func (s *scriptedAudit) Invalidate(context.Context)                            {}

func scriptedFactory(_ context.Context, conf *audit.BackendConfig) (audit.Backend, error) {
	return &scriptedAudit{name: conf.Config["name"]}, nil
}

var c11Kinds = []string{"read", "write", "list", "login", "wrapped-read", "denied", "unwrap"}

func c11Setup(t *testing.T, k int) (*Sys, string, string) {
	s := Build(t, Options{Audit: map[string]audit.Factory{"scripted": scriptedFactory}})
	s.Mount("rec/", "rec")
	s.EnableAuth("ra/", "recauth")
	s.WritePolicy("p11", `path "rec/kv/*" { capabilities = ["read", "create", "update", "list"] }
path "rec/kv/forbidden" { capabilities = ["deny"] }
path "sys/wrapping/unwrap" { capabilities = ["update"] }`)
	s.Must(s.Req(s.Root, logical.UpdateOperation, "rec/kv/a", map[string]interface{}{"value": c11Canary}))
	tok := s.CreateToken(s.Root, map[string]interface{}{"policies": []string{"p11"}, "ttl": "2h"})
	for i := 0; i < k; i++ {
		name := fmt.Sprintf("d%d", i)
		s.Must(s.Req(s.Root, logical.UpdateOperation, "sys/audit/"+name, map[string]interface{}{"type": "scripted", "options": map[string]interface{}{"name": name}}))
	}
	return s, tok, ""
}

// wrapFresh creates a wrapping token (audit quiet) for the unwrap kind.
func c11WrapFresh(s *Sys, tok string) string {
	req := &logical.Request{ClientToken: tok, Operation: logical.ReadOperation, Path: "rec/kv/a",
		Connection: &logical.Connection{RemoteAddr: "127.0.0.1"}, WrapInfo: &logical.RequestWrapInfo{TTL: time.Hour}}
	resp, err := s.Core.HandleRequest(rootCtx(), req)
	if !OK(resp, err) || resp == nil || resp.WrapInfo == nil {
		s.T.Fatalf("harness: wrap failed: %s", ErrText(resp, err))
	}
	return resp.WrapInfo.Token
}

func c11Do(s *Sys, tok, kind, wrapTok string) (bool, string) {
	var resp *logical.Response
	var err error
	switch kind {
	case "read":
		resp, err = s.Req(tok, logical.ReadOperation, "rec/kv/a", nil)
	case "write":
		resp, err = s.Req(tok, logical.UpdateOperation, "rec/kv/w", map[string]interface{}{"value": "x"})
	case "list":
		resp, err = s.Req(tok, logical.ListOperation, "rec/kv/", nil)
	case "login":
		resp, err = s.Req("", logical.UpdateOperation, "auth/ra/login", map[string]interface{}{})
	case "wrapped-read":
		req := &logical.Request{ClientToken: tok, Operation: logical.ReadOperation, Path: "rec/kv/a",
			Connection: &logical.Connection{RemoteAddr: "127.0.0.1"}, WrapInfo: &logical.RequestWrapInfo{TTL: time.Hour}}
		resp, err = s.Core.HandleRequest(rootCtx(), req)
	case "denied":
		resp, err = s.Req(tok, logical.ReadOperation, "rec/kv/forbidden", nil)
	case "unwrap":
		resp, err = s.Req(tok, logical.UpdateOperation, "sys/wrapping/unwrap", map[string]interface{}{"token": wrapTok})
	}
	txt := respText(resp) + " " + ErrText(resp, err)
	hasData := OK(resp, err) && resp != nil && (len(resp.Data) > 0 || resp.Auth != nil || resp.WrapInfo != nil)
	c11.add(c11Event{"client", fmt.Sprintf("ok=%v data=%v", OK(resp, err), hasData), hasData})
	return OK(resp, err), txt
}

func TestVerifC11A(t *testing.T) {
	res := vout.New("C11", "core")
	defer func() {
		if err := res.Write(); err != nil {
			t.Fatal(err)
		}
	}()
	if vout.ReplayPath() != "" {
		t.Log("C11-A artefacts name (k, script, kind); re-run the check (deterministic enumeration)")
		return
	}
	maxK := 2
	if vout.Thorough() {
		maxK = 3
	}
	behaviours := []string{"ok", "error", "panic"}
	count := 0
	orders := map[string]bool{}
	for k := 1; k <= maxK; k++ {
		s, tok, _ := c11Setup(t, k)
		// all scripts: k devices x (req, resp) behaviours
		nscripts := 1
		for i := 0; i < 2*k; i++ {
			nscripts *= 3
		}
		reps := 1
		if k > 1 {
			reps = 3
		}
		for sc := 0; sc < nscripts; sc++ {
			script := map[string][2]string{}
			x := sc
			var desc []string
			for i := 0; i < k; i++ {
				rb, pb := behaviours[x%3], behaviours[(x/3)%3]
				x /= 9
				script[fmt.Sprintf("d%d", i)] = [2]string{rb, pb}
				desc = append(desc, fmt.Sprintf("d%d:%s/%s", i, rb, pb))
			}
			for _, kind := range c11Kinds {
				count++
				if !vout.Mine(count) {
					continue
				}
				for rep := 0; rep < reps; rep++ {
					wrapTok := ""
					if kind == "unwrap" {
						wrapTok = c11WrapFresh(s, tok)
					}
					s.Rec.Reset()
					c11.mu.Lock()
					c11.events, c11.script, c11.active = nil, script, true
					c11.mu.Unlock()
					ok, txt := c11Do(s, tok, kind, wrapTok)
					c11.mu.Lock()
					c11.active = false
					ev := append([]c11Event{}, c11.events...)
					c11.mu.Unlock()
					backendOps := 0
					for _, c := range s.Rec.OpCalls() {
						if c.Op != logical.RevokeOperation && c.Op != logical.RenewOperation {
							backendOps++
						}
					}
					res.Add("evaluations", 1)
					art := map[string]interface{}{"k": k, "script": strings.Join(desc, " "), "kind": kind}
					// ---- oracle
					acceptedReq, acceptedResp := false, false
					var reqOrder []string
					for _, e := range ev {
						switch e.kind {
						case "audit-req":
							reqOrder = append(reqOrder, e.dev)
							if e.ok {
								acceptedReq = true
							}
						case "audit-resp":
							if e.ok {
								acceptedResp = true
							}
						}
					}
					orders[fmt.Sprintf("k%d:%s", k, strings.Join(reqOrder, ">"))] = true
					// (the recording backend's invocations are not in the same log; "earlier" is implied:
					// the broker call returns before routing starts, so it suffices that an accepting
					// request entry exists whenever the backend was invoked)
					if backendOps > 0 && kind != "unwrap" && !acceptedReq {
						res.Violate("c11:audit:backend-invoked-without-accepted-request-entry", fmt.Sprintf("%v: the backend handled %d operation(s) although no device accepted the request entry (events %v)", art, backendOps, ev), art)
					}
					clientData := false
					for _, e := range ev {
						if e.kind == "client" && e.ok {
							clientData = true
						}
					}
					if clientData && !acceptedResp {
						res.Violate("c11:audit:data-returned-without-accepted-response-entry", fmt.Sprintf("%v: the client received data although no device accepted the response entry (events %v)", art, ev), art)
					}
					allReqFail, allRespFail := true, true
					for i := 0; i < k; i++ {
						b := script[fmt.Sprintf("d%d", i)]
						if b[0] == "ok" {
							allReqFail = false
						}
						if b[1] == "ok" {
							allRespFail = false
						}
					}
					if allReqFail || allRespFail {
						if ok {
							res.Violate("c11:audit:success-with-all-devices-failing", fmt.Sprintf("%v: every device fails (%s) but the request succeeded", art, map[bool]string{true: "request logging", false: "response logging"}[allReqFail]), art)
						}
						if strings.Contains(txt, c11Canary) {
							res.Violate("c11:audit:secret-in-error-response", fmt.Sprintf("%v: every device fails but the response carries the secret", art), art)
						}
					}
					res.Distinct("nontrivial", fmt.Sprintf("k%d|%s|%s|ok=%v|ops=%d", k, strings.Join(desc, " "), kind, ok, backendOps))
					if count%173 == 0 && rep == 0 {
						res.Sample(map[string]interface{}{"case": art, "client_ok": ok, "backend_ops": backendOps, "events": fmt.Sprint(ev)})
					}
				}
			}
		}
		s.Close()
	}
	c11PartM(t, res, &count)
	c11PartU(t, res, &count)
	var ol []string
	for o := range orders {
		ol = append(ol, o)
	}
	sort.Strings(ol)
	res.Bound("device_orders_observed", ol)
}


// c11PartM: management operations that change what the audit log holds, interrupted by a
// single storage fault (every storage operation of the call in turn). Afterwards the
// system must audit according to the configuration the API REPORTS:
//   tune     sys/mounts/rec/tune setting audit_non_hmac_request_keys: if the mount's
//            configuration read back does not list the key, the broker must not hand the
//            exemption to the devices (the value would be written in clear);
//   disable  DELETE sys/audit/d0: if sys/audit still lists the device, requests are still
//            audited by it before the backend is invoked (clause A of the statement).
func c11PartM(t *testing.T, res *vout.Result, count *int) {
	s0, tok, _ := c11Setup(t, 1)
	img := s0.Image()
	s0.Close()
	type mop struct {
		name string
		do   func(s *Sys) (*logical.Response, error)
	}
	ops := []mop{
		{"tune", func(s *Sys) (*logical.Response, error) {
			return s.Req(s.Root, logical.UpdateOperation, "sys/mounts/rec/tune", map[string]interface{}{"audit_non_hmac_request_keys": []string{"exemptme"}})
		}},
		{"disable", func(s *Sys) (*logical.Response, error) {
			return s.Req(s.Root, logical.DeleteOperation, "sys/audit/d0", nil)
		}},
	}
	okScript := map[string][2]string{"d0": {"ok", "ok"}}
	for _, op := range ops {
		// pass 0: number of storage operations of the call
		s := Boot(t, img)
		s.Phys.FailAt("call", 1<<30)
		s.Phys.SetTag("call")
		_, _ = op.do(s)
		s.Phys.SetTag("")
		nops := s.Phys.TagCount("call")
		s.Close()
		res.Max("M_ops_in_"+op.name, int64(nops))
		for k := 0; k <= nops; k++ {
			*count++
			if !vout.Mine(*count) {
				continue
			}
			s := Boot(t, img)
			if k > 0 {
				s.Phys.FailAt("call", k)
			} else {
				s.Phys.FailAt("call", 1<<30)
			}
			s.Phys.SetTag("call")
			resp, err := op.do(s)
			s.Phys.SetTag("")
			failed := s.Phys.Failed()
			what := "no fault"
			if failed != nil {
				what = "storage op " + failed.String() + " failed once"
			}
			art := map[string]interface{}{"op": op.name, "k": k, "fault": what, "call_ok": OK(resp, err)}
			res.Add("evaluations", 1)
			res.Add("M_runs", 1)
			switch op.name {
			case "tune":
				exemptPerAPI := false
				if tr, te := s.Req(s.Root, logical.ReadOperation, "sys/mounts/rec/tune", nil); OK(tr, te) && tr != nil {
					for _, kx := range toStringSlice(tr.Data["audit_non_hmac_request_keys"]) {
						if kx == "exemptme" {
							exemptPerAPI = true
						}
					}
				}
				c11.mu.Lock()
				c11.events, c11.script, c11.active, c11.lastNonHMACReq = nil, okScript, true, nil
				c11.mu.Unlock()
				_, _ = s.Req(tok, logical.UpdateOperation, "rec/kv/m", map[string]interface{}{"exemptme": c11Canary})
				c11.mu.Lock()
				c11.active = false
				handed := append([]string{}, c11.lastNonHMACReq...)
				c11.mu.Unlock()
				handedExempt := false
				for _, kx := range handed {
					if kx == "exemptme" {
						handedExempt = true
					}
				}
				if handedExempt && exemptPerAPI && !OK(resp, err) {
					// the call reported an error: the exemption is only "explicit" if it is what the
					// stored configuration says, i.e. what a restarted server reports
					img2 := s.Image()
					if s2, berr := BootData(t, img2.Data, img2); berr == nil {
						exemptPerAPI = false
						if tr, te := s2.Req(s2.Root, logical.ReadOperation, "sys/mounts/rec/tune", nil); OK(tr, te) && tr != nil {
							for _, kx := range toStringSlice(tr.Data["audit_non_hmac_request_keys"]) {
								if kx == "exemptme" {
									exemptPerAPI = true
								}
							}
						}
						s2.Close()
					}
				}
				if handedExempt && !exemptPerAPI {
					res.Violate("c11:mgmt:tune:value-exempted-from-hmac-although-configuration-says-no", fmt.Sprintf("%v: the mount's configuration does not list the key, yet the request entry was handed to the devices with it exempted from HMAC (its value is written in clear)", art), art)
				}
				res.Distinct("nontrivial", fmt.Sprintf("M|tune|ok=%v|api=%v|handed=%v", OK(resp, err), exemptPerAPI, handedExempt))
			case "disable":
				listed := false
				if lr, le := s.Req(s.Root, logical.ReadOperation, "sys/audit", nil); OK(lr, le) && lr != nil {
					for kx := range lr.Data {
						if strings.HasPrefix(kx, "d0") {
							listed = true
						}
					}
				}
				s.Rec.Reset()
				c11.mu.Lock()
				c11.events, c11.script, c11.active = nil, okScript, true
				c11.mu.Unlock()
				_, _ = s.Req(tok, logical.ReadOperation, "rec/kv/a", nil)
				c11.mu.Lock()
				c11.active = false
				ev := append([]c11Event{}, c11.events...)
				c11.mu.Unlock()
				accepted := false
				for _, e := range ev {
					if e.kind == "audit-req" && e.ok {
						accepted = true
					}
				}
				if listed && s.Rec.NumOpCalls() > 0 && !accepted {
					res.Violate("c11:mgmt:disable:listed-device-no-longer-audits", fmt.Sprintf("%v: sys/audit still lists the device, a request reached the backend, no request entry was recorded", art), art)
				}
				res.Distinct("nontrivial", fmt.Sprintf("M|disable|ok=%v|listed=%v|accepted=%v", OK(resp, err), listed, accepted))
			}
			s.Close()
		}
	}
}

func toStringSlice(v interface{}) []string {
	switch x := v.(type) {
	case []string:
		return x
	case []interface{}:
		var out []string
		for _, e := range x {
			out = append(out, fmt.Sprint(e))
		}
		return out
	}
	return nil
}

// c11PartU: requests the core serves itself, outside the router: sys/seal (and the refused
// forms of it). "A request is routed to a backend only after its request entry was
// accepted by at least one device" - for sys/seal the effect is the seal itself: for every
// script of request-logging behaviours of k = 1..2 devices, on a fresh server each time,
// the node may end up sealed only if a device accepted the request entry, and with every
// device failing the caller gets an error and the node stays unsealed.
func c11PartU(t *testing.T, res *vout.Result, count *int) {
	behaviours := []string{"ok", "error", "panic"}
	for k := 1; k <= 2; k++ {
		s0, tok, _ := c11Setup(t, k)
		img := s0.Image()
		s0.Close()
		nscripts := 1
		for i := 0; i < k; i++ {
			nscripts *= 3
		}
		for sc := 0; sc < nscripts; sc++ {
			for _, who := range []string{"root", "unprivileged"} {
				*count++
				if !vout.Mine(*count) {
					continue
				}
				script := map[string][2]string{}
				x := sc
				var desc []string
				allFail := true
				for i := 0; i < k; i++ {
					rb := behaviours[x%3]
					x /= 3
					script[fmt.Sprintf("d%d", i)] = [2]string{rb, "ok"}
					desc = append(desc, fmt.Sprintf("d%d:%s", i, rb))
					if rb == "ok" {
						allFail = false
					}
				}
				s := Boot(t, img)
				token := s.Root
				if who == "unprivileged" {
					token = tok
				}
				c11.mu.Lock()
				c11.events, c11.script, c11.active = nil, script, true
				c11.mu.Unlock()
				var err error
				func() {
					defer func() {
						if r := recover(); r != nil {
							err = fmt.Errorf("panic: %v", r)
						}
					}()
					err = s.Core.SealWithRequest(rootCtx(), &logical.Request{Operation: logical.UpdateOperation, Path: "sys/seal", ClientToken: token, Connection: &logical.Connection{RemoteAddr: "127.0.0.1"}})
				}()
				c11.mu.Lock()
				c11.active = false
				ev := append([]c11Event{}, c11.events...)
				c11.mu.Unlock()
				sealed := s.Core.Sealed()
				accepted := false
				for _, e := range ev {
					if e.kind == "audit-req" && e.ok {
						accepted = true
					}
				}
				res.Add("evaluations", 1)
				res.Add("U_runs", 1)
				art := map[string]interface{}{"part": "U", "k": k, "script": strings.Join(desc, " "), "caller": who}
				if sealed && !accepted {
					res.Violate("c11:audit:sealed-without-accepted-request-entry", fmt.Sprintf("%v: sys/seal took effect (the node is sealed; call error: %v) although no device accepted the request entry (events %v)", art, err, ev), art)
				}
				if allFail && err == nil {
					res.Violate("c11:audit:success-with-all-devices-failing", fmt.Sprintf("%v: every device fails request logging but sys/seal reported success", art), art)
				}
				if who == "unprivileged" && sealed {
					res.Violate("c11:audit:seal-by-unprivileged-token", fmt.Sprintf("%v: a token without sudo on sys/seal sealed the node", art), art)
				}
				res.Distinct("nontrivial", fmt.Sprintf("U|k%d|%s|%s|sealed=%v|err=%v", k, strings.Join(desc, " "), who, sealed, err != nil))
				s.Close()
			}
		}
	}
}
