package core

// C02 part S: stateless DFS over all interleavings (storage-operation granularity incl.
// post-operation points; lock granularity in the fine variants) of
//     { request A by token T }  ||  { management operation B that changes whether A is allowed }
//     ( || a second request A2 ),
// from cold and from warm policy / token caches.  Oracle: a request in flight is judged against
// the old OR the new reference state (either is fine; nothing may be granted that neither
// grants); after the join the probe battery must reflect the new state exactly.

import (
	"encoding/json"
	"fmt"
	"os"
	"os/exec"
	"path/filepath"
	"strings"
	"testing"
	"time"

	"github.com/openbao/openbao/sdk/v2/helper/verif/sched"
	"github.com/openbao/openbao/sdk/v2/helper/verif/vout"
	"github.com/openbao/openbao/sdk/v2/logical"
)

type c02Scen struct {
	Name string
	Prep []string
	B    string
	A    c02BItem
	A2   c02BItem
}

var c02Scens = []c02Scen{
	{"delete-P", nil, "delete-P", c02BItem{"T1", "", "m/kv/a", logical.ReadOperation}, c02BItem{"T1", "", "m/kv/", logical.ListOperation}},
	{"restrict-P", nil, "restrict-P", c02BItem{"T1", "", "m/kv/b", logical.ReadOperation}, c02BItem{"T1", "", "m/kv/a", logical.UpdateOperation}},
	{"permit-P-again", []string{"restrict-P"}, "permit-P", c02BItem{"T1", "", "m/kv/b", logical.ReadOperation}, c02BItem{"T1", "", "m/kv/a", logical.UpdateOperation}},
	{"grant-Q", []string{"delete-P"}, "grant-Q", c02BItem{"T1", "", "m/kv/b", logical.ReadOperation}, c02BItem{"T1", "", "m/kv/b", logical.UpdateOperation}},
	{"disable-E", []string{"grant-Q", "grant-identity-policy"}, "disable-E", c02BItem{"TE", "", "m/kv/b", logical.ReadOperation}, c02BItem{"TB", "", "mm/kv/a", logical.ReadOperation}},
	{"enable-E", []string{"grant-Q", "grant-identity-policy", "disable-E"}, "enable-E", c02BItem{"TE", "", "m/kv/b", logical.ReadOperation}, c02BItem{"TB", "", "mm/kv/a", logical.ReadOperation}},
	{"grant-identity-policy", []string{"grant-Q"}, "grant-identity-policy", c02BItem{"TE", "", "m/kv/b", logical.ReadOperation}, c02BItem{"TB", "", "mm/kv/a", logical.ReadOperation}},
	{"drop-identity-policy", []string{"grant-Q", "grant-identity-policy"}, "drop-identity-policy", c02BItem{"TE", "", "m/kv/b", logical.ReadOperation}, c02BItem{"TE", "", "m/kv/b", logical.DeleteOperation}},
	{"join-group", nil, "join-group", c02BItem{"TE", "", "m/rootonly/r", logical.ReadOperation}, c02BItem{"TB", "", "m/rootonly/r", logical.UpdateOperation}},
	{"leave-group", []string{"join-group"}, "leave-group", c02BItem{"TE", "", "m/rootonly/r", logical.ReadOperation}, c02BItem{"TB", "", "m/rootonly/r", logical.ReadOperation}},
	{"lock-ns1", nil, "lock-ns1", c02BItem{"Tns", "ns1/", "m/kv/a", logical.ReadOperation}, c02BItem{"root", "ns1/", "m/kv/", logical.ListOperation}},
	{"revoke-T1", nil, "revoke-T1", c02BItem{"T1", "", "m/kv/a", logical.ReadOperation}, c02BItem{"T1", "", "auth/token/lookup-self", logical.ReadOperation}},
	{"revoke-accessor-TE", []string{"grant-Q", "grant-identity-policy"}, "revoke-accessor-TE", c02BItem{"TE", "", "m/kv/b", logical.ReadOperation}, c02BItem{"TE", "", "auth/token/lookup-self", logical.ReadOperation}},
}

type c02SVariant struct {
	Warm    bool
	Threads int // 2: A|B, 3: A|B|A2
	Fine    bool
}

func (v c02SVariant) name(scen string) string {
	n := scen
	if v.Warm {
		n += ":warm"
	} else {
		n += ":cold"
	}
	if v.Threads == 3 {
		n += ":A|B|A2"
	} else {
		n += ":A|B"
	}
	if v.Fine {
		n += ":fine"
	}
	return n
}

// c02SImage: the H image with the scenario's preparation applied and persisted (so that an
// execution that boots from it starts with COLD caches in the prepared state).
func c02SImage(t *testing.T, st *c02HSetup, sc c02Scen) (*Image, c02HState) {
	r := st.boot(t, st.img)
	defer r.drv.s.Close()
	m := c02HInit()
	for _, op := range sc.Prep {
		if ok, txt := r.apply(op, m); !ok {
			t.Fatalf("harness: preparation %s of scenario %s failed: %s", op, sc.Name, txt)
		}
		m = c02HNext(m, op)
	}
	return r.drv.s.Image(), m
}

type c02InFlight struct {
	item c02BItem
	ok   bool
	data bool
	err  string
}

func c02SBody(t *testing.T, st *c02HSetup, img *Image, pre c02HState, sc c02Scen, v c02SVariant, res *vout.Result) sched.Body {
	return func(s *sched.Scheduler) func(x *sched.Exec) {
		r := st.boot(t, img)
		sys := r.drv.s
		if v.Warm {
			// warm: the battery has been through every cache once in the old state
			r.battery(pre)
		}
		sys.Rec.Reset()
		sys.Phys.PostPoints = true
		creds := st.creds(pre, r.root)
		flights := []*c02InFlight{{item: sc.A}}
		if v.Threads == 3 {
			flights = append(flights, &c02InFlight{item: sc.A2})
		}
		var bOK bool
		var bErr string
		run := func(fl *c02InFlight) func() {
			return func() {
				c := creds[fl.item.Cred]
				resp, err := r.drv.raw(fl.item.Ctx, "", fl.item.Path, fl.item.Op, c.Token, c.addr())
				fl.ok = OK(resp, err)
				fl.err = ErrText(resp, err)
				fl.data = strings.Contains(respText(resp), c02Canary)
			}
		}
		s.Go("A", run(flights[0]))
		s.Go("B", func() { bOK, bErr = r.apply(sc.B, pre) })
		if v.Threads == 3 {
			s.Go("A2", run(flights[1]))
		}
		return func(x *sched.Exec) {
			defer sys.Close()
			sys.Phys.PostPoints = false
			vd := &Verdict{}
			x.Obs = vd
			fail := func(sig, msg string) {
				if vd.Violation == "" {
					vd.Sig, vd.Violation = sig, msg
				}
			}
			post := c02HNext(pre, sc.B)
			wOld, wNew := st.world(pre), st.world(post)
			credsNew := st.creds(post, r.root)
			calls := sys.Rec.OpCalls()
			oc := fmt.Sprintf("B=%v", bOK)
			// ---- requests in flight: old or new
			for i, fl := range flights {
				cOld, cNew := creds[fl.item.Cred], credsNew[fl.item.Cred]
				dOld := wOld.decide(fl.item.Ctx, "", fl.item.Path, cOld, cOld.addr())
				dNew := wNew.decide(fl.item.Ctx, "", fl.item.Path, cNew, cNew.addr())
				aOld, _ := dOld.AllowsResp(fl.item.Op)
				aNew, whyNew := dNew.AllowsResp(fl.item.Op)
				res.Add("S_inflight_requests", 1)
				if aOld || aNew {
					res.Add("S_reference_allows", 1)
				} else {
					res.Add("S_reference_refuses", 1)
					res.Add("S_inflight_requests_neither_state_grants", 1)
				}
				invoked := false
				if dOld.Mount != nil {
					rel := strings.TrimPrefix(dOld.NS+dOld.Rel, dOld.Mount.Abs)
					for _, c := range calls {
						if c.Path == rel && c.Op == fl.item.Op {
							invoked = true
						}
					}
				}
				name := "A"
				if i == 1 {
					name = "A2"
				}
				oc += fmt.Sprintf(" %s=%v", name, fl.ok)
				if !aOld && !aNew {
					if invoked {
						fail("c02:S:handler-invoked:"+whyNew, fmt.Sprintf("in-flight request %s reached the operation handler although neither the old nor the new state grants it (%s)", fl.item, whyNew))
					}
					if fl.ok {
						fail("c02:S:non-error-response:"+whyNew, fmt.Sprintf("in-flight request %s was answered without error although neither the old nor the new state grants it (%s)", fl.item, whyNew))
					}
					if fl.data {
						fail("c02:S:data-returned:"+whyNew, fmt.Sprintf("in-flight request %s returned stored data although neither state grants it", fl.item))
					}
				}
			}
			vd.Outcome = oc
			if !bOK {
				// the management operation itself failed: the new state was never promised
				res.Add("S_management_operation_failed", 1)
				res.Distinct("S_management_failures", sc.B+": "+c02ErrClass(bErr))
				return
			}
			// ---- after the join: the battery reflects the new state exactly
			rs := r.battery(post)
			vs, _ := c02JudgeBattery("S", sc.B, rs, credsNew, res)
			for _, q := range vs {
				fail(q.Sig, "after the join of "+sc.B+" with the requests in flight: "+q.Desc)
			}
		}
	}
}

func c02SVariants() []c02SVariant {
	return []c02SVariant{{false, 2, true}, {true, 2, true}, {false, 3, false}, {true, 3, false}, {false, 2, false}, {true, 2, false}}
}

func c02SBound(v c02SVariant) int {
	b := 2
	if vout.Thorough() {
		b = 3
	}
	if v.Fine || v.Threads == 3 {
		b-- // lock granularity / three threads: one preemption less
	}
	return b
}

// c02Explore is exploreScenario (explore_test.go) with one difference: a scenario is explored
// by ONE shard as a whole.  The engine shares work below depth-2 nodes only and every shard
// executes the depth <= 1 executions itself; with the small preemption bounds used here most
// executions ARE depth <= 2, so sharing whole scenarios wastes far less.
func c02Explore(res *vout.Result, scenario string, params map[string]interface{}, body sched.Body, bound int, fine bool, owner func(int) bool) int {
	e := &sched.Explorer{Body: body, Bound: bound, Fine: fine, Owner: owner}
	overBudget, polls := false, 0
	e.Stop = func() bool {
		polls++
		if polls%32 == 0 && c02MemMB() > c02MemBudgetMB {
			overBudget = true
		}
		return overBudget || time.Now().After(globalDeadline)
	}
	outcomes := map[string]int{}
	e.Check = func(x *sched.Exec) {
		res.Add("executions", 1)
		res.Add("transitions", int64(len(x.Choices)))
		res.Add("states", int64(len(x.Choices)-x.PrefixLen+1))
		res.Max("points_per_execution", int64(len(x.Points)))
		res.Add(fmt.Sprintf("executions_preemptions_%d", min(x.Preemptions, 3)), 1)
		v, _ := x.Obs.(*Verdict)
		for i, p := range x.Panics {
			if p != nil {
				res.Violate("c02:S:panic:"+scenario, fmt.Sprintf("thread %d panicked: %v (trace %v)", i, p, x.Trace), SchedReplay{scenario, params, x.Choices, fine, x.Trace})
			}
		}
		if x.Deadlock {
			res.Add("deadlocks", 1)
			res.Note("deadlock in %s: %v", scenario, x.Trace)
		}
		if v == nil {
			return
		}
		outcomes[v.Outcome]++
		res.Distinct("nontrivial", "S|"+scenario+"|"+v.Outcome)
		res.Distinct("S_outcomes:"+scenario, v.Outcome)
		if v.Violation != "" {
			same := 0
			for r := 0; r < 3; r++ {
				y := sched.RunOnce(body, x.Choices, fine)
				res.Add("replays_checked", 1)
				if w, _ := y.Obs.(*Verdict); w != nil && w.Sig == v.Sig && canonTrace(y.Trace) == canonTrace(x.Trace) {
					same++
				}
			}
			if same < 3 {
				res.Add("unreproducible", 1)
				res.Note("violation %s reproduced only %d/3 times; not reported (scenario %s choices %v)", v.Sig, same, scenario, x.Choices)
				res.NotExhaustive("an execution was not reproducible")
				return
			}
			res.Violate(v.Sig, fmt.Sprintf("scenario %s: %s\nschedule: %s", scenario, v.Violation, strings.Join(x.Trace, " | ")), SchedReplay{scenario, params, x.Choices, fine, x.Trace})
		} else if e.Executions%50 == 0 {
			y := sched.RunOnce(body, x.Choices, fine)
			res.Add("replays_checked", 1)
			w, _ := y.Obs.(*Verdict)
			if w == nil || w.Outcome != v.Outcome || canonTrace(y.Trace) != canonTrace(x.Trace) {
				res.Add("replay_divergences", 1)
				res.Note("replay divergence in %s choices %v:\n first %v\n again %v", scenario, x.Choices, x.Trace, y.Trace)
			}
		}
	}
	e.Run()
	res.Add("prefix_retries", int64(e.Retries))
	if e.Stopped && overBudget {
		res.NotExhaustive("part S: memory budget of this process reached inside scenario " + scenario + " (shut-down Cores are not reclaimed)")
	} else if e.Stopped {
		res.NotExhaustive("internal deadline reached in scenario " + scenario)
	}
	for _, er := range e.Errors {
		res.Add("harness_errors", 1)
		res.Note("harness error in %s: %s", scenario, er)
		res.NotExhaustive("harness error")
	}
	if e.Executions > 0 && len(outcomes) > 0 {
		res.Max("distinct_outcomes_in_one_scenario", int64(len(outcomes)))
		if len(outcomes) < 2 {
			res.Add("S_scenarios_with_one_outcome", 1)
			res.Note("scenario %s: all %d executions have the same outcome (nothing collided)", scenario, e.Executions)
		}
	}
	if tot, ops := ImpureReport(); tot > 0 {
		res.Max("impure_ops_total", int64(tot))
		for _, o := range ops {
			res.Note("impure op (unmanaged goroutine during exploration): %s", o)
		}
	}
	return e.Executions
}

// c02Children: into how many child processes a scenario is split in the thorough tier (each
// child explores the depth-2 subtrees k with k % m == i, and executes the shallower
// executions itself, like shards do in exploreScenario).
func c02Children(v c02SVariant, sc c02Scen) int {
	m := 1
	switch {
	case v.Fine && !v.Warm:
		m = 8
	case v.Fine:
		m = 4
	case v.Threads == 3:
		m = 3
	}
	if strings.HasPrefix(sc.Name, "revoke") {
		m *= 4 // a revocation has several times the scheduling points of a policy or identity write
	}
	return m
}

func c02PartS(t *testing.T, res *vout.Result, item *int) {
	var st *c02HSetup
	res.Bound("S_scenarios", len(c02Scens)*len(c02SVariants()))
	res.Bound("S_preemption_bound", c02SBound(c02SVariant{}))
	res.Bound("S_preemption_bound_fine_or_three_threads", c02SBound(c02SVariant{Fine: true}))
	onlyScen := os.Getenv("VERIF_C02_SCEN")
	free := os.Getenv("VERIF_FREE") != ""
	children := vout.Thorough() && !free && os.Getenv("VERIF_C02_NOCHILD") == ""
	// big variants first in the round robin (fine, then three threads, then the plain ones)
	for vi, v := range c02SVariants() {
		for si, sc := range c02Scens {
			*item++
			if onlyScen != "" && !strings.HasPrefix(sc.Name, onlyScen) {
				continue
			}
			if !free && !children && !vout.Mine(*item) {
				continue
			}
			name := v.name(sc.Name)
			if time.Now().After(globalDeadline) {
				res.NotExhaustive("part S: internal deadline reached before scenario " + name)
				continue
			}
			if children {
				// the shares of one scenario are spread over the workers
				m := c02Children(v, sc)
				for i := 0; i < m; i++ {
					*item++
					if vout.Mine(*item) {
						c02RunChild(t, res, name, vi, si, i, m, 0)
					}
				}
				continue
			}
			if c02MemMB() > c02MemBudgetMB {
				res.NotExhaustive("part S: memory budget of this worker reached before scenario " + name + " (shut-down Cores are not reclaimed)")
				continue
			}
			if st == nil {
				st = c02BuildH(t)
			}
			img, pre := c02SImage(t, st, sc)
			params := map[string]interface{}{"scenario": sc.Name, "warm": v.Warm, "threads": v.Threads}
			body := c02SBody(t, st, img, pre, sc, v, res)
			var ex int
			if free {
				ex = freeRuns(res, name, body, item)
			} else {
				ex = c02Explore(res, name, params, body, c02SBound(v), v.Fine, nil)
			}
			if ex > 0 {
				res.Sample(map[string]interface{}{"scenario": name, "executions": ex})
			}
		}
	}
}

// c02ChildS: one child process = one (scenario, variant, i of m).
func c02ChildS(t *testing.T, res *vout.Result, spec string) {
	var vi, si, i, m int
	if _, err := fmt.Sscanf(spec, "%d:%d:%d:%d", &vi, &si, &i, &m); err != nil || vi >= len(c02SVariants()) || si >= len(c02Scens) || m <= 0 {
		t.Fatalf("harness: bad child spec %q", spec)
	}
	v, sc := c02SVariants()[vi], c02Scens[si]
	st := c02BuildH(t)
	img, pre := c02SImage(t, st, sc)
	params := map[string]interface{}{"scenario": sc.Name, "warm": v.Warm, "threads": v.Threads}
	var owner func(int) bool
	if m > 1 {
		owner = func(k int) bool { return k%m == i }
	}
	ex := c02Explore(res, v.name(sc.Name), params, c02SBody(t, st, img, pre, sc, v, res), c02SBound(v), v.Fine, owner)
	res.Add("S_child_processes", 1)
	res.Max("mem_sys_mb", c02MemMB())
	if ex > 0 && i == 0 {
		res.Sample(map[string]interface{}{"scenario": v.name(sc.Name), "executions_in_child_0": ex, "children": m})
	}
}

type c02ChildResult struct {
	Counters   map[string]int64    `json:"counters"`
	Maxes      map[string]int64    `json:"maxes"`
	Sets       map[string][]string `json:"sets"`
	Samples    []interface{}       `json:"samples"`
	Violations []vout.Violation    `json:"violations"`
	Notes      []string            `json:"notes"`
	Exhaustive bool                `json:"exhaustive"`
}

// c02RunChild runs share i of m of one scenario in a child process.  A child that reaches its
// memory budget is discarded and its share is split in two (k % m == i  <=>  k % 2m in {i, i+m}).
func c02RunChild(t *testing.T, res *vout.Result, name string, vi, si, i, m, depth int) {
	dir := os.Getenv("VERIF_SCRATCH")
	if dir == "" {
		dir, _ = os.Getwd()
	}
	left := int(time.Until(globalDeadline).Seconds())
	if left < 5 {
		res.NotExhaustive("part S: internal deadline reached inside scenario " + name)
		return
	}
	out := filepath.Join(dir, fmt.Sprintf("c02child.%d.%d.%d.%d.json", vi, si, i, m))
	_ = os.Remove(out)
	cmd := exec.Command(os.Args[0], "-test.run", "^TestVerifC02$", "-test.count=1", "-test.timeout", fmt.Sprintf("%ds", left+120))
	cmd.Env = append(os.Environ(), fmt.Sprintf("VERIF_C02_CHILD=%d:%d:%d:%d", vi, si, i, m), "VERIF_OUT="+out, fmt.Sprintf("VERIF_DEADLINE_S=%d", left))
	logf, _ := os.Create(out + ".log")
	cmd.Stdout, cmd.Stderr = logf, logf
	err := cmd.Run()
	if logf != nil {
		logf.Close()
	}
	defer func() {
		_ = os.Remove(out)
		_ = os.Remove(out + ".log")
	}()
	b, rerr := os.ReadFile(out)
	var cr c02ChildResult
	if rerr != nil || json.Unmarshal(b, &cr) != nil {
		res.Add("harness_errors", 1)
		res.Note("part S: child process %d/%d of scenario %s left no result (%v)", i, m, name, err)
		res.NotExhaustive("part S: a child process failed")
		return
	}
	if err != nil {
		res.Add("harness_errors", 1)
		res.Note("part S: child process %d/%d of scenario %s ended with %v", i, m, name, err)
		res.NotExhaustive("part S: a child process failed")
	}
	overBudget := false
	for _, n := range cr.Notes {
		if strings.Contains(n, "memory budget of this process reached") {
			overBudget = true
		}
	}
	if overBudget && depth < 4 && len(cr.Violations) == 0 {
		res.Add("S_child_processes_split_again", 1)
		c02RunChild(t, res, name, vi, si, i, 2*m, depth+1)
		c02RunChild(t, res, name, vi, si, i+m, 2*m, depth+1)
		return
	}
	for k, v := range cr.Counters {
		if k != "violations_total" {
			res.Add(k, v)
		}
	}
	for k, v := range cr.Maxes {
		res.Max(k, v)
	}
	for set, members := range cr.Sets {
		for _, mem := range members {
			res.Distinct(set, mem)
		}
	}
	for _, smp := range cr.Samples {
		res.Sample(smp)
	}
	for _, v := range cr.Violations {
		res.Violate(v.Sig, v.Desc, v.Replay)
	}
	for _, n := range cr.Notes {
		if !strings.HasPrefix(n, "not exhaustive: ") {
			res.Note("%s", n)
		}
	}
	if !cr.Exhaustive {
		why := "part S: a child process of scenario " + name + " was not exhaustive"
		for _, n := range cr.Notes {
			if strings.HasPrefix(n, "not exhaustive: ") {
				why = strings.TrimPrefix(n, "not exhaustive: ")
			}
		}
		res.NotExhaustive(why)
	}
}

func c02ReplayS(t *testing.T, res *vout.Result, rp SchedReplay) {
	st := c02BuildH(t)
	name, _ := rp.Params["scenario"].(string)
	warm, _ := rp.Params["warm"].(bool)
	threads := 2
	if f, ok := rp.Params["threads"].(float64); ok {
		threads = int(f)
	}
	for _, sc := range c02Scens {
		if sc.Name != name {
			continue
		}
		img, pre := c02SImage(t, st, sc)
		v := c02SVariant{Warm: warm, Threads: threads, Fine: rp.Fine}
		n := 1
		if os.Getenv("VERIF_REPEAT") != "" {
			n = 10
		}
		for i := 0; i < n; i++ {
			x := sched.RunOnce(c02SBody(t, st, img, pre, sc, v, res), rp.Choices, rp.Fine)
			if vd, _ := x.Obs.(*Verdict); vd != nil && vd.Violation != "" && x.Stuck == "" {
				res.Violate(vd.Sig, vd.Violation, rp)
			}
			t.Logf("trace: %v stuck=%q", x.Trace, x.Stuck)
		}
		return
	}
	t.Fatalf("unknown scenario %q", name)
}
