package core

// C17 part S: key management racing key use on a transit mount whose key cache
// is empty (the node has just started).  Two managed threads - one of {raise
// min_decryption_version, raise min_encryption_version, rotate, trim} and one of
// {decrypt an old ciphertext, encrypt, read the key, rotate} - run under every
// interleaving at storage-operation + contended-lock granularity up to the
// preemption bound.  After both have finished:
//   * every acknowledged management call is in effect: the key reports the raised
//     minimum versions / one more version per acknowledged rotation, and a
//     ciphertext below an acknowledged min_decryption_version is refused;
//   * every ciphertext handed out decrypts to its plaintext, now and after a
//     restart (it was not produced under a key version storage does not hold);
//   * the key as reported by the running node equals the key reported after a
//     restart from the same storage (cache and storage agree).

import (
	"encoding/base64"
	"fmt"
	"os"
	"sort"
	"strings"
	"testing"

	"github.com/openbao/openbao/sdk/v2/helper/verif/sched"
	"github.com/openbao/openbao/sdk/v2/helper/verif/vout"
	"github.com/openbao/openbao/sdk/v2/logical"
	"github.com/openbao/openbao/v2/internal/builtin/logical/transit"
)

type c17sImage struct {
	img  *Image
	ctV1 string
	ctV2 string
}

const c17sPlain = "b2xkIHNlY3JldA==" // "old secret"

func c17sBuild(t *testing.T, nonTxn bool) *c17sImage {
	s := Build(t, Options{NonTxn: nonTxn, Extra: map[string]logical.Factory{"transit": transit.Factory}})
	defer s.Close()
	s.Must(s.Req(s.Root, logical.UpdateOperation, "sys/mounts/transit", map[string]interface{}{"type": "transit"}))
	s.Must(s.Req(s.Root, logical.UpdateOperation, "transit/keys/k", map[string]interface{}{"type": "aes256-gcm96"}))
	im := &c17sImage{}
	r := s.Must(s.Req(s.Root, logical.UpdateOperation, "transit/encrypt/k", map[string]interface{}{"plaintext": c17sPlain}))
	im.ctV1, _ = r.Data["ciphertext"].(string)
	s.Must(s.Req(s.Root, logical.UpdateOperation, "transit/keys/k/rotate", nil))
	r = s.Must(s.Req(s.Root, logical.UpdateOperation, "transit/encrypt/k", map[string]interface{}{"plaintext": c17sPlain}))
	im.ctV2, _ = r.Data["ciphertext"].(string)
	s.Must(s.Req(s.Root, logical.UpdateOperation, "transit/keys/k/rotate", nil))
	if !strings.HasPrefix(im.ctV1, "vault:v1:") || !strings.HasPrefix(im.ctV2, "vault:v2:") {
		t.Fatalf("harness: unexpected ciphertext versions %q %q", im.ctV1, im.ctV2)
	}
	s.settle()
	im.img = s.Image()
	return im
}

type c17sKey struct {
	latest, minDec, minEnc, minAvail int
	ok                               bool
}

func c17sInt(v interface{}) int {
	switch x := v.(type) {
	case int:
		return x
	case int64:
		return int(x)
	case float64:
		return int(x)
	}
	return -1
}

func c17sRead(s *Sys) c17sKey {
	resp, err := s.Req(s.Root, logical.ReadOperation, "transit/keys/k", nil)
	if !OK(resp, err) || resp == nil || resp.Data == nil {
		return c17sKey{}
	}
	return c17sKey{latest: c17sInt(resp.Data["latest_version"]), minDec: c17sInt(resp.Data["min_decryption_version"]),
		minEnc: c17sInt(resp.Data["min_encryption_version"]), minAvail: c17sInt(resp.Data["min_available_version"]), ok: true}
}

func c17sDecrypt(s *Sys, ct string) (string, bool) { return c17sDecryptKey(s, "k", ct) }

func c17sDecryptKey(s *Sys, key, ct string) (string, bool) {
	resp, err := s.Req(s.Root, logical.UpdateOperation, "transit/decrypt/"+key, map[string]interface{}{"ciphertext": ct})
	if !OK(resp, err) || resp == nil || resp.Data == nil {
		return ErrText(resp, err), false
	}
	p, _ := resp.Data["plaintext"].(string)
	return p, true
}

type c17sOut struct {
	ok  bool
	txt string
	ct  string
	key string // the key the ciphertext was produced under ("" = k)
}

func c17sDo(s *Sys, im *c17sImage, op string) c17sOut {
	var resp *logical.Response
	var err error
	o := c17sOut{}
	switch op {
	case "cfgdec2":
		resp, err = s.Req(s.Root, logical.UpdateOperation, "transit/keys/k/config", map[string]interface{}{"min_decryption_version": 2})
	case "cfgenc3":
		resp, err = s.Req(s.Root, logical.UpdateOperation, "transit/keys/k/config", map[string]interface{}{"min_encryption_version": 3})
	case "rotate":
		resp, err = s.Req(s.Root, logical.UpdateOperation, "transit/keys/k/rotate", nil)
	case "decrypt1":
		resp, err = s.Req(s.Root, logical.UpdateOperation, "transit/decrypt/k", map[string]interface{}{"ciphertext": im.ctV1})
	case "encrypt":
		resp, err = s.Req(s.Root, logical.UpdateOperation, "transit/encrypt/k", map[string]interface{}{"plaintext": c17sPlain})
		if OK(resp, err) && resp != nil && resp.Data != nil {
			o.ct, _ = resp.Data["ciphertext"].(string)
		}
	case "encrypt2":
		resp, err = s.Req(s.Root, logical.UpdateOperation, "transit/encrypt/k", map[string]interface{}{"plaintext": c17sPlain, "key_version": 2})
		if OK(resp, err) && resp != nil && resp.Data != nil {
			o.ct, _ = resp.Data["ciphertext"].(string)
		}
	case "read":
		resp, err = s.Req(s.Root, logical.ReadOperation, "transit/keys/k", nil)
	case "encnew":
		// encrypt under a key that does not exist yet: it is created on the fly
		o.key = "n"
		resp, err = s.Req(s.Root, logical.UpdateOperation, "transit/encrypt/n", map[string]interface{}{"plaintext": c17sPlain})
		if OK(resp, err) && resp != nil && resp.Data != nil {
			o.ct, _ = resp.Data["ciphertext"].(string)
		}
	case "createn":
		resp, err = s.Req(s.Root, logical.UpdateOperation, "transit/keys/n", map[string]interface{}{"type": "aes256-gcm96"})
	case "rotaten":
		resp, err = s.Req(s.Root, logical.UpdateOperation, "transit/keys/n/rotate", nil)
	}
	o.ok = OK(resp, err)
	o.txt = ErrText(resp, err)
	return o
}

func c17sBody(t *testing.T, im *c17sImage, ops []string) sched.Body {
	return func(sc *sched.Scheduler) func(x *sched.Exec) {
		s := Boot(t, im.img) // a fresh node: the transit key cache is empty
		outs := make([]c17sOut, len(ops))
		for i, op := range ops {
			i, op := i, op
			sc.Go(fmt.Sprintf("%d.%s", i, op), func() { outs[i] = c17sDo(s, im, op) })
		}
		return func(x *sched.Exec) {
			v := &Verdict{}
			x.Obs = v
			// One shape is told apart (F25, repaired by 2a4cf43): a request of
			// the pair failed when its storage transaction was committed (it had begun
			// before the other request committed), after it had already changed the cached
			// key in memory.
			commitFailed := ""
			for _, o := range outs {
				if !o.ok && strings.Contains(o.txt, "transaction commit failed") {
					commitFailed = ":a-request-failed-at-transaction-commit"
				}
			}
			fail := func(sig, msg string) {
				if v.Violation == "" {
					v.Sig, v.Violation = "c17:sched:"+sig+commitFailed, msg
				}
			}
			var parts []string
			rot, dec2, enc3 := 0, false, false
			for i, op := range ops {
				parts = append(parts, fmt.Sprintf("%s:%v", op, outs[i].ok))
				if !outs[i].ok && os.Getenv("VERIF_DEBUG") != "" {
					txt := outs[i].txt
					if len(txt) > 200 {
						txt = txt[:100] + " ... " + txt[len(txt)-100:]
					}
					fmt.Printf("DEBUG %s refused: %s\n", op, txt)
				}
				if !outs[i].ok {
					continue
				}
				switch op {
				case "rotate":
					rot++
				case "cfgdec2":
					dec2 = true
				case "cfgenc3":
					enc3 = true
				}
			}
			sort.Strings(parts)
			v.Outcome = strings.Join(parts, " ")
			judge := func(when string, sx *Sys) c17sKey {
				k := c17sRead(sx)
				if !k.ok {
					fail("key-unreadable", when+": transit/keys/k cannot be read")
					return k
				}
				if k.latest != 3+rot {
					fail("acknowledged-rotation-not-in-effect", fmt.Sprintf("%s: %d rotation(s) were acknowledged on a key with 3 versions, latest_version is %d", when, rot, k.latest))
				}
				if dec2 && k.minDec != 2 {
					fail("acknowledged-min-decryption-version-not-in-effect", fmt.Sprintf("%s: min_decryption_version=2 was acknowledged, the key reports %d", when, k.minDec))
				}
				if enc3 && k.minEnc != 3 {
					fail("acknowledged-min-encryption-version-not-in-effect", fmt.Sprintf("%s: min_encryption_version=3 was acknowledged, the key reports %d", when, k.minEnc))
				}
				if dec2 {
					if p, ok := c17sDecrypt(sx, im.ctV1); ok {
						fail("ciphertext-below-min-decryption-version-accepted", fmt.Sprintf("%s: min_decryption_version=2 was acknowledged, a v1 ciphertext still decrypts (%s)", when, p))
					}
				}
				if p, ok := c17sDecrypt(sx, im.ctV2); !ok || p != c17sPlain {
					fail("old-ciphertext-lost", fmt.Sprintf("%s: the v2 ciphertext no longer decrypts to its plaintext (%v %s)", when, ok, p))
				}
				for i, o := range outs {
					if o.ct == "" {
						continue
					}
					if enc3 && ops[i] == "encrypt2" {
						// acknowledged concurrently: either order is a legal linearisation
					}
					key := o.key
					if key == "" {
						key = "k"
					}
					if p, ok := c17sDecryptKey(sx, key, o.ct); !ok || p != c17sPlain {
						fail("handed-out-ciphertext-undecryptable", fmt.Sprintf("%s: ciphertext %s returned by %s does not decrypt to its plaintext (%v %s)", when, o.ct[:12], ops[i], ok, p))
					}
				}
				return k
			}
			live := judge("on the running node", s)
			snap := s.Image()
			s.Close()
			s2, err := BootData(t, snap.Data, snap)
			if err != nil {
				t.Fatalf("harness: restart: %v", err)
			}
			defer s2.Close()
			after := judge("after a restart", s2)
			if live.ok && after.ok && live != after {
				fail("running-node-and-storage-disagree", fmt.Sprintf("the running node reports %+v, the same storage after a restart %+v", live, after))
			}
		}
	}
}

func TestVerifC17S(t *testing.T) {
	res := vout.New("C17", "sched")
	defer func() {
		if err := res.Write(); err != nil {
			t.Fatal(err)
		}
	}()
	ims := map[bool]*c17sImage{false: c17sBuild(t, false), true: c17sBuild(t, true)}
	im := ims[false]
	if vout.ReplayPath() != "" {
		var rp SchedReplay
		if _, err := vout.LoadReplay(&rp); err != nil {
			t.Fatal(err)
		}
		var ops []string
		for _, k := range rp.Params["ops"].([]interface{}) {
			ops = append(ops, k.(string))
		}
		if nt, _ := rp.Params["nontxn"].(bool); nt {
			im = ims[true]
		}
		x := sched.RunOnce(c17sBody(t, im, ops), rp.Choices, rp.Fine)
		if v, _ := x.Obs.(*Verdict); v != nil && v.Violation != "" && x.Stuck == "" {
			res.Violate(v.Sig, v.Violation, rp)
		}
		return
	}
	bound := 2
	if vout.Thorough() {
		bound = 3
	}
	res.Bound("preemption_bound", bound)
	item := 0
	for _, nonTxn := range []bool{false, true} {
		im := ims[nonTxn]
		for _, a := range []string{"cfgdec2", "cfgenc3", "rotate"} {
			for _, b := range []string{"decrypt1", "encrypt", "encrypt2", "read", "rotate", "cfgdec2"} {
				if a == "cfgdec2" && b == "cfgdec2" {
					continue
				}
				ops := []string{a, b}
				name := fmt.Sprintf("S:%s:nontxn=%v", strings.Join(ops, "+"), nonTxn)
				ex := exploreScenario(res, "c17", name, map[string]interface{}{"ops": ops, "nontxn": nonTxn}, c17sBody(t, im, ops), bound, false, &item)
				if ex > 0 {
					res.Sample(map[string]interface{}{"scenario": name, "executions_in_this_shard": ex})
				}
			}
		}
		for _, ops := range [][]string{{"encnew", "encnew"}, {"encnew", "createn"}, {"createn", "createn"}, {"encnew", "rotaten"}} {
			name := fmt.Sprintf("S:%s:nontxn=%v", strings.Join(ops, "+"), nonTxn)
			exploreScenario(res, "c17", name, map[string]interface{}{"ops": ops, "nontxn": nonTxn}, c17sBody(t, im, ops), bound, false, &item)
		}
		if vout.Thorough() {
			for _, ops := range [][]string{{"cfgdec2", "decrypt1", "encrypt"}, {"rotate", "encrypt", "cfgenc3"}, {"rotate", "rotate", "encrypt"}, {"cfgdec2", "rotate", "decrypt1"}} {
				name := fmt.Sprintf("S:%s:nontxn=%v", strings.Join(ops, "+"), nonTxn)
				exploreScenario(res, "c17", name, map[string]interface{}{"ops": ops, "nontxn": nonTxn}, c17sBody(t, im, ops), 2, false, &item)
			}
		}
	}
	_ = base64.StdEncoding
}
