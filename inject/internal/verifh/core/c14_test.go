package core

// C14: the versioned KV engine is a linearizable versioned register with exact
// check-and-set.
//
//  S  schedules: 2-3 concurrent requests on one secret path; every interleaving
//     at storage-operation granularity (preemption-bounded) must be explained by
//     SOME sequential order of the same requests that respects real-time
//     precedence -- observations and final state are compared with the real
//     engine run sequentially in that order on a fresh Core from the same image.
//  H  histories: every sequence of operations up to a depth is compared with a
//     small independent model (consecutive versions, exact CAS, reads return the
//     v-th write unless deleted/destroyed, delete/undelete/destroy touch only the
//     named versions).
//  F  faults: every single storage failure inside a write-type call: a call that
//     reports failure leaves all API-visible data and metadata unchanged.

import (
	"encoding/json"
	"fmt"
	"os"
	"sort"
	"strings"
	"testing"
	"time"

	"github.com/openbao/openbao/sdk/v2/helper/verif/sched"
	"github.com/openbao/openbao/sdk/v2/helper/verif/vout"
	"github.com/openbao/openbao/sdk/v2/logical"
	"github.com/openbao/openbao/v2/internal/builtin/logical/kv"
)

var c14Ops = []string{"putcas1", "put", "patch", "read", "read1", "del", "delv1", "undelv1", "destroyv1", "metamax1", "metacas", "metadel"}

func c14Image(t *testing.T, nonTxn bool) *Image {
	s := Build(t, Options{NonTxn: nonTxn, Extra: map[string]logical.Factory{"kv": kv.Factory}})
	defer s.Close()
	s.Must(s.Req(s.Root, logical.UpdateOperation, "sys/mounts/kv2", map[string]interface{}{"type": "kv", "options": map[string]interface{}{"version": "2"}}))
	// wait for the asynchronous v1->v2 upgrade to finish
	deadline := time.Now().Add(20 * time.Second)
	for {
		resp, err := s.Req(s.Root, logical.UpdateOperation, "kv2/data/s", map[string]interface{}{"data": map[string]interface{}{"x": "v1"}})
		if OK(resp, err) {
			break
		}
		if time.Now().After(deadline) {
			t.Fatalf("harness: kv-v2 never became ready: %s", ErrText(resp, err))
		}
		time.Sleep(2 * time.Millisecond)
	}
	s.settle()
	return s.Image()
}

func errClass(resp *logical.Response, err error) string {
	txt := ErrText(resp, err)
	if resp != nil && resp.IsError() {
		txt = resp.Error().Error() + " " + txt
	}
	switch {
	case strings.Contains(txt, "check-and-set parameter did not match"):
		return "err:cas-mismatch"
	case strings.Contains(txt, "check-and-set parameter required"):
		return "err:cas-required"
	case strings.Contains(txt, "physx:"):
		return "err:storage"
	}
	if len(txt) > 60 {
		txt = txt[:60]
	}
	return "err:" + txt
}

func readObs(resp *logical.Response, err error) string {
	if err != nil || (resp != nil && resp.IsError()) {
		return errClass(resp, err)
	}
	if resp == nil || resp.Data == nil {
		return "absent"
	}
	d, _ := resp.Data["data"].(map[string]interface{})
	md, _ := resp.Data["metadata"].(map[string]interface{})
	if d == nil {
		// deleted / destroyed versions come back wrapped in an http status response
		if raw, ok := resp.Data[logical.HTTPRawBody]; ok {
			var body struct {
				Data struct {
					Data     map[string]interface{} `json:"data"`
					Metadata map[string]interface{} `json:"metadata"`
				} `json:"data"`
			}
			var b []byte
			switch r := raw.(type) {
			case []byte:
				b = r
			case string:
				b = []byte(r)
			}
			if json.Unmarshal(b, &body) == nil && body.Data.Metadata != nil {
				return fmt.Sprintf("gone(v%v destroyed=%v)", body.Data.Metadata["version"], body.Data.Metadata["destroyed"])
			}
		}
		return "gone"
	}
	return fmt.Sprintf("v%v{x=%v y=%v}", md["version"], d["x"], d["y"])
}

func writeObs(resp *logical.Response, err error) string {
	if !OK(resp, err) {
		return errClass(resp, err)
	}
	if resp != nil && resp.Data != nil {
		if v, ok := resp.Data["version"]; ok {
			return fmt.Sprintf("ok:v%v", v)
		}
	}
	return "ok"
}

func c14Do(s *Sys, op string, i int) string {
	tok := s.Root
	switch op {
	case "putcas1":
		return writeObs(s.Req(tok, logical.UpdateOperation, "kv2/data/s", map[string]interface{}{
			"data": map[string]interface{}{"x": fmt.Sprintf("c%d", i)}, "options": map[string]interface{}{"cas": 1}}))
	case "put":
		return writeObs(s.Req(tok, logical.UpdateOperation, "kv2/data/s", map[string]interface{}{
			"data": map[string]interface{}{"x": fmt.Sprintf("p%d", i)}}))
	case "patch":
		return writeObs(s.Req(tok, logical.PatchOperation, "kv2/data/s", map[string]interface{}{
			"data": map[string]interface{}{"y": fmt.Sprintf("q%d", i)}}))
	case "patchempty1":
		// a patch that changes nothing, presenting cas=1: still a write (it must consume the
		// version it was checked against and receive the next version number)
		return writeObs(s.Req(tok, logical.PatchOperation, "kv2/data/s", map[string]interface{}{
			"data": map[string]interface{}{}, "options": map[string]interface{}{"cas": 1}}))
	case "read":
		return readObs(s.Req(tok, logical.ReadOperation, "kv2/data/s", nil))
	case "read1":
		return readObs(s.Req(tok, logical.ReadOperation, "kv2/data/s", map[string]interface{}{"version": 1}))
	case "del":
		return writeObs(s.Req(tok, logical.DeleteOperation, "kv2/data/s", nil))
	case "delv1":
		return writeObs(s.Req(tok, logical.UpdateOperation, "kv2/delete/s", map[string]interface{}{"versions": []int{1}}))
	case "undelv1":
		return writeObs(s.Req(tok, logical.UpdateOperation, "kv2/undelete/s", map[string]interface{}{"versions": []int{1}}))
	case "destroyv1":
		return writeObs(s.Req(tok, logical.UpdateOperation, "kv2/destroy/s", map[string]interface{}{"versions": []int{1}}))
	case "metamax1":
		return writeObs(s.Req(tok, logical.UpdateOperation, "kv2/metadata/s", map[string]interface{}{"max_versions": 1}))
	case "metadel":
		// removes the path with all its versions; a later write starts again at version 1
		return writeObs(s.Req(tok, logical.DeleteOperation, "kv2/metadata/s", nil))
	case "metamax2":
		return writeObs(s.Req(tok, logical.UpdateOperation, "kv2/metadata/s", map[string]interface{}{"max_versions": 2}))
	case "metacas":
		return writeObs(s.Req(tok, logical.UpdateOperation, "kv2/metadata/s", map[string]interface{}{"cas_required": true}))
	}
	return "unknown-op"
}

// c14Final observes every API-visible datum of the path.
func c14Final(s *Sys) string {
	var parts []string
	for v := 1; v <= 5; v++ {
		parts = append(parts, fmt.Sprintf("r%d=%s", v, readObs(s.Req(s.Root, logical.ReadOperation, "kv2/data/s", map[string]interface{}{"version": v}))))
	}
	resp, err := s.Req(s.Root, logical.ReadOperation, "kv2/metadata/s", nil)
	if OK(resp, err) && resp != nil {
		parts = append(parts, fmt.Sprintf("cur=%v max=%v casreq=%v oldest=%v", resp.Data["current_version"], resp.Data["max_versions"], resp.Data["cas_required"], resp.Data["oldest_version"]))
		if vs, ok := resp.Data["versions"].(map[string]interface{}); ok {
			var ks []string
			for k, v := range vs {
				m, _ := v.(map[string]interface{})
				ks = append(ks, fmt.Sprintf("%s:del=%v,destroyed=%v", k, m["deletion_time"] != "", m["destroyed"]))
			}
			sort.Strings(ks)
			parts = append(parts, strings.Join(ks, ";"))
		}
	} else {
		parts = append(parts, "meta="+errClass(resp, err))
	}
	return strings.Join(parts, " ")
}

// c14Norm: which error a refused call reports is not part of the register
// semantics (a racing CAS may surface as a CAS mismatch or as a commit
// conflict); only success/failure and returned data are compared.
func c14Norm(obs []string) string {
	out := make([]string, len(obs))
	for i, o := range obs {
		if strings.HasPrefix(o, "err") {
			o = "err"
		}
		out[i] = o
	}
	return fmt.Sprint(out)
}

type c14SeqResult struct {
	obs   []string // per op index (not per position)
	final string
}

// c14Sequential runs ops in the given order on a fresh Core.
func c14Sequential(t *testing.T, img *Image, ops []string, order []int) c14SeqResult {
	s := Boot(t, img)
	defer s.Close()
	r := c14SeqResult{obs: make([]string, len(ops))}
	for _, i := range order {
		r.obs[i] = c14Do(s, ops[i], i)
	}
	r.final = c14Final(s)
	return r
}

func permutations(n int) [][]int {
	var out [][]int
	var rec func(cur []int, used []bool)
	rec = func(cur []int, used []bool) {
		if len(cur) == n {
			out = append(out, append([]int{}, cur...))
			return
		}
		for i := 0; i < n; i++ {
			if !used[i] {
				used[i] = true
				rec(append(cur, i), used)
				used[i] = false
			}
		}
	}
	rec(nil, make([]bool, n))
	return out
}

func c14Body(t *testing.T, img *Image, ops []string, seq map[string]c14SeqResult, perms [][]int) sched.Body {
	return func(sc *sched.Scheduler) func(x *sched.Exec) {
		s := Boot(t, img)
		obs := make([]string, len(ops))
		for i, op := range ops {
			i, op := i, op
			sc.Go(fmt.Sprintf("r%d", i), func() { obs[i] = c14Do(s, op, i) })
		}
		return func(x *sched.Exec) {
			defer s.Close()
			v := &Verdict{}
			x.Obs = v
			final := c14Final(s)
			v.Outcome = fmt.Sprintf("%v | %s", obs, final)
			// real-time precedence from the schedule
			start := make([]int, len(ops))
			end := make([]int, len(ops))
			for i := range ops {
				start[i], end[i] = -1, -1
			}
			for step, tr := range x.Trace {
				var id int
				if _, err := fmt.Sscanf(tr, "r%d:", &id); err == nil && id < len(ops) {
					if start[id] < 0 {
						start[id] = step
					}
					end[id] = step
				}
			}
			for _, p := range perms {
				okOrder := true
				pos := make([]int, len(ops))
				for k, i := range p {
					pos[i] = k
				}
				for a := range ops {
					for b := range ops {
						if a != b && end[a] < start[b] && pos[a] > pos[b] {
							okOrder = false
						}
					}
				}
				if !okOrder {
					continue
				}
				r := seq[fmt.Sprint(p)]
				if r.final == final && c14Norm(r.obs) == c14Norm(obs) {
					return // linearizable
				}
			}
			v.Sig = "c14:not-linearizable"
			var alts []string
			for _, p := range perms {
				r := seq[fmt.Sprint(p)]
				alts = append(alts, fmt.Sprintf("order %v -> %v | %s", p, r.obs, r.final))
			}
			v.Violation = fmt.Sprintf("concurrent %v observed %v final [%s]; no sequential order consistent with real time explains it.\nsequential outcomes:\n  %s",
				ops, obs, final, strings.Join(alts, "\n  "))
		}
	}
}

// ---- H: sequential histories against an independent model ------------------

type c14Ver struct {
	x, y      string
	hasY      bool
	deleted   bool
	destroyed bool
}

type c14Model struct {
	cur  int
	vers map[int]*c14Ver
}

func (m *c14Model) read(v int) string {
	if v == 0 {
		v = m.cur
	}
	e := m.vers[v]
	if e == nil {
		return "absent"
	}
	if e.deleted || e.destroyed {
		return fmt.Sprintf("gone(v%d destroyed=%v)", v, e.destroyed)
	}
	y := "<nil>"
	if e.hasY {
		y = e.y
	}
	return fmt.Sprintf("v%d{x=%s y=%s}", v, e.x, y)
}

// apply returns the expected observation ("" = unspecified by the model).
func (m *c14Model) apply(op string, i int) string {
	switch op {
	case "putcas1":
		if m.cur != 1 {
			return "err:cas-mismatch"
		}
		m.cur++
		m.vers[m.cur] = &c14Ver{x: fmt.Sprintf("c%d", i)}
		return fmt.Sprintf("ok:v%d", m.cur)
	case "put":
		m.cur++
		m.vers[m.cur] = &c14Ver{x: fmt.Sprintf("p%d", i)}
		return fmt.Sprintf("ok:v%d", m.cur)
	case "patch":
		e := m.vers[m.cur]
		if e == nil || e.deleted || e.destroyed {
			return "" // error class not modelled
		}
		n := &c14Ver{x: e.x, y: fmt.Sprintf("q%d", i), hasY: true}
		m.cur++
		m.vers[m.cur] = n
		return fmt.Sprintf("ok:v%d", m.cur)
	case "patchempty1":
		if m.cur != 1 {
			return "err:cas-mismatch"
		}
		e := m.vers[m.cur]
		if e == nil || e.deleted || e.destroyed {
			return ""
		}
		n := &c14Ver{x: e.x, y: e.y, hasY: e.hasY}
		m.cur++
		m.vers[m.cur] = n
		return fmt.Sprintf("ok:v%d", m.cur)
	case "read":
		return m.read(0)
	case "read1":
		return m.read(1)
	case "del":
		if e := m.vers[m.cur]; e != nil && !e.destroyed {
			e.deleted = true
		}
		return "ok"
	case "delv1":
		if e := m.vers[1]; e != nil && !e.destroyed {
			e.deleted = true
		}
		return "ok"
	case "undelv1":
		if e := m.vers[1]; e != nil && !e.destroyed {
			e.deleted = false
		}
		return "ok"
	case "destroyv1":
		if e := m.vers[1]; e != nil {
			e.destroyed = true
			e.deleted = false
		}
		return "ok"
	}
	return ""
}

func (m *c14Model) final() []string {
	var out []string
	for v := 1; v <= 5; v++ {
		out = append(out, fmt.Sprintf("r%d=%s", v, m.read(v)))
	}
	return out
}

func TestVerifC14(t *testing.T) {
	res := vout.New("C14", "core")
	defer func() {
		if err := res.Write(); err != nil {
			t.Fatal(err)
		}
	}()
	img := c14Image(t, false)
	bound := 2
	res.Bound("preemption_bound", bound)

	seqForImg := func(im *Image, ops []string) (map[string]c14SeqResult, [][]int) {
		perms := permutations(len(ops))
		m := map[string]c14SeqResult{}
		for _, p := range perms {
			m[fmt.Sprint(p)] = c14Sequential(t, im, ops, p)
		}
		return m, perms
	}
	seqFor := func(ops []string) (map[string]c14SeqResult, [][]int) { return seqForImg(img, ops) }
	var imgNT *Image
	getNT := func() *Image {
		if imgNT == nil {
			imgNT = c14Image(t, true)
		}
		return imgNT
	}

	if vout.ReplayPath() != "" {
		var rp SchedReplay
		if _, err := vout.LoadReplay(&rp); err != nil {
			t.Fatal(err)
		}
		var ops []string
		for _, k := range rp.Params["ops"].([]interface{}) {
			ops = append(ops, k.(string))
		}
		if rp.Scenario == "fault" || rp.Scenario == "history" {
			t.Skip("replay of sequential artefacts: re-run the check; the case is printed in the violation text")
		}
		rimg := img
		if nt, _ := rp.Params["nonTxn"].(bool); nt {
			rimg = getNT()
		}
		seq, perms := seqForImg(rimg, ops)
		x := sched.RunOnce(c14Body(t, rimg, ops, seq, perms), rp.Choices, rp.Fine)
		if v, _ := x.Obs.(*Verdict); v != nil && v.Violation != "" && x.Stuck == "" {
			res.Violate(v.Sig, v.Violation, rp)
		}
		return
	}

	only := os.Getenv("VERIF_PART")
	item := 0
	// ---- S: schedules
	if only == "" || only == "S" {
		sets := multisets(c14Ops, 2)
		if vout.Thorough() {
			sets = append(sets, multisets([]string{"putcas1", "put", "patch", "read", "del", "destroyv1", "metamax1"}, 3)...)
		} else {
			sets = append(sets, [][]string{{"putcas1", "putcas1", "putcas1"}, {"putcas1", "put", "read"}, {"put", "put", "metamax1"}, {"patch", "del", "read"}}...)
		}
		// equal-cas writers where one (or both) is a patch that changes nothing
		sets = append(sets, []string{"putcas1", "patchempty1"}, []string{"patchempty1", "patchempty1"})
		for _, ops := range sets {
			name := strings.Join(ops, "+")
			// the sequential reference is only needed by the shards that own work here;
			// computing it is cheap (n! boots) so every shard does it
			seq, perms := seqFor(ops)
			b := bound
			if len(ops) == 2 && vout.Thorough() {
				b = -1 // two threads: unbounded
			}
			ex := exploreScenario(res, "c14", name, map[string]interface{}{"ops": ops}, c14Body(t, img, ops, seq, perms), b, false, &item)
			if ex > 0 && item%9 == 0 {
				res.Sample(map[string]interface{}{"scenario": name, "executions_in_this_shard": ex})
			}
		}
	}
	// ---- S on non-transactional storage: only the per-key lock serialises writers
	if only == "" || only == "S" {
		for _, ops := range append(multisets([]string{"putcas1", "put", "patch", "del", "metamax1"}, 2), []string{"putcas1", "patchempty1"}, []string{"patchempty1", "patchempty1"}) {
			name := "nontxn:" + strings.Join(ops, "+")
			seq, perms := seqForImg(getNT(), ops)
			exploreScenario(res, "c14", name, map[string]interface{}{"ops": ops, "nonTxn": true}, c14Body(t, getNT(), ops, seq, perms), bound, false, &item)
		}
	}
	// ---- H: sequential histories vs independent model
	if only == "" || only == "H" {
		depth := 3
		if vout.Thorough() {
			depth = 4
		}
		hops := []string{"putcas1", "put", "patch", "patchempty1", "read", "read1", "del", "delv1", "undelv1", "destroyv1"}
		count := 0
		var rec func(h []string)
		rec = func(h []string) {
			if len(h) > 0 {
				count++
				if vout.Mine(count) {
					s := Boot(t, img)
					m := &c14Model{cur: 1, vers: map[int]*c14Ver{1: {x: "v1"}}}
					for i, op := range h {
						got := c14Do(s, op, i)
						want := m.apply(op, i)
						res.Add("transitions", 1)
						if want != "" && got != want {
							res.Violate("c14:history:"+op, fmt.Sprintf("history %v step %d (%s): engine answered %q, the versioned-register model says %q", h, i, op, got, want),
								SchedReplay{Scenario: "history", Params: map[string]interface{}{"ops": h}})
							break
						}
					}
					fin := c14Final(s)
					for _, w := range m.final() {
						if !strings.Contains(fin, w+" ") {
							res.Violate("c14:history:final", fmt.Sprintf("history %v: final state [%s] lacks %q", h, fin, w),
								SchedReplay{Scenario: "history", Params: map[string]interface{}{"ops": h}})
							break
						}
					}
					s.Close()
					res.Add("executions", 1)
					res.Add("states", 1)
					res.Distinct("nontrivial", "H|"+fin)
				}
			}
			if len(h) == depth {
				return
			}
			for _, op := range hops {
				rec(append(append([]string{}, h...), op))
			}
		}
		rec(nil)
		res.Bound("history_depth", depth)
	}
	// ---- M: sequential histories vs the full model, from several pre-states (c14m_test.go)
	if only == "" || only == "M" {
		c14mPart(t, img, res)
	}
	// ---- F: single storage faults inside write-type calls
	if only == "" || only == "F" {
		for _, nonTxn := range []bool{false, true} {
			fimg := img
			if nonTxn {
				fimg = c14Image(t, true)
			}
			// pre-states: the fresh secret (1 version, default limit) and a secret AT its
			// max_versions limit (the next write has to drop the oldest version)
			for pi, pre := range [][]string{nil, {"metamax2", "put"}} {
			prep := func(s *Sys) {
				for i, p := range pre {
					if got := c14Do(s, p, 7+i); strings.HasPrefix(got, "err") {
						t.Fatalf("harness: pre-state op %s failed: %s", p, got)
					}
				}
			}
			for oi, op := range []string{"put", "putcas1", "patch", "del", "delv1", "undelv1", "destroyv1", "metamax1"} {
				if !vout.Mine(oi + 8*pi) {
					continue
				}
				// pass 0: count the operations of the call
				s0 := Boot(t, fimg)
				prep(s0)
				s0.Phys.FailAt("call", 1<<30)
				s0.Phys.SetTag("call")
				_ = c14Do(s0, op, 0)
				s0.Phys.SetTag("")
				n := s0.Phys.TagCount("call")
				s0.Close()
				for k := 1; k <= n; k++ {
					s := Boot(t, fimg)
					prep(s)
					before := c14Final(s)
					s.Phys.FailAt("call", k)
					s.Phys.SetTag("call")
					got := c14Do(s, op, 0)
					s.Phys.SetTag("")
					failed := s.Phys.Failed()
					after := c14Final(s)
					res.Add("executions", 1)
					res.Add("fault_runs", 1)
					what := "not reached"
					if failed != nil {
						what = failed.String()
						res.Distinct("nontrivial", fmt.Sprintf("F|%v|%d|%s|%s|%v", nonTxn, pi, op, failed.Kind, strings.HasPrefix(got, "err")))
					}
					isWrite := op == "put" || op == "putcas1" || op == "patch"
					if strings.HasPrefix(got, "err") && after != before && !isWrite {
						// the statement requires failure atomicity of WRITES; a failed
						// delete/destroy/metadata call with a partial (intended) effect is only counted
						res.Add("non_write_partial_effects", 1)
					}
					if strings.HasPrefix(got, "err") && after != before && isWrite {
						res.Violate("c14:failed-call-changed-state", fmt.Sprintf("%s after %v (nonTxn=%v) with storage op %d [%s] failing returned %q but API-visible state changed:\n before [%s]\n after  [%s]", op, pre, nonTxn, k, what, got, before, after),
							SchedReplay{Scenario: "fault", Params: map[string]interface{}{"ops": []string{op}, "pre": pre, "k": k, "nonTxn": nonTxn}})
					}
					s.Close()
				}
			}
			}
		}
	}
}
