package core

// C19 part F: a use-limited token under storage faults.  n+1 requests are sent
// one after the other; the k-th storage operation of the i-th request fails
// once, for every i and k.  Whatever the fault does to the failing request, the
// token never authorises more than n requests in total (a use whose count could
// not be stored must not be given away), and it never creates a child.

import (
	"fmt"
	"testing"

	"github.com/openbao/openbao/sdk/v2/helper/verif/vout"
	"github.com/openbao/openbao/sdk/v2/logical"
)

func c19PartF(t *testing.T, res *vout.Result) {
	count := 0
	for n := 1; n <= 2; n++ {
		img, tok := c19Image(t, n)
		for _, kind := range []string{"read", "lease", "write", "ns-read"} {
			for i := 0; i <= n; i++ {
				// pass 0: operations of request i when nothing fails
				s0 := Boot(t, img)
				for j := 0; j < i; j++ {
					_ = c19Do(s0, tok, kind, j)
				}
				s0.Phys.FailAt("call", 1<<30)
				s0.Phys.SetTag("call")
				_ = c19Do(s0, tok, kind, i)
				s0.Phys.SetTag("")
				nops := s0.Phys.TagCount("call")
				s0.Close()
				for k := 1; k <= nops; k++ {
					count++
					if !vout.Mine(count) {
						continue
					}
					s := Boot(t, img)
					s.Rec.Reset()
					var outs []string
					for j := 0; j <= n+1; j++ {
						if j == i {
							s.Phys.FailAt("call", k)
							s.Phys.SetTag("call")
						}
						r := c19Do(s, tok, kind, j)
						if j == i {
							s.Phys.SetTag("")
						}
						outs = append(outs, fmt.Sprintf("%v", r.ok))
					}
					failed := s.Phys.Failed()
					what := "not reached"
					if failed != nil {
						what = failed.String()
					}
					s.Drain()
					invoked := 0
					for _, c := range s.Rec.OpCalls() {
						if c.Op == logical.RevokeOperation || c.Op == logical.RenewOperation {
							continue
						}
						invoked++
					}
					res.Add("executions", 1)
					res.Add("fault_runs", 1)
					art := map[string]interface{}{"n": n, "kind": kind, "faulted_request": i, "k": k, "failed_op": what}
					if invoked > n {
						res.Violate("c19:fault:more-than-n-uses", fmt.Sprintf("%v: a token with num_uses=%d reached the backend %d times over %d requests (results %v)", art, n, invoked, n+2, outs), art)
					}
					if failed != nil {
						res.Distinct("nontrivial", fmt.Sprintf("F|%d|%s|%d|%s:%s|invoked=%d", n, kind, i, failed.Kind, keyClass(failed.Key), invoked))
					}
					s.Close()
				}
			}
		}
	}
}
