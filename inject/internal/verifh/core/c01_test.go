package core

// C01 (T2): everything a running server persists reaches the physical backend
// only as authenticated ciphertext bound to its storage key, except a fixed set
// of bootstrap records.  BFS over API workloads; EVERY physical put of the
// server's whole life (init, unseal, mounts, the workload) is opened by an
// independent AES-256-GCM opener keyed from the barrier keyring (AAD = the
// physical key) and every value is scanned for the workload's canaries.

import (
	"crypto/aes"
	"crypto/cipher"
	"encoding/base64"
	"encoding/binary"
	"encoding/hex"
	"fmt"
	"strings"
	"sync"
	"testing"
	"time"

	"github.com/openbao/openbao/sdk/v2/helper/verif/physx"
	"github.com/openbao/openbao/sdk/v2/helper/verif/sched"
	"github.com/openbao/openbao/sdk/v2/helper/verif/vout"
	"github.com/openbao/openbao/sdk/v2/logical"
	"github.com/openbao/openbao/v2/internal/builtin/logical/kv"
	"github.com/openbao/openbao/v2/internal/vault"
)

const c01Canary = "CANARY-C01-"

type c01Put struct {
	key string
	val []byte
}

// records allowed to reach the physical backend outside the barrier
func c01Bootstrap(key string) bool {
	k := key
	if strings.HasPrefix(k, "namespaces/") {
		parts := strings.SplitN(k, "/", 3)
		if len(parts) == 3 {
			k = parts[2]
		}
	}
	switch k {
	case "core/seal-config", "core/hsm/barrier-unseal-keys", "core/recovery-config", "core/recovery-key",
		"core/unseal-keys-backup", "core/recovery-keys-backup", "core/raft/tls", "core/raft/bootstrap":
		return true
	}
	return false
}

type c01Keys struct {
	term map[string]map[uint32][]byte // barrier prefix -> term -> key
	root map[string][][]byte          // barrier prefix -> root keys seen
}

func c01Collect(c *vault.Core, ks *c01Keys) {
	for p, b := range c.VerifBarriers() {
		if b == nil || b.Sealed() {
			continue
		}
		kr, err := b.Keyring()
		if err != nil || kr == nil {
			continue
		}
		prefix := ""
		if p != "" {
			if ns := b.Namespace(); ns != nil {
				prefix = "namespaces/" + ns.UUID + "/"
			}
		}
		if ks.term[prefix] == nil {
			ks.term[prefix] = map[uint32][]byte{}
		}
		for t := uint32(1); t <= kr.ActiveTerm(); t++ {
			if k := kr.TermKey(t); k != nil {
				ks.term[prefix][t] = append([]byte{}, k.Value...)
			}
		}
		rk := append([]byte{}, kr.RootKey()...)
		dup := false
		for _, x := range ks.root[prefix] {
			if string(x) == string(rk) {
				dup = true
			}
		}
		if !dup {
			ks.root[prefix] = append(ks.root[prefix], rk)
		}
	}
}

// independent opener: term(4) | version(1) | nonce(12) | ciphertext+tag
func c01Open(key, record []byte, aad string) bool {
	if len(record) < 5+12+16 {
		return false
	}
	blk, err := aes.NewCipher(key)
	if err != nil {
		return false
	}
	gcm, err := cipher.NewGCM(blk)
	if err != nil {
		return false
	}
	body := record[5:]
	nonce, ct := body[:12], body[12:]
	var ad []byte
	if record[4] == 2 && aad != "" {
		ad = []byte(aad)
	}
	_, err = gcm.Open(nil, nonce, ct, ad)
	return err == nil
}

func c01Judge(p c01Put, ks *c01Keys, canaries []string) (string, string) {
	for _, c := range canaries {
		for _, enc := range []string{c, hex.EncodeToString([]byte(c)), base64.StdEncoding.EncodeToString([]byte(c)), base64.RawURLEncoding.EncodeToString([]byte(c))} {
			if strings.Contains(string(p.val), enc) {
				return "plaintext-in-physical-store", fmt.Sprintf("value stored at physical key %q contains the plaintext %q", p.key, c)
			}
		}
	}
	if c01Bootstrap(p.key) {
		return "", ""
	}
	if len(p.val) < 5 {
		return "not-a-barrier-record", fmt.Sprintf("physical key %q holds %d bytes, not a barrier record, and is not a bootstrap record", p.key, len(p.val))
	}
	// longest matching barrier prefix
	prefix := ""
	for pf := range ks.term {
		if pf != "" && strings.HasPrefix(p.key, pf) && len(pf) > len(prefix) {
			prefix = pf
		}
	}
	term := binary.BigEndian.Uint32(p.val[:4])
	ver := p.val[4]
	if ver != 1 && ver != 2 {
		return "not-a-barrier-record", fmt.Sprintf("physical key %q: version byte %d", p.key, ver)
	}
	if ver != 2 {
		return "legacy-format-written", fmt.Sprintf("physical key %q was written in the legacy (unbound) record format", p.key)
	}
	rel := strings.TrimPrefix(p.key, prefix)
	if rel == "core/keyring" {
		for _, rk := range ks.root[prefix] {
			if c01Open(rk, p.val, p.key) {
				return "", ""
			}
		}
		return "keyring-not-under-root-key", fmt.Sprintf("%q does not open under any root key of its barrier with its key as AAD", p.key)
	}
	if k := ks.term[prefix][term]; k != nil && c01Open(k, p.val, p.key) {
		return "", ""
	}
	// a record may belong to the enclosing (root) barrier even below a namespace prefix
	if k := ks.term[""][term]; k != nil && c01Open(k, p.val, p.key) {
		return "", ""
	}
	return "record-not-bound-to-key", fmt.Sprintf("record at physical key %q (term %d, format v%d) does not open under the keyring key of that term with the physical key as associated data", p.key, term, ver)
}

type c01Op struct {
	Name string
	Run  func(s *Sys, i int) []string // returns the canaries it supplied
}

func c01Alphabet() []c01Op {
	can := func(i int, what string) string { return fmt.Sprintf("%s%s-%d", c01Canary, what, i) }
	return []c01Op{
		{"mount-kv1+write", func(s *Sys, i int) []string {
			c := can(i, "kv1")
			_, _ = s.Req(s.Root, logical.UpdateOperation, "sys/mounts/kv1", map[string]interface{}{"type": "kv", "description": can(i, "desc")})
			_, _ = s.Req(s.Root, logical.UpdateOperation, "kv1/"+can(i, "name"), map[string]interface{}{"field": c})
			return []string{c, can(i, "desc")}
		}},
		{"mount-kv2+write", func(s *Sys, i int) []string {
			c := can(i, "kv2")
			_, _ = s.Req(s.Root, logical.UpdateOperation, "sys/mounts/kv2", map[string]interface{}{"type": "kv", "options": map[string]interface{}{"version": "2"}})
			for j := 0; j < 200; j++ {
				r, e := s.Req(s.Root, logical.UpdateOperation, "kv2/data/s", map[string]interface{}{"data": map[string]interface{}{"x": c}})
				if OK(r, e) {
					break
				}
				time.Sleep(time.Millisecond)
			}
			return []string{c}
		}},
		{"rec-write", func(s *Sys, i int) []string {
			c := can(i, "rec")
			_, _ = s.Req(s.Root, logical.UpdateOperation, "sys/mounts/recm", map[string]interface{}{"type": "rec"})
			_, _ = s.Req(s.Root, logical.UpdateOperation, "recm/kv/a", map[string]interface{}{"value": c})
			return []string{c}
		}},
		{"policy", func(s *Sys, i int) []string {
			c := can(i, "policy")
			_, _ = s.Req(s.Root, logical.UpdateOperation, "sys/policies/acl/p"+fmt.Sprint(i), map[string]interface{}{"policy": `path "secret/` + c + `" { capabilities = ["read"] }`})
			return []string{c}
		}},
		{"token-with-metadata", func(s *Sys, i int) []string {
			c := can(i, "meta")
			_, _ = s.Req(s.Root, logical.UpdateOperation, "auth/token/create", map[string]interface{}{"policies": []string{"default"}, "ttl": "1h", "meta": map[string]interface{}{"who": c}, "display_name": can(i, "dn")})
			return []string{c, can(i, "dn")}
		}},
		{"namespace+write", func(s *Sys, i int) []string {
			c := can(i, "ns")
			name := fmt.Sprintf("n%d", i)
			_, _ = s.Req(s.Root, logical.UpdateOperation, "sys/namespaces/"+name, map[string]interface{}{"custom_metadata": map[string]interface{}{"m": can(i, "nsmeta")}})
			ns := c12NS(name + "/")
			_, _ = s.ReqNS(ns, s.Root, logical.UpdateOperation, "sys/mounts/recn", map[string]interface{}{"type": "rec"})
			_, _ = s.ReqNS(ns, s.Root, logical.UpdateOperation, "recn/kv/a", map[string]interface{}{"value": c})
			return []string{c, can(i, "nsmeta")}
		}},
		{"sealable-namespace+write", func(s *Sys, i int) []string {
			c := can(i, "sns")
			name := fmt.Sprintf("sn%d", i)
			resp, err := s.Req(s.Root, logical.UpdateOperation, "sys/namespaces/"+name, map[string]interface{}{"seal": `seal "shamir" { shares = "1" threshold = "1" }`})
			if OK(resp, err) && resp != nil {
				if shares, ok := resp.Data["key_shares"].([]string); ok {
					for _, sh := range shares {
						_, _ = s.Req(s.Root, logical.UpdateOperation, "sys/namespaces/"+name+"/unseal", map[string]interface{}{"key": sh})
					}
				}
			}
			ns := c12NS(name + "/")
			_, _ = s.ReqNS(ns, s.Root, logical.UpdateOperation, "sys/mounts/recs", map[string]interface{}{"type": "rec"})
			_, _ = s.ReqNS(ns, s.Root, logical.UpdateOperation, "recs/kv/a", map[string]interface{}{"value": c})
			return []string{c}
		}},
		{"identity-entity", func(s *Sys, i int) []string {
			c := can(i, "entity")
			_, _ = s.Req(s.Root, logical.UpdateOperation, "identity/entity", map[string]interface{}{"name": fmt.Sprintf("e%d", i), "metadata": map[string]interface{}{"k": c}})
			return []string{c}
		}},
		{"cubbyhole", func(s *Sys, i int) []string {
			c := can(i, "cubby")
			_, _ = s.Req(s.Root, logical.UpdateOperation, "cubbyhole/x"+fmt.Sprint(i), map[string]interface{}{"v": c})
			return []string{c}
		}},
		{"wrapped-response", func(s *Sys, i int) []string {
			c := can(i, "wrap")
			_, _ = s.Req(s.Root, logical.UpdateOperation, "sys/mounts/recw", map[string]interface{}{"type": "rec"})
			_, _ = s.Req(s.Root, logical.UpdateOperation, "recw/kv/a", map[string]interface{}{"value": c})
			req := &logical.Request{ClientToken: s.Root, Operation: logical.ReadOperation, Path: "recw/kv/a",
				Connection: &logical.Connection{RemoteAddr: "127.0.0.1"}, WrapInfo: &logical.RequestWrapInfo{TTL: time.Hour}}
			_, _ = s.Core.HandleRequest(rootCtx(), req)
			return []string{c}
		}},
		{"rotate", func(s *Sys, i int) []string {
			_, _ = s.Req(s.Root, logical.UpdateOperation, "sys/rotate", nil)
			return nil
		}},
		{"rotate-root", func(s *Sys, i int) []string {
			_, _ = s.Req(s.Root, logical.UpdateOperation, "sys/rotate/root", nil)
			return nil
		}},
		{"rekey", func(s *Sys, i int) []string {
			_, _ = c10Act(s, "rekey")
			return nil
		}},
		{"raw-writes", func(s *Sys, i int) []string {
			// the raw storage endpoint (operator tooling): whatever path it is given, the
			// value must end up behind the barrier unless the path IS a bootstrap record
			var cs []string
			for j, path := range []string{
				"rawtest/x" + fmt.Sprint(i),
				"core/seal-config.bak",
				"core/seal-config/x",
				"namespaces/00000000-0000-0000-0000-000000000000/core/seal-config",
				"namespaces/00000000-0000-0000-0000-000000000000/core/recovery-config",
				"namespaces/7a3c1f0e-aaaa-bbbb-cccc-000000000001/core/seal-config",
				"namespaces/7a3c1f0e-aaaa-bbbb-cccc-000000000001/logical/x",
			} {
				c := can(i, fmt.Sprintf("raw%d", j))
				r, e := s.Req(s.Root, logical.UpdateOperation, "sys/raw/"+path, map[string]interface{}{"value": c})
				if OK(r, e) {
					cs = append(cs, c)
				}
			}
			return cs
		}},
		{"leased-secret+login", func(s *Sys, i int) []string {
			_, _ = s.Req(s.Root, logical.UpdateOperation, "sys/mounts/recl", map[string]interface{}{"type": "rec"})
			_, _ = s.Req(s.Root, logical.UpdateOperation, "sys/auth/ral", map[string]interface{}{"type": "recauth"})
			r, e := s.Req(s.Root, logical.ReadOperation, "recl/lease/x", nil)
			var cs []string
			if OK(r, e) && r != nil && r.Data != nil {
				if pw, ok := r.Data["password"].(string); ok {
					cs = append(cs, pw) // "CANARY-sec-N": the leased secret itself is persisted in the lease
				}
			}
			_, _ = s.Req("", logical.UpdateOperation, "auth/ral/login", map[string]interface{}{})
			return cs
		}},
	}
}

func c01Run(t *testing.T, ops []c01Op) ([]c01Put, *c01Keys, []string, *Sys) {
	sched.InstallDetRand(0x5eed)
	sched.ResetDetRand()
	var mu sync.Mutex
	var puts []c01Put
	rec := NewRecState()
	opt := Options{Extra: map[string]logical.Factory{"kv": kv.Factory}}
	phys := physx.New(newInner(opt))
	physx.Ctl(phys).PutHook = func(k string, v []byte) {
		mu.Lock()
		puts = append(puts, c01Put{k, v})
		mu.Unlock()
	}
	c := vault.TestCoreWithSealAndUINoCleanup(t, coreConfig(phys, opt, rec))
	keys, root := vault.TestCoreInit(t, c)
	for _, k := range keys {
		if _, err := vault.TestCoreUnseal(c, vault.TestKeyCopy(k)); err != nil {
			t.Fatalf("unseal: %v", err)
		}
	}
	s := &Sys{T: t, Core: c, Phys: physx.Ctl(phys), Root: root, Keys: keys, Rec: rec, Opt: opt}
	s.hookExpiry()
	s.settle()
	ks := &c01Keys{term: map[string]map[uint32][]byte{}, root: map[string][][]byte{}}
	c01Collect(c, ks)
	var canaries []string
	for i, op := range ops {
		canaries = append(canaries, op.Run(s, i)...)
		s.settle()
		c01Collect(c, ks)
	}
	mu.Lock()
	out := append([]c01Put{}, puts...)
	mu.Unlock()
	return out, ks, canaries, s
}

var c01Sampled bool

func TestVerifC01Store(t *testing.T) {
	res := vout.New("C01", "store")
	defer func() {
		if err := res.Write(); err != nil {
			t.Fatal(err)
		}
	}()
	if vout.ReplayPath() != "" {
		t.Log("C01 store artefacts name the workload (operation names); re-run the check (deterministic enumeration)")
		return
	}
	alpha := c01Alphabet()
	depth := 2
	if vout.Thorough() {
		depth = 4
	}
	res.Bound("workload_depth", depth)
	res.Bound("alphabet", len(alpha))
	count := 0
	var rec func(prefix []int)
	rec = func(prefix []int) {
		if len(prefix) > 0 {
			count++
			if vout.Mine(count) {
				var ops []c01Op
				var names []string
				for _, i := range prefix {
					ops = append(ops, alpha[i])
					names = append(names, alpha[i].Name)
				}
				puts, ks, canaries, s := c01Run(t, ops)
				res.Add("evaluations", int64(len(puts)))
				res.Add("workloads", 1)
				classes := map[string]bool{}
				for _, p := range puts {
					if sig, msg := c01Judge(p, ks, canaries); sig != "" {
						res.Violate("c01:store:"+sig+":"+keyClass(p.key), fmt.Sprintf("workload %v: %s", names, msg), map[string]interface{}{"workload": names, "key": p.key})
					}
					classes[keyClass(p.key)] = true
				}
				for c := range classes {
					res.Distinct("nontrivial", strings.Join(names, "+")+"|"+c)
				}
				if count%17 == 0 || !c01Sampled {
					c01Sampled = true
					res.Sample(map[string]interface{}{"workload": names, "physical_puts_checked": len(puts), "canaries": len(canaries), "key_classes": len(classes)})
				}
				s.Close()
			}
		}
		if len(prefix) == depth {
			return
		}
		for i := range alpha {
			rec(append(append([]int{}, prefix...), i))
		}
	}
	rec(nil)
}
