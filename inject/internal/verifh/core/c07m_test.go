package core

// C07 part M: logins that complete in two phases.  A login MFA enforcement (TOTP)
// covers the auth mount ram/; the login answers with an MFA requirement and the
// token is minted later by sys/mfa/validate from the auth the backend returned in
// phase one.  The same oracle as for direct logins applies to what that second
// request hands out: never root or a non-assignable policy (in any spelling),
// lifetimes within the mount maximum, never a non-expiring token.
// Every attempt uses an entity of its own (a TOTP passcode is single-use per
// entity and period).

import (
	"fmt"
	"sort"
	"testing"
	"time"

	"github.com/openbao/openbao/sdk/v2/helper/verif/vout"
	"github.com/openbao/openbao/sdk/v2/logical"
	otplib "github.com/pquerna/otp"
	totplib "github.com/pquerna/otp/totp"
)

type c07MFA struct {
	accessor string
	methodID string
	n        int
}

func c07MFASetup(t *testing.T, s *Sys) *c07MFA {
	s.EnableAuth("ram/", "recauth")
	ar := s.Must(s.Req(s.Root, logical.ReadOperation, "sys/auth", nil))
	m := &c07MFA{}
	if mm, ok := ar.Data["ram/"].(map[string]interface{}); ok {
		m.accessor, _ = mm["accessor"].(string)
	}
	if m.accessor == "" {
		t.Fatalf("harness: no accessor for ram/")
	}
	mr := s.Must(s.Req(s.Root, logical.UpdateOperation, "identity/mfa/method/totp", map[string]interface{}{
		"issuer": "verif", "period": 30, "algorithm": "SHA1", "digits": 6, "skew": 1, "key_size": 20}))
	m.methodID, _ = mr.Data["method_id"].(string)
	if m.methodID == "" {
		t.Fatalf("harness: no TOTP method id: %v", mr.Data)
	}
	s.Must(s.Req(s.Root, logical.UpdateOperation, "identity/mfa/login-enforcement/verif", map[string]interface{}{
		"mfa_method_ids": []string{m.methodID}, "auth_method_accessors": []string{m.accessor}}))
	return m
}

// login performs one two-phase login with a fresh entity; phase-one auth comes from la.
// Returns the response of sys/mfa/validate (nil, "" when phase one already refused).
func (m *c07MFA) login(t *testing.T, s *Sys, la func(alias *logical.Alias) *logical.Auth) (*logical.Response, error, string) {
	m.n++
	name := fmt.Sprintf("u%d", m.n)
	er := s.Must(s.Req(s.Root, logical.UpdateOperation, "identity/entity", map[string]interface{}{"name": "e-" + name}))
	entity, _ := er.Data["id"].(string)
	s.Must(s.Req(s.Root, logical.UpdateOperation, "identity/entity-alias", map[string]interface{}{"name": name, "canonical_id": entity, "mount_accessor": m.accessor}))
	gr := s.Must(s.Req(s.Root, logical.UpdateOperation, "identity/mfa/method/totp/admin-generate", map[string]interface{}{"method_id": m.methodID, "entity_id": entity}))
	url, _ := gr.Data["url"].(string)
	key, err := otplib.NewKeyFromURL(url)
	if err != nil {
		t.Fatalf("harness: TOTP url %q: %v", url, err)
	}
	alias := &logical.Alias{Name: name, MountAccessor: m.accessor, MountType: "recauth"}
	s.Rec.mu.Lock()
	s.Rec.LoginAuth = func(req *logical.Request) *logical.Auth { return la(alias) }
	s.Rec.mu.Unlock()
	r1, e1 := s.Req("", logical.UpdateOperation, "auth/ram/login", map[string]interface{}{})
	if !OK(r1, e1) || r1 == nil || r1.Auth == nil {
		return nil, nil, "phase-one-refused"
	}
	if r1.Auth.ClientToken != "" {
		return r1, nil, "phase-one-token"
	}
	if r1.Auth.MFARequirement == nil {
		return nil, nil, "phase-one-no-requirement"
	}
	code, err := totplib.GenerateCodeCustom(key.Secret(), time.Now(), totplib.ValidateOpts{Period: 30, Skew: 1, Digits: otplib.DigitsSix, Algorithm: otplib.AlgorithmSHA1})
	if err != nil {
		t.Fatalf("harness: TOTP code: %v", err)
	}
	r2, e2 := s.Req("", logical.UpdateOperation, "sys/mfa/validate", map[string]interface{}{
		"mfa_request_id": r1.Auth.MFARequirement.MFARequestID,
		"mfa_payload":    map[string]interface{}{m.methodID: []string{code}}})
	return r2, e2, "validated"
}

func c07PartM(t *testing.T, res *vout.Result, s *Sys, loginSets [][]string, count *int) {
	var m *c07MFA
	for _, ps := range loginSets {
		for _, ttl := range []int{600, 100000 * 3600} {
			for _, typ := range []logical.TokenType{logical.TokenTypeService, logical.TokenTypeBatch} {
				*count++
				if !vout.Mine(*count) {
					continue
				}
				if m == nil {
					m = c07MFASetup(t, s)
				}
				ps, ttl, typ := ps, ttl, typ
				resp, err, how := m.login(t, s, func(alias *logical.Alias) *logical.Auth {
					return &logical.Auth{Policies: ps, TokenType: typ, Alias: alias,
						LeaseOptions: logical.LeaseOptions{TTL: time.Duration(ttl) * time.Second, Renewable: true}}
				})
				res.Add("evaluations", 1)
				res.Add("mfa_logins", 1)
				art := map[string]interface{}{"login_policies": ps, "ttl": ttl, "type": typ.String(), "via": "login MFA (sys/mfa/validate)"}
				if how == "phase-one-token" {
					res.Violate("c07:mfa:token-without-second-factor", fmt.Sprintf("%v: the login answered with a token although an MFA enforcement covers the mount", art), art)
				}
				if how != "validated" || !OK(resp, err) || resp == nil || resp.Auth == nil || resp.Auth.ClientToken == "" {
					res.Add("mfa_refused", 1)
					res.Distinct("nontrivial", fmt.Sprintf("mfa|%v|%s|refused", ps, how))
					continue
				}
				res.Add("mfa_created", 1)
				mk, lerr := c07Lookup(s, resp)
				if lerr != nil {
					mk = &c07Made{policies: resp.Auth.Policies, ttl: resp.Auth.TTL.Seconds(), tokenType: resp.Auth.TokenType.String()}
				}
				all := append(append([]string{}, mk.policies...), resp.Auth.Policies...)
				for _, bad := range []string{"root", "response-wrapping"} {
					if has(all, bad) {
						res.Violate("c07:mfa:non-assignable-policy", fmt.Sprintf("two-phase login returning policies %v produced a token carrying %q (token policies %v)", ps, bad, all), art)
					}
				}
				if mk.ttl > c07MountMax.Seconds()+2 {
					res.Violate("c07:mfa:ttl-exceeds-mount-max", fmt.Sprintf("two-phase login with ttl %ds produced ttl %v", ttl, mk.ttl), art)
				}
				if mk.ttl == 0 {
					res.Violate("c07:mfa:non-expiring-token", fmt.Sprintf("two-phase login produced a token that never expires (%v)", art), art)
				}
				sort.Strings(mk.policies)
				res.Distinct("nontrivial", fmt.Sprintf("mfa|%v|%s", mk.policies, mk.tokenType))
			}
		}
	}
	s.Rec.mu.Lock()
	s.Rec.LoginAuth = nil
	s.Rec.mu.Unlock()
}
