package core

// C12: mounts, cubbyholes and namespaces are confined to their own storage and
// scope.
//
//  M  mount confinement: for every mount of every topology (nested, sibling,
//     prefix-sharing paths; the same backend type mounted several times; mounts
//     inside namespaces; after a remount) and every traversal-style storage key
//     the recording backend is asked to get/put/list/delete that key on the
//     storage the router handed it.  Oracle: every physical operation issued by
//     the backend either fails or touches a key under that mount's own prefix;
//     no physical key outside the prefix changes.
//  C  cubbyhole: a value written with token T is never returned to root, T's
//     parent, T's child or a sibling.
//  N  namespaces: a token of namespace N is refused in every namespace that is
//     not N or below N; policies of N grant nothing outside N.
//  S  sealed namespace: every request into it fails and touches no key under
//     its prefix.

import (
	"time"
	"fmt"
	"sort"
	"strings"
	"testing"

	"github.com/openbao/openbao/sdk/v2/helper/verif/vout"
	"github.com/openbao/openbao/sdk/v2/logical"
	"github.com/openbao/openbao/v2/internal/helper/namespace"
)

var c12Keys = []string{"x", "../x", "/x", "a/../../x", "..", "x/../..", "a/./b", "./x", "a//b", "é/ü", strings.Repeat("k", 300), "..x", "x..", "a/..b/c", "%2e%2e/x", "..\\x"}

type c12Mount struct {
	ns     string // "" root, "ns1/", "ns1/ns2/", "ns3/"
	path   string // mount path relative to the namespace
	auth   bool
	prefix string // discovered physical prefix
}

func c12NS(path string) *namespace.Namespace {
	if path == "" {
		return namespace.RootNamespace
	}
	return &namespace.Namespace{Path: path}
}

func (s *Sys) nsByPath(t *testing.T, path string) *namespace.Namespace {
	if path == "" {
		return namespace.RootNamespace
	}
	// read the namespace through the API of its parent to learn ID/UUID
	parts := strings.Split(strings.TrimSuffix(path, "/"), "/")
	parent := strings.Join(parts[:len(parts)-1], "/")
	if parent != "" {
		parent += "/"
	}
	resp, err := s.ReqNS(s.nsByPath(t, parent), s.Root, logical.ReadOperation, "sys/namespaces/"+parts[len(parts)-1], nil)
	if !OK(resp, err) || resp == nil {
		t.Fatalf("harness: read namespace %s: %s", path, ErrText(resp, err))
	}
	id, _ := resp.Data["id"].(string)
	uuid, _ := resp.Data["uuid"].(string)
	return &namespace.Namespace{ID: id, UUID: uuid, Path: path}
}

func (s *Sys) mkNS(t *testing.T, path string, seal bool) []string {
	parts := strings.Split(strings.TrimSuffix(path, "/"), "/")
	parent := strings.Join(parts[:len(parts)-1], "/")
	if parent != "" {
		parent += "/"
	}
	data := map[string]interface{}{}
	if seal {
		data["seal"] = `seal "shamir" { shares = "1" threshold = "1" }`
	}
	resp, err := s.ReqNS(s.nsByPath(t, parent), s.Root, logical.UpdateOperation, "sys/namespaces/"+parts[len(parts)-1], data)
	if !OK(resp, err) || resp == nil {
		t.Fatalf("harness: create namespace %s: %s", path, ErrText(resp, err))
	}
	var shares []string
	if ks, ok := resp.Data["key_shares"].([]string); ok {
		shares = ks
	}
	return shares
}

// physical ops issued by the backend's storage program during one request
func progOps(s *Sys, from int) []string {
	var out []string
	for _, op := range s.Phys.LogSince(from) {
		if op.Tag == "prog" && op.Err == "" {
			out = append(out, op.Key)
		}
	}
	return out
}

func snapshotOutside(s *Sys, prefix string) map[string]string {
	out := map[string]string{}
	for k, v := range s.Phys.Snapshot() {
		if !strings.HasPrefix(k, prefix) {
			out[k] = string(v)
		}
	}
	return out
}

func (s *Sys) prog(ns *namespace.Namespace, tok, mountPath string, ops []map[string]interface{}) (*logical.Response, error) {
	var l []interface{}
	for _, o := range ops {
		l = append(l, o)
	}
	return s.ReqNS(ns, tok, logical.UpdateOperation, mountPath+"prog", map[string]interface{}{"ops": l})
}

func TestVerifC12(t *testing.T) {
	res := vout.New("C12", "core")
	defer func() {
		if err := res.Write(); err != nil {
			t.Fatal(err)
		}
	}()
	if vout.ReplayPath() != "" {
		t.Log("C12 artefacts name (topology, mount, key, op); re-run the check (deterministic enumeration)")
		return
	}
	topologies := [][]c12Mount{
		// (a mount below another mount's path is refused by the router: "path is already in use")
		{{"", "m/", false, ""}, {"", "x/y/", false, ""}, {"", "mm/", false, ""}, {"", "a/", true, ""}},
		{{"", "m/", false, ""}, {"ns1/", "m/", false, ""}, {"ns1/ns2/", "m/", false, ""}, {"ns3/", "x/y/", false, ""}, {"ns1/", "a/", true, ""}},
	}
	if vout.Thorough() {
		topologies = append(topologies,
			[]c12Mount{{"", "deep/er/mount/", false, ""}, {"", "deeper/", false, ""}, {"ns1/", "deep/", false, ""}, {"ns1/", "mm/", false, ""}, {"ns1/ns2/", "a/", true, ""}, {"ns3/", "a/", true, ""}})
	}
	if i, _ := vout.Shard(); i == 0 {
		c12PartG(t, res)
	}
	count := 0
	for ti, topo := range topologies {
		s := Build(t, Options{})
		nsSet := map[string]bool{}
		for _, m := range topo {
			if m.ns != "" {
				// create ancestors first
				parts := strings.Split(strings.TrimSuffix(m.ns, "/"), "/")
				for i := range parts {
					p := strings.Join(parts[:i+1], "/") + "/"
					if !nsSet[p] {
						s.mkNS(t, p, false)
						nsSet[p] = true
					}
				}
			}
		}
		for i := range topo {
			m := &topo[i]
			ns := s.nsByPath(t, m.ns)
			sysPath := "sys/mounts/"
			typ := "rec"
			if m.auth {
				sysPath, typ = "sys/auth/", "recauth"
			}
			resp, err := s.ReqNS(ns, s.Root, logical.UpdateOperation, sysPath+strings.TrimSuffix(m.path, "/"), map[string]interface{}{"type": typ})
			if !OK(resp, err) {
				t.Fatalf("harness: mount %s%s: %s", m.ns, m.path, ErrText(resp, err))
			}
		}
		// discover each mount's physical prefix with a probe write
		for i := range topo {
			m := &topo[i]
			ns := s.nsByPath(t, m.ns)
			before := s.Phys.Snapshot()
			mp := m.path
			if m.auth {
				mp = "auth/" + m.path
			}
			resp, err := s.prog(ns, s.Root, mp, []map[string]interface{}{{"op": "put", "key": "probe-c12"}})
			if !OK(resp, err) {
				t.Fatalf("harness: probe on %s%s: %s", m.ns, mp, ErrText(resp, err))
			}
			for k := range s.Phys.Snapshot() {
				if _, ok := before[k]; !ok && strings.HasSuffix(k, "/probe-c12") {
					m.prefix = strings.TrimSuffix(k, "probe-c12")
				}
			}
			if m.prefix == "" {
				t.Fatalf("harness: could not discover the storage prefix of %s%s", m.ns, mp)
			}
		}
		// prefixes must be pairwise non-nested (vacuity guard for the oracle itself)
		for i := range topo {
			for j := range topo {
				if i != j && strings.HasPrefix(topo[i].prefix, topo[j].prefix) {
					res.Violate("c12:mount-prefixes-overlap", fmt.Sprintf("topology %d: storage prefix of %s%s (%s) lies inside that of %s%s (%s)", ti, topo[i].ns, topo[i].path, topo[i].prefix, topo[j].ns, topo[j].path, topo[j].prefix), nil)
				}
			}
		}
		// ---- M
		for _, m := range topo {
			ns := s.nsByPath(t, m.ns)
			mp := m.path
			if m.auth {
				mp = "auth/" + m.path
			}
			for _, key := range c12Keys {
				for _, op := range []string{"put", "get", "list", "delete"} {
					count++
					if !vout.Mine(count) {
						continue
					}
					outside := snapshotOutside(s, m.prefix)
					from := s.Phys.LogLen()
					resp, err := s.prog(ns, s.Root, mp, []map[string]interface{}{{"op": op, "key": key}})
					res.Add("evaluations", 1)
					art := map[string]interface{}{"topology": ti, "mount": m.ns + mp, "key": key, "op": op}
					result := "request-refused"
					if OK(resp, err) && resp != nil {
						if rs, ok := resp.Data["results"].([]string); ok && len(rs) == 1 {
							result = rs[0]
							if i := strings.Index(result, ":"); i > 0 && strings.HasPrefix(result, "err") {
								result = "err"
							}
						}
					}
					for _, k := range progOps(s, from) {
						if !strings.HasPrefix(k, m.prefix) {
							res.Violate("c12:mount:backend-touched-key-outside-its-prefix", fmt.Sprintf("%v: the backend's %s(%q) reached physical key %q, outside the mount's prefix %q", art, op, key, k, m.prefix), art)
						}
					}
					after := snapshotOutside(s, m.prefix)
					if len(after) != len(outside) {
						res.Violate("c12:mount:keys-outside-prefix-changed", fmt.Sprintf("%v: number of physical keys outside the mount's prefix changed %d -> %d", art, len(outside), len(after)), art)
					} else {
						for k, v := range outside {
							if after[k] != v && !strings.HasPrefix(k, "sys/expire/") && !strings.HasPrefix(k, "sys/token/") && !strings.HasPrefix(k, "core/") && !strings.HasPrefix(k, "sys/counters") {
								res.Violate("c12:mount:keys-outside-prefix-changed", fmt.Sprintf("%v: physical key %q outside the mount's prefix changed", art, k), art)
							}
						}
					}
					res.Distinct("nontrivial", fmt.Sprintf("M|%d|%s%s|%s|%s|%s", ti, m.ns, mp, keyShape(key), op, strings.SplitN(result, ":", 2)[0]))
					if count%97 == 0 {
						res.Sample(map[string]interface{}{"case": art, "result": result})
					}
				}
			}
		}
		// ---- remount: data follows the mount, prefix stays confined
		if ti == 0 {
			resp, err := s.Req(s.Root, logical.UpdateOperation, "sys/remount", map[string]interface{}{"from": "mm/", "to": "moved/"})
			if OK(resp, err) {
				// remount is asynchronous; wait for it
				for i := 0; i < 2000; i++ {
					r, e := s.prog(namespace.RootNamespace, s.Root, "moved/", []map[string]interface{}{{"op": "get", "key": "probe-c12"}})
					if OK(r, e) {
						break
					}
					s.settle()
				}
				var mm c12Mount
				for _, m := range topo {
					if m.path == "mm/" {
						mm = m
					}
				}
				from := s.Phys.LogLen()
				r, e := s.prog(namespace.RootNamespace, s.Root, "moved/", []map[string]interface{}{{"op": "put", "key": "after-remount"}, {"op": "get", "key": "../x"}})
				res.Add("evaluations", 1)
				if OK(r, e) {
					for _, k := range progOps(s, from) {
						if !strings.HasPrefix(k, mm.prefix) {
							res.Violate("c12:mount:backend-touched-key-outside-its-prefix", fmt.Sprintf("after remount mm/ -> moved/: physical key %q outside %q", k, mm.prefix), nil)
						}
					}
				}
				res.Distinct("nontrivial", "M|remount")
			}
		}
		// ---- C: cubbyhole
		if ti == 0 {
			s.WritePolicy("cub", `path "cubbyhole/*" { capabilities = ["create","read","update","delete","list"] }
path "auth/token/create" { capabilities = ["update"] }`)
			parent := s.CreateToken(s.Root, map[string]interface{}{"policies": []string{"cub"}, "ttl": "1h"})
			t1 := s.CreateToken(parent, map[string]interface{}{"policies": []string{"cub"}, "ttl": "1h"})
			sibling := s.CreateToken(parent, map[string]interface{}{"policies": []string{"cub"}, "ttl": "1h"})
			child := s.CreateToken(t1, map[string]interface{}{"policies": []string{"cub"}, "ttl": "1h"})
			for _, path := range []string{"cubbyhole/secret", "cubbyhole/a/b", "cubbyhole/../x"} {
				resp, err := s.Req(t1, logical.UpdateOperation, path, map[string]interface{}{"v": "CUBBY-CANARY"})
				wrote := OK(resp, err)
				for name, other := range map[string]string{"root": s.Root, "parent": parent, "sibling": sibling, "child": child} {
					for _, rp := range []string{path, "cubbyhole/", "cubbyhole/a/"} {
						for _, op := range []logical.Operation{logical.ReadOperation, logical.ListOperation} {
							r, e := s.Req(other, op, rp, nil)
							res.Add("evaluations", 1)
							if OK(r, e) && strings.Contains(respText(r), "CUBBY-CANARY") {
								res.Violate("c12:cubbyhole:value-visible-to-other-token", fmt.Sprintf("value written to %s with token T is returned to its %s on %s %s", path, name, op, rp), nil)
							}
							if wrote && OK(r, e) && op == logical.ListOperation && r != nil && r.Data != nil && r.Data["keys"] != nil && fmt.Sprint(r.Data["keys"]) != "[]" {
								res.Violate("c12:cubbyhole:listing-visible-to-other-token", fmt.Sprintf("keys of T's cubbyhole listed for its %s: %v", name, r.Data["keys"]), nil)
							}
						}
					}
				}
				if wrote {
					r, e := s.Req(t1, logical.ReadOperation, path, nil)
					if !OK(r, e) || !strings.Contains(respText(r), "CUBBY-CANARY") {
						res.Violate("c12:cubbyhole:owner-cannot-read", fmt.Sprintf("T cannot read back %s", path), nil)
					}
				}
				res.Distinct("nontrivial", fmt.Sprintf("C|%s|%v", path, wrote))
			}
			// token identity reuse: the cubbyhole belongs to the token that wrote it, not to its id.
			// For every way of ending the first token's life, a token issued later with the SAME
			// operator-chosen id must find an empty cubbyhole, and no residue may stay in storage.
			for ri, how := range []string{"revoke", "revoke-self", "revoke-orphan", "revoke-accessor", "lease-revoke"} {
				id := fmt.Sprintf("c12-chosen-id-%d", ri)
				mk := func() (*logical.Response, error) {
					return s.Req(s.Root, logical.UpdateOperation, "auth/token/create", map[string]interface{}{"id": id, "policies": []string{"cub"}, "ttl": "1h"})
				}
				r1, e1 := mk()
				if !OK(r1, e1) || r1 == nil || r1.Auth == nil {
					res.Note("custom-id token refused: %s", ErrText(r1, e1))
					continue
				}
				tokA, accA := r1.Auth.ClientToken, r1.Auth.Accessor
				before := s.Phys.Snapshot()
				if wr, we := s.Req(tokA, logical.UpdateOperation, "cubbyhole/private", map[string]interface{}{"v": "CUBBY-REUSE-CANARY"}); !OK(wr, we) {
					t.Fatalf("harness: cubbyhole write: %s", ErrText(wr, we))
				}
				var fresh []string
				for k := range s.Phys.Snapshot() {
					if _, ok := before[k]; !ok && strings.HasSuffix(k, "/private") {
						fresh = append(fresh, k)
					}
				}
				var rr *logical.Response
				var re error
				switch how {
				case "revoke":
					rr, re = s.Req(s.Root, logical.UpdateOperation, "auth/token/revoke", map[string]interface{}{"token": tokA})
				case "revoke-self":
					rr, re = s.Req(tokA, logical.UpdateOperation, "auth/token/revoke-self", nil)
				case "revoke-orphan":
					rr, re = s.Req(s.Root, logical.UpdateOperation, "auth/token/revoke-orphan", map[string]interface{}{"token": tokA})
				case "revoke-accessor":
					rr, re = s.Req(s.Root, logical.UpdateOperation, "auth/token/revoke-accessor", map[string]interface{}{"accessor": accA})
				case "lease-revoke":
					rr, re = s.Req(s.Root, logical.UpdateOperation, "sys/leases/revoke-prefix/auth/token/create", nil)
				}
				res.Add("evaluations", 1)
				if !OK(rr, re) {
					res.Note("revocation %s refused: %s", how, ErrText(rr, re))
					continue
				}
				s.Drain()
				snap := s.Phys.Snapshot()
				for _, k := range fresh {
					if _, ok := snap[k]; ok {
						res.Violate("c12:cubbyhole:residue-after-revocation", fmt.Sprintf("%s of a token with an operator-chosen id left its cubbyhole entry %q in storage", how, k), map[string]interface{}{"how": how})
					}
				}
				r2, e2 := mk()
				if OK(r2, e2) && r2 != nil && r2.Auth != nil {
					for _, op := range []logical.Operation{logical.ReadOperation, logical.ListOperation} {
						pth := "cubbyhole/private"
						if op == logical.ListOperation {
							pth = "cubbyhole/"
						}
						gr, ge := s.Req(r2.Auth.ClientToken, op, pth, nil)
						if OK(gr, ge) && gr != nil && (strings.Contains(respText(gr), "CUBBY-REUSE-CANARY") || (op == logical.ListOperation && gr.Data != nil && gr.Data["keys"] != nil && fmt.Sprint(gr.Data["keys"]) != "[]")) {
							res.Violate("c12:cubbyhole:inherited-by-reissued-token-id", fmt.Sprintf("after %s, a new token issued with the same id sees the first token's cubbyhole on %s %s: %s", how, op, pth, respText(gr)), map[string]interface{}{"how": how})
						}
					}
					_, _ = s.Req(s.Root, logical.UpdateOperation, "auth/token/revoke", map[string]interface{}{"token": r2.Auth.ClientToken})
					s.Drain()
				} else {
					res.Note("re-creating the token id after %s refused: %s", how, ErrText(r2, e2))
				}
				res.Distinct("nontrivial", "C|id-reuse|"+how)
			}
		}
		// ---- N: namespace scope of tokens and policies
		if ti == 1 {
			ns1 := s.nsByPath(t, "ns1/")
			pol := `path "m/*" { capabilities = ["create","read","update","list"] }
path "ns2/m/*" { capabilities = ["create","read","update","list"] }
path "+/m/*" { capabilities = ["create","read","update","list"] }
path "*" { capabilities = ["read", "update", "list"] }`
			s.Must(s.ReqNS(ns1, s.Root, logical.UpdateOperation, "sys/policies/acl/wide", map[string]interface{}{"policy": pol}))
			resp := s.Must(s.ReqNS(ns1, s.Root, logical.UpdateOperation, "auth/token/create", map[string]interface{}{"policies": []string{"wide"}, "ttl": "1h"}))
			nsTok := resp.Auth.ClientToken
			// siblings whose names merely share a string prefix with the token's namespace
			for _, sib := range []string{"ns1x/", "ns1-b/", "ns11/"} {
				s.mkNS(t, sib, false)
				s.Must(s.ReqNS(s.nsByPath(t, sib), s.Root, logical.UpdateOperation, "sys/mounts/m", map[string]interface{}{"type": "rec"}))
			}
			// a second credential of ns1/: the namespace's own root token (what root
			// generation for a namespace hands out): unrestricted inside ns1/, nothing outside
			nsRoot, rerr := s.Core.VerifNamespaceRootToken(ns1)
			if rerr != nil {
				t.Fatalf("harness: namespace root token: %v", rerr)
			}
			// further credentials of ns1/: tokens whose policy NAMES try to reach a policy of
			// another namespace (ns3/ and the root namespace each hold an all-powerful policy
			// "adm3", written - hence cached - just before)
			admHCL := `path "*" { capabilities = ["create","read","update","delete","list","sudo"] }`
			ns3 := s.nsByPath(t, "ns3/")
			s.Must(s.ReqNS(ns3, s.Root, logical.UpdateOperation, "sys/policies/acl/adm3", map[string]interface{}{"policy": admHCL}))
			s.Must(s.Req(s.Root, logical.UpdateOperation, "sys/policies/acl/adm3", map[string]interface{}{"policy": admHCL}))
			creds := []string{nsTok, nsRoot}
			// a credential of ns1/ whose policy travels INSIDE the token (inline policy, as the
			// OIDC provider's access tokens carry): it is anchored to the token's namespace too
			{
				te := &logical.TokenEntry{NamespaceID: ns1.ID, Path: "verif/inline", TTL: time.Hour, CreationTime: time.Now().Unix(),
					NoIdentityPolicies: true, InlinePolicy: pol}
				if err := s.Core.VerifCreateToken(namespace.ContextWithNamespace(rootCtx(), ns1), te); err != nil || te.ID == "" {
					t.Fatalf("harness: inline-policy token: %v", err)
				}
				if r, e := s.ReqNS(ns1, te.ID, logical.UpdateOperation, "m/kv/x", map[string]interface{}{"value": "v"}); !OK(r, e) {
					r2, e2 := s.ReqNS(ns1, te.ID, logical.ReadOperation, "auth/token/lookup-self", nil)
					t.Fatalf("harness: the inline-policy token of ns1/ is refused inside ns1/: %s; lookup-self: %v %s", ErrText(r, e), r2, ErrText(r2, e2))
				}
				creds = append(creds, te.ID)
			}
			for _, pn := range []string{"../" + ns3.UUID + "/adm3", "../" + namespace.RootNamespaceUUID + "/adm3", "./../" + ns3.UUID + "/adm3", "x/../../" + ns3.UUID + "/adm3", "ns3/adm3", "../adm3", "/adm3"} {
				r, e := s.ReqNS(ns1, s.Root, logical.UpdateOperation, "auth/token/create", map[string]interface{}{"policies": []string{pn}, "ttl": "1h", "no_default_policy": true})
				if OK(r, e) && r != nil && r.Auth != nil {
					creds = append(creds, r.Auth.ClientToken)
					// warm the policy cache the way a first request would
					_, _ = s.ReqNS(ns3, s.Root, logical.ReadOperation, "sys/policies/acl/adm3", nil)
				}
			}
			for _, target := range []string{"", "ns1/", "ns1/ns2/", "ns3/", "ns1x/", "ns1-b/", "ns11/"} {
				tns := s.nsByPath(t, target)
				for _, path := range []string{"m/prog", "m/kv/x", "sys/mounts", "auth/token/lookup-self", "x/y/prog"} {
					for _, op := range []logical.Operation{logical.ReadOperation, logical.UpdateOperation} {
					for ci, nsTok := range creds {
						count++
						s.Rec.Reset()
						r, e := s.ReqNS(tns, nsTok, op, path, map[string]interface{}{"ops": []interface{}{}, "value": "v"})
						if ci == 1 && strings.HasPrefix(target, "ns1/") && path == "m/kv/x" && !OK(r, e) {
							res.Violate("c12:namespace:namespace-root-token-refused-inside", fmt.Sprintf("root token of ns1/ refused in %q on %s %s: %s", target, op, path, ErrText(r, e)), nil)
						}
						res.Add("evaluations", 1)
						inside := strings.HasPrefix(target, "ns1/")
						if !inside {
							if OK(r, e) && path != "auth/token/lookup-self" {
								res.Violate("c12:namespace:token-accepted-outside-its-namespace", fmt.Sprintf("token of ns1/ with a catch-all policy was accepted in namespace %q on %s %s", target, op, path), nil)
							}
							if n := s.Rec.NumOpCalls(); n > 0 {
								res.Violate("c12:namespace:backend-invoked-outside-token-namespace", fmt.Sprintf("token of ns1/: backend in namespace %q invoked on %s %s", target, op, path), nil)
							}
						}
						res.Distinct("nontrivial", fmt.Sprintf("N|%d|%s|%s|%s|%v", ci, target, path, op, OK(r, e)))
					}
					}
				}
			}
			// also: the namespace named in the path instead of the header
			for _, path := range []string{"ns3/x/y/prog", "../m/prog", "ns1/../m/prog"} {
				r, e := s.ReqNS(ns1, nsTok, logical.UpdateOperation, path, map[string]interface{}{"ops": []interface{}{}})
				res.Add("evaluations", 1)
				if OK(r, e) {
					res.Violate("c12:namespace:escape-through-path", fmt.Sprintf("token of ns1/ reached %q from within ns1/", path), nil)
				}
			}
		}
		// ---- S: separately sealed namespace
		if ti == 1 {
			shares := s.mkNS(t, "sealme/", true)
			nsS := s.nsByPath(t, "sealme/")
			if len(shares) > 0 {
				for _, sh := range shares {
					_, _ = s.Req(s.Root, logical.UpdateOperation, "sys/namespaces/sealme/unseal", map[string]interface{}{"key": sh})
				}
				resp, err := s.ReqNS(nsS, s.Root, logical.UpdateOperation, "sys/mounts/m", map[string]interface{}{"type": "rec"})
				if OK(resp, err) {
					before := s.Phys.Snapshot()
					s.Must(s.prog(nsS, s.Root, "m/", []map[string]interface{}{{"op": "put", "key": "sealed-data"}}))
					var prefix string
					for k := range s.Phys.Snapshot() {
						if _, ok := before[k]; !ok && strings.HasSuffix(k, "/sealed-data") {
							prefix = strings.TrimSuffix(k, "m/sealed-data")
							prefix = k[:strings.Index(k, nsS.UUID)+len(nsS.UUID)+1]
						}
					}
					sr, se := s.Req(s.Root, logical.UpdateOperation, "sys/namespaces/sealme/seal", nil)
					if OK(sr, se) && prefix != "" {
						for _, op := range []string{"get", "put", "list", "delete"} {
							from := s.Phys.LogLen()
							snapB := s.Phys.Snapshot()
							r, e := s.prog(nsS, s.Root, "m/", []map[string]interface{}{{"op": op, "key": "sealed-data"}})
							res.Add("evaluations", 1)
							if OK(r, e) {
								res.Violate("c12:sealed-namespace:request-served", fmt.Sprintf("%s on a mount of the sealed namespace succeeded: %s", op, respText(r)), nil)
							}
							for _, o := range s.Phys.LogSince(from) {
								if strings.HasPrefix(o.Key, prefix) && (o.Kind == "put" || o.Kind == "delete") && o.Err == "" {
									res.Violate("c12:sealed-namespace:storage-written", fmt.Sprintf("%s while sealed wrote %s", op, o.Key), nil)
								}
							}
							for k, v := range snapB {
								if strings.HasPrefix(k, prefix) && string(s.Phys.Snapshot()[k]) != string(v) {
									res.Violate("c12:sealed-namespace:storage-written", fmt.Sprintf("%s while sealed changed %s", op, k), nil)
								}
							}
							res.Distinct("nontrivial", "S|"+op)
						}
					} else {
						res.Note("sealed-namespace part skipped: seal=%s prefix=%q", ErrText(sr, se), prefix)
					}
				} else {
					res.Note("sealed-namespace part skipped: mount failed: %s", ErrText(resp, err))
				}
			} else {
				res.Note("sealed-namespace part skipped: namespace creation returned no key shares")
			}
		}
		// ---- S2: a separately sealed namespace NESTED in another one. Both are unsealed and
		// hold data; the outer one is sealed (which seals everything below it) and unsealed
		// again with ITS shares only: the inner one has its own seal, none of its shares
		// were supplied, so it must still be sealed - and once it is unsealed with its own
		// shares its data must be there.
		if ti == 1 {
			oShares := s.mkNS(t, "outer/", true)
			for _, sh := range oShares {
				_, _ = s.Req(s.Root, logical.UpdateOperation, "sys/namespaces/outer/unseal", map[string]interface{}{"key": sh})
			}
			nsO := s.nsByPath(t, "outer/")
			ir, ie := s.ReqNS(nsO, s.Root, logical.UpdateOperation, "sys/namespaces/inner", map[string]interface{}{"seal": `seal "shamir" { shares = "1" threshold = "1" }`})
			var iShares []string
			if OK(ir, ie) && ir != nil {
				iShares, _ = ir.Data["key_shares"].([]string)
			}
			if len(oShares) > 0 && len(iShares) > 0 {
				for _, sh := range iShares {
					_, _ = s.ReqNS(nsO, s.Root, logical.UpdateOperation, "sys/namespaces/inner/unseal", map[string]interface{}{"key": sh})
				}
				nsI := s.nsByPath(t, "outer/inner/")
				s.Must(s.ReqNS(nsI, s.Root, logical.UpdateOperation, "sys/mounts/m", map[string]interface{}{"type": "rec"}))
				s.Must(s.prog(nsI, s.Root, "m/", []map[string]interface{}{{"op": "put", "key": "inner-data"}}))
				if sr, se := s.Req(s.Root, logical.UpdateOperation, "sys/namespaces/outer/seal", nil); OK(sr, se) {
					for _, sh := range oShares {
						_, _ = s.Req(s.Root, logical.UpdateOperation, "sys/namespaces/outer/unseal", map[string]interface{}{"key": sh})
					}
					s.settle()
					for _, op := range []string{"get", "put", "list", "delete"} {
						from := s.Phys.LogLen()
						r, e := s.prog(nsI, s.Root, "m/", []map[string]interface{}{{"op": op, "key": "inner-data"}})
						res.Add("evaluations", 1)
						if OK(r, e) {
							res.Violate("c12:sealed-namespace:nested-namespace-served-without-its-own-shares", fmt.Sprintf("%s on a mount of outer/inner/ succeeded after only outer/ was unsealed: %s", op, respText(r)), nil)
						}
						for _, o := range s.Phys.LogSince(from) {
							if strings.Contains(o.Key, nsI.UUID) && (o.Kind == "put" || o.Kind == "delete") && o.Err == "" {
								res.Violate("c12:sealed-namespace:storage-written", fmt.Sprintf("%s on the still sealed nested namespace wrote %s", op, o.Key), nil)
							}
						}
						res.Distinct("nontrivial", "S2|"+op)
					}
					// its own shares open it, and the data is there
					for _, sh := range iShares {
						_, _ = s.ReqNS(nsO, s.Root, logical.UpdateOperation, "sys/namespaces/inner/unseal", map[string]interface{}{"key": sh})
					}
					s.settle()
					if r, e := s.prog(nsI, s.Root, "m/", []map[string]interface{}{{"op": "get", "key": "inner-data"}}); !OK(r, e) || !strings.Contains(respText(r), "PROG-VALUE") {
						res.Note("nested sealed namespace: after unsealing with its own shares the data is not readable: %s %s", respText(r), ErrText(r, e))
					}
				} else {
					res.Note("nested sealed-namespace part skipped: seal of outer/ failed: %s", ErrText(sr, se))
				}
			} else {
				res.Note("nested sealed-namespace part skipped: no key shares (outer %d, inner %d: %s)", len(oShares), len(iShares), ErrText(ir, ie))
			}
		}
		s.Close()
	}
	sort.Strings(c12Keys)
	res.Bound("traversal_keys", len(c12Keys))
	res.Bound("topologies", len(topologies))
}

func keyShape(k string) string {
	if len(k) > 40 {
		return "long"
	}
	return k
}
