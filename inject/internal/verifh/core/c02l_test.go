package core

// C02 part L: credential-state x path-form x operation lattice through Core.HandleRequest and
// through the in-process HTTP handler (ServeMux cleaning, buildLogicalPath, token headers).

import (
	"bytes"
	"fmt"
	"net/http"
	"net/http/httptest"
	"net/url"
	"sort"
	"strings"
	"testing"
	"time"

	sockaddr "github.com/hashicorp/go-sockaddr"
	"github.com/openbao/openbao/sdk/v2/helper/verif/c03ref"
	"github.com/openbao/openbao/sdk/v2/helper/verif/vout"
	"github.com/openbao/openbao/sdk/v2/logical"
	vaulthttp "github.com/openbao/openbao/v2/internal/http"
	"github.com/openbao/openbao/v2/internal/vault"
)

// ---------------------------------------------------------------- shared fixture pieces

type c02Fix struct {
	*c02Driver
	w       *c02World
	creds   []*c02Cred
	byName  map[string]*c02Cred
	handler http.Handler
	plain   map[string]string // physical key -> plaintext the fixture stored there (rec mounts)
	keyset  map[string]bool   // non-bookkeeping physical keys of the finished fixture
	nsID    map[string]string
	dirty   int
}

func c02Caps(names ...string) uint16 { return c03ref.NamesToRef(names) }

func c02HCL(rules []c03ref.Stanza) string {
	var b strings.Builder
	for _, r := range rules {
		var q []string
		for _, c := range c03ref.CapList(r.Caps) {
			q = append(q, fmt.Sprintf("%q", c))
		}
		fmt.Fprintf(&b, "path %q { capabilities = [%s] }\n", r.Pat, strings.Join(q, ", "))
	}
	return b.String()
}

// policy writes a policy through the API of its namespace and records it in the reference.
func (f *c02Fix) policy(ns, name string, rules ...c03ref.Stanza) {
	hcl := "# " + c02Canary + "policy-" + name + "\n" + c02HCL(rules)
	f.s.Must(f.s.ReqNS(f.nsObj[ns], f.s.Root, logical.UpdateOperation, "sys/policies/acl/"+name, map[string]interface{}{"policy": hcl}))
	f.w.Pols[ns+"|"+name] = c03ref.Pol{NS: ns, Rules: rules}
}

func c02St(pat string, caps ...string) c03ref.Stanza {
	return c03ref.Stanza{Pat: pat, Caps: c02Caps(caps...)}
}

var c02LoginSpecs = map[string]func() *logical.Auth{}

func c02CIDR(s string) []*sockaddr.SockAddrMarshaler {
	sa, err := sockaddr.NewSockAddr(s)
	if err != nil {
		panic(err)
	}
	return []*sockaddr.SockAddrMarshaler{{SockAddr: sa}}
}

func c02InstallLogin(s *Sys) {
	s.Rec.mu.Lock()
	s.Rec.LoginAuth = func(req *logical.Request) *logical.Auth {
		name, _ := req.Data["spec"].(string)
		if mk := c02LoginSpecs[name]; mk != nil {
			return mk()
		}
		return nil // the lattice's own login requests create nothing
	}
	s.Rec.mu.Unlock()
}

// c02Base builds what all three parts share: namespaces ns1/ and ns2/, recording mounts
// (root: m/ mm/ x/y/ auth/a/ auth/b/; ns1: m/ auth/a/; ns2: m/), seeded data, a known default policy.
func c02Base(t *testing.T, s *Sys) *c02Fix {
	c02InstallLogin(s)
	s.mkNS(t, "ns1/", false)
	s.mkNS(t, "ns2/", false)
	f := &c02Fix{w: &c02World{NS: []string{"", "ns1/", "ns2/"}, Locked: map[string]bool{}, Pols: map[string]c03ref.Pol{}, Ents: map[string]*c02Entity{}, Groups: map[string][]string{}},
		byName: map[string]*c02Cred{}, plain: map[string]string{}, nsID: map[string]string{}}
	f.c02Driver = c02NewDriver(t, s, f.w.NS)
	for _, n := range f.w.NS {
		f.nsID[n] = f.nsObj[n].ID
		for _, sm := range [][2]string{{"sys/", "sys"}, {"auth/token/", "token"}, {"identity/", "other"}, {"cubbyhole/", "other"}} {
			f.w.Mounts = append(f.w.Mounts, &c02Mount{Abs: n + sm[0], NS: n, Kind: sm[1]})
		}
	}
	type mt struct{ ns, path, kind string }
	for _, m := range []mt{{"", "m/", "rec"}, {"", "mm/", "rec"}, {"", "x/y/", "rec"}, {"", "auth/a/", "recauth"}, {"", "auth/b/", "recauth"}, {"ns1/", "m/", "rec"}, {"ns1/", "auth/a/", "recauth"}, {"ns2/", "m/", "rec"}} {
		api, typ := "sys/mounts/", "rec"
		if m.kind == "recauth" {
			api, typ = "sys/", "recauth"
		}
		s.Must(s.ReqNS(f.nsObj[m.ns], s.Root, logical.UpdateOperation, api+strings.TrimSuffix(m.path, "/"), map[string]interface{}{"type": typ}))
		mo := &c02Mount{Abs: m.ns + m.path, NS: m.ns, Kind: m.kind}
		// discover the storage prefix with a probe write
		f.resnap()
		s.Must(s.ReqNS(f.nsObj[m.ns], s.Root, logical.UpdateOperation, m.path+"kv/zz-probe", map[string]interface{}{"value": "p"}))
		ch, _ := f.diff()
		for _, k := range ch {
			if strings.HasSuffix(k, "/kv/zz-probe") {
				mo.Prefix = strings.TrimSuffix(k, "kv/zz-probe")
			}
		}
		if mo.Prefix == "" {
			t.Fatalf("harness: storage prefix of %s not found (changed %v)", mo.Abs, ch)
		}
		s.Must(s.ReqNS(f.nsObj[m.ns], s.Root, logical.DeleteOperation, m.path+"kv/zz-probe", nil))
		f.w.Mounts = append(f.w.Mounts, mo)
	}
	for _, n := range f.w.NS {
		f.policy(n, "default", c02St("auth/token/lookup-self", "read"))
	}
	// the token store creates the salt of a namespace lazily, on the first token id it has to
	// hash there - even for a credential that names nothing.  The fixture gets that one-time
	// initialisation out of the way (a token is created in every namespace).
	for _, n := range f.w.NS {
		s.Must(s.ReqNS(f.nsObj[n], s.Root, logical.UpdateOperation, "auth/token/create", map[string]interface{}{"policies": []string{"default"}, "ttl": "100h"}))
	}
	// mounts the test core brings along (configuration, not behaviour): known to the reference
	// as plain authenticated mounts
	for _, n := range f.w.NS {
		for _, table := range []string{"sys/mounts", "sys/auth"} {
			resp := s.Must(s.ReqNS(f.nsObj[n], s.Root, logical.ReadOperation, table, nil))
			for p := range resp.Data {
				abs := n + p
				if table == "sys/auth" {
					abs = n + "auth/" + p
				}
				if strings.HasSuffix(p, "/") && f.mount(abs) == nil {
					f.w.Mounts = append(f.w.Mounts, &c02Mount{Abs: abs, NS: n, Kind: "other"})
				}
			}
		}
	}
	return f
}

func (f *c02Fix) mount(abs string) *c02Mount {
	for _, m := range f.w.Mounts {
		if m.Abs == abs {
			return m
		}
	}
	return nil
}

// seed stores a value through the API as root and remembers the plaintext.
func (f *c02Fix) seed(ns, path, value string) {
	f.s.Must(f.s.ReqNS(f.nsObj[ns], f.s.Root, logical.UpdateOperation, path, map[string]interface{}{"value": value}))
	m := f.w.mountFor(ns, ns+path)
	f.plain[m.Prefix+strings.TrimPrefix(ns+path, m.Abs)] = value
}

func (f *c02Fix) create(ns, parent string, data map[string]interface{}) (string, string) {
	if _, ok := data["ttl"]; !ok {
		data["ttl"] = "100h"
	}
	path := "auth/token/create"
	if o, _ := data["orphan!"].(bool); o {
		delete(data, "orphan!")
		path = "auth/token/create-orphan"
	}
	resp := f.s.Must(f.s.ReqNS(f.nsObj[ns], parent, logical.UpdateOperation, path, data))
	if resp == nil || resp.Auth == nil {
		f.t.Fatalf("harness: token create returned no auth")
	}
	return resp.Auth.ClientToken, resp.Auth.Accessor
}

func (f *c02Fix) login(ns, mountPath, spec string) *logical.Auth {
	resp := f.s.Must(f.s.ReqNS(f.nsObj[ns], "", logical.UpdateOperation, mountPath, map[string]interface{}{"spec": spec}))
	if resp == nil || resp.Auth == nil || resp.Auth.ClientToken == "" {
		f.t.Fatalf("harness: login %s returned no token", spec)
	}
	return resp.Auth
}

func (f *c02Fix) add(c *c02Cred) *c02Cred {
	if c.Kind == "" {
		c.Kind = "service"
	}
	if f.byName[c.Name] != nil {
		f.t.Fatalf("harness: duplicate credential %s", c.Name)
	}
	f.creds = append(f.creds, c)
	f.byName[c.Name] = c
	return c
}

func (f *c02Fix) tokenLeases(ns, prefix string) map[string]bool {
	out := map[string]bool{}
	lr, lerr := f.s.ReqNS(f.nsObj[ns], f.s.Root, logical.ListOperation, "sys/leases/lookup/"+prefix, nil)
	if OK(lr, lerr) && lr != nil && lr.Data != nil {
		keys, _ := lr.Data["keys"].([]string)
		for _, k := range keys {
			out[prefix+k] = true
		}
	}
	return out
}

func (f *c02Fix) restart() {
	img := f.s.Image()
	f.s.Close()
	ns, err := BootData(f.t, img.Data, img)
	if err != nil {
		f.t.Fatalf("harness: restart failed: %v", err)
	}
	f.s = ns
	f.c02Driver.s = ns
	f.resnap()
}

// ---------------------------------------------------------------- the lattice fixture

func svcLogin(pols []string, mod func(a *logical.Auth)) func() *logical.Auth {
	return func() *logical.Auth {
		a := &logical.Auth{Policies: append([]string{}, pols...), NoDefaultPolicy: true,
			LeaseOptions: logical.LeaseOptions{TTL: 100 * time.Hour, Renewable: true}, DisplayName: "u"}
		if mod != nil {
			mod(a)
		}
		return a
	}
}

func c02BuildL(t *testing.T) *c02Fix {
	s := Build(t, Options{})
	f := c02Base(t, s)

	// ---- data
	f.seed("", "m/kv/a", c02Canary+"m-a")
	f.seed("", "m/kv/denied", c02Canary+"m-denied")
	f.seed("", "m/rootonly/r", c02Canary+"m-rootonly")
	f.seed("", "m/open/x", "OPEN-m-x")
	f.seed("", "mm/kv/a", c02Canary+"mm-a")
	f.seed("", "x/y/kv/a", c02Canary+"xy-a")
	f.seed("", "auth/a/kv/a", c02Canary+"auth-a")
	f.seed("", "auth/a/rootonly/r", c02Canary+"auth-rootonly")
	f.seed("ns1/", "m/kv/a", c02Canary+"ns1-m-a")
	f.seed("ns1/", "m/rootonly/r", c02Canary+"ns1-m-rootonly")
	f.seed("ns1/", "m/open/x", "OPEN-ns1-m-x")
	f.seed("ns2/", "m/kv/a", c02Canary+"ns2-m-a")

	// ---- policy lattice: exact, trailing glob, deny, sudo, namespace-local, cross-namespace
	all := []string{"create", "read", "update", "delete", "list", "patch", "scan"}
	f.policy("", "pa", c02St("m/kv/a", "read"))
	f.policy("", "pg", c02St("m/kv/*", all...))
	f.policy("", "pd", c02St("m/kv/*", "read", "list"), c02St("m/kv/denied", "deny"), c02St("auth/a/kv/*", "read"))
	f.policy("", "ps", c02St("m/rootonly/*", "read", "list", "update", "sudo"), c02St("sys/raw/*", "read", "list", "sudo"), c02St("auth/a/rootonly/*", "read", "sudo"))
	f.policy("", "pl", c02St("m/rootonly/*", "read", "list", "update", "create"), c02St("sys/raw/*", "read", "list"), c02St("auth/token/accessors/", "list"), c02St("sys/audit", "read"), c02St("auth/a/rootonly/*", "read", "list"))
	f.policy("", "pmm", c02St("mm/kv/*", "read", "list", "update", "create"), c02St("x/y/kv/*", "read"))
	f.policy("", "pcross", c02St("ns1/m/kv/*", "read", "list"), c02St("ns1/m/rootonly/*", "read"))
	f.policy("", "psys", c02St("sys/mounts", "read"), c02St("sys/policies/acl/*", "read", "list"), c02St("sys/auth", "read"))
	f.policy("", "pself", c02St("auth/token/revoke-self", "update"), c02St("auth/token/create", "update"))
	f.policy("ns1/", "pns", c02St("m/kv/*", "read", "list", "update", "create", "delete"), c02St("sys/mounts", "read"))
	f.policy("ns1/", "pnss", c02St("m/rootonly/*", "read", "sudo"))
	// a policy of the same NAME in another namespace must not leak: "pg" in ns2 grants nothing useful
	f.policy("ns2/", "pg", c02St("m/kv/*", "read", "list"))
	// written with a leading slash: still relative to the policy's namespace
	f.policy("ns1/", "pnsabs", c02St("/m/kv/*", "read", "list"), c02St("/ns2/m/kv/*", "read"))

	nodef := func(pols ...string) map[string]interface{} {
		return map[string]interface{}{"policies": pols, "no_default_policy": true}
	}

	// ---- live credentials
	f.add(&c02Cred{Name: "root", Class: "live-root", Token: s.Root, Live: true, Root: true})
	for _, p := range []string{"pa", "pg", "pd", "ps", "pl", "pmm", "pcross", "psys"} {
		tok, _ := f.create("", s.Root, nodef(p))
		f.add(&c02Cred{Name: "t-" + p, Class: "live-policy", Token: tok, Live: true, Pols: []string{p}})
	}
	tokNS, _ := f.create("ns1/", s.Root, nodef("pns"))
	f.add(&c02Cred{Name: "t-pns", Class: "live-policy", Token: tokNS, Live: true, NS: "ns1/", Pols: []string{"pns"}})
	for _, pr := range [][2]string{{"pa", "pd"}, {"pg", "pd"}, {"pa", "ps"}, {"pl", "ps"}, {"pg", "pmm"}, {"pd", "pcross"}} {
		tok, _ := f.create("", s.Root, map[string]interface{}{"policies": []string{pr[0], pr[1]}})
		f.add(&c02Cred{Name: "t-" + pr[0] + "+" + pr[1], Class: "live-pair", Token: tok, Live: true, Pols: []string{"default", pr[0], pr[1]}})
	}
	{
		d := nodef("pg")
		d["orphan!"] = true
		tok, _ := f.create("", s.Root, d)
		f.add(&c02Cred{Name: "t-orphan", Class: "live-orphan", Token: tok, Live: true, Pols: []string{"pg"}})
	}
	c02LoginSpecs["nopol"] = svcLogin(nil, nil)
	f.add(&c02Cred{Name: "t-nopolicy", Class: "live-nopolicy", Token: f.login("", "auth/a/login", "nopol").ClientToken, Live: true})
	// entities
	c02LoginSpecs["e-live"] = svcLogin(nil, func(a *logical.Auth) { a.Alias = &logical.Alias{Name: "e-live"} })
	c02LoginSpecs["e-dis"] = svcLogin([]string{"pg"}, func(a *logical.Auth) { a.Alias = &logical.Alias{Name: "e-dis"} })
	c02LoginSpecs["e-dis-batch"] = svcLogin([]string{"pg"}, func(a *logical.Auth) {
		a.Alias = &logical.Alias{Name: "e-dis"}
		a.TokenType = logical.TokenTypeBatch
	})
	c02LoginSpecs["e-del"] = svcLogin([]string{"pg"}, func(a *logical.Auth) { a.Alias = &logical.Alias{Name: "e-del"} })
	aLive := f.login("", "auth/a/login", "e-live")
	f.w.Ents["e-live"] = &c02Entity{Pols: []string{"pg"}}
	s.Must(s.Req(s.Root, logical.UpdateOperation, "identity/entity/id/"+aLive.EntityID, map[string]interface{}{"policies": []string{"pg"}}))
	f.add(&c02Cred{Name: "t-entity", Class: "live-entity", Token: aLive.ClientToken, Live: true, Entity: "e-live"})
	aDis := f.login("", "auth/a/login", "e-dis")
	aDisB := f.login("", "auth/a/login", "e-dis-batch")
	aDel := f.login("", "auth/a/login", "e-del")
	if aLive.EntityID == "" || aDis.EntityID == "" || aDis.EntityID != aDisB.EntityID || aDel.EntityID == "" {
		t.Fatalf("harness: entities were not created by login (%q %q %q %q)", aLive.EntityID, aDis.EntityID, aDisB.EntityID, aDel.EntityID)
	}
	f.w.Ents["e-dis"] = &c02Entity{Disabled: true}
	f.w.Ents["e-del"] = &c02Entity{Deleted: true}
	f.add(&c02Cred{Name: "t-entity-disabled", Class: "entity-disabled", Token: aDis.ClientToken, Live: true, Pols: []string{"pg"}, Entity: "e-dis"})
	f.add(&c02Cred{Name: "t-entity-disabled-batch", Class: "entity-disabled", Token: aDisB.ClientToken, Live: true, Pols: []string{"pg"}, Entity: "e-dis", Kind: "batch"})
	f.add(&c02Cred{Name: "t-entity-deleted", Class: "entity-deleted", Token: aDel.ClientToken, Live: true, Pols: []string{"pg"}, Entity: "e-del"})
	// CIDR-bound
	c02LoginSpecs["cidr"] = svcLogin([]string{"pg"}, func(a *logical.Auth) { a.BoundCIDRs = c02CIDR("10.1.0.0/16") })
	c02LoginSpecs["cidr-batch"] = svcLogin([]string{"pg"}, func(a *logical.Auth) {
		a.BoundCIDRs = c02CIDR("10.1.0.0/16")
		a.TokenType = logical.TokenTypeBatch
	})
	c02LoginSpecs["cidr-ns"] = svcLogin([]string{"pns"}, func(a *logical.Auth) { a.BoundCIDRs = c02CIDR("10.1.0.0/16") })
	cs, cb, cn := f.login("", "auth/a/login", "cidr").ClientToken, f.login("", "auth/a/login", "cidr-batch").ClientToken, f.login("ns1/", "auth/a/login", "cidr-ns").ClientToken
	f.add(&c02Cred{Name: "t-cidr", Class: "live-cidr", Token: cs, Live: true, Pols: []string{"pg"}, CIDR: "10.1.0.0/16", Addr: "10.1.2.3"})
	f.add(&c02Cred{Name: "t-cidr-batch", Class: "live-cidr", Token: cb, Live: true, Pols: []string{"pg"}, CIDR: "10.1.0.0/16", Addr: "10.1.255.254", Kind: "batch"})
	f.add(&c02Cred{Name: "t-cidr-out", Class: "cidr-mismatch", Token: cs, Live: true, Pols: []string{"pg"}, CIDR: "10.1.0.0/16", Addr: "10.2.0.1"})
	f.add(&c02Cred{Name: "t-cidr-batch-out", Class: "cidr-mismatch", Token: cb, Live: true, Pols: []string{"pg"}, CIDR: "10.1.0.0/16", Addr: "127.0.0.1", Kind: "batch"})
	f.add(&c02Cred{Name: "t-cidr-ns-out", Class: "cidr-mismatch", Token: cn, Live: true, NS: "ns1/", Pols: []string{"pns"}, CIDR: "10.1.0.0/16", Addr: "192.168.1.1"})
	// batch
	parent, _ := f.create("", s.Root, nodef("pg", "pself"))
	bt, _ := f.create("", parent, map[string]interface{}{"policies": []string{"pg"}, "no_default_policy": true, "type": "batch"})
	f.add(&c02Cred{Name: "t-batch", Class: "live-batch", Token: bt, Live: true, Pols: []string{"pg"}, Kind: "batch"})
	c02LoginSpecs["batch"] = svcLogin([]string{"pd"}, func(a *logical.Auth) { a.TokenType = logical.TokenTypeBatch })
	bl := f.login("", "auth/a/login", "batch").ClientToken
	f.add(&c02Cred{Name: "t-batch-login", Class: "live-batch", Token: bl, Live: true, Pols: []string{"pd"}, Kind: "batch"})
	if !strings.HasPrefix(bl, "hvb.") || !strings.HasPrefix(bt, "hvb.") {
		t.Fatalf("harness: unexpected batch token form %q", bl)
	}
	f.add(&c02Cred{Name: "t-batch-legacy-prefix", Class: "live-batch-respelled", Token: "b." + bl[4:], Live: true, Pols: []string{"pd"}, Kind: "batch"})
	// namespace tokens
	c02LoginSpecs["ns-batch"] = svcLogin([]string{"pns"}, func(a *logical.Auth) { a.TokenType = logical.TokenTypeBatch })
	c02LoginSpecs["ns-svc"] = svcLogin([]string{"pns", "pnss"}, nil)
	nb := f.login("ns1/", "auth/a/login", "ns-batch").ClientToken
	f.add(&c02Cred{Name: "t-ns-batch", Class: "live-ns", Token: nb, Live: true, NS: "ns1/", Pols: []string{"pns"}, Kind: "batch"})
	f.add(&c02Cred{Name: "t-ns-login", Class: "live-ns", Token: f.login("ns1/", "auth/a/login", "ns-svc").ClientToken, Live: true, NS: "ns1/", Pols: []string{"pns", "pnss"}})
	tokNSdef, _ := f.create("ns1/", s.Root, map[string]interface{}{"policies": []string{"default"}})
	f.add(&c02Cred{Name: "t-ns-default", Class: "live-ns", Token: tokNSdef, Live: true, NS: "ns1/", Pols: []string{"default"}})
	{
		d := nodef("pns")
		d["orphan!"] = true
		tok, _ := f.create("ns1/", s.Root, d)
		f.add(&c02Cred{Name: "t-ns-orphan", Class: "live-ns", Token: tok, Live: true, NS: "ns1/", Pols: []string{"pns"}})
	}
	tokNSabs, _ := f.create("ns1/", s.Root, nodef("pnsabs"))
	f.add(&c02Cred{Name: "t-ns-abs", Class: "live-ns", Token: tokNSabs, Live: true, NS: "ns1/", Pols: []string{"pnsabs"}})
	if i := strings.LastIndex(nb, "."); i > 0 {
		f.add(&c02Cred{Name: "t-ns-batch-other-suffix", Class: "live-batch-respelled", Token: nb[:i] + "." + f.nsID["ns2/"], Live: true, NS: "ns1/", Pols: []string{"pns"}, Kind: "batch"})
	} else {
		t.Fatalf("harness: namespace batch token has no routing suffix: %q", nb)
	}
	// use-limited, far from exhaustion
	{
		d := nodef("pg")
		d["num_uses"] = 100000000
		tok, _ := f.create("", s.Root, d)
		f.add(&c02Cred{Name: "t-uses", Class: "live-uses", Token: tok, Live: true, Pols: []string{"pg"}, Uses: true})
		c02LoginSpecs["uses"] = svcLogin([]string{"pd"}, func(a *logical.Auth) { a.NumUses = 100000000 })
		f.add(&c02Cred{Name: "t-uses-login", Class: "live-uses", Token: f.login("", "auth/a/login", "uses").ClientToken, Live: true, Pols: []string{"pd"}, Uses: true})
	}
	// inner identifiers of signed service tokens
	pgTok := f.byName["t-pg"].Token
	_, _, innerPG, ok1 := c02ServiceParts(pgTok)
	_, _, innerNS, ok2 := c02ServiceParts(tokNS)
	if !ok1 || !ok2 || !strings.HasPrefix(innerPG, "hvs.") || !strings.HasSuffix(innerNS, "."+f.nsID["ns1/"]) {
		t.Fatalf("harness: cannot decode signed service tokens (%v %v %q %q)", ok1, ok2, innerPG, innerNS)
	}
	f.add(&c02Cred{Name: "t-pg-inner-id", Class: "live-inner-id", Token: innerPG, Live: true, Pols: []string{"pg"}})
	f.add(&c02Cred{Name: "t-pns-inner-id", Class: "live-inner-id", Token: innerNS, Live: true, NS: "ns1/", Pols: []string{"pns"}})

	// ---- dead credentials: created alive here, killed below
	dead := func(name, class, why, tok string, pols []string, ns, kind string) {
		f.add(&c02Cred{Name: name, Class: class, Why: why, Token: tok, Pols: pols, NS: ns, Kind: kind})
	}
	type victim struct {
		name, how, tok, acc, lease string
		fin                        bool
	}
	var victims []*victim
	c02LoginSpecs["victim"] = svcLogin([]string{"pg"}, nil)
	for _, fin := range []bool{true, false} {
		sfx := "-pending"
		if fin {
			sfx = "-final"
		}
		for _, how := range []string{"revoke", "revoke-self", "revoke-orphan", "revoke-accessor", "lease-revoke", "lease-revoke-prefix", "lease-revoke-force", "parent-revoke"} {
			v := &victim{name: "t-revoked-" + how + sfx, how: how, fin: fin}
			switch how {
			case "lease-revoke-prefix", "lease-revoke-force":
				v.tok = f.login("", "auth/b/login/"+how+sfx, "victim").ClientToken
			case "parent-revoke":
				p, _ := f.create("", s.Root, nodef("pg", "pself"))
				v.acc = p // the parent is what gets revoked
				v.tok, _ = f.create("", p, nodef("pg"))
			case "lease-revoke":
				before := f.tokenLeases("", "auth/token/create/")
				v.tok, v.acc = f.create("", s.Root, nodef("pg", "pself"))
				for id := range f.tokenLeases("", "auth/token/create/") {
					if !before[id] {
						v.lease = id
					}
				}
				if v.lease == "" {
					t.Fatalf("harness: lease of %s not found", v.name)
				}
			default:
				v.tok, v.acc = f.create("", s.Root, nodef("pg", "pself"))
			}
			victims = append(victims, v)
			dead(v.name, "revoked", "revoked", v.tok, []string{"pg"}, "", "")
		}
	}
	kill := func(v *victim) {
		var resp *logical.Response
		var err error
		switch v.how {
		case "revoke":
			resp, err = s.Req(s.Root, logical.UpdateOperation, "auth/token/revoke", map[string]interface{}{"token": v.tok})
		case "revoke-self":
			resp, err = s.Req(v.tok, logical.UpdateOperation, "auth/token/revoke-self", nil)
		case "revoke-orphan":
			resp, err = s.Req(s.Root, logical.UpdateOperation, "auth/token/revoke-orphan", map[string]interface{}{"token": v.tok})
		case "revoke-accessor":
			resp, err = s.Req(s.Root, logical.UpdateOperation, "auth/token/revoke-accessor", map[string]interface{}{"accessor": v.acc})
		case "lease-revoke":
			resp, err = s.Req(s.Root, logical.UpdateOperation, "sys/leases/revoke", map[string]interface{}{"lease_id": v.lease})
		case "lease-revoke-prefix":
			resp, err = s.Req(s.Root, logical.UpdateOperation, "sys/leases/revoke-prefix/auth/b/login/"+strings.TrimPrefix(v.name, "t-revoked-"), nil)
		case "lease-revoke-force":
			resp, err = s.Req(s.Root, logical.UpdateOperation, "sys/leases/revoke-force/auth/b/login/"+strings.TrimPrefix(v.name, "t-revoked-"), nil)
		case "parent-revoke":
			resp, err = s.Req(s.Root, logical.UpdateOperation, "auth/token/revoke", map[string]interface{}{"token": v.acc})
		}
		if !OK(resp, err) {
			t.Fatalf("harness: %s failed: %s", v.name, ErrText(resp, err))
		}
	}
	// expired: 1h tokens die at the first ageing (and are drained), 3h tokens at the second one (not drained)
	ttl := func(d map[string]interface{}, v string) map[string]interface{} { d["ttl"] = v; return d }
	e1, _ := f.create("", s.Root, ttl(nodef("pg"), "1h"))
	dead("t-expired-final", "expired", "expired", e1, []string{"pg"}, "", "")
	e2, _ := f.create("", s.Root, ttl(nodef("pg"), "3h"))
	dead("t-expired-pending", "expired", "expired", e2, []string{"pg"}, "", "")
	e3, _ := f.create("ns1/", s.Root, ttl(nodef("pns"), "3h"))
	dead("t-expired-ns-pending", "expired", "expired", e3, []string{"pns"}, "ns1/", "")
	c02LoginSpecs["batch-short"] = svcLogin([]string{"pg"}, func(a *logical.Auth) {
		a.TokenType = logical.TokenTypeBatch
		a.TTL = time.Second
	})
	dead("t-expired-batch", "expired", "expired", f.login("", "auth/a/login", "batch-short").ClientToken, []string{"pg"}, "", "batch")
	shortMade := time.Now()
	// exhausted
	uses := func(n int) string {
		d := nodef("pg")
		d["num_uses"] = n
		tok, _ := f.create("", s.Root, d)
		return tok
	}
	x1, x2, x3 := uses(1), uses(1), uses(2)
	f.add(&c02Cred{Name: "t-exhausted-final", Class: "exhausted", Why: "exhausted", Token: x1, Pols: []string{"pg"}, Uses: true, Kind: "service"})
	f.add(&c02Cred{Name: "t-exhausted-pending", Class: "exhausted", Why: "exhausted", Token: x2, Pols: []string{"pg"}, Uses: true, Kind: "service"})
	f.add(&c02Cred{Name: "t-exhausted-2-pending", Class: "exhausted", Why: "exhausted", Token: x3, Pols: []string{"pg"}, Uses: true, Kind: "service"})
	use := func(tok string) {
		if r, e := s.Req(tok, logical.ReadOperation, "m/kv/a", nil); !OK(r, e) {
			t.Fatalf("harness: use of a use-limited token failed: %s", ErrText(r, e))
		}
	}
	// batch tokens whose parent gets revoked
	bp1, _ := f.create("", s.Root, nodef("pg", "pself"))
	bc1, _ := f.create("", bp1, map[string]interface{}{"policies": []string{"pg"}, "no_default_policy": true, "type": "batch"})
	bp2, _ := f.create("", s.Root, nodef("pg", "pself"))
	bc2, _ := f.create("", bp2, map[string]interface{}{"policies": []string{"pg"}, "no_default_policy": true, "type": "batch"})
	dead("t-batch-parent-revoked-final", "batch-parent-revoked", "batch-parent-revoked", bc1, []string{"pg"}, "", "batch")
	dead("t-batch-parent-revoked-pending", "batch-parent-revoked", "batch-parent-revoked", bc2, []string{"pg"}, "", "batch")

	// ---- phase B: final kills, first ageing, restart, drain
	for _, v := range victims {
		if v.fin {
			kill(v)
		}
	}
	use(x1)
	s.Must(s.Req(s.Root, logical.UpdateOperation, "auth/token/revoke", map[string]interface{}{"token": bp1}))
	s.Must(s.Req(s.Root, logical.UpdateOperation, "identity/entity/id/"+aDis.EntityID, map[string]interface{}{"disabled": true}))
	s.Must(s.Req(s.Root, logical.DeleteOperation, "identity/entity/id/"+aDel.EntityID, nil))
	if err := c05Age(s, 2*time.Hour); err != nil {
		t.Fatalf("harness: %v", err)
	}
	f.restart()
	s = f.s
	s.Drain()
	// ---- phase C: pending kills, second ageing, restart, NO drain
	for _, v := range victims {
		if !v.fin {
			kill(v)
		}
	}
	use(x2)
	use(x3)
	use(x3)
	s.Must(s.Req(s.Root, logical.UpdateOperation, "auth/token/revoke", map[string]interface{}{"token": bp2}))
	if err := c05Age(s, 2*time.Hour); err != nil {
		t.Fatalf("harness: %v", err)
	}
	f.restart()
	s = f.s
	for time.Since(shortMade) < 2500*time.Millisecond {
		time.Sleep(50 * time.Millisecond) // the 1 s batch token must be past its TTL
	}

	// ---- strings that were never issued
	f.add(&c02Cred{Name: "absent", Class: "absent", Why: "absent", Token: ""})
	_, pgAcc := "", ""
	if r, e := s.Req(s.Root, logical.UpdateOperation, "auth/token/lookup", map[string]interface{}{"token": pgTok}); OK(r, e) && r != nil {
		pgAcc, _ = r.Data["accessor"].(string)
	}
	if pgAcc == "" {
		t.Fatalf("harness: accessor of t-pg not found")
	}
	flip := func(s string, i int) string {
		b := []byte(s)
		if b[i] == 'A' {
			b[i] = 'B'
		} else {
			b[i] = 'A'
		}
		return string(b)
	}
	garbage := []string{"x", " ", "root", "null", "hvs.", "hvb.", "b.", "s.", "hvs.AAAAAAAAAAAAAAAAAAAAAAAA", strings.Repeat("A", 300), "hvs." + strings.Repeat("A", 300),
		pgAcc, "auth/token/create/" + pgAcc, "a.b.c", flip(pgTok, 5), flip(pgTok, len(pgTok)/2), flip(pgTok, len(pgTok)-1), pgTok[:len(pgTok)-1], pgTok + "A",
		strings.ToUpper(pgTok), pgTok[4:], "hvb." + pgTok[4:], flip(bl, len(bl)/2), bl[:len(bl)-2], "Bearer " + pgTok}
	for i, g := range garbage {
		c := &c02Cred{Name: fmt.Sprintf("garbage-%02d", i), Class: "garbage", Why: "garbage", Token: g, Pols: []string{"pg"}}
		for _, orig := range []*c02Cred{f.byName["t-pg"], f.byName["t-batch-login"]} {
			if c02Equivalent(orig.Token, g) {
				c.Class, c.Live, c.Why, c.Pols, c.Kind = "mutant-equivalent", true, "", orig.Pols, orig.Kind
			}
		}
		f.add(c)
	}
	// namespace-suffix manipulations: none of them names an issued token
	id1, id2 := f.nsID["ns1/"], f.nsID["ns2/"]
	bareNS := strings.TrimSuffix(innerNS, "."+id1)
	for i, g := range []string{pgTok + "." + id1, pgTok + ".root", innerPG + "." + id1, innerPG + ".root", innerPG + ".", bareNS, bareNS + "." + id2, bareNS + ".root",
		innerNS + "." + id1, tokNS + "." + id1, tokNS + "." + id2, bareNS + "." + strings.ToUpper(id1), bareNS + ".", "s." + strings.TrimPrefix(innerNS, "hvs.")} {
		pols, ns := []string{"pg"}, ""
		if i >= 5 {
			pols, ns = []string{"pns"}, "ns1/"
		}
		dead(fmt.Sprintf("ns-suffix-%02d", i), "ns-suffix", "ns-suffix", g, pols, ns, "")
	}

	f.handler = vaulthttp.Handler.Handler(&vault.HandlerProperties{Core: s.Core})
	f.resnap()
	f.keyset = map[string]bool{}
	for k := range f.cur {
		if !c02IsBook(k) {
			f.keyset[k] = true
		}
	}
	return f
}

// ---------------------------------------------------------------- path forms

type c02Form struct {
	Kind string // label of the deformation
	Ctx  string // namespace handed over in the request context
	Hdr  string // namespace header
	Path string
}

func c02Forms() []c02Form {
	var out []c02Form
	seen := map[string]bool{}
	add := func(kind, ctx, hdr, path string) {
		k := ctx + "\x01" + hdr + "\x01" + path
		if seen[k] || strings.Contains(path, "\n") {
			return
		}
		seen[k] = true
		out = append(out, c02Form{kind, ctx, hdr, path})
	}
	first := func(p string) (string, string) { i := strings.Index(p, "/"); return p[:i], p[i+1:] }
	last := func(p string) (string, string) { i := strings.LastIndex(p, "/"); return p[:i], p[i+1:] }
	full := func(p string) {
		h, t := first(p)
		d, l := last(p)
		add("plain", "", "", p)
		add("trailing-slash", "", "", p+"/")
		add("doubled-slash-first", "", "", h+"//"+t)
		add("doubled-slash-last", "", "", d+"//"+l)
		add("doubled-slash-end", "", "", p+"//")
		add("leading-slash", "", "", "/"+p)
		add("leading-slashes", "", "", "//"+p)
		add("dot-prefix", "", "", "./"+p)
		add("dotdot-prefix", "", "", "../"+p)
		add("dot-inner", "", "", h+"/./"+t)
		add("dotdot-inner", "", "", h+"/../"+p)
		add("dotdot-last", "", "", d+"/zz/../"+l)
		add("dot-end", "", "", p+"/.")
		add("dotdot-end", "", "", p+"/..")
		add("three-dots", "", "", h+"/.../"+t)
		add("dot-in-name", "", "", d+"/."+l)
		add("upper", "", "", strings.ToUpper(p))
		add("upper-first", "", "", strings.ToUpper(h)+"/"+t)
		add("upper-last", "", "", d+"/"+strings.ToUpper(l))
		add("escaped-slash", "", "", d+"%2F"+l)
		add("escaped-letter", "", "", d+"/%"+fmt.Sprintf("%02X", l[0])+l[1:])
		add("escaped-dotdot", "", "", h+"/%2e%2e/"+p)
		add("escaped-nul", "", "", p+"%00")
		add("nul", "", "", p+"\x00")
		add("tab", "", "", p+"\t")
		add("del", "", "", p+"\x7f")
		add("cr", "", "", p+"\r")
		add("nul-inner", "", "", h+"\x00/"+t)
		add("space", "", "", p+" ")
		add("question", "", "", p+"?")
		add("backslash", "", "", strings.ReplaceAll(p, "/", "\\"))
		add("backslash-dotdot", "", "", h+"\\..\\"+p)
		add("zero-width", "", "", p+"​")
		add("fullwidth", "", "", "ｍ"+p[1:])
		add("glob-char", "", "", d+"/*")
		add("plus-char", "", "", d+"/+")
	}
	short := func(p string) {
		h, t := first(p)
		add("plain", "", "", p)
		add("trailing-slash", "", "", p+"/")
		add("doubled-slash-first", "", "", h+"//"+t)
		add("dotdot-inner", "", "", h+"/../"+p)
		add("upper", "", "", strings.ToUpper(p))
		add("leading-slash", "", "", "/"+p)
	}
	full("m/kv/a")
	full("m/open/x")
	full("auth/a/login")
	for _, p := range []string{"m/kv/new", "m/kv/denied", "m/rootonly/r", "mm/kv/a", "x/y/kv/a", "auth/a/kv/a", "auth/a/rootonly/r", "sys/mounts", "sys/raw/core/mounts", "auth/token/lookup-self"} {
		short(p)
	}
	// mount boundary and prefix-sharing mounts
	for _, p := range []string{"m", "m/", "mm", "mm/", "x", "x/", "x/y", "x/y/", "x/yy/kv/a", "auth/a", "auth/a/", "auth", "auth/", "", "/", "m/kv", "m/kv/", "mkv/a", "mmm/kv/a",
		"mm/../m/kv/a", "m/open/../kv/a", "m/open/../rootonly/r", "m/open/..", "m/open", "m/openx", "m/open/", "m/openx/y", "m/rootonly", "m/rootonly/", "m/rootonlyx",
		"auth/a/loginx", "auth/a/logi", "auth/a/login/u", "auth/a/login/../kv/a", "auth/a/login/../../../m/kv/a", "auth/a/open/x", "auth/b/login", "auth/c/login",
		"sys/policies/acl/pa", "sys/policies/acl/", "sys/raw/", "sys/raw", "sys/seal-status", "sys/seal-status/", "sys/seal-statusx", "sys/internal/ui/mounts", "sys/internal/ui/mounts/m",
		"sys/audit", "sys/auth", "auth/token/accessors/", "auth/token/lookup", "auth/token/create", "cubbyhole/x", "identity/entity/id/", "nomount/kv/a", "secret/x"} {
		add("boundary", "", "", p)
	}
	// namespace by context / header / path prefix
	for _, p := range []string{"m/kv/a", "m/open/x", "m/rootonly/r", "auth/a/login", "auth/token/lookup-self", "sys/mounts"} {
		add("ns-context", "ns1/", "", p)
		add("ns-header", "", "ns1", p)
		add("ns-path-prefix", "", "", "ns1/"+p)
	}
	for _, h := range []string{"ns1/", "/ns1/", "ns1//", "./ns1", "root", "ns2", "nsX", "NS1", "ns1/..", "ns2/../ns1", "../ns1", "ns1/ns2", "ns1\x00", " ns1"} {
		add("ns-header-form", "", h, "m/kv/a")
	}
	add("ns-header-and-prefix", "", "ns1", "ns1/m/kv/a")
	add("ns-root-header-and-prefix", "", "root", "ns1/m/kv/a")
	add("ns-context-and-header", "ns1/", "ns1", "m/kv/a")
	add("ns-context-header-escape", "ns1/", "../", "m/kv/a")
	add("ns-context-header-escape", "ns1/", "../ns2", "m/kv/a")
	add("ns-context-dotdot-path", "ns1/", "", "../m/kv/a")
	add("ns-context-other-prefix", "ns1/", "", "ns2/m/kv/a")
	for _, p := range []string{"ns1", "ns1/", "ns1/m", "ns1m/kv/a", "ns1//m/kv/a", "ns1/../m/kv/a", "ns1/./m/kv/a", "NS1/m/kv/a", "ns2/m/kv/a", "ns1/ns1/m/kv/a", "/ns1/m/kv/a", "ns1/m//kv/a", "ns1/mm/kv/a"} {
		add("ns-path-form", "", "", p)
	}
	return out
}

// ---------------------------------------------------------------- HTTP channel

type c02Method struct {
	Name   string
	Method string
	Query  string
	Op     logical.Operation
	Slash  bool // the handler appends a slash when missing
}

var c02Methods = []c02Method{
	{"GET", "GET", "", logical.ReadOperation, false},
	{"GET-list", "GET", "list=true", logical.ListOperation, true},
	{"LIST", "LIST", "", logical.ListOperation, true},
	{"SCAN", "SCAN", "", logical.ScanOperation, true},
	{"PUT", "PUT", "", logical.UpdateOperation, false},
	{"POST", "POST", "", logical.UpdateOperation, false},
	{"DELETE", "DELETE", "", logical.DeleteOperation, false},
	{"PATCH", "PATCH", "", logical.PatchOperation, false},
}

// URL paths that internal/http serves with a dedicated handler (they never become a logical
// request; the backend declares every one of them unauthenticated): the listing query is
// ignored there, so no slash is appended.
var c02HTTPDedicated = map[string]bool{"sys/seal-status": true, "sys/init": true, "sys/health": true, "sys/leader": true}

func c02RawEscape(p string) string {
	var b strings.Builder
	for i := 0; i < len(p); i++ {
		c := p[i]
		if c <= 0x20 || c >= 0x7f || strings.IndexByte("?#\"<>\\^`{|}", c) >= 0 {
			fmt.Fprintf(&b, "%%%02X", c)
		} else {
			b.WriteByte(c)
		}
	}
	return b.String()
}

// httpDo issues one request through the real HTTP handler.  It returns the logical path the
// reference is asked about (the URL path after standard percent-decoding, + the slash the
// listing methods add) and false when the URL cannot be formed.
func (f *c02Fix) httpDo(form c02Form, m c02Method, c *c02Cred, bearer bool) (string, *c02Eff, bool) {
	target := "/v1/" + c02RawEscape(form.Path)
	u, err := url.ParseRequestURI(target)
	if err != nil || !strings.HasPrefix(u.Path, "/v1/") {
		return "", nil, false
	}
	refPath := u.Path[len("/v1/"):]
	if strings.Contains(refPath, "\n") {
		return "", nil, false
	}
	if m.Slash && !strings.HasSuffix(refPath, "/") && !c02HTTPDedicated[refPath] {
		refPath += "/"
	}
	if m.Query != "" {
		target += "?" + m.Query
	}
	var body *bytes.Reader
	switch m.Method {
	case "PUT", "POST", "PATCH":
		body = bytes.NewReader([]byte(`{"value":"WRITTEN-BY-PROBE"}`))
	default:
		body = bytes.NewReader(nil)
	}
	req, err := http.NewRequest(m.Method, "http://127.0.0.1:8200"+target, body)
	if err != nil {
		return "", nil, false
	}
	req.RequestURI = target
	req.RemoteAddr = c.addr() + ":40000"
	if m.Method == "PATCH" {
		req.Header.Set("Content-Type", "application/merge-patch+json")
	} else if body.Len() > 0 {
		req.Header.Set("Content-Type", "application/json")
	}
	if c != nil && c.Token != "" {
		if bearer {
			req.Header.Set("Authorization", "Bearer "+c.Token)
		} else {
			req.Header.Set("X-Vault-Token", c.Token)
		}
	}
	if h := form.Ctx + form.Hdr; h != "" {
		req.Header.Set("X-Vault-Namespace", h)
	}
	f.s.Rec.Reset()
	from := f.s.Phys.LogLen()
	rec := httptest.NewRecorder()
	f.handler.ServeHTTP(rec, req)
	eff := &c02Eff{Status: rec.Code, OK: rec.Code >= 200 && rec.Code < 300}
	for _, call := range f.s.Rec.OpCalls() {
		eff.Ops = append(eff.Ops, call.Op)
	}
	eff.Canary = strings.Contains(rec.Body.String(), c02Canary)
	if !eff.OK {
		eff.Err = fmt.Sprintf("%d %s", rec.Code, strings.TrimSpace(rec.Body.String()))
	}
	if f.wrote(from) {
		eff.Changed, eff.Book = f.diff()
	}
	return refPath, eff, true
}

// ---------------------------------------------------------------- fixture repair

// repair undoes what an ALLOWED request changed under the recording mounts (values rewritten,
// keys created or deleted), through the API as root, so that every lattice point meets the same
// fixture.  Returns false when the change cannot be undone that way.
func (f *c02Fix) repair(changed []string) bool {
	okAll := true
	for _, k := range changed {
		var mo *c02Mount
		for _, m := range f.w.Mounts {
			if m.Prefix != "" && strings.HasPrefix(k, m.Prefix) {
				mo = m
			}
		}
		if mo == nil {
			okAll = false
			continue
		}
		rel := strings.TrimPrefix(k, mo.Prefix)
		ns := f.nsObj[mo.NS]
		path := strings.TrimPrefix(mo.Abs, mo.NS) + rel
		var resp *logical.Response
		var err error
		if v, ok := f.plain[k]; ok {
			resp, err = f.s.ReqNS(ns, f.s.Root, logical.UpdateOperation, path, map[string]interface{}{"value": v})
		} else {
			resp, err = f.s.ReqNS(ns, f.s.Root, logical.DeleteOperation, path, nil)
		}
		if !OK(resp, err) {
			// keys the API cannot name (odd spellings): remove them below the barrier's cache
			// is not possible; report
			okAll = false
		}
	}
	f.resnap()
	for k := range f.cur {
		if !c02IsBook(k) && !f.keyset[k] {
			okAll = false
		}
	}
	for k := range f.keyset {
		if _, ok := f.cur[k]; !ok {
			okAll = false
		}
	}
	return okAll
}

// ---------------------------------------------------------------- the enumeration

func c02OutcomeClass(eff *c02Eff) string {
	o := "refused"
	if eff.OK {
		o = "ok"
	}
	if len(eff.Ops) > 0 {
		o += "+handler"
	}
	if eff.Canary {
		o += "+data"
	}
	if len(eff.Changed) > 0 {
		o += "+stored"
	}
	if len(eff.Book) > 0 {
		o += "+bookkeeping"
	}
	return o
}

func c02ErrClass(s string) string {
	s = maskRun.ReplaceAllString(s, "#")
	if len(s) > 60 {
		s = s[:60]
	}
	return s
}

type c02LArt struct {
	Part    string `json:"part"`
	Cred    string `json:"credential"`
	Channel string `json:"channel"`
	Form    string `json:"form"`
	Ctx     string `json:"ns_context,omitempty"`
	Hdr     string `json:"ns_header,omitempty"`
	Path    string `json:"path"`
	Op      string `json:"operation"`
	Err     string `json:"answer,omitempty"`
}

func c02PartL(t *testing.T, res *vout.Result, deadline time.Time) {
	f := c02BuildL(t)
	defer func() { f.s.Close() }()
	forms := c02Forms()
	classes := map[string]int{}
	for _, c := range f.creds {
		classes[c.Class]++
	}
	res.Bound("L_credentials", len(f.creds))
	res.Bound("L_credential_classes", classes)
	res.Bound("L_path_forms", len(forms))
	res.Bound("L_operations", len(c02Ops))
	res.Bound("L_http_methods", len(c02Methods))

	// sanity of the fixture itself (harness errors, not property violations): every credential
	// the reference calls live is accepted on a path its policies grant, and the reverse for a
	// few dead ones is what the lattice judges.
	for _, c := range f.creds {
		if lv, _ := f.w.live(c, c.addr()); !lv || c.Class == "mutant-equivalent" {
			continue
		}
		r, e := f.raw("", "", "auth/token/lookup-self", logical.ReadOperation, c.Token, c.addr())
		d := f.w.decide("", "", "auth/token/lookup-self", c, c.addr())
		want, _ := d.Allows(logical.ReadOperation)
		if want && !OK(r, e) {
			// refuse-sound: not a violation in this part; but the lattice is weaker than designed
			res.Add("L_fixture_grants_refused", 1)
			res.NotExhaustive(fmt.Sprintf("part L: fixture credential %s should be live but lookup-self is refused: %s", c.Name, c02ErrClass(ErrText(r, e))))
		}
		probe, ctx := "m/kv/a", ""
		if c.NS != "" {
			ctx = c.NS
		}
		d = f.w.decide(ctx, "", probe, c, c.addr())
		if want, _ := d.Allows(logical.ReadOperation); want {
			if r, e := f.raw(ctx, "", probe, logical.ReadOperation, c.Token, c.addr()); !OK(r, e) || !strings.Contains(respText(r), c02Canary) {
				res.Add("L_fixture_grants_refused", 1)
				res.NotExhaustive(fmt.Sprintf("part L: fixture credential %s should read %s%s but is refused: %s", c.Name, ctx, probe, c02ErrClass(ErrText(r, e))))
			}
		}
	}
	f.resnap()

	judge := func(channel string, form c02Form, refPath string, op logical.Operation, c *c02Cred, d *c02Dec, eff *c02Eff, opName string) {
		res.Add("evaluations", 1)
		allow, why := d.AllowsResp(op)
		if allow {
			res.Add("L_reference_allows", 1)
			res.Add("reference_allows", 1)
			if len(eff.Ops) > 0 || eff.OK {
				res.Add("L_effects_by_live_class:"+c.Class, 1)
			}
		} else {
			res.Add("L_reference_refuses", 1)
			res.Add("reference_refuses", 1)
		}
		if len(eff.Ops) > 0 {
			res.Add("L_handler_invoked", 1)
			res.Add("handler_invoked", 1)
		}
		if eff.OK {
			res.Add("ok_responses", 1)
		} else {
			res.Add("error_responses", 1)
		}
		if len(eff.Changed) > 0 {
			res.Add("requests_that_changed_storage", 1)
		}
		oc := c02OutcomeClass(eff)
		res.Distinct("outcome_classes", fmt.Sprintf("%v|%s|%s", allow, why, oc))
		res.Distinct("nontrivial", fmt.Sprintf("L|%s|%s|%s|%s|%s|%s|%s|%s", c.Class, channel, form.Kind, form.Ctx+form.Hdr, form.Path, opName, oc, why))
		for _, v := range c02Judge("L", d, op, c, eff) {
			art := c02LArt{"L", c.Name, channel, form.Kind, form.Ctx, form.Hdr, form.Path, opName, c02ErrClass(eff.Err)}
			res.Violate(v.Sig, fmt.Sprintf("credential %s (%s) %s %s [form %s, ns context %q, ns header %q, path %q, reference path %q]: %s", c.Name, c.Class, channel, opName, form.Kind, form.Ctx, form.Hdr, form.Path, refPath, v.Desc), art)
		}
		if len(eff.Changed) > 0 {
			if !f.repair(eff.Changed) {
				f.dirty++
				if f.dirty <= 5 {
					res.Note("fixture could not be restored after %s %s %q by %s (changed %v)", channel, opName, form.Path, c.Name, c02KeyClasses(eff.Changed))
				}
				// accept the new content as the fixture (keys with spellings the API cannot name)
				f.keyset = map[string]bool{}
				for k := range f.cur {
					if !c02IsBook(k) {
						f.keyset[k] = true
					}
				}
			}
		}
	}

	k := 0
	stopped := false
	for _, c := range f.creds {
		for _, form := range forms {
			k++
			if !vout.Mine(k) {
				continue
			}
			if time.Now().After(deadline) {
				stopped = true
				break
			}
			// ---- Core.HandleRequest
			d := f.w.decide(form.Ctx, form.Hdr, form.Path, c, c.addr())
			for _, op := range c02Ops {
				if c02Skip(d, op) {
					res.Add("skipped_fixture_destroying_allowed_requests", 1)
					continue
				}
				eff := f.do(form.Ctx, form.Hdr, form.Path, op, c)
				judge("core", form, form.Path, op, c, d, eff, string(op))
			}
			// ---- HTTP handler
			for _, m := range c02Methods {
				for _, bearer := range []bool{false, true} {
					// the reference path is known only after the URL was formed
					target := "/v1/" + c02RawEscape(form.Path)
					u, err := url.ParseRequestURI(target)
					if err != nil || !strings.HasPrefix(u.Path, "/v1/") {
						res.Add("L_http_unformable_urls", 1)
						continue
					}
					rp := u.Path[len("/v1/"):]
					if m.Slash && !strings.HasSuffix(rp, "/") && !c02HTTPDedicated[rp] {
						rp += "/"
					}
					dh := f.w.decide("", form.Ctx+form.Hdr, rp, c, c.addr())
					if c02Skip(dh, m.Op) {
						res.Add("skipped_fixture_destroying_allowed_requests", 1)
						continue
					}
					refPath, eff, ok := f.httpDo(form, m, c, bearer)
					if !ok {
						res.Add("L_http_unformable_urls", 1)
						continue
					}
					ch := "http:x-vault-token"
					if bearer {
						ch = "http:bearer"
					}
					judge(ch, form, refPath, m.Op, c, dh, eff, m.Name)
				}
			}
		}
		if stopped {
			break
		}
	}
	if stopped {
		res.NotExhaustive("part L: internal deadline reached")
		return
	}
	c02Mutants(t, res, f, &k)
	if f.dirty > 0 {
		res.Add("L_fixture_repairs_incomplete", int64(f.dirty))
	}
}

// c02Skip: requests the reference ALLOWS and that would destroy the fixture (mutations of the
// system, token and identity backends by privileged credentials) are not issued.
func c02Skip(d *c02Dec, op logical.Operation) bool {
	if d.Mount == nil || d.Mount.Kind == "rec" || d.Mount.Kind == "recauth" {
		return false
	}
	if op == logical.ReadOperation || op == logical.ListOperation || op == logical.ScanOperation {
		return false
	}
	ok, _ := d.AllowsResp(op)
	return ok
}

// c02Mutants: every single-character substitution, deletion, truncation and extension of a live
// service token, a batch token and a namespace token; each probed with requests the original is
// granted.  A mutant is live only if it is a re-spelling of the original (R6 / R7).
func c02Mutants(t *testing.T, res *vout.Result, f *c02Fix, k *int) {
	const alpha = "ABCDEFGHIJKLMNOPQRSTUVWXYZabcdefghijklmnopqrstuvwxyz0123456789-_"
	for _, name := range []string{"t-pg", "t-batch-login", "t-pns", "t-ns-batch"} {
		orig := f.byName[name]
		tok := orig.Token
		set := map[string]bool{}
		var muts []string
		add := func(m string) {
			if m != tok && !set[m] {
				set[m] = true
				muts = append(muts, m)
			}
		}
		for i := 0; i < len(tok); i++ {
			c := tok[i]
			j := strings.IndexByte(alpha, c)
			if j >= 0 {
				add(tok[:i] + string(alpha[(j+1)%64]) + tok[i+1:])  // lowest bit of the sextet
				add(tok[:i] + string(alpha[(j+32)%64]) + tok[i+1:]) // highest bit
				add(tok[:i] + string(alpha[j^0x15]) + tok[i+1:])
			} else {
				add(tok[:i] + "A" + tok[i+1:])
				add(tok[:i] + "-" + tok[i+1:])
			}
			if c != '.' {
				add(tok[:i] + "." + tok[i+1:])
			}
			add(tok[:i] + tok[i+1:]) // deletion
			add(tok[:i])             // truncation
			if i > 0 {
				add(tok[:i] + string(tok[i-1]) + tok[i:]) // duplication
			}
		}
		for _, x := range []string{"A", "_", ".", "=", "/", "AA", "A=="} {
			add(tok + x)
			add(x + tok)
		}
		sort.Strings(muts)
		res.Bound("L_token_mutants_"+name, len(muts))
		ctx, path := "", "m/kv/a"
		if orig.NS != "" {
			ctx = orig.NS
		}
		for _, m := range muts {
			*k++
			if !vout.Mine(*k) {
				continue
			}
			c := &c02Cred{Name: "mutant-of-" + name, Class: "garbage", Why: "garbage", Token: m, NS: orig.NS, Pols: orig.Pols, Kind: orig.Kind}
			if c02Equivalent(tok, m) {
				c.Live, c.Why, c.Class = true, "", "mutant-equivalent"
				res.Add("token_mutants_equivalent_encoding", 1)
			}
			res.Add("token_mutants_probed", 1)
			d := f.w.decide(ctx, "", path, c, c.addr())
			for _, op := range []logical.Operation{logical.ReadOperation, logical.UpdateOperation, logical.ListOperation} {
				p := path
				if op == logical.ListOperation {
					p = "m/kv/"
					d = f.w.decide(ctx, "", p, c, c.addr())
				}
				eff := f.do(ctx, "", p, op, c)
				res.Add("evaluations", 1)
				if ok, _ := d.AllowsResp(op); ok {
					res.Add("L_reference_allows", 1)
					if eff.OK {
						res.Add("L_effects_by_live_class:"+c.Class, 1)
					}
				} else {
					res.Add("L_reference_refuses", 1)
				}
				res.Distinct("nontrivial", fmt.Sprintf("L|mutant|%s|%s|%s|%s", name, c.Class, op, c02OutcomeClass(eff)))
				for _, v := range c02Judge("L", d, op, c, eff) {
					res.Violate(v.Sig, fmt.Sprintf("single-character mutant %q of live token %s, %s %s%s: %s", m, name, op, ctx, p, v.Desc),
						c02LArt{"L", "mutant:" + m, "core", "token-mutant", ctx, "", p, string(op), c02ErrClass(eff.Err)})
				}
				if len(eff.Changed) > 0 {
					f.repair(eff.Changed)
				}
			}
			// the same mutant through the HTTP handler, both headers
			for _, bearer := range []bool{false, true} {
				if bearer && strings.TrimSpace(m) != m {
					continue
				}
				dh := f.w.decide("", ctx, path, c, c.addr())
				refPath, eff, ok := f.httpDo(c02Form{"token-mutant", "", ctx, path}, c02Methods[0], c, bearer)
				if !ok {
					continue
				}
				res.Add("evaluations", 1)
				for _, v := range c02Judge("L", dh, logical.ReadOperation, c, eff) {
					res.Violate(v.Sig, fmt.Sprintf("single-character mutant %q of live token %s, HTTP GET %s (bearer=%v): %s", m, name, refPath, bearer, v.Desc),
						c02LArt{"L", "mutant:" + m, "http", "token-mutant", "", ctx, path, "GET", c02ErrClass(eff.Err)})
				}
			}
		}
	}
}
