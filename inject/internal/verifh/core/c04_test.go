package core

// C04: token revocation is final and cascades to descendants, leases and
// cubbyhole, also under concurrent child creation, after an attempt that was
// interrupted by a storage error, and across restarts.
//
//  H  histories: BFS over create / create-orphan / revoke (4 entry points) /
//     renew / leased read / cubbyhole write / restart sequences, token-tree
//     reference model, oracle after EVERY step for EVERY token ever created.
//  F  faults: every single failing storage operation inside each revocation
//     entry point on a depth-2 tree with leases and cubbyhole data, then retry
//     until the API reports success; crash after every durable mutation,
//     restart, retry.
//  S  schedules: revoke(P) || create-child(P) (|| use child), every
//     interleaving at storage-operation granularity up to the preemption bound.

import (
	"encoding/json"
	"fmt"
	"os"
	"sort"
	"strings"
	"testing"
	"time"

	"github.com/openbao/openbao/sdk/v2/helper/verif/sched"
	"github.com/openbao/openbao/sdk/v2/helper/verif/vout"
	"github.com/openbao/openbao/sdk/v2/logical"
)

const c04Policy = `
path "rec/*" { capabilities = ["read", "create", "update", "list"] }
path "auth/token/create" { capabilities = ["update"] }
path "auth/token/revoke-self" { capabilities = ["update"] }
path "auth/token/renew-self" { capabilities = ["update"] }
path "cubbyhole/*" { capabilities = ["read", "create", "update", "delete", "list"] }
`

type c04Tok struct {
	name     string
	id       string
	accessor string
	parent   int // index into toks, -1 = orphan/root-created top
	alive    bool
	lease    string   // lease id of the token itself
	secrets  []string // secret ids leased under this token
	cubby    []string // physical keys of its cubbyhole data
	skip     bool     // model has no opinion (see F: interrupted revoke-orphan)
}

type c04World struct {
	s    *Sys
	toks []*c04Tok
}

func c04Image(t *testing.T) *Image {
	s := Build(t, Options{})
	defer s.Close()
	s.Mount("rec/", "rec")
	s.WritePolicy("p04", c04Policy)
	return s.Image()
}

func (w *c04World) cubbyKeys() map[string]bool {
	out := map[string]bool{}
	for k := range w.s.Phys.Snapshot() {
		if strings.HasPrefix(k, "logical/") && strings.HasSuffix(k, "/c04data") {
			out[k] = true
		}
	}
	return out
}

// create makes a token; parent -1 = created by root as an orphan top-level
// token (auth/token/create-orphan), otherwise child of toks[parent] created by
// that token itself.
func (w *c04World) create(parent int) (string, bool) {
	var resp *logical.Response
	var err error
	before := w.tokenLeases()
	data := map[string]interface{}{"policies": []string{"p04"}, "ttl": "1h"}
	if parent == -2 {
		// top-level token with a caller-chosen id (no "hvs." prefix: token, cubbyhole and
		// index keys are derived from the chosen string)
		parent = -1
		data["id"] = fmt.Sprintf("chosen-id-%d", len(w.toks))
		resp, err = w.s.Req(w.s.Root, logical.UpdateOperation, "auth/token/create-orphan", data)
	} else if parent < 0 {
		resp, err = w.s.Req(w.s.Root, logical.UpdateOperation, "auth/token/create-orphan", data)
	} else {
		resp, err = w.s.Req(w.toks[parent].id, logical.UpdateOperation, "auth/token/create", data)
	}
	if !OK(resp, err) || resp == nil || resp.Auth == nil {
		return ErrText(resp, err), false
	}
	nt := &c04Tok{name: fmt.Sprintf("t%d", len(w.toks)), id: resp.Auth.ClientToken, accessor: resp.Auth.Accessor, parent: parent, alive: true}
	for id := range w.tokenLeases() {
		if !before[id] {
			nt.lease = id
		}
	}
	w.toks = append(w.toks, nt)
	return "", true
}

func (w *c04World) lease(i int) bool {
	resp, err := w.s.Req(w.toks[i].id, logical.ReadOperation, "rec/lease/x", nil)
	if OK(resp, err) && resp != nil && resp.Data != nil {
		if id, ok := resp.Data["id"].(string); ok {
			w.toks[i].secrets = append(w.toks[i].secrets, id)
			return true
		}
	}
	return false
}

func (w *c04World) cubby(i int) bool {
	before := w.cubbyKeys()
	resp, err := w.s.Req(w.toks[i].id, logical.UpdateOperation, "cubbyhole/c04data", map[string]interface{}{"v": "CUBBY-" + w.toks[i].name})
	if !OK(resp, err) {
		return false
	}
	for k := range w.cubbyKeys() {
		if !before[k] {
			w.toks[i].cubby = append(w.toks[i].cubby, k)
		}
	}
	return true
}

// model: kill marks a token and (unless orphaning) its whole subtree dead.
func (w *c04World) kill(i int, orphanChildren bool) {
	w.toks[i].alive = false
	for j, t := range w.toks {
		if t.parent == i {
			if orphanChildren {
				t.parent = -1
			} else if t.alive {
				w.kill(j, false)
			}
		}
	}
}

// revoke issues one of the revocation entry points; returns API success.
func (w *c04World) revoke(kind string, i int) (bool, string) {
	t := w.toks[i]
	var resp *logical.Response
	var err error
	switch kind {
	case "revoke":
		resp, err = w.s.Req(w.s.Root, logical.UpdateOperation, "auth/token/revoke", map[string]interface{}{"token": t.id})
	case "revoke-self":
		resp, err = w.s.Req(t.id, logical.UpdateOperation, "auth/token/revoke-self", nil)
	case "revoke-orphan":
		resp, err = w.s.Req(w.s.Root, logical.UpdateOperation, "auth/token/revoke-orphan", map[string]interface{}{"token": t.id})
	case "revoke-accessor":
		resp, err = w.s.Req(w.s.Root, logical.UpdateOperation, "auth/token/revoke-accessor", map[string]interface{}{"accessor": t.accessor})
	case "lease-revoke":
		// the token's own lease, found through the lease listing
		if t.lease == "" {
			return false, "harness: no lease id recorded for " + t.name
		}
		resp, err = w.s.Req(w.s.Root, logical.UpdateOperation, "sys/leases/revoke", map[string]interface{}{"lease_id": t.lease, "sync": true})
	}
	if OK(resp, err) && resp != nil {
		for _, wn := range resp.Warnings {
			if strings.Contains(wn, "No token found") {
				return false, "warning: " + wn
			}
		}
	}
	return OK(resp, err), ErrText(resp, err)
}

// tokenLeases lists the lease ids of all token leases.
func (w *c04World) tokenLeases() map[string]bool {
	out := map[string]bool{}
	for _, p := range []string{"auth/token/create/", "auth/token/create-orphan/"} {
		lr, lerr := w.s.Req(w.s.Root, logical.ListOperation, "sys/leases/lookup/"+p, nil)
		if !OK(lr, lerr) || lr == nil || lr.Data == nil {
			continue
		}
		keys, _ := lr.Data["keys"].([]string)
		for _, k := range keys {
			out[p+k] = true
		}
	}
	return out
}

// check applies the oracle to every token ever created (after quiescence).
func (w *c04World) check() (sig, msg string) {
	w.s.Drain()
	snap := w.s.Phys.Snapshot()
	// Phase 1, before any request presents one of the judged tokens: a lookup of a token
	// whose revocation was left half done finishes that revocation as a side effect, which
	// would repair exactly what is being judged (nobody is obliged to present a dead token
	// again). Leases and cubbyhole data of dead tokens are judged on the state as it is.
	for _, t := range w.toks {
		if t.skip || t.alive {
			continue
		}
		for _, id := range t.secrets {
			if w.s.Rec.RevokedCount(id) == 0 {
				return "lease-not-revoked", fmt.Sprintf("secret %s leased under revoked token %s was neither revoked nor queued for immediate revocation", id, t.name)
			}
		}
		for _, k := range t.cubby {
			if _, ok := snap[k]; ok {
				return "cubbyhole-not-removed", fmt.Sprintf("cubbyhole data of revoked token %s is still in storage (%s)", t.name, k)
			}
		}
	}
	for _, t := range w.toks {
		if t.skip {
			continue
		}
		usable := w.s.Usable(t.id)
		if !t.alive {
			if usable {
				return "dead-token-accepted", fmt.Sprintf("token %s was revoked (directly or through an ancestor) but is still accepted", t.name)
			}
			for _, k := range t.cubby {
				if _, ok := snap[k]; ok {
					return "cubbyhole-not-removed", fmt.Sprintf("cubbyhole data of revoked token %s is still in storage (%s)", t.name, k)
				}
			}
			for _, id := range t.secrets {
				if w.s.Rec.RevokedCount(id) == 0 {
					return "lease-not-revoked", fmt.Sprintf("secret %s leased under revoked token %s was neither revoked nor queued for immediate revocation", id, t.name)
				}
			}
		} else if !usable {
			return "live-token-refused", fmt.Sprintf("token %s was never revoked (nor any ancestor) but is refused", t.name)
		}
	}
	return "", ""
}

func (w *c04World) modelString() string {
	var parts []string
	for i, t := range w.toks {
		kind := ""
		if strings.HasPrefix(t.id, "chosen-id-") {
			kind = ":chosen-id" // a different key derivation: never merged with an ordinary token
		}
		parts = append(parts, fmt.Sprintf("%d:p%d:%v:s%d:c%d%s", i, t.parent, t.alive, len(t.secrets), len(t.cubby), kind))
	}
	return strings.Join(parts, " ")
}

// ---- H ------------------------------------------------------------------------

type c04Op struct {
	Kind string `json:"k"`
	Tok  int    `json:"t"`
}

func (o c04Op) String() string { return fmt.Sprintf("%s(t%d)", o.Kind, o.Tok) }

// c04Apply replays a history on a fresh system; returns a violation or "".
func c04Apply(t *testing.T, img *Image, hist []c04Op, res *vout.Result) (string, string, *c04World) {
	s := Boot(t, img)
	w := &c04World{s: s}
	defer func() { w.s.Close() }()
	for step, op := range hist {
		res.Add("transitions", 1)
		switch op.Kind {
		case "create":
			if op.Tok >= 0 && !w.toks[op.Tok].alive {
				if _, ok := w.create(op.Tok); ok {
					return "child-of-dead-token", fmt.Sprintf("step %d %s: a revoked token created a child", step, op), w
				}
				continue
			}
			if msg, ok := w.create(op.Tok); !ok {
				return "create-failed", fmt.Sprintf("step %d %s: live parent could not create a child: %s", step, op, msg), w
			}
		case "create-id":
			if msg, ok := w.create(-2); !ok {
				return "create-failed", fmt.Sprintf("step %d %s: the root token could not create a token with a chosen id: %s", step, op, msg), w
			}
		case "lease":
			ok := w.lease(op.Tok)
			if w.toks[op.Tok].alive && !ok {
				return "live-token-refused", fmt.Sprintf("step %d %s failed", step, op), w
			}
		case "cubby":
			ok := w.cubby(op.Tok)
			if w.toks[op.Tok].alive && !ok {
				return "live-token-refused", fmt.Sprintf("step %d %s failed", step, op), w
			}
		case "renew":
			_, _ = w.s.Req(w.toks[op.Tok].id, logical.UpdateOperation, "auth/token/renew-self", nil)
		case "expire":
			// the token's own lease runs out (its stored times are moved two hours into the
			// past, the node restarts and handles what is due): expiry is a revocation of the
			// token and must cascade exactly like one
			tk := w.toks[op.Tok]
			if tk.lease == "" {
				continue
			}
			m, _, ok := c05ReadLease(w.s, tk.lease)
			if !ok {
				// the lease is gone: the token was revoked earlier
				continue
			}
			for _, f := range []string{"issue_time", "expire_time", "last_renewal_time"} {
				if str, ok := m[f].(string); ok {
					if tm, err := time.Parse(time.RFC3339Nano, str); err == nil && !tm.IsZero() {
						m[f] = tm.Add(-2 * time.Hour).Format(time.RFC3339Nano)
					}
				}
			}
			b, _ := json.Marshal(m)
			if resp, err := w.s.Req(w.s.Root, logical.UpdateOperation, "sys/raw/sys/expire/id/"+tk.lease, map[string]interface{}{"value": string(b)}); !OK(resp, err) {
				t.Fatalf("harness: cannot age lease: %s", ErrText(resp, err))
			}
			img2 := w.s.Image()
			w.s.Close()
			ns, err := BootData(t, img2.Data, img2)
			if err != nil {
				t.Fatalf("harness: restart failed: %v", err)
			}
			w.s = ns
			if tk.alive {
				w.kill(op.Tok, false)
			}
		case "restart":
			img2 := w.s.Image()
			w.s.Close()
			ns, err := BootData(t, img2.Data, img2)
			if err != nil {
				t.Fatalf("harness: restart failed: %v", err)
			}
			w.s = ns
		default: // revocations ("+crash": the process stops right after the answer, before any background work)
			crash := strings.HasSuffix(op.Kind, "+crash")
			ok, txt := w.revoke(strings.TrimSuffix(op.Kind, "+crash"), op.Tok)
			if crash {
				snap := w.s.Phys.Snapshot()
				img2 := w.s.Image()
				w.s.Close()
				ns, err := BootData(t, snap, img2)
				if err != nil {
					t.Fatalf("harness: restart failed: %v", err)
				}
				w.s = ns
			}
			if ok {
				if w.toks[op.Tok].alive || op.Kind != "revoke-self" {
					// a reported success on a live token kills it (and its tree);
					// on an already dead token the API answers success too (idempotent)
					if w.toks[op.Tok].alive {
						w.kill(op.Tok, strings.HasPrefix(op.Kind, "revoke-orphan"))
					}
				}
			} else if w.toks[op.Tok].alive {
				return "revoke-refused", fmt.Sprintf("step %d %s on a live token failed: %s", step, op, txt), w
			}
		}
		if os.Getenv("VERIF_DEBUG") != "" {
			for _, tk := range w.toks {
				t.Logf("step %d %s: token %s id=%s acc=%s alive=%v", step, op, tk.name, tk.id, tk.accessor, tk.alive)
			}
		}
		if sig, msg := w.check(); sig != "" {
			return sig, fmt.Sprintf("after step %d %s (history %v): %s", step, op, hist, msg), w
		}
	}
	return "", "", w
}

func c04Alphabet(ntoks int) []c04Op {
	out := []c04Op{{"create", -1}, {"create-id", -1}, {"restart", 0}}
	for i := 0; i < ntoks; i++ {
		for _, k := range []string{"create", "lease", "cubby", "revoke", "revoke-self", "revoke-orphan", "revoke-accessor", "lease-revoke", "renew", "revoke+crash", "revoke-accessor+crash", "expire"} {
			out = append(out, c04Op{k, i})
		}
	}
	return out
}

// ---- F / S shared tree ----------------------------------------------------------

// c04TreeImage: P (top) -> C -> G, each with a leased secret and cubbyhole data.
type c04Tree struct {
	img  *Image
	toks []*c04Tok
}

func c04BuildTree(t *testing.T, opt Options) *c04Tree {
	s := Build(t, opt)
	defer s.Close()
	s.Mount("rec/", "rec")
	s.WritePolicy("p04", c04Policy)
	w := &c04World{s: s}
	for _, p := range []int{-1, 0, 1} {
		if msg, ok := w.create(p); !ok {
			t.Fatalf("harness: tree build: %s", msg)
		}
	}
	for i := range w.toks {
		if !w.lease(i) || !w.cubby(i) {
			t.Fatalf("harness: tree build: lease/cubby failed for t%d", i)
		}
	}
	return &c04Tree{img: s.Image(), toks: w.toks}
}

func (tr *c04Tree) world(s *Sys) *c04World {
	w := &c04World{s: s}
	for _, t := range tr.toks {
		c := *t
		w.toks = append(w.toks, &c)
	}
	return w
}

func TestVerifC04(t *testing.T) {
	res := vout.New("C04", "core")
	defer func() {
		if err := res.Write(); err != nil {
			t.Fatal(err)
		}
	}()
	only := os.Getenv("VERIF_PART")
	item := 0

	if vout.ReplayPath() != "" {
		var rp SchedReplay
		if _, err := vout.LoadReplay(&rp); err != nil {
			t.Fatal(err)
		}
		switch rp.Scenario {
		case "history":
			img := c04Image(t)
			var hist []c04Op
			for _, o := range rp.Params["hist"].([]interface{}) {
				m := o.(map[string]interface{})
				hist = append(hist, c04Op{m["k"].(string), int(m["t"].(float64))})
			}
			if sig, msg, _ := c04Apply(t, img, hist, res); sig != "" {
				res.Violate("c04:history:"+sig, msg, rp)
			}
		default:
			if strings.HasPrefix(rp.Scenario, "S:") {
				tr := c04BuildTree(t, Options{})
				kind, _ := rp.Params["kind"].(string)
				third, _ := rp.Params["third"].(string)
				n := 1
				if os.Getenv("VERIF_REPEAT") != "" {
					n = 12
				}
				for i := 0; i < n; i++ {
					x := sched.RunOnce(c04SBody(t, tr, kind, third), rp.Choices, rp.Fine)
					if v, _ := x.Obs.(*Verdict); v != nil && v.Violation != "" && x.Stuck == "" {
						res.Violate(v.Sig, v.Violation, rp)
					}
					t.Logf("trace: %v stuck=%q", x.Trace, x.Stuck)
				}
				return
			}
			t.Logf("replay of %s artefacts: re-run the check part (VERIF_PART=F); parameters are in the artefact", rp.Scenario)
		}
		return
	}

	// ---- H
	if only == "" || only == "H" {
		img := c04Image(t)
		depth := 3
		if vout.Thorough() {
			depth = 4
		}
		res.Bound("history_depth", depth)
		seen := map[string]bool{}
		type node struct {
			hist  []c04Op
			ntoks int
		}
		frontier := []node{{nil, 0}}
		count := 0
		for d := 0; d < depth; d++ {
			var next []node
			for _, n := range frontier {
				for _, op := range c04Alphabet(n.ntoks) {
					if op.Kind == "restart" && len(n.hist) == 0 {
						continue
					}
					h := append(append([]c04Op{}, n.hist...), op)
					count++
					// every shard walks the same tree (dedup needs the model
					// state, which needs the run); work is shared at the leaves
					last := d == depth-1
					if last && !vout.Mine(count) {
						continue
					}
					sig, msg, w := c04Apply(t, img, h, res)
					res.Add("executions", 1)
					if sig != "" {
						if last || vout.Mine(count) {
							res.Violate("c04:history:"+sig, msg, SchedReplay{Scenario: "history", Params: map[string]interface{}{"hist": h}})
						}
						continue
					}
					key := w.modelString()
					if op.Kind == "restart" {
						key += " R"
					}
					if strings.HasSuffix(op.Kind, "+crash") {
						key += " C"
					}
					if op.Kind == "expire" {
						key += " E"
					}
					if !last {
						if seen[key] {
							continue
						}
						seen[key] = true
						if vout.Mine(count) {
							res.Add("states", 1)
							res.Distinct("nontrivial", "H|"+key)
						}
						next = append(next, node{h, len(w.toks)})
					} else {
						res.Add("states", 1)
						res.Distinct("nontrivial", "H|"+key)
					}
				}
			}
			frontier = next
		}
	}

	// ---- F: single faults + retry, and crash points + restart + retry
	if only == "" || only == "F" {
		for _, nonTxn := range []bool{false, true} {
			if nonTxn && !vout.Thorough() {
				continue
			}
			tr := c04BuildTree(t, Options{NonTxn: nonTxn})
			for ki, kind := range []string{"revoke", "revoke-self", "revoke-orphan", "revoke-accessor", "lease-revoke"} {
				for target := 0; target <= 1; target++ {
					// pass 0
					s0 := Boot(t, tr.img)
					w0 := tr.world(s0)
					s0.Phys.FailAt("call", 1<<30)
					s0.Phys.ResetMutations()
					s0.Phys.SetTag("call")
					ok0, txt0 := w0.revoke(kind, target)
					s0.Phys.SetTag("")
					nops := s0.Phys.TagCount("call")
					nmut := s0.Phys.Mutations()
					s0.Close()
					if !ok0 {
						t.Fatalf("harness: fault-free %s(t%d) failed: %s", kind, target, txt0)
					}
					res.Max("ops_in_revocation", int64(nops))
					for k := 1; k <= nops; k++ {
						item++
						if !vout.Mine(item) {
							continue
						}
						s := Boot(t, tr.img)
						w := tr.world(s)
						s.Phys.FailAt("call", k)
						s.Phys.SetTag("call")
						ok, _ := w.revoke(kind, target)
						s.Phys.SetTag("")
						failed := s.Phys.Failed()
						attempts := 1
						usedKind := kind
						for !ok && attempts < 6 {
							k2 := kind
							if kind == "revoke-self" || (kind == "revoke-accessor" && attempts >= 2) || (kind == "lease-revoke" && attempts >= 2) {
								k2 = "revoke" // what an operator does when the first entry point stops working
							}
							ok, _ = w.revoke(k2, target)
							usedKind = k2
							attempts++
						}
						res.Add("executions", 1)
						res.Add("fault_runs", 1)
						what := "not reached"
						if failed != nil {
							what = failed.String()
						}
						if os.Getenv("VERIF_DEBUG") != "" {
							rc := ""
							for _, tk := range w.toks {
								for _, id := range tk.secrets {
									rc += fmt.Sprintf(" %s:%s=%d", tk.name, id, s.Rec.RevokedCount(id))
								}
							}
							fmt.Printf("DEBUG F %s t%d k=%d [%s] ok=%v attempts=%d revoked:%s queued=%v\n", kind, target, k, maskRun.ReplaceAllString(what, "#"), ok, attempts, rc, s.QueuedIDs())
						}
						if !ok && !s.Usable(w.toks[target].id) {
							// no success was ever reported and the token is unusable: the statement imposes nothing
							res.Add("fault_no_success_token_unusable", 1)
						} else if !ok {
							res.Violate("c04:fault:revocation-never-succeeds", fmt.Sprintf("%s(t%d) nonTxn=%v: after storage op %d [%s] failed once, 5 fault-free retries all fail", kind, target, nonTxn, k, what),
								SchedReplay{Scenario: "fault", Params: map[string]interface{}{"kind": kind, "target": target, "k": k, "nonTxn": nonTxn}})
						} else {
							c04KillAfterRetry(w, target, kind, usedKind)
							if sig, msg := w.check(); sig != "" {
								res.Violate("c04:fault:"+sig, fmt.Sprintf("%s(t%d) nonTxn=%v: storage op %d [%s] failed, the API reported success after %d attempt(s), but %s", kind, target, nonTxn, k, what, attempts, msg),
									SchedReplay{Scenario: "fault", Params: map[string]interface{}{"kind": kind, "target": target, "k": k, "nonTxn": nonTxn}})
							}
						}
						if failed != nil {
							res.Distinct("nontrivial", fmt.Sprintf("F|%s|%d|%s|%d", kind, target, failed.Kind, attempts))
						}
						s.Close()
					}
					for j := 1; j <= nmut; j++ {
						item++
						if !vout.Mine(item) {
							continue
						}
						s := Boot(t, tr.img)
						w := tr.world(s)
						s.Phys.CrashAfter(j)
						_, _ = w.revoke(kind, target)
						crashed, snap := s.Phys.Crashed()
						s.Close()
						if !crashed {
							continue
						}
						s2, err := BootData(t, snap, tr.img)
						res.Add("executions", 1)
						res.Add("crash_runs", 1)
						if err != nil {
							res.Violate("c04:crash:restart-failed", fmt.Sprintf("%s(t%d): crash after mutation %d: restart failed: %v", kind, target, j, err),
								SchedReplay{Scenario: "crash", Params: map[string]interface{}{"kind": kind, "target": target, "j": j}})
							continue
						}
						w2 := tr.world(s2)
						ok := false
						usedKind := kind
						for a := 0; a < 4 && !ok; a++ {
							k2 := kind
							if kind == "revoke-self" || a >= 1 {
								k2 = "revoke" // the token may already be unusable after the crash; fall back to revoke-by-id
							}
							ok, _ = w2.revoke(k2, target)
							usedKind = k2
						}
						if ok {
							c04KillAfterRetry(w2, target, kind, usedKind)
							if sig, msg := w2.check(); sig != "" {
								res.Violate("c04:crash:"+sig, fmt.Sprintf("%s(t%d) nonTxn=%v: crash after durable mutation %d of %d, restart, retry reported success, but %s", kind, target, nonTxn, j, nmut, msg),
									SchedReplay{Scenario: "crash", Params: map[string]interface{}{"kind": kind, "target": target, "j": j, "nonTxn": nonTxn}})
							}
						} else if !s2.Usable(w2.toks[target].id) {
							res.Add("crash_no_success_token_unusable", 1)
						} else {
							res.Violate("c04:crash:revocation-never-succeeds", fmt.Sprintf("%s(t%d): crash after mutation %d, restart: retries all fail", kind, target, j),
								SchedReplay{Scenario: "crash", Params: map[string]interface{}{"kind": kind, "target": target, "j": j}})
						}
						res.Distinct("nontrivial", fmt.Sprintf("K|%s|%d|%d", kind, target, j))
						s2.Close()
					}
					// crash immediately AFTER the API reported success: whatever the
					// revocation deferred to background work must survive a restart
					item++
					if vout.Mine(item) {
						s := Boot(t, tr.img)
						w := tr.world(s)
						ok, _ := w.revoke(kind, target)
						snap := s.Phys.Snapshot()
						s.Close()
						if ok {
							s2, err := BootData(t, snap, tr.img)
							res.Add("executions", 1)
							res.Add("crash_runs", 1)
							if err != nil {
								res.Violate("c04:crash:restart-failed", fmt.Sprintf("%s(t%d): crash after success: restart failed: %v", kind, target, err),
									SchedReplay{Scenario: "crash", Params: map[string]interface{}{"kind": kind, "target": target, "j": -1}})
							} else {
								w2 := tr.world(s2)
								w2.kill(target, kind == "revoke-orphan")
								if sig, msg := w2.check(); sig != "" {
									res.Violate("c04:crash-after-success:"+sig, fmt.Sprintf("%s(t%d) nonTxn=%v: the API reported success, the process stopped before any background work ran, restart: %s", kind, target, nonTxn, msg),
										SchedReplay{Scenario: "crash", Params: map[string]interface{}{"kind": kind, "target": target, "j": -1, "nonTxn": nonTxn}})
								}
								res.Distinct("nontrivial", fmt.Sprintf("K|%s|%d|after-success", kind, target))
								s2.Close()
							}
						}
					}
					_ = ki
				}
			}
		}
	}

	// ---- N: token trees crossing namespace boundaries
	if only == "" || only == "N" {
		c04PartN(t, res, &item)
	}

	// ---- S: revoke(P) || create child of P (|| use the child's sibling)
	if only == "" || only == "S" {
		tr := c04BuildTree(t, Options{})
		bound := 2
		if vout.Thorough() {
			bound = 3
		}
		res.Bound("preemption_bound", bound)
		for _, kind := range []string{"revoke", "revoke-accessor", "revoke-self"} {
			for _, third := range []string{"", "lease", "create2"} {
				kind, third := kind, third
				name := "S:" + kind + "+create"
				if third != "" {
					name += "+" + third
				}
				body := c04SBody(t, tr, kind, third)
				b := bound
				if third != "" {
					b = bound - 1 // three threads: one preemption less
				}
				ex := exploreScenario(res, "c04", name, map[string]interface{}{"kind": kind, "third": third}, body, b, false, &item)
				if ex > 0 {
					res.Sample(map[string]interface{}{"scenario": name, "executions_in_this_shard": ex})
				}
			}
		}
	}
	_ = sort.Strings
}

func c04SBody(t *testing.T, tr *c04Tree, kind, third string) sched.Body {
	return func(sc *sched.Scheduler) func(x *sched.Exec) {
		s := Boot(t, tr.img)
		w := tr.world(s)
		var revOK bool
		var child, child2 string
		sc.Go("rev", func() { revOK, _ = w.revoke(kind, 1) }) // revoke C (child of P, parent of G)
		sc.Go("cre", func() {
			resp, err := s.Req(w.toks[1].id, logical.UpdateOperation, "auth/token/create", map[string]interface{}{"policies": []string{"p04"}, "ttl": "1h"})
			if OK(resp, err) && resp != nil && resp.Auth != nil {
				child = resp.Auth.ClientToken
			}
		})
		switch third {
		case "lease":
			sc.Go("use", func() { w.lease(2) })
		case "create2":
			sc.Go("cre2", func() {
				resp, err := s.Req(w.toks[2].id, logical.UpdateOperation, "auth/token/create", map[string]interface{}{"policies": []string{"p04"}, "ttl": "1h"})
				if OK(resp, err) && resp != nil && resp.Auth != nil {
					child2 = resp.Auth.ClientToken
				}
			})
		}
		return func(x *sched.Exec) {
			defer s.Close()
			v := &Verdict{}
			x.Obs = v
			if os.Getenv("VERIF_REPEAT") != "" {
				var l []string
				for _, op := range s.Phys.Log() {
					if strings.Contains(op.Key, "sys/token/id/") || strings.Contains(op.Key, "sys/token/parent") {
						l = append(l, fmt.Sprintf("%d:%s:%s", op.Seq, op.Thread, maskRun.ReplaceAllString(op.String(), "#")))
					}
				}
				t.Logf("TOKLOG %v", l)
			}
			s.Drain()
			v.Outcome = fmt.Sprintf("rev=%v child=%v child2=%v", revOK, child != "", child2 != "")
			if !revOK {
				return
			}
			w.kill(1, false)
			if child != "" && s.Usable(child) {
				v.Sig = "c04:sched:child-survives-tree-revocation:" + c04RaceClass(x.Trace, "cre", "sys/token/parent/")
				v.Violation = "revocation of the parent reported success, yet the child token created concurrently under it is still accepted after quiescence"
				return
			}
			if child2 != "" && s.Usable(child2) {
				v.Sig = "c04:sched:grandchild-survives-tree-revocation:" + c04RaceClass(x.Trace, "cre2", "sys/token/parent/")
				v.Violation = "revocation of the tree reported success, yet a token created concurrently under a descendant is still accepted after quiescence"
				return
			}
			if sig, msg := w.check(); sig != "" {
				v.Sig = "c04:sched:" + sig
				if sig == "lease-not-revoked" {
					v.Sig += ":" + c04RaceClass(x.Trace, "use", "sys/expire/token/")
				}
				v.Violation = msg
			}
		}
	}
}

// c04KillAfterRetry updates the model after an interrupted revocation that was
// retried (possibly through another entry point).  When the interrupted call
// was revoke-orphan, its children may or may not have been orphaned before
// the interruption, so a later tree revocation may or may not reach them: the
// model has no opinion on the descendants in that case.
func c04KillAfterRetry(w *c04World, target int, firstKind, usedKind string) {
	if firstKind == "revoke-orphan" {
		w.toks[target].alive = false
		var mark func(i int)
		mark = func(i int) {
			for j, t := range w.toks {
				if t.parent == i {
					t.skip = true
					mark(j)
				}
			}
		}
		mark(target)
		return
	}
	w.kill(target, usedKind == "revoke-orphan")
}

// c04RaceClass tells the known check-then-act window apart from anything else:
// "index-written-after-revoker-listed" when the creating thread wrote its
// secondary index (parent->child, or token->lease) only after the revoking
// thread had listed that index for the last time; "revoker-saw-index"
// otherwise (the revoker had the entry in front of it and still left it alive).
func c04RaceClass(trace []string, writer, prefix string) string {
	// A third shape, not among the known ones: the creating thread passed its
	// parent check AFTER the revoker had durably marked that parent as being
	// revoked. Token entries are served from the cache, so the check itself is
	// not in the trace; the creator's first write (the accessor index) follows
	// the check without a scheduling point in between, and the parent's salted
	// id is in the key of the parent-index write.
	if prefix == "sys/token/parent/" {
		firstWrite, parent := -1, ""
		for i, tr := range trace {
			if firstWrite < 0 && strings.HasPrefix(tr, writer+":put:sys/token/accessor/") {
				firstWrite = i
			}
			if parent == "" && strings.HasPrefix(tr, writer+":put:"+prefix) {
				rest := strings.TrimPrefix(tr, writer+":put:"+prefix)
				if j := strings.Index(rest, "/"); j > 0 {
					parent = rest[:j]
				}
			}
		}
		if firstWrite >= 0 && parent != "" {
			for i, tr := range trace {
				if tr == "rev:put:sys/token/id/"+parent {
					if i < firstWrite {
						return "created-under-parent-already-marked-revoked"
					}
					break
				}
			}
		}
	}
	lastList, firstPut := -1, -1
	dir := "" // the index directory the writer's entry went into (prefix + salted owner id + "/")
	for i, tr := range trace {
		if firstPut < 0 && strings.HasPrefix(tr, writer+":put:"+prefix) {
			firstPut = i
			key := strings.TrimPrefix(tr, writer+":put:")
			if j := strings.LastIndex(key, "/"); j >= 0 {
				dir = key[:j+1]
			}
		}
	}
	for i, tr := range trace {
		// only listings of THAT directory count: the revoker lists the index of every token
		// of the tree, later listings of other tokens' directories say nothing about this entry
		if tr == "rev:list:"+dir || tr == "rev:listpage:"+dir {
			lastList = i
		}
	}
	if firstPut > lastList {
		return "index-written-after-revoker-listed"
	}
	// The known second shape has the revoker LOOK THE CHILD UP after it listed the index entry
	// (its token entry or its lease is not written yet, revokeInternal finds nothing to revoke and returns). A walk
	// that had the entry in front of it and never even read the child's token entry is
	// something else (e.g. the entry discarded as a leftover): its own class, not a known one.
	if prefix == "sys/token/parent/" && firstPut >= 0 {
		child := ""
		for _, tr := range trace {
			if strings.HasPrefix(tr, writer+":put:"+dir) {
				child = strings.TrimPrefix(tr, writer+":put:"+dir)
				break
			}
		}
		if child != "" {
			looked := false
			for i, tr := range trace {
				// any read of the revoker that concerns the child itself (its token entry, its lease,
				// its own children) - the index entry it was listed from does not count
				if i > firstPut && strings.HasPrefix(tr, "rev:") && strings.Contains(tr, child) && !strings.Contains(tr, dir+child) &&
					(strings.HasPrefix(tr, "rev:get:") || strings.HasPrefix(tr, "rev:list:") || strings.HasPrefix(tr, "rev:listpage:")) {
					looked = true
				}
			}
			if !looked {
				return "revoker-saw-index-but-never-read-the-token-entry"
			}
		}
	}
	return "revoker-saw-index"
}
