package core

// C07: token creation and login never escalate privilege.
//
// Exhaustive product of parents x caller capability x request parameters (and
// role configurations / auth-backend login responses) through the real
// Core.HandleRequest.  The oracle checks only the "never" clauses of the
// statement, on the response AND on auth/token/lookup of the created token.

import (
	"encoding/json"
	"fmt"
	"os"
	"sort"
	"strings"
	"testing"
	"time"

	"github.com/openbao/openbao/sdk/v2/helper/verif/vout"
	"github.com/openbao/openbao/sdk/v2/logical"
)

const (
	c07MountMax = 768 * time.Hour // system default max lease TTL (32 days)
)

type c07Parent struct {
	Name     string
	Policies []string
	Root     bool
	Sudo     bool // sudo on auth/token/create
	NeverExp bool // non-expiring root
	Limited  bool
	Batch    bool
	mk       func(s *Sys) string
}

func c07Parents() []c07Parent {
	mk := func(data map[string]interface{}) func(s *Sys) string {
		return func(s *Sys) string { return s.CreateToken(s.Root, data) }
	}
	return []c07Parent{
		{Name: "root-nonexpiring", Policies: []string{"root"}, Root: true, Sudo: true, NeverExp: true, mk: func(s *Sys) string { return s.Root }},
		{Name: "root-ttl", Policies: []string{"root"}, Root: true, Sudo: true, mk: mk(map[string]interface{}{"policies": []string{"root"}, "ttl": "2h"})},
		{Name: "default+p1", Policies: []string{"default", "p1", "creator"}, mk: mk(map[string]interface{}{"policies": []string{"p1", "creator"}, "ttl": "2h"})},
		{Name: "p1+p2-nodefault", Policies: []string{"p1", "p2", "creator"}, mk: mk(map[string]interface{}{"policies": []string{"p1", "p2", "creator"}, "no_default_policy": true, "ttl": "2h"})},
		{Name: "sudo-creator", Policies: []string{"default", "p1", "sudocreator"}, Sudo: true, mk: mk(map[string]interface{}{"policies": []string{"p1", "sudocreator"}, "ttl": "2h"})},
		{Name: "use-limited", Policies: []string{"default", "p1", "creator"}, Limited: true, mk: mk(map[string]interface{}{"policies": []string{"p1", "creator"}, "ttl": "2h", "num_uses": 5})},
		// a use-limited parent whose creation request is its FINAL use (the entry then carries
		// the revocation-pending marker instead of a positive count), with and without sudo
		{Name: "use-limited-final-use", Policies: []string{"default", "p1", "creator"}, Limited: true, mk: mk(map[string]interface{}{"policies": []string{"p1", "creator"}, "ttl": "2h", "num_uses": 1})},
		{Name: "use-limited-final-use-sudo", Policies: []string{"default", "p1", "sudocreator"}, Sudo: true, Limited: true, mk: mk(map[string]interface{}{"policies": []string{"p1", "sudocreator"}, "ttl": "2h", "num_uses": 1})},
		{Name: "batch", Policies: []string{"default", "p1", "creator"}, Batch: true, mk: mk(map[string]interface{}{"policies": []string{"p1", "creator"}, "ttl": "2h", "type": "batch"})},
	}
}

func c07Setup(t *testing.T) *Sys {
	s := Build(t, Options{})
	s.EnableAuth("ra/", "recauth")
	s.WritePolicy("p1", `path "rec/a" { capabilities = ["read"] }`)
	s.WritePolicy("p2", `path "rec/b" { capabilities = ["read"] }`)
	s.WritePolicy("creator", `path "auth/token/create" { capabilities = ["update"] }
path "auth/token/create/*" { capabilities = ["update"] }
path "auth/token/create-orphan" { capabilities = ["update"] }`)
	s.WritePolicy("sudocreator", `path "auth/token/create" { capabilities = ["update", "sudo"] }
path "auth/token/create/*" { capabilities = ["update", "sudo"] }
path "auth/token/create-orphan" { capabilities = ["update", "sudo"] }`)
	return s
}

type c07Params struct {
	Policies  []string `json:"policies"` // nil = unspecified
	NoParent  bool     `json:"no_parent"`
	NoDefault bool     `json:"no_default_policy"`
	Period    string   `json:"period"`
	ExplMax   string   `json:"explicit_max_ttl"`
	TTL       string   `json:"ttl"`
	NumUses   int      `json:"num_uses"`
	ID        string   `json:"id"`
	Type      string   `json:"type"`
}

func (p c07Params) data() map[string]interface{} {
	d := map[string]interface{}{}
	if p.Policies != nil {
		d["policies"] = p.Policies
	}
	if p.NoParent {
		d["no_parent"] = true
	}
	if p.NoDefault {
		d["no_default_policy"] = true
	}
	if p.Period != "" {
		d["period"] = p.Period
	}
	if p.ExplMax != "" {
		d["explicit_max_ttl"] = p.ExplMax
	}
	if p.TTL != "" {
		d["ttl"] = p.TTL
	}
	if p.NumUses != 0 {
		d["num_uses"] = p.NumUses
	}
	if p.ID != "" {
		d["id"] = p.ID
	}
	if p.Type != "" {
		d["type"] = p.Type
	}
	return d
}

func subsets(items []string) [][]string {
	var out [][]string
	for m := 0; m < 1<<len(items); m++ {
		s := []string{}
		for i, it := range items {
			if m&(1<<i) != 0 {
				s = append(s, it)
			}
		}
		out = append(out, s)
	}
	return out
}

func num(v interface{}) float64 {
	switch x := v.(type) {
	case int:
		return float64(x)
	case int64:
		return float64(x)
	case float64:
		return x
	case json.Number:
		f, _ := x.Float64()
		return f
	case time.Duration:
		return x.Seconds()
	}
	return 0
}

type c07Made struct {
	policies  []string
	orphan    bool
	period    float64
	id        string
	ttl       float64 // seconds; 0 = never expires
	explMax   float64
	tokenType string
}

func c07Lookup(s *Sys, resp *logical.Response) (*c07Made, error) {
	if resp == nil || resp.Auth == nil {
		return nil, fmt.Errorf("no auth in response")
	}
	m := &c07Made{id: resp.Auth.ClientToken, policies: append([]string{}, resp.Auth.Policies...), tokenType: resp.Auth.TokenType.String()}
	lr, err := s.Req(s.Root, logical.UpdateOperation, "auth/token/lookup", map[string]interface{}{"token": resp.Auth.ClientToken})
	if !OK(lr, err) || lr == nil || lr.Data == nil {
		return nil, fmt.Errorf("lookup of the created token failed: %s", ErrText(lr, err))
	}
	if ps, ok := lr.Data["policies"].([]string); ok {
		m.policies = ps
	}
	m.orphan, _ = lr.Data["orphan"].(bool)
	m.period = num(lr.Data["period"])
	m.ttl = num(lr.Data["ttl"])
	m.explMax = num(lr.Data["explicit_max_ttl"])
	if tt, ok := lr.Data["type"].(string); ok {
		m.tokenType = tt
	}
	if id, ok := lr.Data["id"].(string); ok {
		m.id = id
	}
	return m, nil
}

func has(l []string, x string) bool {
	for _, y := range l {
		if y == x {
			return true
		}
	}
	return false
}

func parseDur(s string) float64 {
	if s == "" {
		return 0
	}
	d, err := time.ParseDuration(s)
	if err != nil {
		return 0
	}
	return d.Seconds()
}

// c07Judge applies the never-clauses to one created token.
func c07Judge(par c07Parent, endpoint string, p c07Params, m *c07Made) (string, string) {
	sudo := par.Root || par.Sudo
	if par.Limited || par.Batch {
		return "limited-or-batch-parent-created-token", fmt.Sprintf("a %s parent created a token", par.Name)
	}
	if has(m.policies, "root") && !par.Root {
		return "root-from-non-root", fmt.Sprintf("token carries root but its parent (%v) does not", par.Policies)
	}
	if endpoint == "create" && !sudo {
		for _, pol := range m.policies {
			if pol != "default" && !has(par.Policies, pol) {
				return "policy-not-held-by-parent", fmt.Sprintf("policy %q is not among the parent's %v", pol, par.Policies)
			}
		}
		if m.orphan {
			return "orphan-without-sudo", "orphan token created through auth/token/create without sudo"
		}
		if m.period > 0 {
			return "periodic-without-sudo", fmt.Sprintf("periodic token (period %vs) created without sudo", m.period)
		}
		if p.ID != "" && strings.Contains(m.id, p.ID) {
			return "custom-id-without-sudo", "caller-chosen token id accepted without sudo"
		}
	}
	// lifetime: everything except a non-expiring root made by a non-expiring root is bounded
	neverExpOK := par.NeverExp && has(m.policies, "root")
	if m.ttl == 0 && !neverExpOK && m.tokenType != "batch" {
		return "non-expiring-token", fmt.Sprintf("token never expires (policies %v, parent %s)", m.policies, par.Name)
	}
	if m.ttl > c07MountMax.Seconds()+2 {
		return "ttl-exceeds-mount-max", fmt.Sprintf("ttl %vs exceeds the mount maximum %vs", m.ttl, c07MountMax.Seconds())
	}
	if em := parseDur(p.ExplMax); em > 0 && m.ttl > em+2 {
		return "ttl-exceeds-explicit-max", fmt.Sprintf("ttl %vs exceeds the requested explicit max %vs", m.ttl, em)
	}
	return "", ""
}

func TestVerifC07(t *testing.T) {
	res := vout.New("C07", "core")
	defer func() {
		if err := res.Write(); err != nil {
			t.Fatal(err)
		}
	}()
	if vout.ReplayPath() != "" {
		t.Log("C07 artefacts carry (parent, endpoint, params); re-run the check: the enumeration is deterministic")
		return
	}
	s := c07Setup(t)
	defer s.Close()
	only := os.Getenv("VERIF_PART")
	parents := c07Parents()
	count := 0

	// ---------------- product A: policy resolution x structural flags ----------------
	polSets := append([][]string{nil}, subsets([]string{"default", "p1", "p2", "root"})...)
	// spellings that name the same policies after normalisation (policy names are case-insensitive and trimmed)
	polSets = append(polSets, []string{"Root"}, []string{"ROOT", "p1"}, []string{" root"}, []string{"P2"}, []string{"Default", "rOOt"}, []string{"Response-Wrapping"})
	var paramsA []c07Params
	for _, ps := range polSets {
		for _, np := range []bool{false, true} {
			for _, nd := range []bool{false, true} {
				for _, per := range []string{"", "1h"} {
					for _, id := range []string{"", "custom-id-c07"} {
						for _, typ := range []string{"", "batch"} {
							paramsA = append(paramsA, c07Params{Policies: ps, NoParent: np, NoDefault: nd, Period: per, ID: id, Type: typ, TTL: "30m"})
						}
					}
				}
			}
		}
	}
	// ---------------- product B: lifetime arithmetic ----------------
	var paramsB []c07Params
	for _, ttl := range []string{"", "5m", "100000h"} {
		for _, em := range []string{"", "10m"} {
			for _, per := range []string{"", "1h", "100000h"} {
				for _, nu := range []int{0, 2} {
					for _, ps := range [][]string{nil, {"p1"}, {"root"}} {
						paramsB = append(paramsB, c07Params{Policies: ps, TTL: ttl, ExplMax: em, Period: per, NumUses: nu})
					}
				}
			}
		}
	}
	run := func(par c07Parent, endpoint string, p c07Params, role string) {
		count++
		if !vout.Mine(count) {
			return
		}
		tok := par.mk(s) // fresh parent for every request (use counts, custom ids)
		path := "auth/token/" + endpoint
		if role != "" {
			path = "auth/token/create/" + role
		}
		d := p.data()
		if p.ID != "" {
			d["id"] = fmt.Sprintf("%s-%d", p.ID, count)
		}
		resp, err := s.Req(tok, logical.UpdateOperation, path, d)
		res.Add("evaluations", 1)
		art := map[string]interface{}{"parent": par.Name, "endpoint": path, "params": p}
		if !OK(resp, err) || resp == nil || resp.Auth == nil {
			res.Add("refused", 1)
			res.Distinct("nontrivial", fmt.Sprintf("%s|%s|refused|%s", par.Name, endpoint, c07ErrClass(ErrText(resp, err))))
			return
		}
		res.Add("created", 1)
		m, lerr := c07Lookup(s, resp)
		if lerr != nil {
			if resp.Auth.TokenType == logical.TokenTypeBatch {
				m = &c07Made{id: resp.Auth.ClientToken, policies: resp.Auth.Policies, tokenType: "batch", ttl: resp.Auth.TTL.Seconds()}
			} else {
				res.Violate("c07:created-token-not-lookupable", fmt.Sprintf("%v: %v", art, lerr), art)
				return
			}
		}
		pp := p
		if p.ID != "" {
			pp.ID = d["id"].(string)
		}
		ep := endpoint
		if role != "" {
			ep = "role"
		}
		if sig, msg := c07Judge(par, ep, pp, m); sig != "" {
			res.Violate("c07:"+ep+":"+sig, fmt.Sprintf("parent=%s path=%s params=%+v -> policies=%v orphan=%v period=%v ttl=%v type=%s: %s", par.Name, path, p, m.policies, m.orphan, m.period, m.ttl, m.tokenType, msg), art)
		}
		sort.Strings(m.policies)
		res.Distinct("nontrivial", fmt.Sprintf("%s|%s|%v|o=%v|p=%v|%s|ttlclass=%v", par.Name, ep, m.policies, m.orphan, m.period > 0, m.tokenType, m.ttl > 3600))
		if count%499 == 0 {
			res.Sample(map[string]interface{}{"parent": par.Name, "path": path, "params": p, "result_policies": m.policies, "orphan": m.orphan, "ttl_s": m.ttl})
		}
	}
	if only == "" || only == "A" {
		for _, par := range parents {
			for _, p := range paramsA {
				run(par, "create", p, "")
			}
		}
		for _, par := range parents {
			for i, p := range paramsA {
				if i%4 == 0 || vout.Thorough() {
					run(par, "create-orphan", p, "")
				}
			}
		}
	}
	if only == "" || only == "B" {
		for _, par := range parents {
			for _, p := range paramsB {
				run(par, "create", p, "")
			}
		}
	}
	// ---------------- namespaces (c07n_test.go) ----------------
	if only == "" || only == "N" {
		c07PartN(t, s, res, &count, paramsA)
	}
	// ---------------- roles ----------------
	if only == "" || only == "R" {
		type role struct {
			name string
			conf map[string]interface{}
			allowed, disallowed []string
			allowedGlob []string
			orphan      bool
			period      float64
			explMax     float64
		}
		roles := []role{
			{name: "r-allow-p1", conf: map[string]interface{}{"allowed_policies": "p1"}, allowed: []string{"p1"}},
			{name: "r-allow-p1p2-orphan", conf: map[string]interface{}{"allowed_policies": "p1,p2", "orphan": true}, allowed: []string{"p1", "p2"}, orphan: true},
			{name: "r-disallow-p2", conf: map[string]interface{}{"disallowed_policies": "p2"}, disallowed: []string{"p2"}},
			{name: "r-glob-p", conf: map[string]interface{}{"allowed_policies_glob": "p*"}, allowedGlob: []string{"p"}},
			{name: "r-period", conf: map[string]interface{}{"allowed_policies": "p1", "token_period": "20m"}, allowed: []string{"p1"}, period: 1200},
			{name: "r-explmax", conf: map[string]interface{}{"allowed_policies": "p1", "token_explicit_max_ttl": "15m"}, allowed: []string{"p1"}, explMax: 900},
			{name: "r-explmax-any", conf: map[string]interface{}{"token_explicit_max_ttl": "15m"}, explMax: 900},
			{name: "r-empty", conf: map[string]interface{}{}},
			{name: "r-batch", conf: map[string]interface{}{"allowed_policies": "p1", "token_type": "batch", "orphan": true, "renewable": false}, allowed: []string{"p1"}, orphan: true},
		}
		if !vout.Thorough() {
			roles = roles[:7]
		}
		for _, r := range roles {
			s.Must(s.Req(s.Root, logical.UpdateOperation, "auth/token/roles/"+r.name, r.conf))
		}
		var paramsR []c07Params
		for _, ps := range polSets {
			for _, nd := range []bool{false, true} {
				for _, ttl := range []string{"", "100000h"} {
					paramsR = append(paramsR, c07Params{Policies: ps, NoDefault: nd, TTL: ttl})
				}
				if !nd {
					// the request's own period (periodic tokens need sudo or a role that sets a period)
					paramsR = append(paramsR, c07Params{Policies: ps, Period: "72h"}, c07Params{Policies: ps, Period: "72h", TTL: "100000h"})
					// the request's own explicit maximum, below and above the one a role may set (15m)
					for _, em := range []string{"5m", "40m"} {
						paramsR = append(paramsR, c07Params{Policies: ps, TTL: "100000h", ExplMax: em})
					}
				}
			}
		}
		for _, r := range roles {
			for _, par := range parents {
				for _, p := range paramsR {
					count++
					if !vout.Mine(count) {
						continue
					}
					tok := par.mk(s)
					resp, err := s.Req(tok, logical.UpdateOperation, "auth/token/create/"+r.name, p.data())
					res.Add("evaluations", 1)
					art := map[string]interface{}{"parent": par.Name, "role": r.name, "params": p}
					if !OK(resp, err) || resp == nil || resp.Auth == nil {
						res.Add("refused", 1)
						res.Distinct("nontrivial", fmt.Sprintf("%s|role:%s|refused", par.Name, r.name))
						continue
					}
					res.Add("created", 1)
					m, lerr := c07Lookup(s, resp)
					if lerr != nil {
						m = &c07Made{id: resp.Auth.ClientToken, policies: resp.Auth.Policies, tokenType: resp.Auth.TokenType.String(), ttl: resp.Auth.TTL.Seconds(), orphan: true}
					}
					fail := func(sig, msg string) {
						res.Violate("c07:role:"+sig, fmt.Sprintf("parent=%s role=%s params=%+v -> policies=%v orphan=%v period=%v ttl=%v: %s", par.Name, r.name, p, m.policies, m.orphan, m.period, m.ttl, msg), art)
					}
					if par.Limited || par.Batch {
						fail("limited-or-batch-parent-created-token", "a use-limited/batch parent created a token through a role")
					}
					if has(m.policies, "root") && !par.Root {
						fail("root-from-non-root", "role-created token carries root, parent does not")
					}
					for _, pol := range m.policies {
						if pol == "default" {
							continue
						}
						if len(r.allowed)+len(r.allowedGlob) > 0 {
							ok := has(r.allowed, pol)
							for _, g := range r.allowedGlob {
								if strings.HasPrefix(pol, g) {
									ok = true
								}
							}
							if !ok {
								fail("policy-outside-role", fmt.Sprintf("policy %q is not allowed by the role", pol))
							}
						}
						if has(r.disallowed, pol) {
							fail("disallowed-policy", fmt.Sprintf("policy %q is disallowed by the role", pol))
						}
						if len(r.allowed)+len(r.allowedGlob) == 0 && !has(par.Policies, pol) && !(par.Root || par.Sudo) {
							fail("policy-not-held-by-parent", fmt.Sprintf("role without allow-list: policy %q is not among the parent's", pol))
						}
					}
					if lerr == nil && m.orphan != r.orphan {
						fail("orphan-differs-from-role", fmt.Sprintf("orphan=%v, role says %v", m.orphan, r.orphan))
					}
					if lerr == nil && m.period > 0 && r.period == 0 && !(par.Root || par.Sudo) {
						fail("periodic-without-role-period-or-sudo", fmt.Sprintf("period=%v although the role sets none and the caller has no sudo", m.period))
					}
					if r.period > 0 && m.ttl > r.period+2 {
						fail("ttl-exceeds-role-period", fmt.Sprintf("ttl %v exceeds the role's period %v", m.ttl, r.period))
					}
					// (a token that never expires, ttl 0, is not "bounded by its explicit maximum" either)
					if lerr == nil && m.explMax > 0 && (m.ttl > m.explMax+2 || (m.ttl == 0 && m.tokenType != "batch")) {
						fail("ttl-exceeds-explicit-max", fmt.Sprintf("ttl %v (0 = never expires) exceeds the explicit maximum the token itself reports (%v)", m.ttl, m.explMax))
					}
					if r.explMax > 0 && (m.ttl > r.explMax+2 || (m.ttl == 0 && m.tokenType != "batch")) {
						fail("ttl-exceeds-role-explicit-max", fmt.Sprintf("ttl %v (0 = never expires), the role's explicit maximum is %v", m.ttl, r.explMax))
					}
					if m.ttl > c07MountMax.Seconds()+2 {
						fail("ttl-exceeds-mount-max", fmt.Sprintf("ttl %v", m.ttl))
					}
					if m.ttl == 0 && m.tokenType != "batch" && !(par.NeverExp && has(m.policies, "root")) {
						fail("non-expiring-token", "role-created token never expires")
					}
					sort.Strings(m.policies)
					res.Distinct("nontrivial", fmt.Sprintf("%s|role:%s|%v|o=%v|p=%v", par.Name, r.name, m.policies, m.orphan, m.period > 0))
				}
			}
		}
	}
	// ---------------- logins ----------------
	if only == "" || only == "L" {
		// every subset of the canonical names, plus non-canonical spellings of the two
		// names a login must never yield (the token store normalises names by trimming
		// and lower-casing, so a check made before that normalisation misses them)
		loginSets := subsets([]string{"default", "p1", "root", "response-wrapping", "control-group"})
		for _, sp := range []string{"Root", "ROOT", " root", "root ", "\troot", "rOOt", "Response-Wrapping", " response-wrapping", "RESPONSE-WRAPPING"} {
			loginSets = append(loginSets, []string{sp}, []string{"p1", sp}, []string{sp, "default"})
		}
		for _, ps := range loginSets {
			for _, ttl := range []int{0, 600, 100000 * 3600} {
				for _, typ := range []logical.TokenType{logical.TokenTypeDefault, logical.TokenTypeService, logical.TokenTypeBatch} {
					for _, period := range []int{0, 1200} {
					for _, mx := range [][2]int{{0, 0}, {7200, 3600}, {7200, 0}, {0, 3600}} { // backend max, explicit max
						if mx != [2]int{0, 0} && (len(ps) > 1 || typ == logical.TokenTypeDefault) {
							continue // the lifetime dimensions are crossed with the single-policy selections only
						}
						count++
						if !vout.Mine(count) {
							continue
						}
						ps, ttl, typ, period, mx := ps, ttl, typ, period, mx
						s.Rec.mu.Lock()
						s.Rec.LoginAuth = func(req *logical.Request) *logical.Auth {
							return &logical.Auth{Policies: ps, TokenType: typ, Period: time.Duration(period) * time.Second,
								ExplicitMaxTTL: time.Duration(mx[1]) * time.Second,
								LeaseOptions: logical.LeaseOptions{TTL: time.Duration(ttl) * time.Second, MaxTTL: time.Duration(mx[0]) * time.Second, Renewable: true}}
						}
						s.Rec.mu.Unlock()
						resp, err := s.Req("", logical.UpdateOperation, "auth/ra/login", map[string]interface{}{})
						res.Add("evaluations", 1)
						art := map[string]interface{}{"login_policies": ps, "ttl": ttl, "type": typ.String(), "period": period, "backend_max_ttl": mx[0], "explicit_max_ttl": mx[1]}
						if !OK(resp, err) || resp == nil || resp.Auth == nil {
							res.Add("refused", 1)
							res.Distinct("nontrivial", fmt.Sprintf("login|%v|refused", ps))
							continue
						}
						res.Add("created", 1)
						m, lerr := c07Lookup(s, resp)
						if lerr != nil {
							m = &c07Made{policies: resp.Auth.Policies, ttl: resp.Auth.TTL.Seconds(), tokenType: resp.Auth.TokenType.String()}
						}
						all := append(append([]string{}, m.policies...), resp.Auth.Policies...)
						for _, bad := range []string{"root", "response-wrapping"} { // the non-assignable set is {response-wrapping}; "control-group" is an ordinary name here
							if has(all, bad) {
								res.Violate("c07:login:non-assignable-policy", fmt.Sprintf("login returning policies %v produced a token carrying %q (token policies %v)", ps, bad, all), art)
							}
						}
						if m.ttl > c07MountMax.Seconds()+2 {
							res.Violate("c07:login:ttl-exceeds-mount-max", fmt.Sprintf("login with ttl %ds produced ttl %v", ttl, m.ttl), art)
						}
						if mx[1] > 0 && m.ttl > float64(mx[1])+2 {
							res.Violate("c07:login:ttl-exceeds-explicit-max", fmt.Sprintf("login (%v) produced ttl %v, explicit max is %ds", art, m.ttl, mx[1]), art)
						}
						if mx[0] > 0 && period == 0 && m.ttl > float64(mx[0])+2 {
							res.Violate("c07:login:ttl-exceeds-backend-max", fmt.Sprintf("login (%v) produced ttl %v, the backend's max is %ds", art, m.ttl, mx[0]), art)
						}
						if m.ttl == 0 {
							res.Violate("c07:login:non-expiring-token", fmt.Sprintf("login produced a token that never expires (%v)", art), art)
						}
						sort.Strings(m.policies)
						res.Distinct("nontrivial", fmt.Sprintf("login|%v|%s|p=%v|mx=%v", m.policies, m.tokenType, period > 0, mx))
					}
					}
				}
			}
		}
		s.Rec.mu.Lock()
		s.Rec.LoginAuth = nil
		s.Rec.mu.Unlock()
		c07PartM(t, res, s, loginSets, &count)
	}
	res.Bound("parents", len(parents))
	res.Bound("param_tuples_policy_product", len(paramsA))
	res.Bound("param_tuples_lifetime_product", len(paramsB))
}

func c07ErrClass(s string) string {
	switch {
	case strings.Contains(s, "subset of parent"):
		return "subset"
	case strings.Contains(s, "root or sudo"), strings.Contains(s, "sudo"):
		return "sudo"
	case strings.Contains(s, "permission denied"):
		return "denied"
	case strings.Contains(s, "restricted use token"), strings.Contains(s, "batch tokens cannot"):
		return "limited"
	}
	if len(s) > 40 {
		s = s[:40]
	}
	return s
}
