package core

// C04 part N: token trees whose levels live in different namespaces.  A token
// may create children in its own namespace or in a descendant namespace; the
// parent/child index, the lease index and the cubbyhole of each level then live
// under different storage prefixes.  Every assignment of {root, ns1/, ns1/sub/}
// to the three levels P -> C -> G (non-decreasing along the tree) x every
// revocation entry point x every target level is run on a fresh Core; the
// same oracle as part H (dead tokens refused, their secrets revoked at the
// backend, their cubbyhole data gone, everything else untouched) is applied.

import (
	"fmt"
	"strings"
	"testing"

	"github.com/openbao/openbao/sdk/v2/helper/verif/vout"
	"github.com/openbao/openbao/sdk/v2/logical"
	"github.com/openbao/openbao/v2/internal/helper/namespace"
)

const c04nPolicy = `
path "*" { capabilities = ["read", "create", "update", "delete", "list", "sudo"] }
`

type c04nTok struct {
	id, accessor string
	ns           *namespace.Namespace
	nsPath       string
	parent       int
	alive        bool
	secret       string
	secretBelow  string // leased from a mount in a namespace BELOW the token's own ("" if none)
	cubbyKeys    []string
}

func c04nCubbyKeys(s *Sys) map[string]bool {
	out := map[string]bool{}
	for k := range s.Phys.Snapshot() {
		if strings.HasSuffix(k, "/c04ndata") {
			out[k] = true
		}
	}
	return out
}

func c04PartN(t *testing.T, res *vout.Result, item *int) {
	nsPaths := []string{"", "ns1/", "ns1/sub/"}
	s0 := Build(t, Options{})
	s0.mkNS(t, "ns1/", false)
	s0.mkNS(t, "ns1/sub/", false)
	nss := map[string]*namespace.Namespace{}
	for _, p := range nsPaths {
		ns := s0.nsByPath(t, p)
		nss[p] = ns
		s0.Must(s0.ReqNS(ns, s0.Root, logical.UpdateOperation, "sys/mounts/rec", map[string]interface{}{"type": "rec"}))
		s0.Must(s0.ReqNS(ns, s0.Root, logical.UpdateOperation, "sys/policies/acl/pn", map[string]interface{}{"policy": c04nPolicy}))
	}
	img := s0.Image()
	s0.Close()

	var shapes [][3]int
	for a := 0; a < 3; a++ {
		for b := a; b < 3; b++ {
			for c := b; c < 3; c++ {
				shapes = append(shapes, [3]int{a, b, c})
			}
		}
	}
	res.Bound("namespace_tree_shapes", len(shapes))
	// "@root": the revocation request is made in the ROOT namespace by its administrator,
	// naming a token (or accessor) that lives in a namespace below
	kinds := []string{"revoke", "revoke-self", "revoke-orphan", "revoke-accessor", "revoke+crash", "revoke@root", "revoke-orphan@root", "revoke-accessor@root"}
	for _, sh := range shapes {
		for _, kind := range kinds {
			for target := 0; target < 2; target++ {
				*item++
				if !vout.Mine(*item) {
					continue
				}
				s := Boot(t, img)
				toks := []*c04nTok{}
				fail := func(msg string) { s.T.Fatalf("harness: part N %v: %s", sh, msg) }
				for lvl := 0; lvl < 3; lvl++ {
					nsP := nsPaths[sh[lvl]]
					ns := nss[nsP]
					data := map[string]interface{}{"policies": []string{"pn"}, "ttl": "1h", "no_default_policy": true}
					var resp *logical.Response
					var err error
					if lvl == 0 {
						resp, err = s.ReqNS(ns, s.Root, logical.UpdateOperation, "auth/token/create-orphan", data)
					} else {
						resp, err = s.ReqNS(ns, toks[lvl-1].id, logical.UpdateOperation, "auth/token/create", data)
					}
					if !OK(resp, err) || resp == nil || resp.Auth == nil {
						fail(fmt.Sprintf("create level %d in %q: %s", lvl, nsP, ErrText(resp, err)))
					}
					tk := &c04nTok{id: resp.Auth.ClientToken, accessor: resp.Auth.Accessor, ns: ns, nsPath: nsP, parent: lvl - 1, alive: true}
					lr, lerr := s.ReqNS(ns, tk.id, logical.ReadOperation, "rec/lease/x", nil)
					if !OK(lr, lerr) || lr == nil {
						fail(fmt.Sprintf("lease at level %d: %s", lvl, ErrText(lr, lerr)))
					}
					tk.secret, _ = lr.Data["id"].(string)
					// a token also authorises requests in the namespaces below its own: a secret
					// leased there (the lease lives in THAT namespace) is issued under this token too
					if nsP != "ns1/sub/" {
						br, berr := s.ReqNS(nss["ns1/sub/"], tk.id, logical.ReadOperation, "rec/lease/x", nil)
						if OK(br, berr) && br != nil && br.Data != nil {
							tk.secretBelow, _ = br.Data["id"].(string)
						}
					}
					before := c04nCubbyKeys(s)
					cr, cerr := s.ReqNS(ns, tk.id, logical.UpdateOperation, "cubbyhole/c04ndata", map[string]interface{}{"v": "CUBBY"})
					if !OK(cr, cerr) {
						fail(fmt.Sprintf("cubbyhole write at level %d: %s", lvl, ErrText(cr, cerr)))
					}
					for k := range c04nCubbyKeys(s) {
						if !before[k] {
							tk.cubbyKeys = append(tk.cubbyKeys, k)
						}
					}
					toks = append(toks, tk)
				}
				// revoke
				tg := toks[target]
				var resp *logical.Response
				var err error
				base := strings.TrimSuffix(kind, "+crash")
				callNS := tg.ns
				if strings.HasSuffix(base, "@root") {
					base = strings.TrimSuffix(base, "@root")
					callNS = nss[""]
				}
				switch base {
				case "revoke":
					resp, err = s.ReqNS(callNS, s.Root, logical.UpdateOperation, "auth/token/revoke", map[string]interface{}{"token": tg.id})
				case "revoke-self":
					resp, err = s.ReqNS(tg.ns, tg.id, logical.UpdateOperation, "auth/token/revoke-self", nil)
				case "revoke-orphan":
					resp, err = s.ReqNS(callNS, s.Root, logical.UpdateOperation, "auth/token/revoke-orphan", map[string]interface{}{"token": tg.id})
				case "revoke-accessor":
					resp, err = s.ReqNS(callNS, s.Root, logical.UpdateOperation, "auth/token/revoke-accessor", map[string]interface{}{"accessor": tg.accessor})
				}
				art := map[string]interface{}{"shape": []string{nsPaths[sh[0]], nsPaths[sh[1]], nsPaths[sh[2]]}, "kind": kind, "target": target}
				res.Add("executions", 1)
				res.Add("namespace_tree_runs", 1)
				if !OK(resp, err) {
					// a refusal imposes nothing; count it so that vacuity is visible
					res.Add("namespace_revocations_refused", 1)
					res.Note("part N: %v refused: %s", art, ErrText(resp, err))
					s.Close()
					continue
				}
				if strings.HasSuffix(kind, "+crash") {
					snap := s.Phys.Snapshot()
					img2 := s.Image()
					s.Close()
					ns2, berr := BootData(t, snap, img2)
					if berr != nil {
						t.Fatalf("harness: restart failed: %v", berr)
					}
					s = ns2
				}
				// model
				toks[target].alive = false
				if base == "revoke-orphan" {
					// children are orphaned and stay alive
				} else {
					for i := target + 1; i < 3; i++ {
						toks[i].alive = false
					}
				}
				s.Drain()
				snap := s.Phys.Snapshot()
				for lvl, tk := range toks {
					lk, lerr := s.ReqNS(tk.ns, tk.id, logical.ReadOperation, "auth/token/lookup-self", nil)
					usable := OK(lk, lerr)
					name := fmt.Sprintf("level-%d token (namespace %q)", lvl, tk.nsPath)
					switch {
					case !tk.alive && usable:
						res.Violate("c04:ns:dead-token-accepted", fmt.Sprintf("%v: %s was revoked (directly or through an ancestor) but is still accepted", art, name), art)
					case tk.alive && !usable:
						res.Violate("c04:ns:live-token-refused", fmt.Sprintf("%v: %s was not revoked but is refused: %s", art, name, ErrText(lk, lerr)), art)
					}
					if !tk.alive {
						if s.Rec.RevokedCount(tk.secret) == 0 {
							res.Violate("c04:ns:lease-not-revoked", fmt.Sprintf("%v: the secret leased under the revoked %s was not revoked", art, name), art)
						}
						if tk.secretBelow != "" && s.Rec.RevokedCount(tk.secretBelow) == 0 {
							res.Violate("c04:ns:lease-in-descendant-namespace-not-revoked", fmt.Sprintf("%v: the secret the revoked %s leased from a mount in a namespace below its own was not revoked", art, name), art)
						}
						for _, k := range tk.cubbyKeys {
							if _, ok := snap[k]; ok {
								res.Violate("c04:ns:cubbyhole-not-removed", fmt.Sprintf("%v: cubbyhole data of the revoked %s is still in storage (%s)", art, name, k), art)
							}
						}
					} else if s.Rec.RevokedCount(tk.secret) != 0 {
						res.Violate("c04:ns:live-lease-revoked", fmt.Sprintf("%v: the secret of the live %s was revoked", art, name), art)
					}
				}
				res.Distinct("nontrivial", fmt.Sprintf("N|%v|%s|%d", sh, kind, target))
				s.Close()
			}
		}
	}
}
