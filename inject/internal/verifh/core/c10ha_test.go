package core

// C10 (Core level, real HA pair): the standby / fail-over clause.
//
// Two real Cores share one physical store (physx over the transactional
// in-memory backend) and one in-memory HA lock backend, exactly the set-up of
// the repository's TestRotationStandby.  Every history (exhaustive to a depth
// bound, nothing sampled) over
//
//	write            one more entry through the recording mount on the active node
//	rotate           sys/rotate                    (encryption-key rotation)
//	rotate-root      sys/rotate/root               (share-less root-key rotation)
//	rekey-api(n,t)   sys/rotate/root/init + update (rekey, rotation API)
//	rekey-old(n,t)   Core.RekeyInit + RekeyUpdate  (rekey, deprecated sys/rekey API; the
//	                 logical sys/rekey/* paths carry no handler, the HTTP layer calls these)
//	failover         seal the active node, wait until the other node is active, write,
//	                 bring the sealed node back with the currently valid shares
//	restart          shut both nodes down, start two new processes (new Core objects)
//	                 on the same store, unseal both with the currently valid shares
//	stepdown         (part S) sys/step-down: the active node stays unsealed
//	                 and becomes the standby, the other node takes over
//
// (depth 4 quick / 5 thorough; histories with a step-down: depth 3 / 4) is replayed on a fresh pair (state = operation list).  The harness keeps the
// share set that is current (a completed rekey replaces it) and a model of the
// entries written so far.  After EVERY step, only what the statement says:
//
//	(1) the active node reads back every entry written so far, and a new write's
//	    ciphertext carries the newest key term (initial term + number of rotations);
//	(2) after a fail-over the node that took over (it ran the upgrade path,
//	    Core.performKeyUpgrades, while acquiring leadership) holds the same keyring as
//	    the active node had when it was sealed (active term, every term key, root key),
//	    reads every entry and accepts a write; the sealed node serves nothing and
//	    holds no keyring, and unseals again with the currently valid shares;
//	(3) a copy of the store taken at this point unseals on a new node with the
//	    currently valid shares and every entry reads back (= seal everything, unseal);
//	    the same is required of both nodes of an explicit restart.
//
// Choices where the statement is silent (taken so that the unchanged code is consistent):
// nothing is asserted about shares that a completed rekey replaced (they are neither
// required to work nor required to fail); the keyring of a standby that has NOT yet
// gone through the upgrade path is not compared (it follows every 10 s only); the
// keyring of a node that was unsealed from storage is not compared either (it did not
// "follow the upgrade path").  No wall-clock oracle: every wait has a generous deadline
// that only bounds the liveness of the harness and ends in NotExhaustive.
//
// No state merging: the hidden state that matters here (each node's in-memory seal key,
// keyring and root key) is exactly what is under test, so two histories are never
// treated as equivalent; `states` counts distinct histories, the canonical model states
// reached are reported as the distinct set "model_states".

import (
	"bytes"
	"encoding/binary"
	"encoding/hex"
	"fmt"
	"os"
	"strconv"
	"strings"
	"sync"
	"testing"
	"time"

	log "github.com/hashicorp/go-hclog"
	"github.com/openbao/openbao/sdk/v2/helper/verif/physx"
	"github.com/openbao/openbao/sdk/v2/helper/verif/vout"
	"github.com/openbao/openbao/sdk/v2/logical"
	"github.com/openbao/openbao/sdk/v2/physical"
	"github.com/openbao/openbao/sdk/v2/physical/inmem"
	"github.com/openbao/openbao/v2/internal/helper/testhelpers/corehelpers"
	"github.com/openbao/openbao/v2/internal/vault"
)

const (
	c10haWrite    = "write"
	c10haRotate   = "rotate"
	c10haRotRoot  = "rotate-root"
	c10haRekey11  = "rekey-api(1,1)"
	c10haRekey32  = "rekey-api(3,2)"
	c10haRekeyOld = "rekey-old(5,3)"
	c10haFailover = "failover"
	c10haRestart  = "restart"
	c10haStepDown = "stepdown"
	// operations addressed to a namespace with its own Shamir seal (part N)
	c10haNSWrite   = "ns-write"
	c10haNSRotate  = "ns-rotate"
	c10haNSRotRoot = "ns-rotate-root"
	c10haNSRekey   = "ns-rotate-root-shares"
)

// liveness bound of every wait (never an oracle)
var c10haWait = 120 * time.Second

// c10haLog keeps the tail of a node's warnings and errors for diagnostics.
type c10haLog struct {
	mu  sync.Mutex
	buf []byte
}

func (l *c10haLog) Write(p []byte) (int, error) {
	l.mu.Lock()
	l.buf = append(l.buf, p...)
	if len(l.buf) > 6000 {
		l.buf = l.buf[len(l.buf)-6000:]
	}
	l.mu.Unlock()
	return len(p), nil
}

func (l *c10haLog) String() string {
	l.mu.Lock()
	defer l.mu.Unlock()
	return string(l.buf)
}

type c10haImage struct {
	Data     map[string][]byte
	Root     string
	Shares   [][]byte
	NSShares []string // shares of the sealable namespace (c10nNS)
}

// c10haKR is a deep copy of a keyring (Keyring.Clone shares the key slices, which
// sealing zeroizes).
type c10haKR struct {
	term uint32
	keys map[uint32][]byte
	root []byte
}

type c10haEntry struct {
	name, val string
	term      uint32
}

type c10haPair struct {
	t      *testing.T
	inner  physical.Backend
	phys   physical.Backend
	ctl    *physx.Backend
	ha     physical.HABackend
	rec    *RecState
	nodes  [2]*vault.Core
	logs   [2]*c10haLog
	active int
	root   string
	shares [][]byte

	// model
	entries  []c10haEntry
	term     uint32 // expected active term: initial + completed rotations
	rootGen  int    // root key generations (share-less rotations + rekeys)
	shareGen int
	shareN   int
	shareT   int
	restarts int
	regained bool // the node that stepped down won the lock back

	// part N: the namespace with its own seal
	nsHeld    []string          // shares the operator holds
	nsEntries map[string]string // entries acknowledged inside the namespace
	nsTouched bool              // the history addressed the namespace
	nsGen     int
}

// pause of a node after sys/step-down before it contends for the lock again (production: 10 s)
const c10haStepDownSleep = 300 * time.Millisecond

var c10haRegained int64

// c10haOutcome of a step: sig == "" && !timeout = the oracle held.
type c10haOutcome struct {
	sig, desc string
	timeout   bool
}

func c10haViol(sig, format string, a ...interface{}) *c10haOutcome {
	return &c10haOutcome{sig: sig, desc: fmt.Sprintf(format, a...)}
}

func c10haNewCore(t *testing.T, phys physical.Backend, ha physical.HABackend, rec *RecState, idx int, lg *c10haLog) *vault.Core {
	conf := coreConfig(phys, Options{AutoSeal: c10haAuto}, rec)
	conf.BuiltinRegistry = corehelpers.NewMockBuiltinRegistry()
	conf.NumRollbackWorkers = 10
	if lg != nil {
		conf.Logger = log.New(&log.LoggerOptions{Level: log.Warn, Output: lg, DisableTime: true})
	}
	if ha != nil {
		conf.HAPhysical = ha
		conf.RedirectAddr = fmt.Sprintf("http://127.0.0.1:%d", 8200+300*idx)
	}
	c, err := vault.NewCore(conf)
	if err != nil {
		t.Fatalf("harness: NewCore: %v", err)
	}
	return c
}

func c10haNewHA(t *testing.T) physical.HABackend {
	b, err := inmem.NewInmemHA(nil, log.NewNullLogger())
	if err != nil {
		t.Fatalf("harness: %v", err)
	}
	return b.(physical.HABackend)
}

// c10haAuto: the pair runs with a stored-key (auto-unseal style) seal: the root key is kept in
// storage wrapped by an external wrapper, nodes unseal themselves from it, there are no shares.
var c10haAuto bool

// c10haUnseal supplies the shares one by one until the node is unsealed.
func c10haUnseal(c *vault.Core, shares [][]byte) (bool, error) {
	if c10haAuto {
		err := c.UnsealWithStoredKeys(rootCtx())
		return !c.Sealed(), err
	}
	var last error
	for _, k := range shares {
		if !c.Sealed() {
			break
		}
		if _, err := vault.TestCoreUnseal(c, vault.TestKeyCopy(k)); err != nil {
			last = err
		}
	}
	return !c.Sealed(), last
}

// c10haWaitActive polls like the repository's TestWaitActive: "active", "sealed"
// (the node sealed itself instead of taking over) or "timeout".
func c10haWaitActive(c *vault.Core) string {
	deadline := time.Now().Add(c10haWait)
	for time.Now().Before(deadline) {
		if !c.Standby() && !c.Sealed() {
			return "active"
		}
		if c.Sealed() {
			return "sealed"
		}
		time.Sleep(200 * time.Microsecond)
	}
	return "timeout"
}

// c10haSettle waits until the lease restore started by the activation has finished
// and the store has gone quiet (owned nondeterminism); false = liveness deadline.
func c10haSettle(c *vault.Core, ctl *physx.Backend) bool {
	deadline := time.Now().Add(c10haWait)
	for {
		if em := c.VerifExpiration(); em != nil && em.VerifRestoreDone() {
			break
		}
		if time.Now().After(deadline) {
			return false
		}
		time.Sleep(200 * time.Microsecond)
	}
	for i := 0; i < 2000; i++ {
		n := ctl.LogLen()
		time.Sleep(500 * time.Microsecond)
		if ctl.LogLen() == n {
			return true
		}
	}
	return true
}

func c10haShutdown(c *vault.Core) {
	defer func() { _ = recover() }()
	if c != nil {
		_ = c.Shutdown()
	}
}

func c10haBuildImage(t *testing.T) *c10haImage {
	rec := NewRecState()
	inner := newInner(Options{})
	phys := physx.New(inner)
	c := c10haNewCore(t, phys, c10haNewHA(t), rec, 0, nil)
	shares, root := vault.TestCoreInit(t, c)
	if ok, err := c10haUnseal(c, shares); !ok {
		t.Fatalf("harness: first unseal failed: %v", err)
	}
	if st := c10haWaitActive(c); st != "active" {
		t.Fatalf("harness: the first node did not become active (%s)", st)
	}
	ctl := physx.Ctl(phys)
	if !c10haSettle(c, ctl) {
		t.Fatalf("harness: the first node did not settle")
	}
	s := &Sys{T: t, Core: c, Phys: ctl, Root: root, Keys: shares, Rec: rec}
	s.Mount("rec/", "rec")
	s.Must(s.Req(root, logical.UpdateOperation, "rec/kv/a", map[string]interface{}{"value": "EARLIER"}))
	// a namespace with its own Shamir seal (3 shares, threshold 3), a mount and an entry in it
	resp, err := s.Req(root, logical.UpdateOperation, "sys/namespaces/"+c10nNS, map[string]interface{}{"seal": `seal "shamir" { shares = "3" threshold = "3" }`})
	if !OK(resp, err) || resp == nil {
		t.Fatalf("harness: create namespace: %s", ErrText(resp, err))
	}
	nsShares, _ := resp.Data["key_shares"].([]string)
	if ok, last := c10nUnseal(s, nsShares); !ok {
		t.Fatalf("harness: new namespace does not unseal: %s", last)
	}
	ns := c10nNamespace(s)
	s.Must(s.ReqNS(ns, root, logical.UpdateOperation, "sys/mounts/rec", map[string]interface{}{"type": "rec"}))
	s.Must(s.ReqNS(ns, root, logical.UpdateOperation, "rec/kv/a", map[string]interface{}{"value": "EARLIER-NS"}))
	c10haSettle(c, ctl)
	img := &c10haImage{Data: ctl.Snapshot(), Root: root, Shares: shares, NSShares: nsShares}
	c10haShutdown(c)
	return img
}

func c10haBoot(t *testing.T, img *c10haImage) (*c10haPair, *c10haOutcome) {
	inner := newInner(Options{})
	if err := physx.Restore(inner, img.Data); err != nil {
		t.Fatalf("harness: %v", err)
	}
	phys := physx.New(inner)
	p := &c10haPair{t: t, inner: inner, phys: phys, ctl: physx.Ctl(phys), ha: c10haNewHA(t), rec: NewRecState(),
		root: img.Root, shares: img.Shares, shareN: len(img.Shares), shareT: len(img.Shares)}
	if out := p.start(); out != nil {
		return p, out
	}
	kr, err := c10haKeyring(p.nodes[p.active])
	if err != nil {
		t.Fatalf("harness: no keyring on the active node: %v", err)
	}
	p.term = kr.term
	p.entries = []c10haEntry{{"a", "EARLIER", c10haRawTerm(p, "a")}}
	p.nsHeld = img.NSShares
	p.nsEntries = map[string]string{"a": "EARLIER-NS"}
	return p, nil
}

// start creates two new processes on the store and unseals them with the current
// shares: node 0 first (it becomes active), then node 1 (standby).
func (p *c10haPair) start() *c10haOutcome {
	for i := 0; i < 2; i++ {
		p.logs[i] = &c10haLog{}
		p.nodes[i] = c10haNewCore(p.t, p.phys, p.ha, p.rec, i, p.logs[i])
	}
	for i := 0; i < 2; i++ {
		ok, err := c10haUnseal(p.nodes[i], p.shares)
		if !ok {
			return c10haViol("unsealable-with-current-shares", "node %d on the shared store does not unseal with the currently valid shares (generation %d, %d shares, threshold %d): %v", i, p.shareGen, p.shareN, p.shareT, err)
		}
		if i == 0 {
			switch c10haWaitActive(p.nodes[0]) {
			case "timeout":
				return &c10haOutcome{timeout: true, desc: "node 0 did not become active within the liveness bound"}
			case "sealed":
				return c10haViol("unsealed-node-sealed-itself", "node 0 unsealed with the currently valid shares but sealed itself while taking the lock; its log:\n%s", p.logs[0])
			}
			if !c10haSettle(p.nodes[0], p.ctl) {
				return &c10haOutcome{timeout: true, desc: "node 0 did not settle within the liveness bound"}
			}
		}
	}
	p.active = 0
	return nil
}

func (p *c10haPair) close() {
	c10haShutdown(p.nodes[1-p.active])
	c10haShutdown(p.nodes[p.active])
}

func (p *c10haPair) sys(i int) *Sys {
	return &Sys{T: p.t, Core: p.nodes[i], Phys: p.ctl, Root: p.root, Keys: p.shares, Rec: p.rec}
}

func c10haKeyring(c *vault.Core) (*c10haKR, error) {
	b := c.VerifBarriers()[""]
	kr, err := b.Keyring()
	if err != nil {
		return nil, err
	}
	if kr == nil {
		return nil, fmt.Errorf("nil keyring")
	}
	out := &c10haKR{term: kr.ActiveTerm(), keys: map[uint32][]byte{}, root: append([]byte{}, kr.RootKey()...)}
	for t := uint32(1); t <= kr.ActiveTerm(); t++ {
		if k := kr.TermKey(t); k != nil {
			out.keys[t] = append([]byte{}, k.Value...)
		}
	}
	return out, nil
}

func c10haKeyringDiff(a, b *c10haKR) string {
	if a.term != b.term {
		return fmt.Sprintf("active term %d on the former active node, %d on the node that took over", a.term, b.term)
	}
	for t := uint32(1); t <= a.term; t++ {
		ka, oka := a.keys[t]
		kb, okb := b.keys[t]
		if oka != okb || !bytes.Equal(ka, kb) {
			return fmt.Sprintf("the key of term %d differs", t)
		}
	}
	if !bytes.Equal(a.root, b.root) {
		return "the root keys differ"
	}
	return ""
}

// c10haRawTerm reads the key term from the header of the stored ciphertext of entry
// `name` (0 = not found).
func c10haRawTerm(p *c10haPair, name string) uint32 {
	for k, v := range p.ctl.Snapshot() {
		if strings.HasPrefix(k, "logical/") && strings.HasSuffix(k, "/kv/"+name) && len(v) >= 4 {
			return binary.BigEndian.Uint32(v[:4])
		}
	}
	return 0
}

func (p *c10haPair) readAll(s *Sys) (string, bool) {
	for _, e := range p.entries {
		resp, err := s.Req(p.root, logical.ReadOperation, "rec/kv/"+e.name, nil)
		if !OK(resp, err) || resp == nil || resp.Data["value"] != e.val {
			got := ErrText(resp, err)
			if got == "" {
				got = fmt.Sprintf("response %v", resp)
			}
			return fmt.Sprintf("entry %q (written under term %d) does not read back: %s", e.name, e.term, got), false
		}
	}
	return "", true
}

// write adds one more entry through the active node and checks its key term.
func (p *c10haPair) write() *c10haOutcome {
	s := p.sys(p.active)
	name := "k" + strconv.Itoa(len(p.entries))
	val := "V-" + name
	resp, err := s.Req(p.root, logical.UpdateOperation, "rec/kv/"+name, map[string]interface{}{"value": val})
	if !OK(resp, err) {
		return c10haViol("write-refused", "the active node (node %d) refuses a write: %s", p.active, ErrText(resp, err))
	}
	term := c10haRawTerm(p, name)
	p.entries = append(p.entries, c10haEntry{name, val, term})
	if term != p.term {
		return c10haViol("write-not-under-newest-term", "entry %q was encrypted under key term %d, the newest term is %d", name, term, p.term)
	}
	return nil
}

func c10haDecodeKeys(v interface{}) ([][]byte, error) {
	var list []string
	switch x := v.(type) {
	case []string:
		list = x
	case []interface{}:
		for _, e := range x {
			list = append(list, fmt.Sprint(e))
		}
	default:
		return nil, fmt.Errorf("unexpected keys field %T", v)
	}
	var out [][]byte
	for _, h := range list {
		b, err := hex.DecodeString(h)
		if err != nil {
			return nil, err
		}
		out = append(out, b)
	}
	return out, nil
}

// rekeyAPI: rotation API with the currently valid shares.
func (p *c10haPair) rekeyAPI(n, t int) ([][]byte, error) {
	s := p.sys(p.active)
	// a cancelled attempt never exists here (every operation of the alphabet completes),
	// so init must be accepted
	resp, err := s.Req(p.root, logical.UpdateOperation, "sys/rotate/root/init", map[string]interface{}{"secret_shares": n, "secret_threshold": t})
	if !OK(resp, err) || resp == nil {
		return nil, fmt.Errorf("init: %s", ErrText(resp, err))
	}
	nonce, _ := resp.Data["nonce"].(string)
	if nonce == "" {
		return nil, fmt.Errorf("init returned no nonce: %v", resp.Data)
	}
	for _, k := range p.shares {
		resp, err := s.Req(p.root, logical.UpdateOperation, "sys/rotate/root/update", map[string]interface{}{"key": hex.EncodeToString(k), "nonce": nonce})
		if !OK(resp, err) {
			return nil, fmt.Errorf("update: %s", ErrText(resp, err))
		}
		if resp != nil {
			if done, _ := resp.Data["complete"].(bool); done {
				return c10haDecodeKeys(resp.Data["keys"])
			}
		}
	}
	return nil, fmt.Errorf("the rotation did not complete after all %d current shares were supplied", len(p.shares))
}

// rekeyOld: the deprecated API's Core entry points (what the HTTP handlers of
// sys/rekey/init and sys/rekey/update call).
func (p *c10haPair) rekeyOld(n, t int) ([][]byte, error) {
	c := p.nodes[p.active]
	if herr := c.RekeyInit(&vault.SealConfig{Type: "shamir", SecretShares: n, SecretThreshold: t}, false); herr != nil {
		return nil, fmt.Errorf("init: %v", herr)
	}
	rk, herr := c.RekeyConfig(false)
	if herr != nil || rk == nil {
		return nil, fmt.Errorf("no rekey config: %v", herr)
	}
	for _, k := range p.shares {
		r, herr := c.RekeyUpdate(rootCtx(), vault.TestKeyCopy(k), rk.Nonce, false)
		if herr != nil {
			return nil, fmt.Errorf("update: %v", herr)
		}
		if r != nil {
			return r.SecretShares, nil
		}
	}
	return nil, fmt.Errorf("the rekey did not complete after all %d current shares were supplied", len(p.shares))
}

func (p *c10haPair) rekeyed(shares [][]byte, n, t int) *c10haOutcome {
	if len(shares) != n {
		return c10haViol("rekey-returned-wrong-share-count", "rekey to (%d,%d) handed out %d shares", n, t, len(shares))
	}
	p.shares, p.shareN, p.shareT = shares, n, t
	p.shareGen++
	p.rootGen++
	return nil
}

// sealedServesNothing: "while sealed, the barrier serves no read ... and holds no key material".
func c10haSealedServesNothing(c *vault.Core) string {
	if !c.Sealed() {
		return "the node reports unsealed after a completed seal"
	}
	b := c.VerifBarriers()[""]
	if !b.Sealed() {
		return "the barrier of the sealed node is not sealed"
	}
	if kr, err := b.Keyring(); err == nil || kr != nil {
		return "the barrier of the sealed node still hands out a keyring"
	}
	if e, err := b.Get(rootCtx(), "core/seal-config"); err == nil || e != nil {
		return fmt.Sprintf("the barrier of the sealed node served a read (entry %v, error %v)", e != nil, err)
	}
	if _, err := b.List(rootCtx(), "core/"); err == nil {
		return "the barrier of the sealed node served a list"
	}
	if err := b.Put(rootCtx(), &logical.StorageEntry{Key: "verif/sealed-probe", Value: []byte("x")}); err == nil {
		return "the barrier of the sealed node served a write"
	}
	if err := b.Delete(rootCtx(), "verif/sealed-probe"); err == nil {
		return "the barrier of the sealed node served a delete"
	}
	return ""
}

func (p *c10haPair) failover() *c10haOutcome {
	a, b := p.active, 1-p.active
	before, err := c10haKeyring(p.nodes[a])
	if err != nil {
		p.t.Fatalf("harness: no keyring on the active node: %v", err)
	}
	if p.nodes[b].Sealed() {
		p.t.Fatalf("harness: the standby is sealed before the fail-over; its log:\n%s", p.logs[b])
	}
	if err := p.nodes[a].Seal(p.root); err != nil {
		p.t.Fatalf("harness: sealing the active node with the root token failed: %v", err)
	}
	if msg := c10haSealedServesNothing(p.nodes[a]); msg != "" {
		return c10haViol("sealed-node-serves", "node %d after sys/seal: %s", a, msg)
	}
	if out := p.takeover(before, "was sealed"); out != nil {
		return out
	}
	// the sealed node comes back as a standby
	ok, uerr := c10haUnseal(p.nodes[a], p.shares)
	if !ok {
		return c10haViol("unsealable-with-current-shares", "node %d, sealed for the fail-over, does not unseal with the currently valid shares (generation %d, %d shares, threshold %d): %v", a, p.shareGen, p.shareN, p.shareT, uerr)
	}
	return nil
}

// stepdown: sys/step-down on the active node; it stays unsealed and becomes the standby.
func (p *c10haPair) stepdown() *c10haOutcome {
	a, b := p.active, 1-p.active
	before, err := c10haKeyring(p.nodes[a])
	if err != nil {
		p.t.Fatalf("harness: no keyring on the active node: %v", err)
	}
	if p.nodes[b].Sealed() {
		p.t.Fatalf("harness: the standby is sealed before the step-down; its log:\n%s", p.logs[b])
	}
	req := &logical.Request{Operation: logical.UpdateOperation, Path: "sys/step-down", ClientToken: p.root}
	if err := p.nodes[a].StepDown(rootCtx(), req); err != nil {
		p.t.Fatalf("harness: sys/step-down with the root token failed: %v", err)
	}
	// The node that stepped down pauses (c10haStepDownSleep; production: 10 s) before it
	// contends for the lock again and the standby is already waiting on it, so normally
	// the standby takes over.  Under heavy load the old node may win the lock back: that
	// is a leadership change as well (active -> standby -> active on the same Core
	// object, through the same upgrade path) and is judged the same way.
	deadline := time.Now().Add(c10haWait)
	sawStandby := false
	for {
		if !p.nodes[b].Standby() && !p.nodes[b].Sealed() {
			break
		}
		if p.nodes[a].Standby() {
			sawStandby = true
		} else if sawStandby && !p.nodes[a].Sealed() {
			p.regained = true
			c10haRegained++
			break
		}
		if p.nodes[a].Sealed() || time.Now().After(deadline) {
			break // takeover reports it
		}
		time.Sleep(200 * time.Microsecond)
	}
	if out := p.takeover(before, "stepped down"); out != nil {
		return out
	}
	if p.nodes[a].Sealed() {
		return c10haViol("node-sealed-by-step-down", "node %d is sealed after sys/step-down; its log:\n%s", a, p.logs[a])
	}
	return nil
}

// takeover: the other node becomes active (it runs the upgrade path on the way) and is
// judged: same keyring as the former active node, reads everything, accepts a write.
func (p *c10haPair) takeover(before *c10haKR, how string) *c10haOutcome {
	a, b := p.active, 1-p.active
	if p.regained {
		b = a
		p.regained = false
	}
	switch c10haWaitActive(p.nodes[b]) {
	case "timeout":
		return &c10haOutcome{timeout: true, desc: fmt.Sprintf("node %d did not become active within the liveness bound after node %d %s", b, a, how)}
	case "sealed":
		return c10haViol("standby-sealed-itself-on-takeover", "node %d, a standby unsealed earlier, sealed itself instead of taking over after node %d %s (the upgrade path failed); its log:\n%s", b, a, how, p.logs[b])
	}
	if !c10haSettle(p.nodes[b], p.ctl) {
		return &c10haOutcome{timeout: true, desc: "the new active node did not settle within the liveness bound"}
	}
	p.active = b
	after, err := c10haKeyring(p.nodes[b])
	if err != nil {
		return c10haViol("standby-keyring-differs", "node %d took over but holds no keyring: %v", b, err)
	}
	if d := c10haKeyringDiff(before, after); d != "" {
		return c10haViol("standby-keyring-differs", "node %d followed the upgrade path while taking over from node %d, but its keyring is not the one the active node had: %s", b, a, d)
	}
	if after.term != p.term {
		return c10haViol("standby-keyring-differs", "after the take-over the active term is %d, %d rotations from the initial term give %d", after.term, p.term-1, p.term)
	}
	if msg, ok := p.readAll(p.sys(b)); !ok {
		return c10haViol("entry-lost-after-failover", "after the fail-over from node %d to node %d: %s", a, b, msg)
	}
	if out := p.write(); out != nil {
		if out.sig == "write-refused" {
			out.sig = "write-refused-after-failover"
		}
		return out
	}
	return nil
}

func (p *c10haPair) restart() *c10haOutcome {
	p.close()
	p.restarts++
	if out := p.start(); out != nil {
		if out.sig != "" {
			out.desc = "after shutting both nodes down and starting two new processes: " + out.desc
		}
		return out
	}
	return nil
}

// probe: a copy of the store as it is now, a new (single, non-HA) process on it, unseal
// with the currently valid shares, read everything back.  Equivalent to "seal every
// node, unseal"; done on a copy so that the pair's in-memory state is left alone.
func (p *c10haPair) probe() *c10haOutcome {
	inner := newInner(Options{})
	if err := physx.Restore(inner, p.ctl.Snapshot()); err != nil {
		p.t.Fatalf("harness: %v", err)
	}
	phys := physx.New(inner)
	lg := &c10haLog{}
	c := c10haNewCore(p.t, phys, nil, p.rec, 2, lg)
	defer c10haShutdown(c)
	ok, uerr := c10haUnseal(c, p.shares)
	if !ok {
		return c10haViol("unsealable-with-current-shares", "a new node started on a copy of the store (every node sealed) does not unseal with the currently valid shares (generation %d, %d shares, threshold %d): %v", p.shareGen, p.shareN, p.shareT, uerr)
	}
	if !c10haSettle(c, physx.Ctl(phys)) {
		return &c10haOutcome{timeout: true, desc: "the probe node did not settle within the liveness bound"}
	}
	s := &Sys{T: p.t, Core: c, Phys: physx.Ctl(phys), Root: p.root, Keys: p.shares, Rec: p.rec}
	if msg, ok := p.readAll(s); !ok {
		return c10haViol("entry-lost-after-restart", "a new node on a copy of the store, unsealed with the currently valid shares: %s", msg)
	}
	if p.nsTouched {
		if out := p.nsReady(s, "a new node on a copy of the store"); out != nil {
			out.sig += "-after-restart"
			return out
		}
	}
	return nil
}

// nsReady: the namespace is unsealed on node s with the shares the operator holds (a node
// that became active, or a restarted one, has it sealed) and every entry acknowledged
// inside it reads back.
func (p *c10haPair) nsReady(s *Sys, where string) *c10haOutcome {
	if c10nSealed(s) {
		if ok, last := c10nUnseal(s, p.nsHeld); !ok {
			return c10haViol("namespace-unsealable-with-held-shares", "%s: namespace %s/ does not unseal with the %d share(s) its operator holds (share generation %d): %s", where, c10nNS, len(p.nsHeld), p.nsGen, last)
		}
	}
	ns := c10nNamespace(s)
	for k, v := range p.nsEntries {
		if m := c10nRead(s, ns, k, v); m != "" {
			return c10haViol("namespace-entry-lost", "%s: inside namespace %s/: %s", where, c10nNS, m)
		}
	}
	return nil
}

// nsStep: one operation addressed to the namespace on the active node.
func (p *c10haPair) nsStep(op string) *c10haOutcome {
	s := p.sys(p.active)
	p.nsTouched = true
	if out := p.nsReady(s, "before "+op+" on the active node"); out != nil {
		return out
	}
	ns := c10nNamespace(s)
	switch op {
	case c10haNSWrite:
		name := fmt.Sprintf("n%d", len(p.nsEntries))
		resp, err := s.ReqNS(ns, p.root, logical.UpdateOperation, "rec/kv/"+name, map[string]interface{}{"value": "V-" + name})
		if !OK(resp, err) {
			return c10haViol("namespace-write-refused", "the active node refuses a write inside the unsealed namespace: %s", ErrText(resp, err))
		}
		p.nsEntries[name] = "V-" + name
	default:
		shares, err := c10nAct(s, ns, p.nsHeld, op)
		if err != nil {
			return c10haViol("namespace-operation-refused", "%s inside the unsealed namespace on the active node failed: %v", op, err)
		}
		if len(shares) > 0 {
			p.nsHeld = shares
			p.nsGen++
		}
	}
	return nil
}

func (p *c10haPair) modelKey() string {
	var terms []string
	for _, e := range p.entries {
		terms = append(terms, strconv.Itoa(int(e.term)))
	}
	return fmt.Sprintf("entries@terms=%s term=%d rootgen=%d shares=%d:(%d,%d) active=%d restarts=%d", strings.Join(terms, ","), p.term, p.rootGen, p.shareGen, p.shareN, p.shareT, p.active, p.restarts) + fmt.Sprintf(" ns=%v:%d:%d", p.nsTouched, p.nsGen, len(p.nsEntries))
}

type c10haStats struct {
	failovers, stepdowns, rekeys, rotations, rootRotations, restarts, writes, probes, nsOps int64
}

// step applies one operation and then the per-step oracle.
func (p *c10haPair) step(op string, st *c10haStats) *c10haOutcome {
	s := p.sys(p.active)
	switch op {
	case c10haWrite:
		if out := p.write(); out != nil {
			return out
		}
		st.writes++
	case c10haRotate:
		resp, err := s.Req(p.root, logical.UpdateOperation, "sys/rotate", nil)
		if !OK(resp, err) {
			return c10haViol("rotate-refused", "sys/rotate on the active node failed: %s", ErrText(resp, err))
		}
		p.term++
		st.rotations++
	case c10haRotRoot:
		resp, err := s.Req(p.root, logical.UpdateOperation, "sys/rotate/root", nil)
		if !OK(resp, err) {
			return c10haViol("rotate-root-refused", "sys/rotate/root on the active node failed: %s", ErrText(resp, err))
		}
		p.rootGen++
		st.rootRotations++
	case c10haRekey11, c10haRekey32:
		n, t := 1, 1
		if op == c10haRekey32 {
			n, t = 3, 2
		}
		shares, err := p.rekeyAPI(n, t)
		if err != nil {
			return c10haViol("rekey-refused-with-current-shares", "rekey to (%d,%d) through sys/rotate/root/init|update with the currently valid shares (generation %d) failed: %v", n, t, p.shareGen, err)
		}
		if out := p.rekeyed(shares, n, t); out != nil {
			return out
		}
		st.rekeys++
	case c10haRekeyOld:
		shares, err := p.rekeyOld(5, 3)
		if err != nil {
			return c10haViol("rekey-refused-with-current-shares", "rekey to (5,3) through the deprecated rekey API with the currently valid shares (generation %d) failed: %v", p.shareGen, err)
		}
		if out := p.rekeyed(shares, 5, 3); out != nil {
			return out
		}
		st.rekeys++
	case c10haFailover:
		if out := p.failover(); out != nil {
			return out
		}
		st.failovers++
	case c10haStepDown:
		if out := p.stepdown(); out != nil {
			return out
		}
		st.stepdowns++
	case c10haRestart:
		if out := p.restart(); out != nil {
			return out
		}
		st.restarts++
	case c10haNSWrite, c10haNSRotate, c10haNSRotRoot, c10haNSRekey:
		if out := p.nsStep(op); out != nil {
			return out
		}
		st.nsOps++
	default:
		p.t.Fatalf("harness: unknown operation %q", op)
	}
	// ---- oracle after every step
	if !c10haSettle(p.nodes[p.active], p.ctl) {
		return &c10haOutcome{timeout: true, desc: "the active node did not settle within the liveness bound"}
	}
	if p.nodes[p.active].Sealed() || p.nodes[p.active].Standby() {
		return c10haViol("active-node-lost", "node %d is no longer active after %s (sealed=%v); its log:\n%s", p.active, op, p.nodes[p.active].Sealed(), p.logs[p.active])
	}
	if msg, ok := p.readAll(p.sys(p.active)); !ok {
		return c10haViol("entry-lost", "on the active node (node %d): %s", p.active, msg)
	}
	kr, err := c10haKeyring(p.nodes[p.active])
	if err != nil {
		return c10haViol("active-node-lost", "the active node holds no keyring: %v", err)
	}
	if kr.term != p.term {
		return c10haViol("active-term-wrong", "the active node's key term is %d, %d rotations from the initial term give %d", kr.term, st.rotations, p.term)
	}
	if p.nsTouched {
		if out := p.nsReady(p.sys(p.active), fmt.Sprintf("on the active node (node %d) after %s", p.active, op)); out != nil {
			return out
		}
	}
	st.probes++
	return p.probe()
}

type c10haReplay struct {
	History []string `json:"history"`
	Step    int      `json:"step"`
}

// c10haRun executes one history on a fresh pair; returns the index of the failing step.
func c10haRun(t *testing.T, img *c10haImage, h []string, st *c10haStats, onStep func(i int, p *c10haPair)) (int, *c10haOutcome) {
	p, out := c10haBoot(t, img)
	defer p.close()
	if out != nil {
		if out.sig != "" {
			t.Fatalf("harness: the initial pair does not come up: %s", out.desc)
		}
		return -1, out
	}
	for i, op := range h {
		if out := p.step(op, st); out != nil {
			return i, out
		}
		if onStep != nil {
			onStep(i, p)
		}
	}
	return len(h), nil
}

func TestVerifC10HA(t *testing.T) {
	res := vout.New("C10", "ha")
	defer func() {
		if err := res.Write(); err != nil {
			t.Fatal(err)
		}
	}()
	img := c10haBuildImage(t)
	if vout.ReplayPath() != "" {
		var art c10haReplay
		sig, err := vout.LoadReplay(&art)
		if err != nil {
			t.Fatalf("harness: %v", err)
		}
		var st c10haStats
		i, out := c10haRun(t, img, art.History, &st, nil)
		if out != nil && out.sig != "" {
			res.Violate("c10:ha:"+out.sig, fmt.Sprintf("history %v, step %d (%s): %s", art.History, i, art.History[i], out.desc), art)
			t.Logf("replay of %s: reproduced c10:ha:%s at step %d", sig, out.sig, i)
		} else {
			t.Logf("replay of %s: not reproduced (%v)", sig, out)
		}
		return
	}
	alphabet := []string{c10haWrite, c10haRotate, c10haRotRoot, c10haRekey11, c10haRekey32, c10haRekeyOld, c10haFailover, c10haRestart}
	depth := 4
	if vout.Thorough() {
		depth = 5
	}
	if v, err := strconv.Atoi(os.Getenv("VERIF_C10HA_DEPTH")); err == nil && v > 0 {
		depth = v
	}
	// Part S (thorough tier): the same alphabet plus "stepdown" (sys/step-down: the active
	// node stays unsealed and becomes the standby; it keeps its in-memory state and has
	// nothing but the upgrade path to catch up).  The node that stepped down pauses
	// (c10haStepDownSleep, production: 10 s, shortened through the package variable the
	// repository's cluster tests also change) before it contends for the lock again;
	// only histories that contain a step-down are run here.
	sdDepth := 3
	if vout.Thorough() {
		sdDepth = 4
	}
	defer vault.VerifSetStepDownSleep(vault.VerifSetStepDownSleep(c10haStepDownSleep))
	if v, err := strconv.Atoi(os.Getenv("VERIF_C10HA_SDDEPTH")); err == nil {
		sdDepth = v
	}
	res.Bound("ha_history_depth", depth)
	res.Bound("ha_alphabet", alphabet)
	res.Bound("ha_stepdown_history_depth", sdDepth)
	res.Bound("ha_nodes", 2)
	res.Bound("ha_initial_shares", "3 of 3")
	res.Bound("ha_liveness_wait_s", int(c10haWait/time.Second))

	var st c10haStats
	var slowest time.Duration
	leaf, total := 0, 0
	stopped := false
	enumerate := func(alphabet []string, depth int, mustContain string) {
		var rec func(h []string)
		rec = func(h []string) {
			if stopped {
				return
			}
			if len(h) < depth {
				for _, op := range alphabet {
					rec(append(append([]string{}, h...), op))
				}
				return
			}
			if mustContain != "" && !strings.Contains(">"+strings.Join(h, ">")+">", mustContain) {
				return
			}
			total++
			leaf++
			if !vout.Mine(leaf) {
				return
			}
			if time.Now().After(globalDeadline) {
				stopped = true
				res.NotExhaustive(fmt.Sprintf("time budget reached at history %d (%v)", leaf, h))
				return
			}
			// a prefix is a new state (state = operation list) in the first history that
			// extends it, i.e. when the rest of the history is the first symbol only
			firstNew := len(h) - 1
			for firstNew > 0 && h[firstNew] == alphabet[0] {
				firstNew--
			}
			if mustContain != "" {
				// prefixes without the required symbol were states of the main part already;
				// with it, a prefix is new when the remainder is the first symbol only
				for firstNew < len(h)-1 && !strings.Contains(">"+strings.Join(h[:firstNew+1], ">")+">", mustContain) {
					firstNew++
				}
			}
			t0 := time.Now()
			i, out := c10haRun(t, img, h, &st, func(i int, p *c10haPair) {
				if i >= firstNew {
					res.Add("states", 1)
					res.Add("transitions", 1)
				}
				res.Add("steps_executed", 1)
				res.Distinct("model_states", p.modelKey())
				res.Distinct("nontrivial", strings.Join(h[:i+1], ">")+" => "+p.modelKey())
			})
			if d := time.Since(t0); d > slowest {
				slowest = d
			}
			res.Add("executions", 1)
			if out == nil {
				return
			}
			if out.timeout {
				res.Add("histories_cut_by_liveness_bound", 1)
				res.NotExhaustive(fmt.Sprintf("history %v step %d: %s", h, i, out.desc))
				return
			}
			// confirm on a fresh pair before reporting (a diverging re-run is a harness matter)
			var st2 c10haStats
			i2, out2 := c10haRun(t, img, h, &st2, nil)
			if out2 == nil || out2.sig != out.sig || i2 != i {
				res.Add("alarms_not_reproduced", 1)
				res.Note("history %v: alarm %s at step %d was not reproduced on a second run (%v at %d): %s", h, out.sig, i, out2, i2, out.desc)
				res.NotExhaustive("an alarm did not reproduce; see notes")
				return
			}
			res.Distinct("nontrivial", strings.Join(h[:i+1], ">")+" => VIOLATION "+out.sig)
			res.Violate("c10:ha:"+out.sig, fmt.Sprintf("history %v, step %d (%s): %s", h, i, h[i], out.desc), c10haReplay{History: h, Step: i})
		}
		rec(nil)
	}
	enumerate(alphabet, depth, "")
	if sdDepth > 0 {
		enumerate(append(append([]string{}, alphabet...), c10haStepDown), sdDepth, ">"+c10haStepDown+">")
	}
	// Part N: operations addressed to a namespace with its own Shamir seal (a write, an
	// encryption-key rotation, a share-less root-key rotation and a share-based one to
	// (5,2) of THAT namespace's barrier) mixed with root-level writes and root rotation and
	// with every kind of leadership change.  A node that takes over (or restarts) has the
	// namespace sealed: it must unseal with the shares the namespace's operator holds and
	// read everything back; root-level clauses as before.  Only histories that address the
	// namespace are run here.
	nsDepth := 3
	if vout.Thorough() {
		nsDepth = 4
	}
	if v, err := strconv.Atoi(os.Getenv("VERIF_C10HA_NSDEPTH")); err == nil {
		nsDepth = v
	}
	nsAlphabet := []string{c10haWrite, c10haRotRoot, c10haFailover, c10haRestart, c10haStepDown, c10haNSWrite, c10haNSRotate, c10haNSRotRoot, c10haNSRekey}
	res.Bound("ha_namespace_history_depth", nsDepth)
	res.Bound("ha_namespace_alphabet", nsAlphabet)
	if nsDepth > 0 {
		enumerate(nsAlphabet, nsDepth, ">ns-")
	}

	// Part A: the same pair with a stored-key (auto-unseal style) seal instead of Shamir
	// shares: write / encryption-key rotation / root-key rotation / every kind of leadership
	// change (the rekey operations need shares and are left out).  The node that takes over
	// follows the upgrade path; a restarted node unseals itself from the stored keys.
	{
		autoDepth := 3
		if vout.Thorough() {
			autoDepth = 4
		}
		c10haAuto = true
		img = c10haBuildImage(t)
		autoAlphabet := []string{c10haWrite, c10haRotate, c10haRotRoot, c10haFailover, c10haRestart, c10haStepDown}
		res.Bound("ha_autoseal_history_depth", autoDepth)
		res.Bound("ha_autoseal_alphabet", autoAlphabet)
		enumerate(autoAlphabet, autoDepth, "")
		c10haAuto = false
	}

	res.Add("failovers_performed", st.failovers)
	res.Add("stepdowns_performed", st.stepdowns)
	res.Add("stepdown_lock_regained_by_same_node", c10haRegained)
	res.Add("rekeys_completed", st.rekeys)
	res.Add("key_rotations_completed", st.rotations)
	res.Add("root_rotations_completed", st.rootRotations)
	res.Add("restarts_performed", st.restarts)
	res.Add("writes_performed", st.writes)
	res.Add("restart_probes", st.probes)
	res.Add("namespace_operations", st.nsOps)
	res.Max("slowest_history_ms", int64(slowest/time.Millisecond))
	t.Logf("C10 ha: depth %d (+ step-down histories of depth %d), %d histories in total, failovers %d, step-downs %d, rekeys %d, rotations %d, root rotations %d, restarts %d, probes %d, slowest history %v",
		depth, sdDepth, total, st.failovers, st.stepdowns, st.rekeys, st.rotations, st.rootRotations, st.restarts, st.probes, slowest)
	// vacuity guard (per shard: at these sizes every shard owns histories of every kind)
	if res.NumViolations() == 0 && !stopped && depth >= 2 && (st.failovers == 0 || st.rekeys == 0 || st.rotations == 0 || st.rootRotations == 0) {
		t.Fatalf("vacuous run: failovers %d, rekeys %d, rotations %d, root rotations %d", st.failovers, st.rekeys, st.rotations, st.rootRotations)
	}
}
