package core

// C18 part F: every single storage fault inside a request that consumes (or
// revokes) a wrapping token.  The k-th storage operation of the request fails
// once, for every k.  Judged:
//   - the payload is disclosed at most once over the faulted request and the
//     unwrap attempts that follow it;
//   - whenever the token's entry is gone from storage, so is its cubbyhole
//     (payload and wrap info): a payload that outlives its token can never be
//     removed again;
//   - after the token's TTL has run out (restart, due leases handled) neither
//     the token nor its payload exist and nobody obtains the payload.

import (
	"fmt"
	"os"
	"strings"
	"testing"
	"time"

	"github.com/openbao/openbao/sdk/v2/helper/verif/vout"
	"github.com/openbao/openbao/sdk/v2/logical"
)

// c18CubbyKeys: the cubbyhole records and the token entry of the wrapping token
// under test (the ones present in the image) that are still in storage, and, as
// others, the records of tokens created later (rewrap).
func c18CubbyKeys(s *Sys, st *c18Setup, base map[string]bool) (cubby []string, tokenEntries []string, others []string) {
	snap := s.Phys.Snapshot()
	for k := range snap {
		if base[k] {
			continue
		}
		_, orig := st.img.Data[k]
		isTok := strings.HasPrefix(c18Local(k), "sys/token/id/")
		isCubby := strings.HasSuffix(k, "/response") || strings.HasSuffix(k, "/wrapinfo")
		switch {
		case isTok && orig:
			tokenEntries = append(tokenEntries, k)
		case isCubby && orig:
			cubby = append(cubby, k)
		case isTok || isCubby:
			others = append(others, k)
		}
	}
	return
}

func c18PartF(t *testing.T, res *vout.Result, get func(string) *c18Setup) {
	count := 0
	wraps := []string{"secret", "login", "nssecret"}
	if vout.Thorough() {
		wraps = []string{"secret", "list", "login", "nssecret"}
	}
	for _, wk := range wraps {
		st := get(wk)
		base := map[string]bool{}
		for _, k := range st.baseKeys {
			base[k] = true
		}
		for _, kind := range []string{"unwrap3", "unwrap1", "rewrap", "revoke"} {
			s0 := Boot(t, st.img)
			s0.Phys.FailAt("call", 1<<30)
			s0.Phys.SetTag("call")
			_ = c18Do(s0, st, kind, st.wrapTok)
			s0.Drain()
			s0.Phys.SetTag("")
			nops := s0.Phys.TagCount("call")
			s0.Close()
			res.Max("ops_in_consuming_request", int64(nops))
			for k := 1; k <= nops; k++ {
				count++
				if !vout.Mine(count) {
					continue
				}
				s := Boot(t, st.img)
				s.Phys.FailAt("call", k)
				s.Phys.SetTag("call")
				r := c18Do(s, st, kind, st.wrapTok)
				s.Drain()
				s.Phys.SetTag("")
				failed := s.Phys.Failed()
				what := "not reached"
				if failed != nil {
					what = failed.String()
				}
				art := map[string]interface{}{"wrap": wk, "request": kind, "k": k, "failed_op": what}
				res.Add("executions", 1)
				res.Add("fault_runs", 1)
				disclosed := 0
				if r.disclosed {
					disclosed++
				}
				cur := st.wrapTok
				if r.newTok != "" {
					cur = r.newTok
				}
				check := func(when string, sx *Sys) {
					cubby, toks, _ := c18CubbyKeys(sx, st, base)
					if len(cubby) > 0 && len(toks) == 0 {
						res.Violate("c18:fault:payload-outlives-token", fmt.Sprintf("%v, %s: no token entry is left in storage but these cubbyhole records are: %v", art, when, cubby), art)
					}
				}
				check("after the faulted request", s)
				if os.Getenv("VERIF_DEBUG") == fmt.Sprintf("%s/%s/%d", wk, kind, k) {
					for _, op := range s.Phys.Log() {
						if op.Tag == "call" {
							fmt.Println("DEBUG", op.String())
						}
					}
					fmt.Println("DEBUG result", r.ok, r.errTxt)
					_, _, tks := c18CubbyKeys(s, st, base)
					for _, tk := range tks {
						resp, err := s.Req(s.Root, logical.ReadOperation, "sys/raw/"+tk, nil)
						fmt.Println("DEBUG raw", tk, err, resp)
					}
				}
				for _, follow := range []string{"unwrap3", "unwrap1"} {
					for _, tk := range []string{st.wrapTok, cur} {
						if follow == "unwrap1" && tk != cur {
							continue
						}
						f := c18Do(s, st, follow, tk)
						if f.disclosed {
							disclosed++
						}
					}
				}
				s.Drain()
				if disclosed > 1 {
					res.Violate("c18:fault:payload-disclosed-more-than-once", fmt.Sprintf("%v: the payload was disclosed %d times", art, disclosed), art)
				}
				check("after the follow-up unwrap attempts", s)
				// TTL runs out
				if err := c05Age(s, 2*time.Hour); err != nil {
					t.Fatalf("harness: %v", err)
				}
				img2 := s.Image()
				s.Close()
				s2, err := BootData(t, img2.Data, img2)
				if err != nil {
					t.Fatalf("harness: restart: %v", err)
				}
				s2.Drain()
				for _, tk := range []string{st.wrapTok, cur} {
					if f := c18Do(s2, st, "unwrap3", tk); f.disclosed {
						res.Violate("c18:fault:payload-disclosed-after-expiry", fmt.Sprintf("%v: an unwrap after the TTL returned the payload", art), art)
					}
				}
				s2.Drain()
				// judged after the TTL: the payload's records.  A storage fault is outside the
				// statement's quantifier (schedules, histories); an unusable token-entry husk
				// left by a revocation that failed half-way is counted, not judged.
				// The records of a NEW wrapping token whose creation (rewrap) was hit by the
				// fault are counted only: its lease registration failed, the clean-up
				// (revokeOrphan of a token without lease) removes nothing, see DESIGN 8.5.
				cubby, toks, others := c18CubbyKeys(s2, st, base)
				if len(others) > 0 {
					res.Add("records_of_a_new_token_left_by_a_faulted_rewrap", 1)
				}
				if len(cubby) > 0 {
					res.Violate("c18:fault:payload-residue-after-expiry", fmt.Sprintf("%v: after the TTL ran out these cubbyhole records remain: %v", art, cubby), art)
				}
				if len(toks) > 0 {
					res.Add("token_entry_husks_after_faulted_revocation", 1)
				}
				for _, tk := range []string{st.wrapTok, cur} {
					if s2.Usable(tk) {
						res.Violate("c18:fault:token-accepted-after-expiry", fmt.Sprintf("%v: the wrapping token is accepted after its TTL", art), art)
					}
				}
				if failed != nil {
					res.Distinct("nontrivial", fmt.Sprintf("F|%s|%s|%s:%s|ok=%v|disclosed=%d", wk, kind, failed.Kind, keyClass(failed.Key), r.ok, disclosed))
				}
				s2.Close()
			}
		}
	}
	_ = time.Second
}
