package c20core

// C20 (K): threshold accounting on a real Core.  For every seal configuration
// (n,t) <= (4,3) and every sequence of submissions over the alphabet
//
//	V0..V{n-1}  the genuine shares
//	C           V0 with one y-byte flipped (same x-coordinate: a corrupted copy)
//	F           a well-formed share that does not belong to this key (fresh x)
//	S           a key that is too short to be a share
//
// (sequence length up to t+1, thorough t+2; a sequence ends when the operation
// completes) the four operations that collect shares
//
//	unseal      Core.Unseal on a freshly booted sealed Core
//	rekey       Core.RekeyInit / RekeyUpdate                 (rekey.go)
//	rotate      sys/rotate/root/init|update through requests (rotate.go)
//	genroot     Core.GenerateRootInit / GenerateRootUpdate   (generate_root.go)
//
// are compared step by step with this model, written from the statement ("an
// unseal or rekey proceeds only once the configured threshold of distinct
// shares has been supplied"):
//
//	P := set of distinct well-formed keys supplied so far
//	a malformed key or a key already in P changes nothing;
//	when |P| reaches t an attempt is made: it succeeds iff every member of P
//	is a genuine share; P is emptied either way.
//
// Observed per step: completed?, and the progress counter the operation
// reports (must equal |P|).  Emptying P after a failed attempt is the reading
// under which the code is consistent (the statement is silent).  Error values
// are not judged (unseal ignores a repeated share silently, rekey and
// generate-root answer it with an error; both are "not counted").

import (
	"context"
	"encoding/hex"
	"fmt"
	"math/bits"
	"strings"
	"testing"
	"time"

	"github.com/openbao/openbao/sdk/v2/helper/verif/physx"
	"github.com/openbao/openbao/sdk/v2/helper/verif/sched"
	"github.com/openbao/openbao/sdk/v2/helper/verif/vout"
	"github.com/openbao/openbao/sdk/v2/logical"
	"github.com/openbao/openbao/v2/internal/helper/namespace"
	"github.com/openbao/openbao/v2/internal/vault"
)

type c20Sym struct {
	Name      string
	Key       []byte
	Genuine   bool
	Malformed bool
}

type c20Cfg struct {
	n, t    int
	img     *Image
	alpha   []c20Sym
	nsAlpha []c20Sym // the same alphabet over the shares of the sealed namespace
}

// c20Build initialises a Core with seal configuration (n,t).
func c20Build(t *testing.T, n, thr int) *Sys {
	t.Helper()
	sched.InstallDetRand(0x5eed + uint64(16*n+thr))
	opt := Options{}
	rec := NewRecState()
	phys := physx.New(newInner(opt))
	c := vault.TestCoreWithSealAndUINoCleanup(t, coreConfig(phys, opt, rec))
	result, err := c.Initialize(namespace.RootContext(context.Background()), &vault.InitParams{
		BarrierConfig:  &vault.SealConfig{SecretShares: n, SecretThreshold: thr},
		RecoveryConfig: &vault.SealConfig{SecretShares: n, SecretThreshold: thr},
	})
	if err != nil {
		t.Fatalf("harness: initialize (%d,%d): %v", n, thr, err)
	}
	root, err := c.DecodeSSCToken(result.RootToken)
	if err != nil {
		t.Fatalf("harness: %v", err)
	}
	keys := result.SecretShares
	if len(keys) != n {
		t.Fatalf("harness: initialize (%d,%d) returned %d shares", n, thr, len(keys))
	}
	for _, k := range keys[:thr] {
		if _, err := vault.TestCoreUnseal(c, vault.TestKeyCopy(k)); err != nil {
			t.Fatalf("harness: unseal: %v", err)
		}
	}
	if c.Sealed() {
		t.Fatalf("harness: core (%d,%d) still sealed after %d genuine shares", n, thr, thr)
	}
	s := &Sys{T: t, Core: c, Phys: physx.Ctl(phys), Root: root, Keys: keys, Rec: rec, Opt: opt}
	s.hookExpiry()
	s.settle()
	return s
}

func c20Alphabet(keys [][]byte, n int) []c20Sym {
	var a []c20Sym
	for i, k := range keys {
		a = append(a, c20Sym{Name: fmt.Sprintf("V%d", i), Key: k, Genuine: true})
	}
	c := vault.TestKeyCopy(keys[0])
	c[0] ^= 0x01
	a = append(a, c20Sym{Name: "C", Key: c})
	if n > 1 {
		// a foreign share: same length, an x-coordinate no genuine share uses
		var used [256]bool
		for _, k := range keys {
			used[k[len(k)-1]] = true
		}
		f := make([]byte, len(keys[0]))
		for i := range f {
			f[i] = byte(0xa5 ^ (i * 29))
		}
		for x := 255; x > 0; x-- {
			if !used[x] {
				f[len(f)-1] = byte(x)
				break
			}
		}
		a = append(a, c20Sym{Name: "F", Key: f})
	}
	a = append(a, c20Sym{Name: "S", Key: []byte("short-key-15-by"), Malformed: true})
	return a
}

type c20Model struct {
	t    int
	have uint32
}

func (m *c20Model) step(sym int, a []c20Sym) (attempt, complete bool) {
	if a[sym].Malformed {
		return false, false
	}
	bit := uint32(1) << uint(sym)
	if m.have&bit != 0 {
		return false, false
	}
	m.have |= bit
	if bits.OnesCount32(m.have) < m.t {
		return false, false
	}
	complete = true
	for i := range a {
		if m.have&(1<<uint(i)) != 0 && !a[i].Genuine {
			complete = false
		}
	}
	m.have = 0
	return true, complete
}

// c20Leaves enumerates the maximal submission sequences: a sequence ends when
// the model completes or when it has lmax submissions.
func c20Leaves(a []c20Sym, t, lmax int, f func(seq []int)) {
	var rec func(seq []int, m c20Model)
	rec = func(seq []int, m c20Model) {
		if len(seq) == lmax {
			f(append([]int(nil), seq...))
			return
		}
		for s := range a {
			mm := m
			_, done := mm.step(s, a)
			next := append(seq, s)
			if done {
				f(append([]int(nil), next...))
				continue
			}
			rec(next, mm)
		}
	}
	rec(nil, c20Model{t: t})
}

func c20SeqName(a []c20Sym, seq []int) string {
	var p []string
	for _, s := range seq {
		p = append(p, a[s].Name)
	}
	return strings.Join(p, " ")
}

// driver is one share-collecting operation on a live system.
type c20Driver interface {
	// begin prepares a fresh collection; submit supplies one key and reports
	// whether the operation completed; progress reports the counter (-1 if
	// the operation does not expose one right now); end cleans up.
	begin() error
	submit(key []byte) (bool, error)
	progress() int
	end(completed bool)
	close()
}

// ---- unseal: a fresh sealed Core per sequence

type c20Unseal struct {
	t   *testing.T
	cfg *c20Cfg
	s   *Sys
}

func (d *c20Unseal) begin() error {
	s, err := BootSealed(d.t, d.cfg.img.Data, d.cfg.img)
	if err != nil {
		return err
	}
	d.s = s
	return nil
}

func (d *c20Unseal) submit(key []byte) (bool, error) {
	un, err := d.s.Core.Unseal(vault.TestKeyCopy(key))
	return un, err
}

func (d *c20Unseal) progress() int {
	st, err := d.s.Core.GetSealStatus(namespace.RootContext(context.Background()), true)
	if err != nil || st == nil {
		return -1
	}
	return st.Progress
}

func (d *c20Unseal) end(completed bool) {
	if d.s == nil {
		return
	}
	if !d.s.Core.Sealed() {
		d.s.hookExpiry()
		d.s.settle()
	}
	d.s.Close()
	d.s = nil
}
func (d *c20Unseal) close() {}

// ---- operations on an unsealed Core (reused until an operation completes
// and changes the key material)

type c20Live struct {
	t     *testing.T
	cfg   *c20Cfg
	op    string
	s     *Sys
	nonce string
	// rekey/rotate: the new configuration asked for, and the result
	newShares [][]byte
}

const c20OTPLen = vault.TokenLength + vault.TokenPrefixLength

func (d *c20Live) ensure() error {
	if d.s != nil {
		return nil
	}
	s, err := BootData(d.t, d.cfg.img.Data, d.cfg.img)
	if err != nil {
		return err
	}
	d.s = s
	return nil
}

func (d *c20Live) begin() error {
	if err := d.ensure(); err != nil {
		return err
	}
	d.newShares = nil
	switch d.op {
	case "rekey":
		if herr := d.s.Core.RekeyInit(&vault.SealConfig{Type: "shamir", SecretShares: 3, SecretThreshold: 2}, false); herr != nil {
			return herr
		}
		rk, herr := d.s.Core.RekeyConfig(false)
		if herr != nil || rk == nil {
			return fmt.Errorf("no rekey config: %v", herr)
		}
		d.nonce = rk.Nonce
	case "rotate":
		resp, err := d.s.Req(d.s.Root, logical.UpdateOperation, "sys/rotate/root/init", map[string]interface{}{"secret_shares": 3, "secret_threshold": 2})
		if !OK(resp, err) || resp == nil {
			return fmt.Errorf("rotate init: %s", ErrText(resp, err))
		}
		n, _ := resp.Data["nonce"].(string)
		if n == "" {
			return fmt.Errorf("rotate init returned no nonce: %v", resp.Data)
		}
		d.nonce = n
	case "genroot":
		ctx := namespace.RootContext(context.Background())
		if err := d.s.Core.GenerateRootInit(ctx, strings.Repeat("k", c20OTPLen), "", vault.GenerateStandardRootTokenStrategy); err != nil {
			return err
		}
		conf, err := d.s.Core.GenerateRootConfiguration(ctx)
		if err != nil || conf == nil {
			return fmt.Errorf("no generate-root config: %v", err)
		}
		d.nonce = conf.Nonce
	}
	return nil
}

func (d *c20Live) submit(key []byte) (bool, error) {
	switch d.op {
	case "rekey":
		r, herr := d.s.Core.RekeyUpdate(context.Background(), vault.TestKeyCopy(key), d.nonce, false)
		if herr != nil {
			return false, herr
		}
		if r != nil {
			d.newShares = r.SecretShares
			return true, nil
		}
		return false, nil
	case "rotate":
		resp, err := d.s.Req(d.s.Root, logical.UpdateOperation, "sys/rotate/root/update", map[string]interface{}{"key": hex.EncodeToString(key), "nonce": d.nonce})
		if !OK(resp, err) {
			return false, fmt.Errorf("%s", ErrText(resp, err))
		}
		if resp != nil {
			if c, _ := resp.Data["complete"].(bool); c {
				ks, _ := resp.Data["keys"].([]string)
				for _, k := range ks {
					b, _ := hex.DecodeString(k)
					d.newShares = append(d.newShares, b)
				}
				return true, nil
			}
		}
		return false, nil
	case "genroot":
		ctx := namespace.RootContext(context.Background())
		r, err := d.s.Core.GenerateRootUpdate(ctx, vault.TestKeyCopy(key), d.nonce, vault.GenerateStandardRootTokenStrategy)
		if err != nil {
			return false, err
		}
		return r != nil && r.EncodedToken != "", nil
	}
	return false, fmt.Errorf("unknown op")
}

func (d *c20Live) progress() int {
	switch d.op {
	case "rekey":
		_, p, herr := d.s.Core.RekeyProgress(false, false)
		if herr != nil {
			return -1
		}
		return p
	case "rotate":
		resp, err := d.s.Req(d.s.Root, logical.ReadOperation, "sys/rotate/root/init", nil)
		if !OK(resp, err) || resp == nil {
			return -1
		}
		if st, _ := resp.Data["started"].(bool); !st {
			return -1
		}
		p, ok := resp.Data["progress"].(int)
		if !ok {
			return -1
		}
		return p
	case "genroot":
		p, err := d.s.Core.GenerateRootProgress(namespace.RootContext(context.Background()))
		if err != nil {
			return -1
		}
		return p
	}
	return -1
}

func (d *c20Live) end(completed bool) {
	if d.s == nil {
		return
	}
	switch d.op {
	case "rekey":
		if completed {
			d.drop() // key material changed
			return
		}
		_ = d.s.Core.RekeyCancel(false)
	case "rotate":
		if completed {
			d.drop()
			return
		}
		_, _ = d.s.Req(d.s.Root, logical.DeleteOperation, "sys/rotate/root/init", nil)
	case "genroot":
		_ = d.s.Core.GenerateRootCancel(namespace.RootContext(context.Background()))
	}
}

func (d *c20Live) drop() {
	if d.s != nil {
		d.s.Close()
		d.s = nil
	}
}
func (d *c20Live) close() { d.drop() }

// c20CheckNewShares: after a completed rekey/rotation to (3,2) the new shares
// obey the same accounting on a restarted Core: one share is not enough, any
// two are, and the old shares no longer open it.
func c20CheckNewShares(t *testing.T, res *vout.Result, cfg *c20Cfg, d *c20Live, what string) {
	if len(d.newShares) != 3 {
		res.Violate("c20:core:"+d.op+":new-share-count", fmt.Sprintf("%s: %s to (3,2) returned %d shares", what, d.op, len(d.newShares)), map[string]interface{}{"what": what})
		return
	}
	data := d.s.Phys.Snapshot()
	for mask := 1; mask < 8; mask++ {
		var ks [][]byte
		for i := 0; i < 3; i++ {
			if mask&(1<<uint(i)) != 0 {
				ks = append(ks, d.newShares[i])
			}
		}
		sx, err := BootSealed(t, data, cfg.img)
		if err != nil {
			t.Fatalf("harness: boot after %s: %v", d.op, err)
		}
		ok, _ := sx.TryUnseal(ks)
		sx.Close()
		res.Add("evaluations", 1)
		res.Add("new_share_subsets", 1)
		want := len(ks) >= 2
		if ok != want {
			res.Violate("c20:core:"+d.op+":new-shares-threshold", fmt.Sprintf("%s: after %s to (3,2), unseal with new shares subset %03b: unsealed=%v, want %v", what, d.op, mask, ok, want), map[string]interface{}{"what": what, "mask": mask})
		}
	}
	sx, err := BootSealed(t, data, cfg.img)
	if err != nil {
		t.Fatalf("harness: boot after %s: %v", d.op, err)
	}
	var old [][]byte
	for _, a := range cfg.alpha {
		if a.Genuine {
			old = append(old, a.Key)
		}
	}
	ok, _ := sx.TryUnseal(old)
	sx.Close()
	res.Add("evaluations", 1)
	if ok {
		res.Violate("c20:core:"+d.op+":old-shares-still-valid", fmt.Sprintf("%s: after a completed %s the previous shares still unseal", what, d.op), map[string]interface{}{"what": what})
	}
}

func TestVerifC20Core(t *testing.T) {
	res := vout.New("C20", "core")
	defer func() {
		if err := res.Write(); err != nil {
			t.Fatal(err)
		}
	}()
	if vout.ReplayPath() != "" {
		t.Log("C20 core artefacts name (operation, n, t, submission sequence); re-run the check to reproduce (deterministic enumeration)")
		return
	}
	thorough := vout.Thorough()
	deadline := time.Now().Add(time.Duration(vout.DeadlineS()) * time.Second)
	type nt struct{ n, t int }
	shapes := []nt{{1, 1}, {2, 2}, {3, 2}, {3, 3}, {4, 2}, {4, 3}}
	if thorough {
		shapes = append(shapes, nt{4, 4}, nt{5, 3})
	}
	res.Bound("seal_configurations", fmt.Sprint(shapes))
	extra := 1
	if thorough {
		extra = 2
	}
	res.Bound("sequence_length", fmt.Sprintf("full alphabet: t+%d; t genuine shares + corrupted copy: min(2t+%d, 7)", extra, extra-1))
	item := 0
	outcomes := map[string]int{}
	for _, sh := range shapes {
		s0 := c20Build(t, sh.n, sh.t)
		nsKeys := c20AddNamespace(t, s0, sh.n, sh.t)
		cfg := &c20Cfg{n: sh.n, t: sh.t, img: s0.Image()}
		s0.Close()
		cfg.alpha = c20Alphabet(cfg.img.Keys, sh.n)
		cfg.nsAlpha = c20Alphabet(nsKeys, sh.n)
		lmax := sh.t + extra
		ops := []string{"unseal", "genroot", "rekey", "rotate", "nsunseal"}
		for _, op := range ops {
			// quick: the key-changing operations are enumerated for two shapes
			if !thorough && (op == "rekey" || op == "rotate") && !(sh == (nt{3, 2}) || sh == (nt{4, 3}) || sh == (nt{1, 1})) {
				continue
			}
			var d c20Driver
			if op == "unseal" {
				d = &c20Unseal{t: t, cfg: cfg}
			} else if op == "nsunseal" {
				d = &c20NSUnseal{t: t, cfg: cfg}
			} else {
				d = &c20Live{t: t, cfg: cfg, op: op}
			}
			checkedNew := false
			// family "wide": the full alphabet to depth t+1 (t+2);
			// family "deep": t genuine shares and the corrupted copy to depth
			// 2t (2t+1), which reaches a second attempt after a failed one.
			var deepAlpha []c20Sym
			for _, a := range cfg.alpha {
				if (a.Genuine && len(deepAlpha) < sh.t) || a.Name == "C" {
					deepAlpha = append(deepAlpha, a)
				}
			}
			fullAlpha := cfg.alpha
			if op == "nsunseal" {
				fullAlpha, deepAlpha = cfg.nsAlpha, nil
				for _, a := range cfg.nsAlpha {
					if (a.Genuine && len(deepAlpha) < sh.t) || a.Name == "C" {
						deepAlpha = append(deepAlpha, a)
					}
				}
			}
			for fam := 0; fam < 2; fam++ {
				famAlpha, famMax := fullAlpha, lmax
				if fam == 1 {
					famAlpha, famMax = deepAlpha, 2*sh.t+extra-1
					if famMax > 7 {
						famMax = 7 // t=4: 5^7 sequences
					}
				}
				cfg := &c20Cfg{n: cfg.n, t: cfg.t, img: cfg.img, alpha: famAlpha}
				c20Leaves(cfg.alpha, sh.t, famMax, func(seq []int) {
					item++
					if !vout.Mine(item) {
						return
					}
					if time.Now().After(deadline) {
						if res.Exhaustive {
							res.NotExhaustive("time budget reached; remaining submission sequences skipped")
						}
						return
					}
					name := fmt.Sprintf("%s (n=%d,t=%d): %s", op, sh.n, sh.t, c20SeqName(cfg.alpha, seq))
					replay := map[string]interface{}{"op": op, "n": sh.n, "t": sh.t, "sequence": c20SeqName(cfg.alpha, seq)}
					if err := d.begin(); err != nil {
						t.Fatalf("harness: %s: begin: %v", name, err)
					}
					m := c20Model{t: sh.t}
					completed := false
					attempts := 0
					for i, sym := range seq {
						attempt, want := m.step(sym, cfg.alpha)
						if attempt {
							attempts++
						}
						got, err := d.submit(cfg.alpha[sym].Key)
						res.Add("submissions", 1)
						at := fmt.Sprintf("%s; at submission %d (%s)", name, i+1, cfg.alpha[sym].Name)
						if got && !want {
							why := "fewer than t distinct shares had been supplied"
							if attempt {
								why = "the t distinct keys supplied include one that is not a genuine share"
							}
							res.Violate("c20:core:"+op+":proceeded-without-threshold", at+": the operation completed although "+why, replay)
							completed = true
							break
						}
						if !got && want {
							res.Violate("c20:core:"+op+":not-completed-at-threshold", fmt.Sprintf("%s: t distinct genuine shares have been supplied but the operation did not complete (err=%v)", at, err), replay)
							break
						}
						if got {
							completed = true
							break
						}
						if p := d.progress(); p >= 0 {
							res.Add("progress_reads", 1)
							if wantP := bits.OnesCount32(m.have); p != wantP {
								res.Violate("c20:core:"+op+":progress", fmt.Sprintf("%s: reported progress %d, %d distinct well-formed keys are pending", at, p, wantP), replay)
								break
							}
						}
					}
					res.Add("evaluations", 1)
					cls := "incomplete"
					if completed {
						cls = "completed"
						if checkNew, ok := d.(*c20Live); ok && (op == "rekey" || op == "rotate") && !checkedNew {
							checkedNew = true
							c20CheckNewShares(t, res, cfg, checkNew, name)
						}
					}
					outcomes[fmt.Sprintf("%s|%s|attempts=%d", op, cls, attempts)]++
					res.Distinct("nontrivial", fmt.Sprintf("%s|%d|%d|%s", op, sh.n, sh.t, c20SeqName(cfg.alpha, seq)))
					res.Distinct("outcome", fmt.Sprintf("%s|%s|a%d", op, cls, attempts))
					d.end(completed)
				})
			}
			d.close()
		}
	}
	for k, v := range outcomes {
		res.Add("outcome:"+k, int64(v))
	}
	res.Bound("sequences_enumerated", item)
	res.Sample(map[string]interface{}{"example": "unseal (n=4,t=3): V2 V2 C V0 -> attempt with {V2,C,V0} fails, progress back to 0; unseal (n=4,t=3): V3 S V3 V1 V0 -> unsealed at the fifth submission"})
}
