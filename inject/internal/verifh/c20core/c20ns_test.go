package c20core

// C20, namespace seals: the same threshold accounting for a namespace that
// carries its own Shamir seal (sys/namespaces/<ns>/unseal).  The namespace is
// created with (n,t) in the image and sealed; every submission sequence over
// its genuine shares, repeats, a corrupted copy, a foreign share and a key of
// an impossible length is sent to the unseal endpoint of a live Core; the
// namespace opens exactly when t distinct genuine shares have been supplied,
// and the reported progress counts distinct well-formed keys only.

import (
	"encoding/hex"
	"fmt"
	"testing"

	"github.com/openbao/openbao/sdk/v2/logical"
)

const c20NSName = "sn"

// c20AddNamespace creates namespace sn with seal configuration (n,t) on a
// live system, seals it and returns its shares.
func c20AddNamespace(t *testing.T, s *Sys, n, thr int) [][]byte {
	t.Helper()
	resp, err := s.Req(s.Root, logical.UpdateOperation, "sys/namespaces/"+c20NSName, map[string]interface{}{
		"seal": fmt.Sprintf(`seal "shamir" { shares = "%d" threshold = "%d" }`, n, thr)})
	if !OK(resp, err) || resp == nil {
		t.Fatalf("harness: create sealable namespace (%d,%d): %s", n, thr, ErrText(resp, err))
	}
	ks, _ := resp.Data["key_shares"].([]string)
	if len(ks) != n {
		t.Fatalf("harness: namespace (%d,%d) returned %d shares", n, thr, len(ks))
	}
	var out [][]byte
	for _, k := range ks {
		b, err := hex.DecodeString(k)
		if err != nil {
			t.Fatalf("harness: %v", err)
		}
		out = append(out, b)
	}
	s.Must(s.Req(s.Root, logical.UpdateOperation, "sys/namespaces/"+c20NSName+"/seal", nil))
	return out
}

type c20NSUnseal struct {
	t   *testing.T
	cfg *c20Cfg
	s   *Sys
}

func (d *c20NSUnseal) sealed() (bool, int) {
	resp, err := d.s.Req(d.s.Root, logical.ReadOperation, "sys/namespaces/"+c20NSName+"/seal-status", nil)
	if !OK(resp, err) || resp == nil {
		d.t.Fatalf("harness: namespace seal-status: %s", ErrText(resp, err))
	}
	sealed, _ := resp.Data["sealed"].(bool)
	p, _ := resp.Data["progress"].(int)
	return sealed, p
}

func (d *c20NSUnseal) begin() error {
	if d.s == nil {
		s, err := BootData(d.t, d.cfg.img.Data, d.cfg.img)
		if err != nil {
			return err
		}
		d.s = s
	}
	if sealed, _ := d.sealed(); !sealed {
		return fmt.Errorf("namespace is not sealed at the start of a sequence")
	}
	if resp, err := d.s.Req(d.s.Root, logical.UpdateOperation, "sys/namespaces/"+c20NSName+"/unseal", map[string]interface{}{"reset": true}); !OK(resp, err) {
		return fmt.Errorf("reset: %s", ErrText(resp, err))
	}
	return nil
}

func (d *c20NSUnseal) submit(key []byte) (bool, error) {
	resp, err := d.s.Req(d.s.Root, logical.UpdateOperation, "sys/namespaces/"+c20NSName+"/unseal", map[string]interface{}{"key": hex.EncodeToString(key)})
	var rerr error
	if !OK(resp, err) {
		rerr = fmt.Errorf("%s", ErrText(resp, err))
	}
	sealed, _ := d.sealed()
	return !sealed, rerr
}

func (d *c20NSUnseal) progress() int {
	_, p := d.sealed()
	return p
}

func (d *c20NSUnseal) end(completed bool) {
	if d.s == nil {
		return
	}
	if sealed, _ := d.sealed(); !sealed {
		// a fresh Core for the next sequence: sealing again inside one process is
		// possible, but a fresh boot keeps sequences independent of each other
		d.s.Close()
		d.s = nil
	}
}

func (d *c20NSUnseal) close() {
	if d.s != nil {
		d.s.Close()
		d.s = nil
	}
}
