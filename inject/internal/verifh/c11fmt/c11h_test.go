package c11fmt

// C11 (H): in the default (non-raw) mode audit entries never contain the
// plaintext of client tokens, wrapping tokens, accessors when so configured, or
// any string value inside request or response data other than explicitly
// exempted fields -- for ALL payload shapes up to a depth/width bound.
//
// The real formatter (audit.AuditFormatter + JSON writer + salt) is fed every
// tree over {map, slice} nodes and {secret string, empty string, number, bool,
// nil, RFC3339 time string, []byte} leaves, placed in request data and response
// data, next to secret-marked auth / wrap-info fields.  Every secret leaf is a
// unique canary; the oracle scans the produced bytes (raw and base64 forms).

import (
	"bytes"
	"context"
	"crypto/sha256"
	"encoding/base64"
	"fmt"
	"strings"
	"testing"
	"time"

	"github.com/openbao/openbao/sdk/v2/helper/salt"
	"github.com/openbao/openbao/sdk/v2/helper/verif/vout"
	"github.com/openbao/openbao/sdk/v2/helper/wrapping"
	"github.com/openbao/openbao/sdk/v2/logical"
	"github.com/openbao/openbao/v2/internal/audit"
	"github.com/openbao/openbao/v2/internal/helper/namespace"
)

type leaf struct {
	kind string
}

// tree description: "L<k>" leaf of kind k, "M(a,b)" map with children under keys k0,k1, "S(a,b)" slice
type node struct {
	kind     string // leaf kinds: s e n b z t y ; nodes: M S
	children []*node
}

func (n *node) String() string {
	if len(n.children) == 0 {
		return n.kind
	}
	var cs []string
	for _, c := range n.children {
		cs = append(cs, c.String())
	}
	return n.kind + "(" + strings.Join(cs, ",") + ")"
}

type builder struct {
	n        int
	canaries []canary
}

type canary struct {
	text   string
	exempt bool
}

// build materialises the tree; nearestKey is the closest enclosing map key.
func (b *builder) build(n *node, nearestKey string, exemptKeys map[string]bool) interface{} {
	switch n.kind {
	case "s":
		b.n++
		c := fmt.Sprintf("CANARY-%d-zq", b.n)
		b.canaries = append(b.canaries, canary{c, exemptKeys[nearestKey]})
		return c
	case "y":
		b.n++
		c := fmt.Sprintf("CANARYB-%d-zq", b.n)
		b.canaries = append(b.canaries, canary{c, exemptKeys[nearestKey]})
		return []byte(c)
	case "d", "f", "h", "j", "u", "q", "w", "g", "o":
		// secret strings of particular SHAPES (the walker has a shortcut for
		// time-shaped strings; anything that merely looks numeric, date-like or
		// structured is still a secret string and must be hashed)
		b.n++
		var c string
		switch n.kind {
		case "d":
			c = fmt.Sprintf("90713%07d", b.n) // digits only (PIN, card number)
		case "f":
			c = fmt.Sprintf("48.21%07d", b.n) // decimal
		case "h":
			c = fmt.Sprintf("0x1F%07d", b.n)
		case "j":
			c = fmt.Sprintf("{\"a\":\"zq%07d\"}", b.n) // JSON text inside a string
		case "u":
			c = fmt.Sprintf("123e4567-e89b-12d3-a456-%012d", b.n) // uuid-like
		case "q":
			c = fmt.Sprintf("2026-01-02T03:04:05 %07d", b.n) // almost a timestamp
		case "w":
			c = fmt.Sprintf(" %07d90713 ", b.n) // digits with surrounding blanks
		case "g":
			c = fmt.Sprintf("-%07d90713", b.n) // negative integer
		case "o":
			c = fmt.Sprintf("17%08d", b.n) // plausible epoch seconds
		}
		b.canaries = append(b.canaries, canary{c, exemptKeys[nearestKey]})
		return c
	case "e":
		return ""
	case "n":
		return 42
	case "b":
		return true
	case "z":
		return nil
	case "t":
		return "2026-01-02T03:04:05Z"
	case "M":
		m := map[string]interface{}{}
		for i, c := range n.children {
			k := fmt.Sprintf("k%d", i)
			m[k] = b.build(c, k, exemptKeys)
		}
		return m
	case "S":
		var s []interface{}
		for _, c := range n.children {
			s = append(s, b.build(c, nearestKey, exemptKeys))
		}
		return s
	}
	panic("bad kind " + n.kind)
}

func trees(depth int, leaves []string) []*node {
	var cur []*node
	for _, l := range leaves {
		cur = append(cur, &node{kind: l})
	}
	all := append([]*node{}, cur...)
	for d := 1; d <= depth; d++ {
		var next []*node
		for _, k := range []string{"M", "S"} {
			for _, a := range all {
				next = append(next, &node{kind: k, children: []*node{a}})
				for _, b := range all {
					next = append(next, &node{kind: k, children: []*node{a, b}})
				}
			}
		}
		all = append(append([]*node{}, cur...), next...)
		if d == depth {
			return all
		}
	}
	return all
}

func TestVerifC11H(t *testing.T) {
	res := vout.New("C11", "format")
	defer func() {
		if err := res.Write(); err != nil {
			t.Fatal(err)
		}
	}()
	ctx := namespace.RootContext(context.Background())
	slt, err := salt.NewSalt(ctx, &logical.InmemStorage{}, &salt.Config{HMAC: sha256.New, HMACType: "hmac-sha256"})
	if err != nil {
		t.Fatal(err)
	}
	f := audit.AuditFormatter{AuditFormatWriter: &audit.JSONFormatWriter{SaltFunc: func(context.Context) (*salt.Salt, error) { return slt, nil }}}

	leaves := []string{"s", "e", "n", "b", "z", "t", "y"}
	depth := 2
	ts := trees(depth, leaves)
	if vout.Thorough() {
		// depth 3 over a reduced leaf alphabet, in addition to full depth 2
		ts = append(ts, trees(3, []string{"s", "n"})...)
	}
	// string-shape sweep: every shape at every position of small skeletons
	for _, sh := range []string{"d", "f", "h", "j", "u", "q", "w", "g", "o"} {
		l := &node{kind: sh}
		for _, sk := range []*node{
			l,
			{kind: "M", children: []*node{l}}, {kind: "S", children: []*node{l}},
			{kind: "M", children: []*node{{kind: "n"}, l}}, {kind: "S", children: []*node{{kind: "t"}, l}},
			{kind: "M", children: []*node{{kind: "M", children: []*node{l}}}}, {kind: "M", children: []*node{{kind: "S", children: []*node{l}}}},
			{kind: "S", children: []*node{{kind: "M", children: []*node{l}}}}, {kind: "S", children: []*node{{kind: "S", children: []*node{l, l}}}},
		} {
			ts = append(ts, sk)
		}
	}
	res.Bound("trees", len(ts))
	res.Bound("depth", depth)
	count := 0
	for ti, tr := range ts {
		if !vout.Mine(ti) {
			continue
		}
		for _, hmacAcc := range []bool{true, false} {
			for _, exempt := range []string{"", "k0", "k1"} {
				ex := map[string]bool{}
				var nonHMAC []string
				if exempt != "" {
					ex[exempt] = true
					nonHMAC = []string{exempt}
				}
				// response shapes: a wrapped token (auth block + wrap-info naming the wrapped token's
				// accessor), a wrapped SECRET (wrap-info without wrapped accessor, no auth block), a
				// plain login (auth block only), a plain read. All four for the first 64 trees of
				// the enumeration (simplest first), the first one for the rest.
				places := []string{"request", "response"}
				if ti < 64 {
					places = append(places, "response:wrapped-secret", "response:auth-only", "response:plain")
				}
				for _, place := range places {
					shape := strings.TrimPrefix(strings.TrimPrefix(place, "response"), ":")
					if strings.HasPrefix(place, "response") {
						place = "response"
					}
					count++
					b := &builder{}
					top := map[string]interface{}{"k0": b.build(tr, "k0", ex), "k1": "2026-01-02T03:04:05Z"}
					tokC, accC := "CANARY-TOKEN-zq", "CANARY-ACCESSOR-zq"
					wrapTok, wrapAcc := "CANARY-WRAPTOKEN-zq", "CANARY-WRAPACC-zq"
					req := &logical.Request{Operation: logical.UpdateOperation, Path: "secret/x", ClientToken: tokC, ClientTokenAccessor: accC,
						Connection: &logical.Connection{RemoteAddr: "10.0.0.1"}}
					in := &logical.LogInput{Request: req, Auth: &logical.Auth{ClientToken: tokC, Accessor: accC, Policies: []string{"default"}}}
					var buf bytes.Buffer
					var ferr error
					cfg := audit.FormatterConfig{HMACAccessor: hmacAcc}
					if place == "request" {
						req.Data = top
						in.NonHMACReqDataKeys = nonHMAC
						ferr = f.FormatRequest(ctx, &buf, cfg, in)
					} else {
						in.Response = &logical.Response{
							Data: top,
							Auth: &logical.Auth{ClientToken: "CANARY-NEWTOKEN-zq", Accessor: "CANARY-NEWACC-zq", Policies: []string{"p"}},
							WrapInfo: &wrapping.ResponseWrapInfo{Token: wrapTok, Accessor: wrapAcc, WrappedAccessor: "CANARY-WRAPPEDACC-zq",
								TTL: time.Minute, CreationTime: time.Unix(1700000000, 0), CreationPath: "secret/x"},
						}
						switch shape {
						case "wrapped-secret":
							in.Response.Auth = nil
							in.Response.WrapInfo.WrappedAccessor = ""
						case "auth-only":
							in.Response.WrapInfo = nil
						case "plain":
							in.Response.Auth, in.Response.WrapInfo = nil, nil
						}
						in.NonHMACRespDataKeys = nonHMAC
						ferr = f.FormatResponse(ctx, &buf, cfg, in)
					}
					res.Add("evaluations", 1)
					art := map[string]interface{}{"tree": tr.String(), "place": place, "response_shape": shape, "hmac_accessor": hmacAcc, "exempt_key": exempt}
					if ferr != nil {
						// refusing to format is fail-closed, never a leak
						res.Add("format_errors", 1)
						res.Distinct("nontrivial", "err|"+place)
						res.Note("format error: %v (%v)", ferr, art)
						continue
					}
					out := buf.String()
					leak := func(c string) bool {
						return strings.Contains(out, c) || strings.Contains(out, base64.StdEncoding.EncodeToString([]byte(c)))
					}
					secrets := []string{tokC, "CANARY-NEWTOKEN-zq", wrapTok}
					if hmacAcc {
						secrets = append(secrets, accC, "CANARY-NEWACC-zq", wrapAcc, "CANARY-WRAPPEDACC-zq")
					}
					for _, c := range secrets {
						if place == "request" && (c == "CANARY-NEWTOKEN-zq" || c == wrapTok || c == "CANARY-NEWACC-zq" || c == wrapAcc || c == "CANARY-WRAPPEDACC-zq") {
							continue
						}
						if leak(c) {
							res.Violate("c11:format:token-or-accessor-in-clear", fmt.Sprintf("%v: %s appears in the %s entry: %s", art, c, place, clip(out)), art)
						}
					}
					nsecret, nexempt := 0, 0
					for _, c := range b.canaries {
						if c.exempt {
							nexempt++
							continue
						}
						nsecret++
						if leak(c.text) {
							res.Violate("c11:format:data-string-in-clear", fmt.Sprintf("%v: secret leaf %s appears in the %s entry: %s", art, c.text, place, clip(out)), art)
						}
					}
					res.Distinct("nontrivial", fmt.Sprintf("%s|%s|%s|acc=%v|ex=%s", tr.String(), place, shape, hmacAcc, exempt))
					if count%20011 == 0 {
						res.Sample(map[string]interface{}{"case": art, "secret_leaves": nsecret, "exempt_leaves": nexempt, "entry_bytes": len(out)})
					}
				}
			}
		}
	}
}

func clip(s string) string {
	if len(s) > 600 {
		return s[:600] + "..."
	}
	return s
}
