package c15pki

// CSR construction for the C15 harness (keys are generated once per process,
// CSRs are cached by their specification).

import (
	"crypto"
	"crypto/ecdsa"
	"crypto/ed25519"
	"crypto/elliptic"
	"crypto/rand"
	"crypto/rsa"
	"crypto/x509"
	"crypto/x509/pkix"
	"encoding/asn1"
	"encoding/json"
	"encoding/pem"
	"fmt"
	"net"
	"net/url"
	"strings"
	"sync"
)

type keyring struct {
	mu   sync.Mutex
	keys map[string]crypto.Signer
	csrs map[string]string
}

var kr = &keyring{keys: map[string]crypto.Signer{}, csrs: map[string]string{}}

func (k *keyring) key(name string) crypto.Signer {
	k.mu.Lock()
	defer k.mu.Unlock()
	if s, ok := k.keys[name]; ok {
		return s
	}
	var s crypto.Signer
	var err error
	switch name {
	case "ec224":
		s, err = ecdsa.GenerateKey(elliptic.P224(), rand.Reader)
	case "ec256":
		s, err = ecdsa.GenerateKey(elliptic.P256(), rand.Reader)
	case "ec384":
		s, err = ecdsa.GenerateKey(elliptic.P384(), rand.Reader)
	case "rsa1024":
		s, err = rsa.GenerateKey(rand.Reader, 1024)
	case "rsa2048":
		s, err = rsa.GenerateKey(rand.Reader, 2048)
	case "rsa3072":
		s, err = rsa.GenerateKey(rand.Reader, 3072)
	case "ed25519":
		var priv ed25519.PrivateKey
		_, priv, err = ed25519.GenerateKey(rand.Reader)
		s = priv
	default:
		panic("unknown key " + name)
	}
	if err != nil {
		panic(err)
	}
	k.keys[name] = s
	return s
}

var (
	oidBC     = asn1.ObjectIdentifier{2, 5, 29, 19}
	oidKU     = asn1.ObjectIdentifier{2, 5, 29, 15}
	oidEKU    = asn1.ObjectIdentifier{2, 5, 29, 37}
	oidNC     = asn1.ObjectIdentifier{2, 5, 29, 30}
	oidOdd    = asn1.ObjectIdentifier{1, 3, 6, 1, 4, 1, 99999, 1}
	oidAnyEKU = asn1.ObjectIdentifier{2, 5, 29, 37, 0}
)

func mustMarshal(v interface{}, params ...string) []byte {
	var b []byte
	var err error
	if len(params) > 0 {
		b, err = asn1.MarshalWithParams(v, params[0])
	} else {
		b, err = asn1.Marshal(v)
	}
	if err != nil {
		panic(err)
	}
	return b
}

// sanExtension builds a subjectAltName by hand so that otherName entries and
// arbitrary byte strings can be requested.
func sanExtension(s *CSRSpec) (pkix.Extension, bool) {
	var raws []asn1.RawValue
	for _, o := range s.Others {
		// oid;utf8:value
		semi := strings.Index(o, ";")
		colon := strings.Index(o, ":")
		var oid asn1.ObjectIdentifier
		for _, p := range strings.Split(o[:semi], ".") {
			n := 0
			fmt.Sscanf(p, "%d", &n)
			oid = append(oid, n)
		}
		utf := mustMarshal(asn1.RawValue{Class: asn1.ClassUniversal, Tag: asn1.TagUTF8String, Bytes: []byte(o[colon+1:])})
		wrapped := mustMarshal(asn1.RawValue{Class: asn1.ClassContextSpecific, Tag: 0, IsCompound: true, Bytes: utf})
		body := append(mustMarshal(oid), wrapped...)
		raws = append(raws, asn1.RawValue{Class: asn1.ClassContextSpecific, Tag: 0, IsCompound: true, Bytes: body})
	}
	for _, e := range s.Emails {
		raws = append(raws, asn1.RawValue{Class: asn1.ClassContextSpecific, Tag: 1, Bytes: []byte(e)})
	}
	for _, d := range s.DNS {
		raws = append(raws, asn1.RawValue{Class: asn1.ClassContextSpecific, Tag: 2, Bytes: []byte(d)})
	}
	for _, u := range s.URIs {
		raws = append(raws, asn1.RawValue{Class: asn1.ClassContextSpecific, Tag: 6, Bytes: []byte(u)})
	}
	for _, i := range s.IPs {
		ip := net.ParseIP(i)
		if v4 := ip.To4(); v4 != nil {
			ip = v4
		}
		raws = append(raws, asn1.RawValue{Class: asn1.ClassContextSpecific, Tag: 7, Bytes: ip})
	}
	if len(raws) == 0 {
		return pkix.Extension{}, false
	}
	return pkix.Extension{Id: oidSAN, Value: mustMarshal(raws)}, true
}

// csrFor returns the PEM CSR for a specification ("" if Go refuses to build it).
func csrFor(s *CSRSpec) (string, crypto.PublicKey) {
	kb, _ := json.Marshal(s)
	keyID := string(kb)
	signer := kr.key(s.Key)
	kr.mu.Lock()
	if c, ok := kr.csrs[keyID]; ok {
		kr.mu.Unlock()
		return c, signer.Public()
	}
	kr.mu.Unlock()
	tmpl := &x509.CertificateRequest{
		Subject: pkix.Name{CommonName: s.CN, Organization: s.Org, SerialNumber: s.Serial},
	}
	if san, ok := sanExtension(s); ok {
		tmpl.ExtraExtensions = append(tmpl.ExtraExtensions, san)
	}
	if s.ExtCA {
		type bc struct {
			IsCA       bool `asn1:"optional"`
			MaxPathLen int  `asn1:"optional,default:-1"`
		}
		tmpl.ExtraExtensions = append(tmpl.ExtraExtensions, pkix.Extension{Id: oidBC, Critical: true, Value: mustMarshal(bc{IsCA: true, MaxPathLen: -1})})
	}
	if s.ExtKU {
		// keyCertSign(5) | cRLSign(6) | digitalSignature(0)
		ku := asn1.BitString{Bytes: []byte{0x86}, BitLength: 7}
		tmpl.ExtraExtensions = append(tmpl.ExtraExtensions, pkix.Extension{Id: oidKU, Critical: true, Value: mustMarshal(ku)})
		tmpl.ExtraExtensions = append(tmpl.ExtraExtensions, pkix.Extension{Id: oidEKU, Value: mustMarshal([]asn1.ObjectIdentifier{oidAnyEKU})})
	}
	if s.ExtOdd {
		tmpl.ExtraExtensions = append(tmpl.ExtraExtensions, pkix.Extension{Id: oidOdd, Value: mustMarshal("c15")})
		// NameConstraints permitting dNSName "" (= everything)
		gn := asn1.RawValue{Class: asn1.ClassContextSpecific, Tag: 2, Bytes: []byte("com")}
		subtree := mustMarshal([]asn1.RawValue{gn})
		permitted := asn1.RawValue{Class: asn1.ClassContextSpecific, Tag: 0, IsCompound: true, Bytes: subtree}
		tmpl.ExtraExtensions = append(tmpl.ExtraExtensions, pkix.Extension{Id: oidNC, Critical: true, Value: mustMarshal([]asn1.RawValue{permitted})})
	}
	der, err := x509.CreateCertificateRequest(rand.Reader, tmpl, signer)
	out := ""
	if err == nil {
		out = string(pem.EncodeToMemory(&pem.Block{Type: "CERTIFICATE REQUEST", Bytes: der}))
	}
	kr.mu.Lock()
	kr.csrs[keyID] = out
	kr.mu.Unlock()
	return out, signer.Public()
}

var _ = url.Parse
