package c15pki

// C15 oracle.  Written from the property statement and the public role
// documentation (website/content/docs/api/secret/pki.mdx), NOT from
// cert_util.go: host names are compared as DNS *label sequences*, never by
// string suffix.  The oracle is only ever consulted for ACCEPTED requests; a
// refusal is never an alarm.  Wherever the documentation is silent the reading
// that is at least as permissive as the implementation is taken and written
// down next to the clause.

import (
	"crypto/ecdsa"
	"crypto/ed25519"
	"crypto/rsa"
	"crypto/x509"
	"encoding/asn1"
	"fmt"
	"net"
	"strings"
	"time"

	"golang.org/x/net/idna"
)

// Role is the semantic description of a role; api() turns it into the request
// that creates it, the oracle reads the struct (never the stored role).
type Role struct {
	Name      string   `json:"name"`
	Bare      bool     `json:"bare"`
	Sub       bool     `json:"sub"`
	Glob      bool     `json:"glob"`
	Wild      bool     `json:"wild"`
	Localhost bool     `json:"localhost"`
	Any       bool     `json:"any"`
	Enforce   bool     `json:"enforce"`
	Domains   []string `json:"domains"`

	AllowIP bool     `json:"allow_ip"`
	CIDRs   []string `json:"cidrs"`
	URIs    []string `json:"uris"`
	Others  []string `json:"others"`

	KeyType string `json:"key_type"`
	KeyBits int    `json:"key_bits"`

	TTL           time.Duration `json:"ttl"`
	MaxTTL        time.Duration `json:"max_ttl"`
	NotAfter      string        `json:"not_after"`       // role-fixed not_after
	NotAfterBound string        `json:"not_after_bound"` // "" (= permit), permit, forbid, ttl-limited, RFC3339
	NotBeforeBnd  string        `json:"not_before_bound"`
	NotBeforeDur  time.Duration `json:"not_before_duration"`

	KeyUsage    []string `json:"key_usage"` // nil = default
	KeyUsageSet bool     `json:"key_usage_set"`
	Server      bool     `json:"server"`
	Client      bool     `json:"client"`
	CodeSign    bool     `json:"code_sign"`
	EmailProt   bool     `json:"email_prot"`
	ExtKU       []string `json:"ext_ku"`

	NoCSRCN   bool     `json:"no_csr_cn"`   // use_csr_common_name=false
	NoCSRSANs bool     `json:"no_csr_sans"` // use_csr_sans=false
	Org       []string `json:"org"`
	BCNonCA   bool     `json:"bc_non_ca"`
	IssuerRef string   `json:"issuer_ref"` // role-level issuer (legacy paths)
}

func (r *Role) api() map[string]interface{} {
	m := map[string]interface{}{
		"allow_bare_domains":                 r.Bare,
		"allow_subdomains":                   r.Sub,
		"allow_glob_domains":                 r.Glob,
		"allow_wildcard_certificates":        r.Wild,
		"allow_localhost":                    r.Localhost,
		"allow_any_name":                     r.Any,
		"enforce_hostnames":                  r.Enforce,
		"allowed_domains":                    r.Domains,
		"allow_ip_sans":                      r.AllowIP,
		"allowed_ip_sans_cidr":               r.CIDRs,
		"allowed_uri_sans":                   r.URIs,
		"allowed_other_sans":                 r.Others,
		"key_type":                           r.KeyType,
		"key_bits":                           r.KeyBits,
		"require_cn":                         false,
		"server_flag":                        r.Server,
		"client_flag":                        r.Client,
		"code_signing_flag":                  r.CodeSign,
		"email_protection_flag":              r.EmailProt,
		"use_csr_common_name":                !r.NoCSRCN,
		"use_csr_sans":                       !r.NoCSRSANs,
		"basic_constraints_valid_for_non_ca": r.BCNonCA,
	}
	if r.TTL > 0 {
		m["ttl"] = int(r.TTL / time.Second)
	}
	if r.MaxTTL > 0 {
		m["max_ttl"] = int(r.MaxTTL / time.Second)
	}
	if r.NotAfter != "" {
		m["not_after"] = r.NotAfter
	}
	if r.NotAfterBound != "" {
		m["not_after_bound"] = r.NotAfterBound
	}
	if r.NotBeforeBnd != "" {
		m["not_before_bound"] = r.NotBeforeBnd
	}
	if r.NotBeforeDur > 0 {
		m["not_before_duration"] = int(r.NotBeforeDur / time.Second)
	}
	if r.KeyUsageSet {
		m["key_usage"] = r.KeyUsage
	}
	if len(r.ExtKU) > 0 {
		m["ext_key_usage"] = r.ExtKU
	}
	if len(r.Org) > 0 {
		m["organization"] = r.Org
	}
	if r.IssuerRef != "" {
		m["issuer_ref"] = r.IssuerRef
	}
	return m
}

// CSRSpec describes a certificate request built by the harness.
type CSRSpec struct {
	Key    string   `json:"key"` // ec224 ec256 ec384 rsa1024 rsa2048 ed25519
	CN     string   `json:"cn"`
	DNS    []string `json:"dns"`
	Emails []string `json:"emails"`
	IPs    []string `json:"ips"`
	URIs   []string `json:"uris"`
	Others []string `json:"others"` // oid;utf8:value
	Org    []string `json:"org"`
	Serial string   `json:"serial"`  // subject serialNumber
	ExtCA  bool     `json:"ext_ca"`  // BasicConstraints CA:TRUE
	ExtKU  bool     `json:"ext_ku"`  // KeyUsage certSign|cRLSign, ExtKeyUsage any
	ExtOdd bool     `json:"ext_odd"` // private extension 1.3.6.1.4.1.99999.1 + name constraints
}

// Req is one request.
type Req struct {
	Endpoint  string   `json:"endpoint"` // issue sign sign-verbatim sign-verbatim-norole sign-intermediate
	Legacy    bool     `json:"legacy"`   // use issue/<role> (issuer from the role) instead of issuer/<ref>/issue/<role>
	Issuer    string   `json:"issuer"`
	CN        string   `json:"cn"`
	Alt       []string `json:"alt"`
	IPs       []string `json:"ips"`
	URIs      []string `json:"uris"`
	Others    []string `json:"others"`
	TTL       string   `json:"ttl"`
	NotAfter  string   `json:"not_after"`
	NotBefore string   `json:"not_before"`
	ExcludeCN bool     `json:"exclude_cn"`
	KeyType   string   `json:"req_key_type"`
	KeyBits   int      `json:"req_key_bits"`
	CSR       *CSRSpec `json:"csr"`
}

type issuerInfo struct {
	name     string
	id       string
	cert     *x509.Certificate
	behavior string // err truncate permit
}

type finding struct{ sig, msg string }

// ---------------------------------------------------------------------------
// names as label sequences

var unicodeDots = strings.NewReplacer("。", ".", "．", ".", "｡", ".")

var lenientIDNA = idna.New(idna.MapForLookup(), idna.Transitional(false))

// toLabels turns a host name into its DNS label sequence in canonical form:
// IDNA dot variants are separators, labels are lower-cased, a non-ASCII label
// is replaced by its A-label when it has one, one trailing empty label (the
// root, "example.com.") is dropped.
func toLabels(host string) []string {
	host = unicodeDots.Replace(host)
	parts := strings.Split(host, ".")
	if len(parts) > 1 && parts[len(parts)-1] == "" {
		parts = parts[:len(parts)-1]
	}
	out := make([]string, len(parts))
	for i, p := range parts {
		l := strings.ToLower(p)
		ascii := true
		for _, c := range l {
			if c > 127 {
				ascii = false
			}
		}
		if !ascii {
			if a, err := lenientIDNA.ToASCII(l); err == nil && a != "" {
				l = strings.ToLower(a)
			}
		}
		out[i] = l
	}
	return out
}

func eqLabels(a, b []string) bool {
	if len(a) != len(b) {
		return false
	}
	for i := range a {
		if a[i] != b[i] {
			return false
		}
	}
	return true
}

// properSuffix: b is a suffix of a and a has at least one more label.
func properSuffix(a, b []string) bool {
	if len(b) == 0 || len(a) <= len(b) {
		return false
	}
	return eqLabels(a[len(a)-len(b):], b)
}

// globMatch: shell style, '*' matches any (possibly empty) run of characters
// including dots (documented: "can match across multiple domain parts").
func globMatch(pat, s string) bool {
	// iterative wildcard match
	p, i := 0, 0
	star, mark := -1, 0
	for i < len(s) {
		switch {
		case p < len(pat) && pat[p] == '*':
			star, mark = p, i
			p++
		case p < len(pat) && pat[p] == s[i]:
			p++
			i++
		case star >= 0:
			p = star + 1
			mark++
			i = mark
		default:
			return false
		}
	}
	for p < len(pat) && pat[p] == '*' {
		p++
	}
	return p == len(pat)
}

func ldh(label string, allowStar bool) bool {
	if label == "" || len(label) > 63 {
		return false
	}
	for i := 0; i < len(label); i++ {
		c := label[i]
		switch {
		case c >= 'a' && c <= 'z', c >= '0' && c <= '9', c >= 'A' && c <= 'Z':
		case c == '-':
			if !allowStar && (i == 0 || i == len(label)-1) {
				return false
			}
		case c == '*' && allowStar:
		default:
			return false
		}
	}
	return true
}

// nameAllowed: may a certificate issued under r carry this CN / DNS SAN /
// e-mail SAN?  rule names the clause that admits it.
func nameAllowed(r *Role, name string) (ok bool, rule string) {
	host := name
	email := false
	if strings.Contains(name, "@") {
		email = true
		host = name[strings.LastIndex(name, "@")+1:]
		if strings.Count(name, "@") != 1 {
			// not an addr-spec the role language can talk about
			return false, "malformed-email"
		}
	}
	labels := toLabels(host)
	wildcard := strings.Contains(host, "*")
	if wildcard {
		// allow_wildcard_certificates=false "prevents wildcards from being issued even
		// if they would've been allowed by an option above" (also above allow_any_name).
		if !r.Wild {
			return false, "wildcard-forbidden"
		}
		// RFC 6125 6.4.3: a single '*', in the left-most label only.
		if strings.Count(host, "*") != 1 || !strings.Contains(labels[0], "*") {
			return false, "wildcard-malformed"
		}
		if email {
			return false, "wildcard-email"
		}
	}
	if r.Enforce {
		// "only valid host names are allowed for CNs, DNS SANs, and the host part of
		// email addresses": every label LDH, 1..63 octets, name <= 253.
		total := 0
		for i, l := range labels {
			total += len(l) + 1
			if !ldh(l, wildcard && i == 0) {
				return false, "not-a-hostname"
			}
		}
		if total > 254 {
			return false, "not-a-hostname"
		}
	}
	if r.Any {
		return true, "any"
	}
	if r.Localhost {
		for _, lh := range []string{"localhost", "localdomain"} {
			if eqLabels(labels, []string{lh}) {
				return true, "localhost"
			}
			if r.Sub && properSuffix(labels, []string{lh}) {
				return true, "localhost-sub"
			}
		}
	}
	lname, lhost := strings.ToLower(name), strings.ToLower(host)
	for _, d := range r.Domains {
		if d == "" {
			continue
		}
		dl := toLabels(d)
		if r.Bare && eqLabels(labels, dl) {
			return true, "bare"
		}
		if r.Sub && properSuffix(labels, dl) {
			return true, "sub"
		}
		if r.Glob && strings.Contains(d, "*") {
			ld := strings.ToLower(d)
			if globMatch(ld, lname) || globMatch(ld, lhost) {
				return true, "glob"
			}
		}
	}
	return false, "no-clause"
}

// ---------------------------------------------------------------------------
// SAN extension parsing (otherName is not surfaced by crypto/x509)

var oidSAN = asn1.ObjectIdentifier{2, 5, 29, 17}

type otherName struct{ oid, val string }

func certOtherNames(cert *x509.Certificate) ([]otherName, error) {
	var out []otherName
	for _, e := range cert.Extensions {
		if !e.Id.Equal(oidSAN) {
			continue
		}
		var seq asn1.RawValue
		if _, err := asn1.Unmarshal(e.Value, &seq); err != nil {
			return nil, err
		}
		rest := seq.Bytes
		for len(rest) > 0 {
			var gn asn1.RawValue
			var err error
			rest, err = asn1.Unmarshal(rest, &gn)
			if err != nil {
				return nil, err
			}
			if gn.Class != asn1.ClassContextSpecific || gn.Tag != 0 {
				continue
			}
			var oid asn1.ObjectIdentifier
			r2, err := asn1.Unmarshal(gn.Bytes, &oid)
			if err != nil {
				return nil, err
			}
			var wrapped asn1.RawValue
			if _, err := asn1.Unmarshal(r2, &wrapped); err != nil {
				return nil, err
			}
			var inner asn1.RawValue
			if _, err := asn1.Unmarshal(wrapped.Bytes, &inner); err != nil {
				return nil, err
			}
			out = append(out, otherName{oid.String(), string(inner.Bytes)})
		}
	}
	return out, nil
}

func otherAllowed(r *Role, o otherName) bool {
	if len(r.Others) == 1 && r.Others[0] == "*" {
		return true
	}
	for _, a := range r.Others {
		// <oid>;<type>:<value glob>
		semi := strings.Index(a, ";")
		if semi < 0 {
			continue
		}
		colon := strings.Index(a[semi+1:], ":")
		if colon < 0 {
			continue
		}
		if a[:semi] == o.oid && globMatch(a[semi+1+colon+1:], o.val) {
			return true
		}
	}
	return false
}

// ---------------------------------------------------------------------------
// keys and usages

func pubKeyDesc(pub interface{}) (typ string, bits int) {
	switch k := pub.(type) {
	case *rsa.PublicKey:
		return "rsa", k.N.BitLen()
	case *ecdsa.PublicKey:
		return "ec", k.Curve.Params().BitSize
	case ed25519.PublicKey:
		return "ed25519", 0
	}
	return "unknown", 0
}

func samePub(a, b interface{}) bool {
	switch k := a.(type) {
	case *rsa.PublicKey:
		o, ok := b.(*rsa.PublicKey)
		return ok && k.Equal(o)
	case *ecdsa.PublicKey:
		o, ok := b.(*ecdsa.PublicKey)
		return ok && k.Equal(o)
	case ed25519.PublicKey:
		o, ok := b.(ed25519.PublicKey)
		return ok && k.Equal(o)
	}
	return false
}

var kuNames = map[string]x509.KeyUsage{
	"digitalsignature": x509.KeyUsageDigitalSignature, "contentcommitment": x509.KeyUsageContentCommitment,
	"keyencipherment": x509.KeyUsageKeyEncipherment, "dataencipherment": x509.KeyUsageDataEncipherment,
	"keyagreement": x509.KeyUsageKeyAgreement, "certsign": x509.KeyUsageCertSign, "crlsign": x509.KeyUsageCRLSign,
	"encipheronly": x509.KeyUsageEncipherOnly, "decipheronly": x509.KeyUsageDecipherOnly,
}

var ekuNames = map[string]x509.ExtKeyUsage{
	"any": x509.ExtKeyUsageAny, "serverauth": x509.ExtKeyUsageServerAuth, "clientauth": x509.ExtKeyUsageClientAuth,
	"codesigning": x509.ExtKeyUsageCodeSigning, "emailprotection": x509.ExtKeyUsageEmailProtection,
	"timestamping": x509.ExtKeyUsageTimeStamping, "ocspsigning": x509.ExtKeyUsageOCSPSigning,
}

func roleKU(r *Role) x509.KeyUsage {
	names := r.KeyUsage
	if !r.KeyUsageSet {
		names = []string{"DigitalSignature", "KeyAgreement", "KeyEncipherment"} // documented default
	}
	var ku x509.KeyUsage
	for _, n := range names {
		ku |= kuNames[strings.ToLower(strings.TrimPrefix(n, "KeyUsage"))]
	}
	return ku
}

func roleEKU(r *Role) map[x509.ExtKeyUsage]bool {
	m := map[x509.ExtKeyUsage]bool{}
	if r.Server {
		m[x509.ExtKeyUsageServerAuth] = true
	}
	if r.Client {
		m[x509.ExtKeyUsageClientAuth] = true
	}
	if r.CodeSign {
		m[x509.ExtKeyUsageCodeSigning] = true
	}
	if r.EmailProt {
		m[x509.ExtKeyUsageEmailProtection] = true
	}
	for _, n := range r.ExtKU {
		if v, ok := ekuNames[strings.ToLower(strings.TrimPrefix(n, "ExtKeyUsage"))]; ok {
			m[v] = true
		}
	}
	return m
}

// extensions a role-bound leaf may carry (anything else would have been copied
// from the CSR or invented)
var leafExtOK = map[string]bool{
	"2.5.29.14": true, "2.5.29.35": true, "2.5.29.15": true, "2.5.29.37": true, "2.5.29.17": true,
	"2.5.29.19": true, "1.3.6.1.5.5.7.1.1": true, "2.5.29.31": true, "2.5.29.32": true, "2.5.29.46": true,
}

// ---------------------------------------------------------------------------
// the judgement

const (
	mountDefaultTTL = time.Hour
	mountMaxTTL     = 8 * time.Hour
)

func parseDur(s string) time.Duration {
	if s == "" {
		return 0
	}
	d, err := time.ParseDuration(s)
	if err != nil {
		return 0
	}
	return d
}

// mustRefuse: requests the role forbids outright (accepting them at all is the
// widening, whatever the certificate looks like).
func mustRefuse(r *Role, q *Req) string {
	if q.Endpoint != "issue" && q.Endpoint != "sign" {
		return ""
	}
	if r.NotAfter == "" && q.NotAfter != "" && r.NotAfterBound == "forbid" {
		return "not_after given although not_after_bound=forbid"
	}
	if q.NotBefore != "" && r.NotBeforeBnd == "forbid" {
		// Reading: a role-level fixed not_before is not used in this harness.
		return "not_before given although not_before_bound=forbid"
	}
	if q.Endpoint == "issue" && r.KeyType == "any" && q.KeyType == "" {
		return "key_type=any role cannot generate certificates"
	}
	return ""
}

func judge(r *Role, q *Req, iss *issuerInfo, cert *x509.Certificate, csrPub interface{}, t0, t1 time.Time, rules map[string]int) []finding {
	var out []finding
	bad := func(sig, f string, a ...interface{}) { out = append(out, finding{sig, fmt.Sprintf(f, a...)}) }
	roleBound := q.Endpoint == "issue" || q.Endpoint == "sign"
	caEndpoint := q.Endpoint == "sign-intermediate"

	// 1. verifies under the issuing CA's key
	if err := cert.CheckSignatureFrom(iss.cert); err != nil {
		bad("not-signed-by-requested-issuer", "certificate does not verify under issuer %q: %v", iss.name, err)
	}

	// 2. leaf unless CA endpoint
	if !caEndpoint {
		if cert.IsCA {
			bad("ca-from-leaf-endpoint", "endpoint %s produced a CA certificate (IsCA=true)", q.Endpoint)
		}
	}

	// 3. lifetime: issuer.  Reading: sign-intermediate deliberately overrides the
	// issuer's *leaf*_not_after_behavior (documented warning in the response), so
	// the clamp is demanded of leaf endpoints only.
	if !caEndpoint && iss.behavior != "permit" && cert.NotAfter.After(iss.cert.NotAfter) {
		bad("outlives-issuer", "NotAfter %s is later than issuer %q NotAfter %s (leaf_not_after_behavior=%s)",
			cert.NotAfter.Format(time.RFC3339), iss.name, iss.cert.NotAfter.Format(time.RFC3339), iss.behavior)
	}

	// 4. lifetime: role / mount.  Reading: role max_ttl when set, else the mount
	// maximum; a role-level not_after or not_after_bound=permit (the default)
	// with a request-level not_after is the role explicitly not bounding it.
	maxTTL := mountMaxTTL
	if !caEndpoint && q.Endpoint != "sign-verbatim-norole" && r.MaxTTL > 0 {
		maxTTL = r.MaxTTL
	}
	ttlEff := mountDefaultTTL
	if r.TTL > 0 {
		ttlEff = r.TTL
	}
	if ttlEff > maxTTL {
		ttlEff = maxTTL
	}
	var bound time.Time
	bounded := false
	setBound := func(t time.Time) {
		if !bounded || t.Before(bound) {
			bound, bounded = t, true
		}
	}
	switch {
	case roleBound && r.NotAfter != "":
		if ts, err := time.Parse(time.RFC3339, r.NotAfter); err == nil {
			setBound(ts)
		}
	case caEndpoint && q.NotAfter != "":
	case q.NotAfter != "":
		switch {
		case !roleBound, r.NotAfterBound == "", r.NotAfterBound == "permit":
		case r.NotAfterBound == "ttl-limited":
			setBound(t1.Add(ttlEff))
		}
	default:
		setBound(t1.Add(maxTTL))
	}
	if roleBound {
		if ts, err := time.Parse(time.RFC3339, r.NotAfterBound); err == nil {
			setBound(ts)
		}
	}
	if bounded && cert.NotAfter.After(bound) {
		bad("outlives-role-bound", "NotAfter %s is later than the bound %s (max=%v ttl=%v role.not_after=%q bound=%q req.ttl=%q req.not_after=%q)",
			cert.NotAfter.Format(time.RFC3339), bound.Format(time.RFC3339), maxTTL, ttlEff, r.NotAfter, r.NotAfterBound, q.TTL, q.NotAfter)
	}
	if roleBound && q.NotBefore != "" && r.NotBeforeBnd == "duration" {
		if cert.NotBefore.Before(t0.Add(-r.NotBeforeDur - 31*time.Second)) {
			bad("not-before-beyond-duration", "NotBefore %s is older than now-%v", cert.NotBefore.Format(time.RFC3339), r.NotBeforeDur)
		}
	}

	// 5. key
	typ, bits := pubKeyDesc(cert.PublicKey)
	if typ == "rsa" && bits < 2048 {
		bad("weak-rsa-key", "certificate for a %d-bit RSA key", bits)
	}
	if csrPub != nil && !samePub(cert.PublicKey, csrPub) {
		bad("key-differs-from-csr", "certificate public key is not the CSR's public key")
	}
	if roleBound {
		want, wantBits := r.KeyType, r.KeyBits
		if want == "any" && q.Endpoint == "issue" {
			want, wantBits = q.KeyType, q.KeyBits
		}
		if wantBits == 0 {
			switch want {
			case "rsa":
				wantBits = 2048
			case "ec":
				wantBits = 256
			}
		}
		if want != "any" && typ != want {
			bad("key-type-not-role", "key type %s but the role says %s", typ, want)
		}
		if want != "any" && want != "ed25519" {
			if q.Endpoint == "issue" && bits != wantBits {
				bad("key-bits-not-role", "generated key has %d bits, the role says %d", bits, wantBits)
			}
			// Reading for sign: the role's key_bits is a minimum for submitted CSRs.
			if q.Endpoint == "sign" && bits < wantBits {
				bad("key-bits-below-role", "CSR key has %d bits, the role says %d", bits, wantBits)
			}
		}
		if typ == "ec" && bits < 224 {
			bad("weak-ec-key", "EC key with %d bits", bits)
		}
	}

	if !roleBound {
		return out
	}

	// 6. usages
	if extra := cert.KeyUsage &^ roleKU(r); extra != 0 {
		bad("key-usage-not-role", "key usage bits %#x not granted by the role (cert %#x, role %#x)", int(extra), int(cert.KeyUsage), int(roleKU(r)))
	}
	eku := roleEKU(r)
	for _, u := range cert.ExtKeyUsage {
		if !eku[u] {
			bad("ext-key-usage-not-role", "extended key usage %d not granted by the role", int(u))
		}
	}
	if len(cert.UnknownExtKeyUsage) > 0 {
		bad("ext-key-usage-not-role", "unknown extended key usage OIDs %v", cert.UnknownExtKeyUsage)
	}
	if cert.BasicConstraintsValid && !r.BCNonCA {
		bad("basic-constraints-not-role", "basic constraints present although basic_constraints_valid_for_non_ca=false")
	}
	if len(cert.PermittedDNSDomains)+len(cert.ExcludedDNSDomains) > 0 {
		bad("name-constraints-on-leaf", "leaf carries name constraints")
	}
	for _, e := range cert.Extensions {
		if !leafExtOK[e.Id.String()] {
			bad("foreign-extension", "extension %s is not something a role grants", e.Id)
		}
	}

	// 7. subject
	for _, o := range cert.Subject.Organization {
		found := false
		for _, ro := range r.Org {
			found = found || ro == o
		}
		if !found {
			bad("subject-org-not-role", "subject O=%q not from the role", o)
		}
	}
	if cert.Subject.SerialNumber != "" {
		bad("subject-serial-not-role", "subject serialNumber %q although the role allows none", cert.Subject.SerialNumber)
	}
	if len(cert.Subject.OrganizationalUnit)+len(cert.Subject.Country)+len(cert.Subject.Locality)+len(cert.Subject.Province) > 0 {
		bad("subject-attrs-not-role", "subject carries OU/C/L/ST the role does not set: %s", cert.Subject.String())
	}

	// 8. names: requested, and admitted by the role
	requested := map[string]bool{}
	addReq := func(n string) {
		if n == "" {
			return
		}
		requested[strings.ToLower(n)] = true
		requested[strings.ToLower(unicodeDots.Replace(n))] = true
		requested[strings.Join(toLabels(n), ".")] = true
		if i := strings.LastIndex(n, "@"); i >= 0 {
			requested[strings.ToLower(n[:i+1])+strings.Join(toLabels(n[i+1:]), ".")] = true
		}
	}
	// Sources.  issue: the API fields.  sign: use_csr_common_name / use_csr_sans say
	// whether the CSR or the API is the source ("the subject alternate names in the
	// CSR will be used instead of taken from the JSON data"); a name from the
	// other source in the certificate was never requested through a permitted door.
	csrSANs := q.Endpoint == "sign" && !r.NoCSRSANs
	if q.Endpoint == "issue" || r.NoCSRCN || q.CSR == nil || q.CSR.CN == "" {
		addReq(q.CN)
	} else {
		addReq(q.CSR.CN)
	}
	if csrSANs {
		for _, a := range q.CSR.DNS {
			addReq(a)
		}
		for _, a := range q.CSR.Emails {
			addReq(a)
		}
	} else {
		for _, a := range q.Alt {
			addReq(a)
		}
	}
	checkName := func(kind, n string) {
		// the certificate may carry the A-label form of a requested U-label name
		uni, _ := idna.ToUnicode(n)
		if !requested[strings.ToLower(n)] && !requested[strings.Join(toLabels(n), ".")] && !requested[strings.ToLower(uni)] &&
			!requested[strings.ToLower(unicodeDots.Replace(uni))] {
			bad("name-not-requested:"+kind, "%s %q was never requested", kind, n)
		}
		ok, rule := nameAllowed(r, n)
		if !ok {
			shape := rule
			if rule == "no-clause" {
				shape = nameShape(r, n)
			}
			bad("name-not-permitted:"+shape+":"+kind, "%s %q is not permitted by the role (%s)", kind, n, shape)
		} else if rules != nil {
			rules[rule]++
		}
	}
	if cert.Subject.CommonName != "" {
		checkName("cn", cert.Subject.CommonName)
	}
	for _, n := range cert.DNSNames {
		checkName("dns", n)
	}
	for _, n := range cert.EmailAddresses {
		checkName("email", n)
	}

	// 9. other SAN kinds
	reqIP := map[string]bool{}
	reqURI := map[string]bool{}
	ipSrc, uriSrc := q.IPs, q.URIs
	if csrSANs {
		ipSrc, uriSrc = q.CSR.IPs, q.CSR.URIs
	}
	for _, s := range ipSrc {
		if ip := net.ParseIP(s); ip != nil {
			reqIP[ip.String()] = true
		}
	}
	for _, s := range uriSrc {
		reqURI[s] = true
	}
	for _, ip := range cert.IPAddresses {
		if !reqIP[ip.String()] {
			bad("ip-san-not-requested", "IP SAN %s was never requested", ip)
		}
		if !r.AllowIP {
			bad("ip-san-not-permitted", "IP SAN %s although allow_ip_sans=false", ip)
			continue
		}
		if len(r.CIDRs) > 0 {
			in := false
			for _, c := range r.CIDRs {
				if _, n, err := net.ParseCIDR(c); err == nil && n.Contains(ip) {
					in = true
				}
			}
			if !in {
				bad("ip-san-outside-cidr", "IP SAN %s outside %v", ip, r.CIDRs)
			}
		}
	}
	for _, u := range cert.URIs {
		if !reqURI[u.String()] {
			bad("uri-san-not-requested", "URI SAN %q was never requested", u.String())
		}
		okU := false
		for _, a := range r.URIs {
			okU = okU || globMatch(a, u.String())
		}
		if !okU {
			bad("uri-san-not-permitted", "URI SAN %q not matched by allowed_uri_sans %v", u.String(), r.URIs)
		}
	}
	others, err := certOtherNames(cert)
	if err != nil {
		bad("san-unparsable", "subjectAltName does not parse: %v", err)
	}
	for _, o := range others {
		if !otherAllowed(r, o) {
			bad("other-san-not-permitted", "otherName %s=%q not matched by allowed_other_sans %v", o.oid, o.val, r.Others)
		}
	}
	return out
}

// nameShape classifies a refused-by-oracle name relative to the role, so that
// the violation signature names the class of the slip and not the input.
func nameShape(r *Role, n string) string {
	host := n
	if i := strings.LastIndex(n, "@"); i >= 0 {
		host = n[i+1:]
	}
	labels := toLabels(host)
	lhost := strings.ToLower(strings.TrimSuffix(unicodeDots.Replace(host), "."))
	wild := strings.Contains(host, "*")
	for _, lh := range []string{"localhost", "localdomain"} {
		if r.Localhost && wild && properSuffix(labels, []string{lh}) {
			return "wildcard-of-localhost-without-subdomains"
		}
		if r.Localhost && properSuffix(labels, []string{lh}) {
			return "sub-of-localhost-without-subdomains"
		}
		if r.Localhost && strings.HasSuffix(lhost, lh) {
			return "string-suffix-of-localhost"
		}
	}
	for _, d := range r.Domains {
		dl := toLabels(d)
		ld := strings.ToLower(d)
		switch {
		case eqLabels(labels, dl):
			return "bare-domain-without-bare"
		case properSuffix(labels, dl):
			return "subdomain-without-subdomains"
		case strings.HasSuffix(lhost, ld):
			return "string-suffix-not-label-suffix"
		case strings.Contains(lhost, ld):
			return "contains-domain"
		}
	}
	return "unrelated"
}
