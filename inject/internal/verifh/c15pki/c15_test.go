package c15pki

// C15: every certificate the PKI engine issues or signs respects issuer, role
// and lifetime constraints.
//
// The real backend (pki.Factory over in-memory logical storage, four EC P-256
// issuers on one mount) is driven through HandleRequest over an exhaustively
// enumerated grid of role configurations x requests.  Every ACCEPTED request's
// certificate is parsed and judged against all clauses of the statement at once
// by the independent oracle in c15_oracle_test.go (names as DNS label
// sequences).  Refusals are never alarms; silent widening is.
//
// Sections (each exhaustive over its own product):
//   N  name grid: 2^7 role switches x 4 allowed_domains sets x all names x
//      {issue CN, issue alt_names, sign CSR}  (thorough: also x SAN rule x ttl rule)
//   P  pairs: CN x alt name, both from the name list, over the role switches
//   U  source of names on sign: use_csr_common_name x use_csr_sans x role switches x names
//   L  lifetime: role ttl rule x issuer (long / short err,truncate,permit) x
//      endpoint x requested ttl / not_after x not_before
//   S  SAN kinds: SAN rule x use_csr_sans x endpoint x IP x URI x otherName
//   K  keys, usages and CSR extensions: role key x CSR key x usage rule x CSR extras x endpoint

import (
	"context"
	"crypto"
	"crypto/x509"
	"encoding/pem"
	"fmt"
	"sort"
	"strings"
	"testing"
	"time"

	log "github.com/hashicorp/go-hclog"
	"github.com/openbao/openbao/sdk/v2/helper/verif/vout"
	"github.com/openbao/openbao/sdk/v2/logical"
	"github.com/openbao/openbao/v2/internal/builtin/logical/pki"
)

var bg = context.Background()

type mount struct {
	b       logical.Backend
	s       logical.Storage
	issuers map[string]*issuerInfo
	serials map[string]string
	nroles  int
}

func (m *mount) do(op logical.Operation, path string, data map[string]interface{}) (*logical.Response, error) {
	return m.b.HandleRequest(bg, &logical.Request{Operation: op, Path: path, Data: data, Storage: m.s, MountPoint: "pki/"})
}

func parseCertPEM(s string) (*x509.Certificate, error) {
	blk, _ := pem.Decode([]byte(s))
	if blk == nil {
		return nil, fmt.Errorf("no PEM block")
	}
	return x509.ParseCertificate(blk.Bytes)
}

func newMount(t *testing.T, start time.Time) *mount {
	conf := &logical.BackendConfig{
		Logger:      log.NewNullLogger(),
		System:      &logical.StaticSystemView{DefaultLeaseTTLVal: mountDefaultTTL, MaxLeaseTTLVal: mountMaxTTL, VersionString: "c15"},
		Config:      map[string]string{},
		StorageView: &logical.InmemStorage{},
	}
	b, err := pki.Factory(bg, conf)
	if err != nil {
		t.Fatalf("factory: %v", err)
	}
	if err := b.Initialize(bg, &logical.InitializationRequest{Storage: conf.StorageView}); err != nil {
		t.Fatalf("initialize: %v", err)
	}
	m := &mount{b: b, s: conf.StorageView, issuers: map[string]*issuerInfo{}, serials: map[string]string{}}
	mk := func(name, behavior string, data map[string]interface{}) {
		data["common_name"] = "C15 root " + name
		data["issuer_name"] = name
		data["key_type"] = "ec"
		data["key_bits"] = 256
		resp, err := m.do(logical.UpdateOperation, "issuers/generate/root/internal", data)
		if err != nil || resp == nil || resp.IsError() {
			t.Fatalf("generate issuer %s: %v %v", name, err, resp)
		}
		c, err := parseCertPEM(resp.Data["certificate"].(string))
		if err != nil {
			t.Fatal(err)
		}
		id := fmt.Sprint(resp.Data["issuer_id"])
		if behavior != "err" {
			r2, err := m.do(logical.UpdateOperation, "issuer/"+id, map[string]interface{}{"issuer_name": name, "leaf_not_after_behavior": behavior})
			if err != nil || (r2 != nil && r2.IsError()) {
				t.Fatalf("update issuer %s: %v %v", name, err, r2)
			}
		}
		r3, err := m.do(logical.ReadOperation, "issuer/"+id, nil)
		if err != nil || r3 == nil || fmt.Sprint(r3.Data["leaf_not_after_behavior"]) != behavior {
			t.Fatalf("issuer %s: behaviour not %s: %v %v", name, behavior, err, r3)
		}
		m.issuers[name] = &issuerInfo{name: name, id: id, cert: c, behavior: behavior}
	}
	mk("long", "err", map[string]interface{}{"not_after": "2060-01-01T00:00:00Z"})
	mk("serr", "err", map[string]interface{}{"ttl": "4h"})
	mk("strunc", "truncate", map[string]interface{}{"ttl": "4h"})
	mk("sperm", "permit", map[string]interface{}{"ttl": "4h"})
	if !m.issuers["long"].cert.NotAfter.After(start.Add(24 * 365 * time.Hour)) {
		t.Fatalf("long issuer is not long lived: %v", m.issuers["long"].cert.NotAfter)
	}
	if m.issuers["serr"].cert.NotAfter.After(start.Add(4*time.Hour + time.Minute)) {
		t.Fatalf("short issuer is not short lived: %v", m.issuers["serr"].cert.NotAfter)
	}
	return m
}

func (m *mount) writeRole(t *testing.T, r *Role) {
	m.nroles++
	r.Name = fmt.Sprintf("r%d", m.nroles)
	resp, err := m.do(logical.UpdateOperation, "roles/"+r.Name, r.api())
	if err != nil || (resp != nil && resp.IsError()) {
		t.Fatalf("role %+v: %v %v", r, err, resp)
	}
	// every other role is additionally PATCHed with a field that changes nothing: a
	// partial update must leave every constraint it does not name as it was
	if m.nroles%2 == 0 {
		presp, perr := m.do(logical.PatchOperation, "roles/"+r.Name, map[string]interface{}{"no_store": false})
		if perr != nil || (presp != nil && presp.IsError()) {
			t.Fatalf("role patch %s: %v %v", r.Name, perr, presp)
		}
	}
}

// run executes one request; accepted=false means it was refused.
func (m *mount) run(r *Role, q *Req) (cert *x509.Certificate, csrPub crypto.PublicKey, refusal string, t0, t1 time.Time) {
	data := map[string]interface{}{}
	if q.CN != "" {
		data["common_name"] = q.CN
	}
	if len(q.Alt) > 0 {
		data["alt_names"] = strings.Join(q.Alt, ",")
	}
	if len(q.IPs) > 0 {
		data["ip_sans"] = q.IPs
	}
	if len(q.URIs) > 0 {
		data["uri_sans"] = q.URIs
	}
	if len(q.Others) > 0 {
		data["other_sans"] = q.Others
	}
	if q.TTL != "" {
		data["ttl"] = q.TTL
	}
	if q.NotAfter != "" {
		data["not_after"] = q.NotAfter
	}
	if q.NotBefore != "" {
		data["not_before"] = q.NotBefore
	}
	if q.ExcludeCN {
		data["exclude_cn_from_sans"] = true
	}
	if q.KeyType != "" {
		data["key_type"] = q.KeyType
		data["key_bits"] = q.KeyBits
	}
	if q.CSR != nil {
		var c string
		c, csrPub = csrFor(q.CSR)
		if c == "" {
			return nil, nil, "harness: CSR cannot be built", t0, t1
		}
		data["csr"] = c
	}
	iss := m.issuers[q.Issuer]
	var path string
	switch q.Endpoint {
	case "issue", "sign", "sign-verbatim":
		if q.Legacy {
			path = q.Endpoint + "/" + r.Name
		} else {
			path = "issuer/" + iss.id + "/" + q.Endpoint + "/" + r.Name
		}
	case "sign-verbatim-norole":
		path = "issuer/" + iss.id + "/sign-verbatim"
	case "sign-intermediate":
		path = "issuer/" + iss.id + "/sign-intermediate"
	default:
		panic(q.Endpoint)
	}
	t0 = time.Now()
	resp, err := m.do(logical.UpdateOperation, path, data)
	t1 = time.Now()
	if err != nil {
		return nil, csrPub, "error: " + err.Error(), t0, t1
	}
	if resp == nil {
		return nil, csrPub, "nil response", t0, t1
	}
	if resp.IsError() {
		return nil, csrPub, "refused: " + resp.Error().Error(), t0, t1
	}
	cs, _ := resp.Data["certificate"].(string)
	c, perr := parseCertPEM(cs)
	if perr != nil {
		return nil, csrPub, "", t0, t1 // accepted but unparsable: judged by the caller
	}
	return c, csrPub, "", t0, t1
}

type replay struct {
	Role Role `json:"role"`
	Req  Req  `json:"req"`
}

type harness struct {
	t       *testing.T
	res     *vout.Result
	m       *mount
	rules   map[string]int
	errSeen map[string]bool
	stop    time.Time
	dead    bool
}

// eval runs one request and judges it.  class is the coarse description used
// for the distinct-nontrivial set.
func (h *harness) eval(section string, r *Role, q *Req, class string) {
	cert, csrPub, refusal, t0, t1 := h.m.run(r, q)
	h.res.Add("evaluations", 1)
	h.res.Add("evaluations_"+section, 1)
	rp := replay{Role: *r, Req: *q}
	in := fmt.Sprintf("role=%s req=%s", describeRole(r), describeReq(q))
	if refusal != "" {
		h.res.Add("refused", 1)
		h.res.Add("refused_"+q.Endpoint, 1)
		if strings.HasPrefix(refusal, "error:") {
			h.res.Add("refused_with_internal_error", 1)
			key := refusal
			if len(key) > 90 {
				key = key[:90]
			}
			if !h.errSeen[key] && len(h.errSeen) < 12 {
				h.errSeen[key] = true
				h.res.Note("internal error counted as refusal: %s (e.g. %s)", key, describeReq(q))
			}
		}
		h.res.Distinct("nontrivial", section+"|"+class+"|refused")
		return
	}
	h.res.Add("accepted", 1)
	h.res.Add("accepted_"+q.Endpoint, 1)
	h.res.Distinct("nontrivial", section+"|"+class+"|accepted")
	if cert == nil {
		h.res.Violate("c15:accepted-without-parsable-certificate", in+": the response carries no parsable certificate", rp)
		return
	}
	h.res.Add("certificates_judged", 1)
	if why := mustRefuse(r, q); why != "" {
		h.res.Violate("c15:accepted-forbidden-request:"+strings.Fields(why)[0], in+": "+why+", yet a certificate was issued", rp)
	}
	ser := cert.SerialNumber.String()
	if prev, dup := h.m.serials[ser]; dup {
		h.res.Violate("c15:serial-reused", in+": serial "+cert.SerialNumber.Text(16)+" was already used on this mount by "+prev, rp)
	}
	h.m.serials[ser] = describeReq(q)
	for _, f := range judge(r, q, h.m.issuers[q.Issuer], cert, csrPub, t0, t1, h.rules) {
		h.res.Violate("c15:"+f.sig, in+": "+f.msg, rp)
	}
	if h.res.Counters["accepted"]%997 == 1 {
		h.res.Sample(map[string]interface{}{"role": describeRole(r), "request": describeReq(q), "cn": cert.Subject.CommonName,
			"dns": cert.DNSNames, "not_after": cert.NotAfter.Format(time.RFC3339), "serial": cert.SerialNumber.Text(16)})
	}
}

func (h *harness) expired() bool {
	if h.dead {
		return true
	}
	if time.Now().After(h.stop) {
		h.dead = true
		h.res.NotExhaustive("time budget reached")
	}
	return h.dead
}

func describeRole(r *Role) string {
	sw := ""
	for i, b := range []bool{r.Bare, r.Sub, r.Glob, r.Wild, r.Localhost, r.Any, r.Enforce} {
		if b {
			sw += string("bsgwlae"[i])
		} else {
			sw += "-"
		}
	}
	s := fmt.Sprintf("{sw=%s domains=%v", sw, r.Domains)
	if !r.AllowIP || len(r.CIDRs)+len(r.URIs)+len(r.Others) > 0 {
		s += fmt.Sprintf(" ip=%v%v uri=%v other=%v", r.AllowIP, r.CIDRs, r.URIs, r.Others)
	}
	s += fmt.Sprintf(" key=%s/%d", r.KeyType, r.KeyBits)
	if r.TTL+r.MaxTTL > 0 || r.NotAfter+r.NotAfterBound+r.NotBeforeBnd != "" {
		s += fmt.Sprintf(" ttl=%v max=%v not_after=%q bound=%q nb=%q/%v", r.TTL, r.MaxTTL, r.NotAfter, r.NotAfterBound, r.NotBeforeBnd, r.NotBeforeDur)
	}
	if r.KeyUsageSet || r.CodeSign || r.EmailProt || !r.Server || !r.Client || len(r.ExtKU) > 0 {
		s += fmt.Sprintf(" ku=%v flags=%v%v%v%v eku=%v", r.KeyUsage, r.Server, r.Client, r.CodeSign, r.EmailProt, r.ExtKU)
	}
	if r.NoCSRCN || r.NoCSRSANs {
		s += fmt.Sprintf(" use_csr_cn=%v use_csr_sans=%v", !r.NoCSRCN, !r.NoCSRSANs)
	}
	if r.IssuerRef != "" {
		s += " issuer_ref=" + r.IssuerRef
	}
	return s + "}"
}

func describeReq(q *Req) string {
	s := "{" + q.Endpoint + "@" + q.Issuer
	if q.Legacy {
		s += "(legacy path)"
	}
	if q.CN != "" {
		s += fmt.Sprintf(" cn=%q", q.CN)
	}
	if len(q.Alt) > 0 {
		s += fmt.Sprintf(" alt=%q", q.Alt)
	}
	if len(q.IPs)+len(q.URIs)+len(q.Others) > 0 {
		s += fmt.Sprintf(" ip=%v uri=%v other=%v", q.IPs, q.URIs, q.Others)
	}
	if q.TTL+q.NotAfter+q.NotBefore != "" {
		s += fmt.Sprintf(" ttl=%q not_after=%q not_before=%q", q.TTL, q.NotAfter, q.NotBefore)
	}
	if q.KeyType != "" {
		s += fmt.Sprintf(" key=%s/%d", q.KeyType, q.KeyBits)
	}
	if q.CSR != nil {
		s += fmt.Sprintf(" csr=%+v", *q.CSR)
	}
	return s + "}"
}

// ---------------------------------------------------------------------------
// the alphabets

var domainSets = [][]string{
	{"example.com"},
	{"*.example.com"},
	{"ftp*.example.com", "sub.example.org"},
	{},
}

type nm struct{ name, class string }

// names are built from labels around the allowed domains: every relation a
// name can have to "example.com" / "sub.example.org" / "localhost" at the label
// level and at the string level.
func allNames() []nm {
	long := strings.Repeat("a", 64)
	return []nm{
		{"example.com", "bare"}, {"EXAMPLE.com", "bare-case"}, {"example.com.", "bare-dot"},
		{"foo.example.com", "sub"}, {"Foo.Example.COM", "sub-case"}, {"a.b.example.com", "deep"}, {"foo.example.com.", "sub-dot"},
		{"fooexample.com", "strsuffix"}, {"xn--example.com", "strsuffix"}, {"example.com.evil.com", "prefix"}, {"evil.com", "other"}, {"com", "tld"},
		{"sub.example.org", "bare2"}, {"x.sub.example.org", "sub2"}, {"example.org", "parent2"}, {"xsub.example.org", "strsuffix2"},
		{"*.example.com", "wild"}, {"*.foo.example.com", "wild-deep"}, {"foo.*.example.com", "wild-inner"}, {"f*o.example.com", "wild-mid"},
		{"*foo.example.com", "wild-pre"}, {"foo*.example.com", "wild-post"}, {"*.*.example.com", "wild-two"}, {"*", "wild-only"},
		{"*.com", "wild-tld"}, {"*example.com", "wild-strsuffix"}, {"*.evil.com", "wild-other"}, {"*.fooexample.com", "wild-strsuffix"},
		{"ftp1.example.com", "glob"}, {"ftp.a.example.com", "glob-cross"}, {"ftp1.example.com.evil.com", "glob-prefix"}, {"xftp1.example.com", "glob-no"},
		{"ftp*.example.com", "glob-literal"},
		{"user@example.com", "mail-bare"}, {"user@foo.example.com", "mail-sub"}, {"user@evil.com", "mail-other"}, {"user@fooexample.com", "mail-strsuffix"},
		{"foo.example.com@evil.com", "mail-swap"}, {"a@b@example.com", "mail-two"}, {"user@*.example.com", "mail-wild"}, {"@example.com", "mail-nolocal"},
		{"user@localhost", "mail-localhost"}, {"user@ftp1.example.com", "mail-glob"},
		{"localhost", "localhost"}, {"localdomain", "localhost"}, {"foo.localhost", "localhost-sub"}, {"foo.localdomain", "localhost-sub"},
		{"*.localhost", "localhost-wild"}, {"f*o.localdomain", "localhost-wild"}, {"notlocalhost", "localhost-strsuffix"}, {"localhost.evil.com", "localhost-prefix"},
		{"bücher.example.com", "idn-sub"}, {"bücher.evil.com", "idn-other"}, {"foo.example.com。evil.com", "idn-dot"}, {"evil。example.com", "idn-dot-sub"},
		{"ｅxample.com", "idn-fullwidth"}, {"user@bücher.example.com", "idn-mail"},
		{"foo_bar.example.com", "nohost"}, {"-foo.example.com", "nohost"}, {"foo bar.example.com", "nohost"}, {"foo..example.com", "nohost"},
		{".example.com", "nohost"}, {long + ".example.com", "nohost-long"}, {"10.1.2.3", "ipish"}, {"foo/bar.example.com", "nohost"},
	}
}

func switchRole(sw int, dom int) *Role {
	return &Role{
		Bare: sw&1 != 0, Sub: sw&2 != 0, Glob: sw&4 != 0, Wild: sw&8 != 0, Localhost: sw&16 != 0, Any: sw&32 != 0, Enforce: sw&64 != 0,
		Domains: domainSets[dom], AllowIP: true, KeyType: "ec", KeyBits: 256, Server: true, Client: true,
	}
}

type sanRule struct {
	name    string
	allowIP bool
	cidrs   []string
	uris    []string
	others  []string
}

var sanRules = []sanRule{
	{"none", false, nil, nil, nil},
	{"narrow", true, []string{"10.0.0.0/8", "fd00::/8"}, []string{"spiffe://example.com/*"}, []string{"1.3.6.1.4.1.311.20.2.3;utf8:*@example.com"}},
	{"wide", true, nil, []string{"*"}, []string{"*"}},
	{"ip-only", true, nil, nil, nil},
}

type ttlRule struct {
	name  string
	ttl   time.Duration
	max   time.Duration
	na    string // role not_after: "" or "+dur"
	bound string // "", permit, forbid, ttl-limited, "+dur" (timestamp)
	nbb   string
	nbdur time.Duration
}

var ttlRules = []ttlRule{
	{name: "mount"},
	{name: "30m/2h ttl-limited", ttl: 30 * time.Minute, max: 2 * time.Hour, bound: "ttl-limited", nbb: "duration", nbdur: 15 * time.Minute},
	{name: "max3h forbid", max: 3 * time.Hour, bound: "forbid", nbb: "forbid"},
	{name: "max6h bound+5h", max: 6 * time.Hour, bound: "+5h"},
	{name: "role not_after +90m", na: "+90m", max: time.Hour},
	{name: "ttl2h/max2h permit", ttl: 2 * time.Hour, max: 2 * time.Hour, bound: "permit", nbb: "permit"},
	// max_ttl BELOW the mount default and no role ttl: the effective ttl is the clamped one
	{name: "max20m ttl-limited", max: 20 * time.Minute, bound: "ttl-limited"},
	// a role ttl ABOVE the mount maximum and no role max_ttl (e.g. the mount was tuned
	// down after the role was stored): the mount maximum is the only bound left
	{name: "ttl12h above mount max", ttl: 12 * time.Hour},
	{name: "ttl12h above mount max, ttl-limited", ttl: 12 * time.Hour, bound: "ttl-limited"},
}

func stamp(base time.Time, rel string) string {
	if rel == "" || rel[0] != '+' && rel[0] != '-' {
		return rel
	}
	d, err := time.ParseDuration(rel)
	if err != nil {
		panic(err)
	}
	return base.Add(d).UTC().Format(time.RFC3339)
}

func applyTTL(r *Role, tr ttlRule, base time.Time) {
	r.TTL, r.MaxTTL = tr.ttl, tr.max
	r.NotAfter = stamp(base, tr.na)
	r.NotAfterBound = stamp(base, tr.bound)
	r.NotBeforeBnd, r.NotBeforeDur = tr.nbb, tr.nbdur
}

func applySAN(r *Role, sr sanRule) {
	r.AllowIP, r.CIDRs, r.URIs, r.Others = sr.allowIP, sr.cidrs, sr.uris, sr.others
}

// ---------------------------------------------------------------------------

func TestVerifC15(t *testing.T) {
	res := vout.New("C15", "pki")
	defer func() {
		if err := res.Write(); err != nil {
			t.Fatal(err)
		}
	}()
	start := time.Now()
	h := &harness{t: t, res: res, rules: map[string]int{}, errSeen: map[string]bool{}, stop: start.Add(time.Duration(vout.DeadlineS()) * time.Second)}
	h.m = newMount(t, start)
	base := start.Truncate(time.Second)

	if vout.ReplayPath() != "" {
		var rp replay
		if _, err := vout.LoadReplay(&rp); err != nil {
			t.Fatalf("replay: %v", err)
		}
		h.m.writeRole(t, &rp.Role)
		h.eval("replay", &rp.Role, &rp.Req, "replay")
		return
	}

	names := allNames()
	thorough := vout.Thorough()
	item := 0
	mine := func() bool { item++; return vout.Mine(item) && !h.expired() }

	// ---- N: name grid ------------------------------------------------------
	nSan, nTTL := []int{3}, []int{1}
	if thorough {
		nSan, nTTL = []int{0, 1, 2}, []int{0, 1, 3, 4}
	}
	res.Bound("N.role_switch_sets", 128)
	res.Bound("N.domain_sets", len(domainSets))
	res.Bound("N.names", len(names))
	res.Bound("N.modes", []string{"issue cn", "issue alt_names", "issue cn exclude_cn_from_sans", "sign csr(cn+san)"})
	res.Bound("N.san_rules x ttl_rules", len(nSan)*len(nTTL))
	for _, si := range nSan {
		for _, ti := range nTTL {
			for sw := 0; sw < 128; sw++ {
				for dom := range domainSets {
					if !mine() {
						continue
					}
					r := switchRole(sw, dom)
					applySAN(r, sanRules[si])
					applyTTL(r, ttlRules[ti], base)
					h.m.writeRole(t, r)
					issuer := []string{"long", "strunc", "sperm", "serr"}[(sw+dom)%4]
					for _, n := range names {
						cls := fmt.Sprintf("sw%d|d%d|%s", sw, dom, n.class)
						h.eval("N", r, &Req{Endpoint: "issue", Issuer: issuer, CN: n.name}, "cn|"+cls)
						h.eval("N", r, &Req{Endpoint: "issue", Issuer: issuer, Alt: []string{n.name}}, "alt|"+cls)
						h.eval("N", r, &Req{Endpoint: "issue", Issuer: issuer, CN: n.name, ExcludeCN: true}, "cnx|"+cls)
						spec := &CSRSpec{Key: "ec256", CN: n.name}
						if strings.Contains(n.name, "@") {
							spec.Emails = []string{n.name}
						} else {
							spec.DNS = []string{n.name}
						}
						h.eval("N", r, &Req{Endpoint: "sign", Issuer: issuer, CSR: spec}, "csr|"+cls)
					}
				}
			}
		}
	}

	// ---- P: CN x alt-name pairs ---------------------------------------------
	// one admitted and one arbitrary name in the same request: the second name
	// must not ride on the first.
	pairCN := []string{"foo.example.com", "localhost", "*.example.com", "user@example.com"}
	if thorough {
		pairCN = nil
		for _, n := range names {
			pairCN = append(pairCN, n.name)
		}
	}
	res.Bound("P.cn_names", len(pairCN))
	res.Bound("P.alt_names", len(names))
	for sw := 0; sw < 128; sw++ {
		for dom := range domainSets {
			if !mine() {
				continue
			}
			r := switchRole(sw, dom)
			h.m.writeRole(t, r)
			for ci, cn := range pairCN {
				for _, n := range names {
					if n.name == cn {
						continue
					}
					cls := fmt.Sprintf("sw%d|d%d|c%d|%s", sw, dom, ci%8, n.class)
					if (ci+len(n.name))%2 == 0 {
						h.eval("P", r, &Req{Endpoint: "issue", Issuer: "long", CN: cn, Alt: []string{n.name}}, cls)
					} else {
						spec := &CSRSpec{Key: "ec256", CN: cn}
						for _, x := range []string{cn, n.name} {
							if strings.Contains(x, "@") {
								spec.Emails = append(spec.Emails, x)
							} else {
								spec.DNS = append(spec.DNS, x)
							}
						}
						h.eval("P", r, &Req{Endpoint: "sign", Issuer: "long", CSR: spec}, cls)
					}
				}
			}
		}
	}

	// ---- U: which source the names of a signed certificate come from ---------
	res.Bound("U.use_csr_flags", 4)
	for sw := 0; sw < 128; sw++ {
		for fl := 0; fl < 4; fl++ {
			if !mine() {
				continue
			}
			r := switchRole(sw, 0)
			r.NoCSRCN, r.NoCSRSANs = fl&1 != 0, fl&2 != 0
			h.m.writeRole(t, r)
			for _, n := range names {
				cls := fmt.Sprintf("sw%d|f%d|%s", sw, fl, n.class)
				spec := &CSRSpec{Key: "ec256", CN: n.name, IPs: []string{"203.0.113.9"}}
				if strings.Contains(n.name, "@") {
					spec.Emails = []string{n.name}
				} else {
					spec.DNS = []string{n.name}
				}
				// the API names are admitted by most switch sets, the CSR carries the name under test
				h.eval("U", r, &Req{Endpoint: "sign", Issuer: "long", CN: "api.example.com", Alt: []string{"alt.example.com"}, IPs: []string{"10.9.9.9"}, CSR: spec}, "csr|"+cls)
				// and the other way round
				spec2 := &CSRSpec{Key: "ec256", CN: "csr.example.com", DNS: []string{"csr.example.com", "san.example.com"}, IPs: []string{"203.0.113.9"}}
				h.eval("U", r, &Req{Endpoint: "sign", Issuer: "long", CN: n.name, Alt: []string{n.name}, CSR: spec2}, "api|"+cls)
			}
		}
	}

	// ---- L: lifetime ---------------------------------------------------------
	reqLife := [][3]string{ // ttl, not_after, not_before
		{"", "", ""}, {"10m", "", ""}, {"150m", "", ""}, {"210m", "", ""}, {"7h", "", ""}, {"100h", "", ""},
		{"", "+20m", ""}, {"", "+40m", ""}, {"", "+100m", ""}, {"", "+5h", ""}, {"", "+7h", ""}, {"", "+1000h", ""}, {"", "-1h", ""}, {"10m", "+20m", ""},
		{"", "", "-10m"}, {"", "", "-2h"}, {"10m", "", "-10m"}, {"", "+20m", "-2h"}, {"", "", "+30m"},
	}
	endpoints := []string{"issue", "sign", "sign-verbatim", "sign-verbatim-norole", "sign-intermediate"}
	issuers := []string{"long", "serr", "strunc", "sperm"}
	res.Bound("L.ttl_rules", len(ttlRules))
	res.Bound("L.issuers", issuers)
	res.Bound("L.endpoints", endpoints)
	res.Bound("L.request_lifetimes", len(reqLife))
	for ti, tr := range ttlRules {
		for _, legacy := range []bool{false, true} {
			for _, iss := range issuers {
				if !mine() {
					continue
				}
				r := switchRole(2|8|64, 0) // subdomains of example.com, hostnames enforced
				applyTTL(r, tr, base)
				if legacy {
					r.IssuerRef = iss
				}
				h.m.writeRole(t, r)
				for _, ep := range endpoints {
					if legacy && (ep == "sign-verbatim-norole" || ep == "sign-intermediate") {
						continue
					}
					for li, l := range reqLife {
						q := &Req{Endpoint: ep, Issuer: iss, Legacy: legacy, TTL: l[0], NotAfter: stamp(base, l[1]), NotBefore: stamp(base, l[2])}
						if ep == "issue" {
							q.CN = "life.example.com"
						} else {
							q.CSR = &CSRSpec{Key: "ec256", CN: "life.example.com", DNS: []string{"life.example.com"}}
							if ep == "sign-intermediate" {
								q.CN = "C15 intermediate"
							}
						}
						h.eval("L", r, q, fmt.Sprintf("t%d|%v|%s|%s|l%d", ti, legacy, iss, ep, li))
					}
				}
			}
		}
	}

	// ---- S: SAN kinds ----------------------------------------------------------
	ipOpts := [][]string{nil, {"10.1.2.3"}, {"192.168.0.1"}, {"10.1.2.3", "192.168.0.1"}, {"fd00::1"}, {"2001:db8::1"}}
	uriOpts := [][]string{nil, {"spiffe://example.com/wl"}, {"spiffe://evil.com/wl"}, {"https://example.com/x"}, {"spiffe://example.com/a", "spiffe://evil.com/b"}}
	otherOpts := [][]string{nil, {"1.3.6.1.4.1.311.20.2.3;utf8:bob@example.com"}, {"1.3.6.1.4.1.311.20.2.3;utf8:bob@evil.com"},
		{"1.2.3.4;utf8:bob@example.com"}, {"1.3.6.1.4.1.311.20.2.3;utf8:bob@example.com", "1.3.6.1.4.1.311.20.2.3;utf8:eve@evil.com"}}
	res.Bound("S.san_rules", len(sanRules))
	res.Bound("S.ip x uri x other", len(ipOpts)*len(uriOpts)*len(otherOpts))
	for si, sr := range sanRules {
		for _, noCSRSANs := range []bool{false, true} {
			for ii, ips := range ipOpts {
				if !mine() {
					continue
				}
				r := switchRole(1|2|8|64, 0)
				applySAN(r, sr)
				r.NoCSRSANs = noCSRSANs
				h.m.writeRole(t, r)
				for ui, uris := range uriOpts {
					for oi, others := range otherOpts {
						cls := fmt.Sprintf("s%d|%v|i%d|u%d|o%d", si, noCSRSANs, ii, ui, oi)
						h.eval("S", r, &Req{Endpoint: "issue", Issuer: "long", CN: "san.example.com", IPs: ips, URIs: uris, Others: others}, "issue|"+cls)
						// sign: SAN kinds inside the CSR
						spec := &CSRSpec{Key: "ec256", CN: "san.example.com", DNS: []string{"san.example.com"}, IPs: ips, URIs: uris, Others: others}
						h.eval("S", r, &Req{Endpoint: "sign", Issuer: "long", CSR: spec}, "sign-csr|"+cls)
						// sign: SAN kinds in the API, an unrelated set in the CSR
						spec2 := &CSRSpec{Key: "ec256", CN: "san.example.com", DNS: []string{"san.example.com", "csr.evil.com"}, IPs: []string{"203.0.113.9"},
							URIs: []string{"spiffe://evil.com/csr"}, Others: []string{"1.3.6.1.4.1.311.20.2.3;utf8:csr@evil.com"}}
						h.eval("S", r, &Req{Endpoint: "sign", Issuer: "long", CN: "san.example.com", CSR: spec2, IPs: ips, URIs: uris, Others: others}, "sign-api|"+cls)
					}
				}
			}
		}
	}

	// ---- K: keys, usages, CSR extensions -----------------------------------------
	type keyRule struct {
		typ  string
		bits int
	}
	keyRules := []keyRule{{"ec", 256}, {"ec", 384}, {"ec", 0}, {"rsa", 2048}, {"rsa", 3072}, {"rsa", 0}, {"ed25519", 0}, {"any", 0}}
	csrKeys := []string{"ec224", "ec256", "ec384", "rsa1024", "rsa2048", "ed25519"}
	type usageRule struct {
		ku    []string
		kuSet bool
		flags int
		eku   []string
		bcNon bool
	}
	var usageRules []usageRule
	for flags := 0; flags < 16; flags++ {
		usageRules = append(usageRules, usageRule{flags: flags})
	}
	usageRules = append(usageRules,
		usageRule{ku: []string{}, kuSet: true, flags: 0},
		usageRule{ku: []string{"DigitalSignature"}, kuSet: true, flags: 1},
		usageRule{ku: []string{"DigitalSignature", "ContentCommitment", "DataEncipherment"}, kuSet: true, flags: 3, eku: []string{"TimeStamping"}},
		usageRule{ku: []string{"CertSign", "CRLSign"}, kuSet: true, flags: 3, bcNon: true},
	)
	csrExtras := []CSRSpec{{}, {ExtCA: true}, {ExtKU: true}, {ExtOdd: true}, {ExtCA: true, ExtKU: true, ExtOdd: true}, {Org: []string{"CSR Org"}}, {Serial: "666"}}
	res.Bound("K.key_rules", len(keyRules))
	res.Bound("K.csr_keys", csrKeys)
	res.Bound("K.usage_rules", len(usageRules))
	res.Bound("K.csr_extras", len(csrExtras))
	for ki, kr0 := range keyRules {
		for ui, ur := range usageRules {
			if !mine() {
				continue
			}
			r := switchRole(2|8|64, 0)
			r.KeyType, r.KeyBits = kr0.typ, kr0.bits
			r.KeyUsage, r.KeyUsageSet, r.ExtKU, r.BCNonCA = ur.ku, ur.kuSet, ur.eku, ur.bcNon
			r.Server, r.Client, r.CodeSign, r.EmailProt = ur.flags&1 != 0, ur.flags&2 != 0, ur.flags&4 != 0, ur.flags&8 != 0
			r.Org = []string{"Role Org"}
			h.m.writeRole(t, r)
			// issue: generated keys (RSA generation is slow: only with the first usage rules)
			if kr0.typ != "rsa" || ui < 2 || (thorough && ui < 6) {
				h.eval("K", r, &Req{Endpoint: "issue", Issuer: "long", CN: "key.example.com"}, fmt.Sprintf("issue|k%d|u%d", ki, ui))
				if kr0.typ == "any" {
					h.eval("K", r, &Req{Endpoint: "issue", Issuer: "long", CN: "key.example.com", KeyType: "ec", KeyBits: 384}, fmt.Sprintf("issue-any|k%d|u%d", ki, ui))
				} else {
					// key_type/key_bits in the request must be ignored by a role with a specific type
					h.eval("K", r, &Req{Endpoint: "issue", Issuer: "long", CN: "key.example.com", KeyType: "ec", KeyBits: 224}, fmt.Sprintf("issue-override|k%d|u%d", ki, ui))
				}
			}
			for ci, ck := range csrKeys {
				for xi, x := range csrExtras {
					if xi > 0 && ui%5 != 0 && !thorough {
						continue // CSR extras are independent of the usage flags: every 5th usage rule in the quick tier
					}
					for _, ep := range []string{"sign", "sign-verbatim", "sign-verbatim-norole", "sign-intermediate"} {
						if ep != "sign" && ui%5 != 0 {
							continue // role-free endpoints do not read the usage rule
						}
						spec := x
						spec.Key, spec.CN, spec.DNS = ck, "key.example.com", []string{"key.example.com"}
						q := &Req{Endpoint: ep, Issuer: "long", CSR: &spec}
						if ep == "sign-intermediate" {
							q.CN = "C15 intermediate"
						}
						h.eval("K", r, q, fmt.Sprintf("%s|k%d|u%d|c%d|x%d", ep, ki, ui, ci, xi))
					}
				}
			}
		}
	}

	// ---- vacuity guards and bookkeeping -------------------------------------------------
	keys := make([]string, 0, len(h.rules))
	for k := range h.rules {
		keys = append(keys, k)
	}
	sort.Strings(keys)
	for _, k := range keys {
		res.Add("names_admitted_by_"+k, int64(h.rules[k]))
	}
	res.Add("serials_distinct", int64(len(h.m.serials)))
	res.Add("roles_written", int64(h.m.nroles))
	if res.Counters["accepted"] == 0 || res.Counters["refused"] == 0 {
		t.Fatalf("vacuous shard: accepted=%d refused=%d", res.Counters["accepted"], res.Counters["refused"])
	}
	t.Logf("C15 shard %s: %d evaluations, %d accepted, %d refused, %d violations, %.1fs", res.Shard, res.Counters["evaluations"],
		res.Counters["accepted"], res.Counters["refused"], res.NumViolations(), time.Since(start).Seconds())
}
