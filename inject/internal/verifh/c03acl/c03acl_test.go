package c03acl

// C03 (A): ACL decisions equal the documented policy semantics.
//
// Exhaustive enumeration, on the real policy.ParseACLPolicy / policy.NewACL /
// ACL.AllowOperation / ACL.Capabilities, of policy sets over a bounded pattern
// universe x every attachment order x request paths x operations x request
// parameters, compared with a reference written from
// website/content/docs/concepts/policies.mdx:
//
//   * default deny;
//   * a pattern matches a path as the doc describes it: literal segments, '+'
//     = any characters within one segment, trailing '*' = prefix match (the
//     reference turns a pattern into an anchored regular expression, it does
//     not walk segments);
//   * an exact pattern beats every glob/wildcard pattern; among glob/wildcard
//     patterns the five documented tie-break rules decide (first '+'/'*'
//     position, ends in '*', number of '+', length, lexicographic);
//   * the same pattern in several stanzas: capabilities are unioned, deny from
//     any of them wins;
//   * required/denied/allowed parameters, pagination_limit and min/max wrapping
//     TTL of the deciding pattern further restrict.
//
// Two laws that need no reference at all are checked on every world:
//   * order independence: every permutation of the attached policies gives the
//     same observation vector;
//   * the list returned by ACL.Capabilities(path) agrees with the operations
//     AllowOperation permits on that path.
//
// Readings taken where the documentation is silent (the choice under which the
// current code is consistent; every one of them is still checked for order
// independence):
//   R1 list/scan on "p/" also consult patterns matching "p" (no trailing
//      slash). Order: exact "p/", exact "p", best non-exact for "p/", best
//      non-exact for "p".  A match of the path as requested therefore beats a
//      match of the slash-less form within the same class.
//   R2 Capabilities(path) reports the rule that decides a *list* on that path,
//      so the agreement law is stated for list/scan on every path and for the
//      other operations on paths without a trailing slash.
//   R3 parameter constraints apply to create/read/update/patch only; delete,
//      list and scan ignore them (list/scan honour pagination_limit and
//      required_parameters=["limit"] only).
//   R4 same pattern in several stanzas: allowed/denied parameter maps are
//      unioned key-wise, an empty value list (= any value) absorbs; required
//      parameters are unioned; the lowest set pagination_limit, the lowest set
//      min_wrapping_ttl and the lowest set max_wrapping_ttl win (the last two
//      are documented); a stanza that sets nothing contributes nothing.
//   R5 revoke/renew/rollback need "update".
//   R6 a list/scan without "limit" under a pagination_limit gets the limit
//      injected; limit=0 is replaced by the limit; limit=max becomes the limit
//      (documented) or "0" without a limit (documented).
//   R7 list_scan_response_keys_filter_path / control_group / mfa_methods /
//      granting-policy bookkeeping are not part of the decision and not
//      compared (the first is first-attached-wins by an explicit code comment).

import (
	"context"
	"encoding/json"
	"fmt"
	"os"
	"strings"
	"testing"
	"time"

	ref "github.com/openbao/openbao/sdk/v2/helper/verif/c03ref"
	"github.com/openbao/openbao/sdk/v2/helper/verif/vout"
	"github.com/openbao/openbao/sdk/v2/logical"
	"github.com/openbao/openbao/v2/internal/helper/namespace"
	"github.com/openbao/openbao/v2/internal/vault/policy"
)

// The reference model lives in engine/c03ref (shared with the Core-level unit).
type (
	Stanza = ref.Stanza
	Pol    = ref.Pol
	eff    = ref.Eff
	opInfo = ref.OpInfo
)

const (
	rDeny   = ref.Deny
	rSudo   = ref.Sudo
	rRead   = ref.Read
	rList   = ref.List
	rUpdate = ref.Update
	rCreate = ref.Create
	rDelete = ref.Delete
	rPatch  = ref.Patch
	rScan   = ref.Scan
)

var (
	capList    = ref.CapList
	namesToRef = ref.NamesToRef
	allOps     = ref.AllOps
	opsNamed   = ref.OpsNamed
	buildRef   = ref.Build
	matches    = ref.Matches
)

// real capability bits in the order of ref.CapNames
var realBits = []uint32{
	policy.DenyCapabilityInt, policy.SudoCapabilityInt, policy.ReadCapabilityInt, policy.ListCapabilityInt,
	policy.UpdateCapabilityInt, policy.CreateCapabilityInt, policy.DeleteCapabilityInt, policy.PatchCapabilityInt,
	policy.ScanCapabilityInt,
}

func realToRef(bm uint32) uint16 {
	var out uint16
	for i, b := range realBits {
		if bm&b != 0 {
			out |= 1 << uint(i)
			bm &^= b
		}
	}
	if bm != 0 {
		out |= 1 << 15 // unknown bit: never equal to a reference value
	}
	return out
}

// ---------------------------------------------------------------- harness

type variant struct {
	Data map[string]interface{} `json:"data,omitempty"`
	Wrap int                    `json:"wrap"` // seconds; -1 = no response wrapping requested
}

type world struct {
	Level      string    `json:"level"`
	Pols       []Pol     `json:"pols"` // attachment order 0
	ACLNS      string    `json:"acl_ns,omitempty"`
	ReqNS      string    `json:"req_ns,omitempty"`
	Paths      []string  `json:"paths"`
	Variants   []variant `json:"variants,omitempty"`
	OpNames    []string  `json:"ops,omitempty"`
	Restricted bool      `json:"restricted,omitempty"`
	MaxPerms   int       `json:"max_perms,omitempty"`
}

type harness struct {
	t        *testing.T
	res      *vout.Result
	polCache map[string]*policy.Policy
	k        int
	deadline time.Time
	stopped  bool
	nsN      *namespace.Namespace
	cnt      map[string]int64
	seen     map[dkey]struct{}
}

type dkey struct {
	level, how, why string
	c, r            int
	ll              bool
}

func (h *harness) flush() {
	for k, v := range h.cnt {
		h.res.Add(k, v)
	}
	h.cnt = map[string]int64{}
}

func (h *harness) nsOf(path string) *namespace.Namespace {
	if path == "" {
		return namespace.RootNamespace
	}
	return h.nsN
}

func (h *harness) parse(p Pol, name string) *policy.Policy {
	text := p.HCL(name)
	key := p.NS + "\x00" + text
	if pp, ok := h.polCache[key]; ok {
		return pp
	}
	pp, err := policy.ParseACLPolicy(h.nsOf(p.NS), text)
	if err != nil {
		h.t.Fatalf("harness: generated policy does not parse: %v\n%s", err, text)
	}
	h.polCache[key] = pp
	return pp
}

func permutations(n, max int) [][]int {
	var out [][]int
	idx := make([]int, n)
	for i := range idx {
		idx[i] = i
	}
	var rec func(k int)
	rec = func(k int) {
		if k == n {
			out = append(out, append([]int{}, idx...))
			return
		}
		for i := k; i < n; i++ {
			idx[k], idx[i] = idx[i], idx[k]
			rec(k + 1)
			idx[k], idx[i] = idx[i], idx[k]
		}
	}
	rec(0)
	if max > 0 && len(out) > max {
		// identity, full reversal, then the first ones
		rev := make([]int, n)
		for i := range rev {
			rev[i] = n - 1 - i
		}
		sel := [][]int{out[0], rev}
		for _, p := range out[1:] {
			if len(sel) >= max {
				break
			}
			if fmt.Sprint(p) != fmt.Sprint(rev) {
				sel = append(sel, p)
			}
		}
		out = sel
	}
	return out
}

func cloneData(m map[string]interface{}) map[string]interface{} {
	if m == nil {
		return nil
	}
	c := make(map[string]interface{}, len(m))
	for k, v := range m {
		c[k] = v
	}
	return c
}

type replayCase struct {
	Level string  `json:"level,omitempty"` // "isolation": re-run that whole (small) level
	World world   `json:"world"`
	Order []int   `json:"order"`
	Path  string  `json:"path"`
	Op    string  `json:"op"`
	Var   variant `json:"variant"`
}

func (h *harness) describe(w *world, perm []int) string {
	var b strings.Builder
	for i, idx := range perm {
		ns := w.Pols[idx].NS
		if ns == "" {
			ns = "root"
		}
		fmt.Fprintf(&b, "--- policy attached #%d (namespace %s)\n%s", i+1, ns, w.Pols[idx].HCL(fmt.Sprintf("p%d", idx)))
	}
	return b.String()
}

// next reports whether the next work item belongs to this shard (and whether
// the time budget still allows it).
func (h *harness) next() bool {
	h.k++
	if h.stopped {
		return false
	}
	if !vout.Mine(h.k) {
		return false
	}
	if h.k%64 == 0 && time.Now().After(h.deadline) {
		h.stopped = true
		h.res.NotExhaustive("time budget reached; remaining worlds skipped")
		return false
	}
	return true
}

var defaultVariants = []variant{{nil, -1}}

// run evaluates one world: every permutation of the attached policies, every
// path, every operation, every request variant.
func (h *harness) run(w *world) {
	res := h.res
	h.cnt["worlds"]++
	model := buildRef(w.Pols)
	perms := permutations(len(w.Pols), w.MaxPerms)
	ops := allOps
	if len(w.OpNames) > 0 {
		ops = opsNamed(w.OpNames...)
	}
	variants := w.Variants
	if len(variants) == 0 {
		variants = defaultVariants
	}
	reqNS := h.nsOf(w.ReqNS)
	ctx := namespace.ContextWithNamespace(context.Background(), reqNS)
	aclCtx := namespace.ContextWithNamespace(context.Background(), h.nsOf(w.ACLNS))
	var obs0 []uint32
	for pi, perm := range perms {
		plist := make([]*policy.Policy, len(perm))
		for i, idx := range perm {
			plist[i] = h.parse(w.Pols[idx], fmt.Sprintf("p%d", idx))
		}
		acl, err := policy.NewACL(aclCtx, plist)
		if err != nil {
			h.t.Fatalf("harness: NewACL failed: %v\n%s", err, h.describe(w, perm))
		}
		h.cnt["acls_built"]++
		oi := 0
		observe := func(v uint32, path, kind string, o *opInfo, va *variant) {
			if pi == 0 {
				obs0 = append(obs0, v)
			} else if oi < len(obs0) && obs0[oi] != v {
				what := kind
				if o != nil {
					what += " op=" + o.Op
				}
				if va != nil {
					what += fmt.Sprintf(" data=%v wrap=%d", va.Data, va.Wrap)
				}
				res.Violate("c03:acl:"+w.Level+":order-dependent:"+kind,
					fmt.Sprintf("the same policies attached in a different order decide differently: request-ns=%q path=%q %s: order %v gives %#x, order %v gives %#x\n%s",
						w.ReqNS, path, what, perms[0], obs0[oi], perm, v, h.describe(w, perm)),
					replayCase{World: *w, Order: perm, Path: path})
			}
			oi++
		}
		bad := func(sig, path, op string, va variant, msg string, e *eff) {
			dec := "no pattern matches (default deny)"
			if e != nil {
				dec = fmt.Sprintf("deciding pattern %q, merged capabilities %v", e.Pat, capList(e.Caps))
			}
			res.Violate("c03:acl:"+w.Level+":"+sig,
				fmt.Sprintf("request-ns=%q path=%q op=%s data=%v wrap=%d: %s; reference: %s\n%s", w.ReqNS, path, op, va.Data, va.Wrap, msg, dec, h.describe(w, perm)),
				replayCase{World: *w, Order: perm, Path: path, Op: op, Var: va})
		}
		for _, path := range w.Paths {
			abs := reqNS.Path + path
			eN, howN, candN, ruleN := model.Decide(abs, false)
			eL, howL, candL, ruleL := model.Decide(abs, true)
			slash := strings.HasSuffix(path, "/")

			// (1) capability bitmaps as seen by a non-list and a list lookup
			for li, e := range []*eff{eN, eL} {
				op := logical.ReadOperation
				if li == 1 {
					op = logical.ListOperation
				}
				got := acl.AllowOperation(ctx, &logical.Request{Operation: op, Path: path}, true)
				h.cnt["evaluations"]++
				var want uint16
				if e != nil {
					want = e.Caps
				}
				g := realToRef(got.CapabilitiesBitmap)
				if g != want {
					bad("capability-bitmap-differs", path, string(op)+"(capabilities only)", variant{Wrap: -1},
						fmt.Sprintf("capability set of the deciding rule is %v, reference says %v", capList(g), capList(want)), e)
				}
				wantSudo := e != nil && !e.Deny && e.Caps&rSudo != 0
				if got.RootPrivs != wantSudo {
					bad("sudo-differs", path, string(op)+"(capabilities only)", variant{Wrap: -1},
						fmt.Sprintf("RootPrivs=%v, reference says %v", got.RootPrivs, wantSudo), e)
				}
				observe(uint32(g)<<1|b2u(got.RootPrivs), path, "capability-bitmap", &allOps[li], nil)
			}

			// (2) reported capability list
			reported := acl.Capabilities(ctx, path)
			h.cnt["evaluations"]++
			rep := namesToRef(reported)
			var wantRep uint16 = rDeny
			if eL != nil && !eL.Deny && eL.Caps != 0 {
				wantRep = eL.Caps
			}
			if rep != wantRep {
				bad("reported-capabilities-differ", path, "capabilities", variant{Wrap: -1},
					fmt.Sprintf("Capabilities() = %v, reference says %v", reported, capList(wantRep)), eL)
			}
			observe(uint32(rep), path, "reported-capabilities", nil, nil)

			// (3) decisions
			for _, o := range ops {
				e, how, cands, rule := eN, howN, candN, ruleN
				if o.ListLike {
					e, how, cands, rule = eL, howL, candL, ruleL
				}
				for _, va := range variants {
					req := &logical.Request{Operation: logical.Operation(o.Op), Path: path, Data: cloneData(va.Data)}
					if va.Wrap >= 0 {
						req.WrapInfo = &logical.RequestWrapInfo{TTL: time.Duration(va.Wrap) * time.Second}
					}
					got := acl.AllowOperation(ctx, req, false)
					h.cnt["evaluations"]++
					want, why, limAfter, limPresent := e.Permits(o, va.Data, va.Wrap)
					if got.Allowed {
						h.cnt["allowed"]++
					} else {
						h.cnt["denied"]++
					}
					if got.Allowed != want {
						sig := "allowed-but-reference-denies:" + why
						if want {
							sig = "denied-but-reference-allows:" + why
						}
						bad(sig, path, o.Op, va, fmt.Sprintf("AllowOperation.Allowed=%v, reference says %v (%s)", got.Allowed, want, why), e)
					}
					wantSudo := e != nil && !e.Deny && e.Caps&rSudo != 0
					if got.RootPrivs != wantSudo {
						bad("sudo-differs", path, o.Op, va, fmt.Sprintf("RootPrivs=%v, reference says %v", got.RootPrivs, wantSudo), e)
					}
					var limObs uint32
					if o.ListLike && got.Allowed {
						gv, gp := req.Data["limit"]
						gs := ""
						if gp {
							gs = fmt.Sprint(gv)
						}
						if want && (gp != limPresent || gs != limAfter) {
							bad("effective-limit-differs:"+why, path, o.Op, va,
								fmt.Sprintf("after the ACL the request carries limit=%q (present=%v), reference says %q (present=%v)", gs, gp, limAfter, limPresent), e)
						}
						if gp {
							limObs = 1
							for _, c := range []byte(gs) {
								limObs = limObs*131 + uint32(c)
							}
							limObs &= 0xffff
						}
					}
					observe(b2u(got.Allowed)|b2u(got.RootPrivs)<<1|limObs<<2, path, "decision", &o, &va)

					// (4) reported capabilities agree with permitted operations (R2)
					if o.ListLike || !slash {
						has := rep&o.Need != 0 && rep&rDeny == 0
						if got.Allowed && !has {
							bad("permitted-but-not-reported", path, o.Op, va,
								fmt.Sprintf("operation is permitted but Capabilities() = %v does not list %q", reported, capList(o.Need)), e)
						}
						if !w.Restricted && has && !got.Allowed {
							bad("reported-but-not-permitted", path, o.Op, va,
								fmt.Sprintf("Capabilities() = %v lists %q but the operation is denied", reported, capList(o.Need)), e)
						}
					}
					if pi == 0 {
						class := why
						if e != nil && !e.Deny && e.Caps&o.Need != 0 && strings.HasPrefix(why, "ok") {
							class = "ok"
						}
						dk := dkey{w.Level, how, class, min(cands, 4), rule, o.ListLike}
						if _, ok := h.seen[dk]; !ok {
							h.seen[dk] = struct{}{}
							res.Distinct("nontrivial", fmt.Sprintf("%s|%s|c%d|r%d|%s|%v", w.Level, how, min(cands, 4), rule, class, o.ListLike))
							res.Distinct("outcome", why)
							res.Distinct("match", fmt.Sprintf("%s|c%d|r%d", how, min(cands, 4), rule))
						}
						if rule > 0 {
							h.cnt[tiebreakNames[rule]]++
						}
						h.cnt["decided_"+how]++
					}
				}
			}
		}
		if pi > 0 && oi != len(obs0) {
			h.t.Fatalf("harness: observation vectors of two permutations differ in length")
		}
	}
}

var tiebreakNames = []string{"", "decided_by_tiebreak_rule_1", "decided_by_tiebreak_rule_2", "decided_by_tiebreak_rule_3", "decided_by_tiebreak_rule_4", "decided_by_tiebreak_rule_5"}

func b2u(b bool) uint32 {
	if b {
		return 1
	}
	return 0
}

// ---------------------------------------------------------------- universes

// patterns: sequences of 1..maxSeg segments over lits + "+", with the endings
// "" / "/" / "*" (glued to a literal last segment) / "/*"; plus the bare "*".
func patternUniverse(lits []string, maxSeg int) []string {
	segs := append(append([]string{}, lits...), "+")
	var out []string
	var rec func(cur []string)
	rec = func(cur []string) {
		if len(cur) > 0 {
			base := strings.Join(cur, "/")
			out = append(out, base, base+"/", base+"/*")
			if cur[len(cur)-1] != "+" {
				out = append(out, base+"*")
			}
		}
		if len(cur) == maxSeg {
			return
		}
		for _, s := range segs {
			rec(append(append([]string{}, cur...), s))
		}
	}
	rec(nil)
	out = append(out, "*")
	return out
}

func pathUniverse(segs []string, maxSeg int) []string {
	var out []string
	var rec func(cur []string)
	rec = func(cur []string) {
		if len(cur) > 0 {
			base := strings.Join(cur, "/")
			out = append(out, base, base+"/")
		}
		if len(cur) == maxSeg {
			return
		}
		for _, s := range segs {
			rec(append(append([]string{}, cur...), s))
		}
	}
	rec(nil)
	return out
}

// a 12-element family of capability sets, pairwise different, none a subset
// of the union pattern that would hide which stanza contributed (deny and
// sudo included)
var antichain = []uint16{
	rRead,
	rList | rScan,
	rUpdate | rCreate,
	rDeny,
	rSudo | rRead,
	rDelete,
	rPatch | rUpdate,
	rSudo | rList | rDelete,
	rRead | rList | rUpdate | rCreate | rDelete | rPatch | rScan,
	rSudo,
	rCreate | rScan,
	rDeny | rRead | rSudo,
}

// ---------------------------------------------------------------- levels

func part(name string) bool {
	sel := os.Getenv("VERIF_PART")
	if sel == "" {
		return true
	}
	for _, s := range strings.Split(sel, ",") {
		if s == name {
			return true
		}
	}
	return false
}

// A: one stanza, all 2^9 capability subsets.
func (h *harness) levelCaps(paths []string) {
	pats := []string{"a/b", "a/b/", "a/*", "a/b*", "+/b", "a/+/*", "*"}
	for _, p := range pats {
		for c := 0; c < 512; c++ {
			if !h.next() {
				continue
			}
			h.run(&world{Level: "caps", Pols: []Pol{{Rules: []Stanza{{Pat: p, Caps: uint16(c)}}}}, Paths: paths})
		}
	}
	h.res.Bound("A_caps", fmt.Sprintf("%d patterns x 512 capability subsets x %d paths x %d operations", len(pats), len(paths), len(allOps)))
}

func pairCaps(i, j int) (uint16, uint16) {
	a := (i*5 + j) % len(antichain)
	b := (i*7 + j*3 + 1) % len(antichain)
	if a == b || (antichain[a]&rDeny != 0 && antichain[b]&rDeny != 0) {
		b = (a + 1) % len(antichain)
	}
	return antichain[a], antichain[b]
}

// B2: every unordered pair of distinct patterns, one policy each, both orders.
func (h *harness) levelPairs(level string, universe, paths []string) {
	for i := 0; i < len(universe); i++ {
		for j := i + 1; j < len(universe); j++ {
			if !h.next() {
				continue
			}
			ca, cb := pairCaps(i, j)
			h.run(&world{Level: level, Paths: paths, Pols: []Pol{
				{Rules: []Stanza{{Pat: universe[i], Caps: ca}}},
				{Rules: []Stanza{{Pat: universe[j], Caps: cb}}},
			}})
		}
	}
	h.res.Bound("B_"+level, fmt.Sprintf("all pairs of %d patterns x 2 orders x %d paths x %d operations", len(universe), len(paths), len(allOps)))
}

// B3: triples of distinct patterns that compete (each matches a path another
// one of the three matches too), evaluated on all paths.
func (h *harness) levelTriples(universe, paths []string, maxPerms int) {
	n := len(universe)
	// co[i][j]: some path is matched by both (in either list form)
	m := make([][]bool, n)
	for i, p := range universe {
		m[i] = make([]bool, len(paths))
		for k, pa := range paths {
			m[i][k] = matches(p, pa) || (strings.HasSuffix(pa, "/") && matches(p, strings.TrimSuffix(pa, "/")))
		}
	}
	co := make([][]bool, n)
	for i := range co {
		co[i] = make([]bool, n)
		for j := range co[i] {
			for k := range paths {
				if m[i][k] && m[j][k] {
					co[i][j] = true
					break
				}
			}
		}
	}
	total := 0
	for i := 0; i < n; i++ {
		for j := i + 1; j < n; j++ {
			if !co[i][j] {
				continue
			}
			for l := j + 1; l < n; l++ {
				if !co[i][l] || !co[j][l] {
					continue
				}
				// all three on one path
				var rel []string
				for k := range paths {
					if m[i][k] && m[j][k] && m[l][k] {
						rel = append(rel, paths[k])
					}
				}
				if len(rel) == 0 {
					continue
				}
				total++
				if !h.next() {
					continue
				}
				ca, cb := pairCaps(i, j)
				ci := (i + j + l) % len(antichain)
				for antichain[ci] == ca || antichain[ci] == cb {
					ci = (ci + 1) % len(antichain)
				}
				cc := antichain[ci]
				h.run(&world{Level: "triples", Paths: rel, MaxPerms: maxPerms, Pols: []Pol{
					{Rules: []Stanza{{Pat: universe[i], Caps: ca}}},
					{Rules: []Stanza{{Pat: universe[j], Caps: cb}}},
					{Rules: []Stanza{{Pat: universe[l], Caps: cc}}},
				}})
			}
		}
	}
	h.res.Bound("B_triples", fmt.Sprintf("%d triples of %d patterns that all match one common path, on those paths, %d orders", total, n, maxPerms))
}

// N: namespaces. Policies written in namespace n/ and/or in the root
// namespace naming n/..., requests made in n/ or in the root namespace.
func (h *harness) levelNamespaces(universe, paths []string) {
	for i := 0; i < len(universe); i++ {
		for j := i + 1; j < len(universe); j++ {
			for mode := 0; mode < 3; mode++ {
				if !h.next() {
					continue
				}
				ca, cb := pairCaps(i, j)
				var w *world
				switch mode {
				case 0: // both policies live in n/, request in n/
					w = &world{Level: "ns-child", ACLNS: "n/", ReqNS: "n/", Paths: paths, Pols: []Pol{
						{NS: "n/", Rules: []Stanza{{Pat: universe[i], Caps: ca}}},
						{NS: "n/", Rules: []Stanza{{Pat: universe[j], Caps: cb}}},
					}}
				case 1: // a root policy naming n/<pattern> and a child policy, request in n/
					w = &world{Level: "ns-mixed", ACLNS: "", ReqNS: "n/", Paths: paths, Pols: []Pol{
						{NS: "", Rules: []Stanza{{Pat: "n/" + universe[i], Caps: ca}}},
						{NS: "n/", Rules: []Stanza{{Pat: universe[j], Caps: cb}}},
					}}
				default: // a root policy with the bare pattern and one naming n/<pattern>; request in n/
					w = &world{Level: "ns-cross", ACLNS: "", ReqNS: "n/", Paths: paths, Pols: []Pol{
						{NS: "", Rules: []Stanza{{Pat: universe[i], Caps: ca}}},
						{NS: "", Rules: []Stanza{{Pat: "n/" + universe[j], Caps: cb}}},
					}}
				}
				h.run(w)
			}
		}
	}
	h.res.Bound("N_namespaces", fmt.Sprintf("all pairs of %d patterns x 3 namespace placements x 2 orders x %d paths", len(universe), len(paths)))
}

// C: the same pattern in 2..3 policies (and twice inside one policy), every
// capability-set combination from the antichain, every order, with and
// without a competing second pattern.
func (h *harness) levelMerge(k3 bool) {
	type pc struct {
		pat, comp string
		paths     []string
	}
	cases := []pc{
		{"a/b", "a/*", []string{"a/b", "a/b/", "a/ab", "a/a", "b"}},
		{"a/b/", "a/b", []string{"a/b", "a/b/", "a/b/a"}},
		{"a/*", "a/b", []string{"a/b", "a/b/", "a/a/b", "a", "ab"}},
		{"a/b*", "a/*", []string{"a/b", "a/b/", "a/ba", "a/a"}},
		{"+/b", "a/+", []string{"a/b", "a/b/", "b/b", "a/a"}},
		{"a/+/*", "a/*", []string{"a/b/a", "a/b/", "a/b", "a/a/a/a"}},
		{"+/+", "+/b*", []string{"a/b", "a/b/", "b/a", "a"}},
		{"*", "+", []string{"a", "a/", "a/b"}},
	}
	count := 0
	for _, c := range cases {
		for withComp := 0; withComp < 2; withComp++ {
			arities := []int{2}
			if k3 {
				arities = append(arities, 3)
			}
			for _, ar := range arities {
				idx := make([]int, ar)
				for {
					count++
					if h.next() {
						var pols []Pol
						for i := 0; i < ar; i++ {
							pols = append(pols, Pol{Rules: []Stanza{{Pat: c.pat, Caps: antichain[idx[i]]}}})
						}
						if withComp == 1 {
							pols[0].Rules = append(pols[0].Rules, Stanza{Pat: c.comp, Caps: rPatch | rScan})
						}
						h.run(&world{Level: "merge", Pols: pols, Paths: c.paths})
						// the same stanzas inside ONE policy (two blocks with the same path)
						if ar == 2 {
							one := Pol{Rules: []Stanza{{Pat: c.pat, Caps: antichain[idx[0]]}, {Pat: c.pat, Caps: antichain[idx[1]]}}}
							other := Pol{Rules: []Stanza{{Pat: c.comp, Caps: rPatch | rScan}}}
							h.run(&world{Level: "merge-one-policy", Pols: []Pol{one, other}, Paths: c.paths})
						}
					}
					// next index vector
					p := ar - 1
					for p >= 0 {
						idx[p]++
						if idx[p] < len(antichain) {
							break
						}
						idx[p] = 0
						p--
					}
					if p < 0 {
						break
					}
				}
			}
		}
	}
	h.res.Bound("C_merge", fmt.Sprintf("%d worlds: 8 patterns x (12^2%s) capability combinations x with/without competing pattern x all orders", count, map[bool]string{true: " + 12^3", false: ""}[k3]))
}

var (
	allowedOpts = []map[string][]string{
		nil,
		{},
		{"k1": {}},
		{"k1": {"v1"}},
		{"k1": {"v1", "v2"}},
		{"k1": {"v*"}},
		{"*": {}},
		{"*": {}, "k1": {"v1"}},
		{"k2": {"v2"}},
		{"k1": {"v1"}, "k2": {}},
	}
	deniedOpts = []map[string][]string{
		nil,
		{"k1": {}},
		{"k1": {"v1"}},
		{"k1": {"*1"}},
		{"*": {}},
		{"k2": {"v2"}},
		{"k1": {"v2"}, "k2": {}},
	}
	requiredOpts = [][]string{nil, {"k1"}, {"k2"}, {"k1", "k2"}}
)

func paramVariants() []variant {
	var out []variant
	for _, v1 := range []string{"", "v1", "v2", "x1"} {
		for _, v2 := range []string{"", "v2", "zz"} {
			d := map[string]interface{}{}
			if v1 != "" {
				d["k1"] = v1
			}
			if v2 != "" {
				d["k2"] = v2
			}
			if len(d) == 0 {
				d = nil
			}
			out = append(out, variant{Data: d, Wrap: -1})
		}
	}
	out = append(out, variant{Data: map[string]interface{}{"k3": "v1"}, Wrap: -1})
	return out
}

// D: parameter constraints, one and two policies on the same pattern.
func (h *harness) levelParams(thorough bool) {
	type opt struct{ a, d, r int }
	var opts []opt
	for a := range allowedOpts {
		for d := range deniedOpts {
			for r := range requiredOpts {
				opts = append(opts, opt{a, d, r})
			}
		}
	}
	full := rRead | rUpdate | rCreate | rPatch | rDelete | rList
	mk := func(pat string, o opt, caps uint16) Stanza {
		return Stanza{Pat: pat, Caps: caps, Allowed: allowedOpts[o.a], Denied: deniedOpts[o.d], Required: requiredOpts[o.r]}
	}
	vars := paramVariants()
	opn := []string{"read", "update", "create", "patch", "delete", "list"}
	pats := []struct{ pat, path string }{{"a/b", "a/b"}}
	if thorough {
		pats = append(pats, struct{ pat, path string }{"a/*", "a/b"}, struct{ pat, path string }{"+/b", "a/b"})
	}
	n1, n2, n3 := 0, 0, 0
	for _, pp := range pats {
		for _, o := range opts {
			n1++
			if h.next() {
				h.run(&world{Level: "params-1", Restricted: true, Paths: []string{pp.path}, Variants: vars, OpNames: opn,
					Pols: []Pol{{Rules: []Stanza{mk(pp.pat, o, full)}}}})
			}
		}
		// pairs: the second policy either constrains as well, or grants without
		// constraints, or denies
		for i, o1 := range opts {
			for j, o2 := range opts {
				if j < i {
					continue
				}
				// quick tier: thin the 280x280 product deterministically
				if !thorough && (i*31+j*17)%5 != 0 {
					continue
				}
				n2++
				if !h.next() {
					continue
				}
				h.run(&world{Level: "params-2", Restricted: true, Paths: []string{pp.path}, Variants: vars, OpNames: opn,
					Pols: []Pol{{Rules: []Stanza{mk(pp.pat, o1, full)}}, {Rules: []Stanza{mk(pp.pat, o2, rUpdate|rRead)}}}})
			}
		}
		// triples (associativity of the merge): a reduced option set, all 6 orders
		if pp.pat == "a/b" {
			var ropts []opt
			na, nd := 5, 3
			if thorough {
				na, nd = 8, 5
			}
			for a := 0; a < na; a++ {
				for d := 0; d < nd; d++ {
					ropts = append(ropts, opt{a + 1, d, (a + d) % 3})
				}
			}
			for i := range ropts {
				for j := i; j < len(ropts); j++ {
					for l := j; l < len(ropts); l++ {
						n3++
						if !h.next() {
							continue
						}
						h.run(&world{Level: "params-3", Restricted: true, Paths: []string{pp.path}, Variants: vars, OpNames: opn,
							Pols: []Pol{{Rules: []Stanza{mk(pp.pat, ropts[i], full)}}, {Rules: []Stanza{mk(pp.pat, ropts[j], rUpdate|rRead)}}, {Rules: []Stanza{mk(pp.pat, ropts[l], rCreate)}}}})
					}
				}
			}
		}
		for _, o := range opts {
			if h.next() {
				h.run(&world{Level: "params-deny", Restricted: true, Paths: []string{pp.path}, Variants: vars, OpNames: opn,
					Pols: []Pol{{Rules: []Stanza{mk(pp.pat, o, full)}}, {Rules: []Stanza{{Pat: pp.pat, Caps: rDeny}}}, {Rules: []Stanza{mk("a/*", o, full)}}}})
			}
			if h.next() {
				// constraints of a lower-priority pattern must not leak into the deciding one
				h.run(&world{Level: "params-other-pattern", Restricted: true, Paths: []string{pp.path, "a/ab"}, Variants: vars, OpNames: opn,
					Pols: []Pol{{Rules: []Stanza{{Pat: pp.pat, Caps: full}}}, {Rules: []Stanza{mk("*", o, full)}}}})
			}
		}
	}
	h.res.Bound("D_params", fmt.Sprintf("%d constraint combinations (10 allowed x 7 denied x 4 required) single, %d pairs, %d triples (reduced option set, all 6 orders), x %d parameter maps x %d operations, %d patterns", n1, n2, n3, len(vars), len(opn), len(pats)))
}

// E: pagination limits.
func (h *harness) levelPagination(k3 bool) {
	type opt struct {
		limit int
		req   bool
		caps  uint16
	}
	var opts []opt
	for _, l := range []int{0, 5, 10} {
		for _, r := range []bool{false, true} {
			for _, c := range []uint16{rList | rScan, rList, rDeny} {
				opts = append(opts, opt{l, r, c})
			}
		}
	}
	mk := func(pat string, o opt) Stanza {
		s := Stanza{Pat: pat, Caps: o.caps, Limit: o.limit}
		if o.req {
			s.Required = []string{"limit"}
		}
		return s
	}
	var vars []variant
	for _, v := range []interface{}{nil, "3", "5", "7", "10", "75", "0", "-1", "max", "abc", 7} {
		if v == nil {
			vars = append(vars, variant{Wrap: -1})
			vars = append(vars, variant{Data: map[string]interface{}{"after": "x"}, Wrap: -1})
			continue
		}
		vars = append(vars, variant{Data: map[string]interface{}{"limit": v}, Wrap: -1})
	}
	pats := []struct {
		pat   string
		paths []string
	}{
		{"a/b", []string{"a/b/", "a/b"}},
		{"a/b/", []string{"a/b/"}},
		{"a/*", []string{"a/b/", "a/"}},
		{"+/b/", []string{"a/b/"}},
	}
	opn := []string{"list", "scan", "read"}
	count := 0
	for _, pp := range pats {
		arities := []int{1, 2}
		if k3 {
			arities = append(arities, 3)
		}
		for _, ar := range arities {
			idx := make([]int, ar)
			for {
				count++
				if h.next() {
					var pols []Pol
					for i := 0; i < ar; i++ {
						pols = append(pols, Pol{Rules: []Stanza{mk(pp.pat, opts[idx[i]])}})
					}
					// a lower-priority pattern with a tighter limit must not leak
					pols[0].Rules = append(pols[0].Rules, Stanza{Pat: "*", Caps: rList | rScan | rRead, Limit: 3})
					h.run(&world{Level: "pagination", Restricted: true, Pols: pols, Paths: pp.paths, Variants: vars, OpNames: opn})
				}
				p := ar - 1
				for p >= 0 {
					idx[p]++
					if idx[p] < len(opts) {
						break
					}
					idx[p] = 0
					p--
				}
				if p < 0 {
					break
				}
			}
		}
	}
	h.res.Bound("E_pagination", fmt.Sprintf("%d worlds: 4 patterns x {18, 18^2%s} (limit x required x capabilities) combinations x all orders x %d limit values x list/scan/read", count, map[bool]string{true: ", 18^3", false: ""}[k3], len(vars)))
}

// F: wrapping TTL bounds.
func (h *harness) levelWrapping(k3 bool) {
	type opt struct {
		minW, maxW int
		caps       uint16
	}
	var opts []opt
	for _, mn := range []int{0, 10, 100} {
		for _, mx := range []int{0, 50, 200} {
			if mn != 0 && mx != 0 && mx < mn {
				continue // rejected at parse time
			}
			opts = append(opts, opt{mn, mx, rRead | rUpdate | rList})
		}
	}
	opts = append(opts, opt{0, 0, rDeny}, opt{0, 0, rUpdate})
	var vars []variant
	for _, w := range []int{-1, 0, 5, 10, 30, 50, 100, 150, 200, 300} {
		vars = append(vars, variant{Wrap: w})
	}
	pats := []struct {
		pat   string
		paths []string
	}{
		{"a/b", []string{"a/b", "a/b/"}},
		{"a/*", []string{"a/b"}},
		{"a/+", []string{"a/b"}},
	}
	opn := []string{"read", "update", "list", "delete"}
	count := 0
	for _, pp := range pats {
		arities := []int{1, 2}
		if k3 {
			arities = append(arities, 3)
		}
		for _, ar := range arities {
			idx := make([]int, ar)
			for {
				count++
				if h.next() {
					var pols []Pol
					for i := 0; i < ar; i++ {
						o := opts[idx[i]]
						pols = append(pols, Pol{Rules: []Stanza{{Pat: pp.pat, Caps: o.caps, MinW: o.minW, MaxW: o.maxW}}})
					}
					pols[0].Rules = append(pols[0].Rules, Stanza{Pat: "*", Caps: rRead | rUpdate | rList | rDelete, MinW: 1, MaxW: 2})
					h.run(&world{Level: "wrapping", Restricted: true, Pols: pols, Paths: pp.paths, Variants: vars, OpNames: opn})
				}
				p := ar - 1
				for p >= 0 {
					idx[p]++
					if idx[p] < len(opts) {
						break
					}
					idx[p] = 0
					p--
				}
				if p < 0 {
					break
				}
			}
		}
	}
	h.res.Bound("F_wrapping", fmt.Sprintf("%d worlds: 3 patterns x {10, 10^2%s} (min x max wrapping TTL, deny) combinations x all orders x %d wrap TTLs", count, map[bool]string{true: ", 10^3", false: ""}[k3], len(vars)))
}

// I: isolation. An ACL that has been built keeps its decisions when further
// ACLs are built from the same (cached, shared) policy objects: ACL1 is built
// from the shared policy S and a policy A and evaluated, ACL2 is built from S
// and another policy C, ACL1 is evaluated again.  policy.Store hands the same
// *Policy to every ACL construction, so a merge that writes into a policy's
// slices leaks between tokens (finding F13).
func (h *harness) levelIsolation() {
	mkLists := func(p, q, r string) [][]string {
		return [][]string{{p + "1"}, {p + "9"}, {q + "1", q + "2"}, {q + "1", q + "2", q + "3"},
			{q + "1", q + "2", q + "3", q + "4", q + "5"}, {r + "1", r + "2", r + "3", r + "4", r + "5", r + "6"}}
	}
	lists := mkLists("v", "x", "y")
	values := []string{"v1", "v9", "x1", "x3", "x5", "y6", "zz"}
	ctx := namespace.ContextWithNamespace(context.Background(), namespace.RootNamespace)
	kinds := []string{"allowed", "denied", "required"}
	mk := func(kind int, l []string) Pol {
		st := Stanza{Pat: "a/b", Caps: rUpdate | rRead}
		switch kind {
		case 0:
			st.Allowed = map[string][]string{"k1": l}
		case 1:
			st.Denied = map[string][]string{"k1": l}
		default:
			st.Required = l // the value lists double as parameter names
		}
		return Pol{Rules: []Stanza{st}}
	}
	// request i: allowed/denied: k1 = values[i]; required: every name except values[i]
	reqData := func(kind, i int) map[string]interface{} {
		if kind < 2 {
			return map[string]interface{}{"k1": values[i]}
		}
		d := map[string]interface{}{}
		for _, l := range lists {
			for _, n := range l {
				d[n] = "1"
			}
		}
		d["zz"] = "1"
		delete(d, values[i])
		return d
	}
	ask := func(acl *policy.ACL, kind int) uint32 {
		var v uint32
		for i := range values {
			r := acl.AllowOperation(ctx, &logical.Request{Operation: logical.UpdateOperation, Path: "a/b", Data: reqData(kind, i)}, false)
			h.cnt["evaluations"]++
			if r.Allowed {
				v |= 1 << uint(i)
			}
		}
		return v
	}
	n := 0
	for kind := range kinds {
		for sharedFirst := 0; sharedFirst < 2; sharedFirst++ {
			for ai, a := range lists {
				for ci, c := range lists {
					if ai == ci {
						continue
					}
					for _, sh := range lists {
						n++
						if !h.next() {
							continue
						}
						h.cnt["worlds"]++
						A, S, C := mk(kind, a), mk(kind, sh), mk(kind, c)
						pa, ps, pc := h.parse(A, "pA"), h.parse(S, "pS"), h.parse(C, "pC")
						order1, order2 := []*policy.Policy{pa, ps}, []*policy.Policy{pc, ps}
						pols1 := []Pol{A, S}
						names := "[pA,pS] ... [pC,pS]"
						if sharedFirst == 1 {
							order1, order2 = []*policy.Policy{ps, pa}, []*policy.Policy{ps, pc}
							pols1 = []Pol{S, A}
							names = "[pS,pA] ... [pS,pC]"
						}
						acl1, err := policy.NewACL(ctx, order1)
						if err != nil {
							h.t.Fatal(err)
						}
						before := ask(acl1, kind)
						model := buildRef(pols1)
						e, _, _, _ := model.Decide("a/b", false)
						var want uint32
						for i := range values {
							if ok, _, _, _ := e.Permits(opsNamed("update")[0], reqData(kind, i), -1); ok {
								want |= 1 << uint(i)
							}
						}
						text := A.HCL("pA") + S.HCL("pS") + C.HCL("pC")
						if before != want {
							h.res.Violate("c03:acl:isolation:decision-differs:"+kinds[kind],
								fmt.Sprintf("ACL from %s: allowed vector over requests %v is %#b, reference says %#b\n%s", names[:7], values, before, want, text),
								replayCase{Level: "isolation"})
						}
						if _, err := policy.NewACL(ctx, order2); err != nil {
							h.t.Fatal(err)
						}
						after := ask(acl1, kind)
						if after != before {
							var diff []string
							for i, val := range values {
								if (before^after)&(1<<uint(i)) != 0 {
									what := "k1=" + val
									if kind == 2 {
										what = "request without parameter " + val
									}
									diff = append(diff, fmt.Sprintf("%s: allowed %v -> %v", what, before&(1<<uint(i)) != 0, after&(1<<uint(i)) != 0))
								}
							}
							h.res.Violate("c03:acl:isolation:decision-changed-after-other-acl-built:"+kinds[kind],
								fmt.Sprintf("the ACL built first changed its decisions for update a/b after a second ACL was built (%s; pS is the same cached policy object): %s\n%s",
									names, strings.Join(diff, "; "), text),
								replayCase{Level: "isolation"})
						}
						h.res.Distinct("nontrivial", fmt.Sprintf("isolation|%d|%d|%d|%d|%#x", kind, sharedFirst, len(a), len(sh), before))
					}
				}
			}
		}
	}
	h.res.Bound("I_isolation", fmt.Sprintf("%d worlds: allowed/denied/required x shared policy attached first or second x lists of length 1,1,2,3,5,6 for A, C (A != C) and the shared S x %d requests", n, len(values)))
}

// G: the root policy.
func (h *harness) levelRoot(paths []string) {
	if !h.next() {
		return
	}
	for _, polNS := range []string{"", "n/"} {
		pp, err := policy.ParseACLPolicy(h.nsOf(polNS), `name = "root"`+"\n"+`path "zz" { capabilities = ["deny"] }`)
		if err != nil {
			h.t.Fatalf("harness: %v", err)
		}
		ctxA := namespace.ContextWithNamespace(context.Background(), h.nsOf(polNS))
		acl, err := policy.NewACL(ctxA, []*policy.Policy{pp})
		if err != nil {
			h.t.Fatalf("harness: %v", err)
		}
		for _, reqNS := range []string{"", "n/"} {
			ctx := namespace.ContextWithNamespace(context.Background(), h.nsOf(reqNS))
			// a root policy of namespace X covers X and everything below it
			want := polNS == "" || reqNS == polNS
			for _, path := range paths {
				for _, o := range allOps {
					got := acl.AllowOperation(ctx, &logical.Request{Operation: logical.Operation(o.Op), Path: path}, false)
					h.res.Add("evaluations", 1)
					if got.Allowed != want || got.RootPrivs != want {
						h.res.Violate("c03:acl:root:decision-differs",
							fmt.Sprintf("root policy of namespace %q, request in %q, path %q op %s: allowed=%v sudo=%v, expected %v", polNS, reqNS, path, logical.Operation(o.Op), got.Allowed, got.RootPrivs, want), nil)
					}
				}
				caps := acl.Capabilities(ctx, path)
				h.res.Add("evaluations", 1)
				wantCaps := "[root]"
				if !want {
					wantCaps = "[deny]"
				}
				if fmt.Sprint(caps) != wantCaps {
					h.res.Violate("c03:acl:root:reported-capabilities-differ",
						fmt.Sprintf("root policy of namespace %q, request in %q, path %q: Capabilities()=%v, expected %s", polNS, reqNS, path, caps, wantCaps), nil)
				}
			}
			h.res.Distinct("nontrivial", fmt.Sprintf("root|%s|%s|%v", polNS, reqNS, want))
		}
	}
}

// ---------------------------------------------------------------- entry

func TestVerifC03ACL(t *testing.T) {
	res := vout.New("C03", "acl")
	var h *harness
	defer func() {
		if h != nil {
			h.flush()
		}
		if err := res.Write(); err != nil {
			t.Fatal(err)
		}
	}()
	h = &harness{t: t, res: res, polCache: map[string]*policy.Policy{}, cnt: map[string]int64{}, seen: map[dkey]struct{}{},
		nsN:      &namespace.Namespace{ID: "nsn01", Path: "n/"},
		deadline: time.Now().Add(time.Duration(vout.DeadlineS()) * time.Second)}

	if vout.ReplayPath() != "" {
		var rc replayCase
		if _, err := vout.LoadReplay(&rc); err != nil {
			t.Fatal(err)
		}
		if rc.Level == "isolation" {
			h.levelIsolation()
			return
		}
		w := rc.World
		if rc.Path != "" {
			w.Paths = []string{rc.Path}
		}
		if rc.Op != "" && !strings.Contains(rc.Op, "(") && rc.Op != "capabilities" {
			w.Variants = []variant{rc.Var}
		}
		h.run(&w)
		return
	}

	thorough := vout.Thorough()
	lits := []string{"a", "b", "ab"}
	paths3 := pathUniverse(lits, 3)
	uni3 := patternUniverse(lits, 3)
	uni2 := patternUniverse(lits, 2)
	res.Bound("pattern_universe", fmt.Sprintf("%d patterns: 1..3 segments over {a,b,ab,+}, endings none | / | * | /*, plus bare *", len(uni3)))
	res.Bound("path_universe", fmt.Sprintf("%d paths: 1..3 segments over {a,b,ab}, with and without trailing slash", len(paths3)))

	pathsDeep := paths3
	if thorough {
		pathsDeep = pathUniverse([]string{"a", "b", "ab", "c"}, 3)
		for _, p := range []string{"a/b/ab/a", "a/b/a/b", "a/a/a/a/", "ab/ab/ab/ab", "b/a/b/c/"} {
			pathsDeep = append(pathsDeep, p)
		}
		res.Bound("path_universe_thorough", fmt.Sprintf("%d paths: 1..3 segments over {a,b,ab,c} with and without trailing slash, plus 5 four-segment paths", len(pathsDeep)))
	}

	if part("A") {
		h.levelCaps(paths3)
	}
	if part("B") {
		h.levelPairs("pairs", uni3, pathsDeep)
	}
	if part("P") && thorough {
		// four-segment patterns over a smaller alphabet, paths up to four segments
		h.levelPairs("pairs-deep", patternUniverse([]string{"a", "b"}, 4), pathUniverse([]string{"a", "b", "ab"}, 4))
	}
	if part("T") {
		if thorough {
			h.levelTriples(uni3, paths3, 6)
		} else {
			h.levelTriples(uni2, paths3, 6)
		}
	}
	if part("N") {
		h.levelNamespaces(uni2, paths3)
	}
	if part("C") {
		h.levelMerge(true)
	}
	if part("D") {
		h.levelParams(thorough)
	}
	if part("E") {
		h.levelPagination(true)
	}
	if part("F") {
		h.levelWrapping(true)
	}
	if part("G") {
		h.levelRoot(paths3)
	}
	if part("I") {
		h.levelIsolation()
	}
	res.Bound("work_items", h.k)

	// a few concrete cases for the evidence file
	if i, _ := vout.Shard(); i == 0 {
		demo := []Pol{
			{Rules: []Stanza{{Pat: "a/+", Caps: rRead}}},
			{Rules: []Stanza{{Pat: "a/*", Caps: rUpdate}}},
			{Rules: []Stanza{{Pat: "a/b", Caps: rDeny}}},
		}
		model := buildRef(demo)
		for _, p := range []string{"a/b", "a/ab", "a/ab/", "a/b/a"} {
			e, how, c, r := model.Decide(p, true)
			pat := ""
			if e != nil {
				pat = e.Pat
			}
			res.Sample(map[string]interface{}{"policies": `a/+ {read}; a/* {update}; a/b {deny}`, "list_on": p, "deciding_pattern": pat, "how": how, "candidates": c, "tiebreak_rule": r})
		}
	}
	b, _ := json.Marshal(map[string]int{"patterns": len(uni3), "paths": len(paths3)})
	res.Note("universe %s", string(b))
}
