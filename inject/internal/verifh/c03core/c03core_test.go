package c03core

// C03 (K): on a real Core with namespaces, the capability list reported for a
// path agrees with the operations actually permitted on it, and both agree with
// the documented policy semantics.
//
// One Core per shard: namespaces ns1/ and ns1/sub/, a recording backend mounted
// at m/ in each of the three namespaces.  Worlds = a token of namespace T
// (root or ns1/) carrying every single policy / every pair of policies (both
// name orders, i.e. both attachment orders) over a list of patterns that name
// paths of T and of its child namespaces.  For every namespace X at or below T
// (addressed through the request context and, from the parent, through the
// path prefix) and every probe path:
//
//   reported: Core.Capabilities, sys/capabilities (asked by a root token) and
//             sys/capabilities-self (asked by the token itself)
//   enforced: read / update-or-create / patch / delete / list / scan sent
//             through Core.HandleRequest with the token; permitted = anything
//             but "permission denied" (incl. a root-protected path that needs
//             sudo)
//   reference: engine/c03ref on the absolute patterns (policy namespace path +
//             pattern) and the absolute request path (request namespace path +
//             path)
//
// Oracles: reported == reference; enforced == reference; and, without any
// reference, capability c reported <=> the operation needing c is permitted
// (list/scan on every path, the others on paths without trailing slash).

import (
	"context"
	"fmt"
	"os"
	"sort"
	"strings"
	"testing"
	"time"

	log "github.com/hashicorp/go-hclog"
	ref "github.com/openbao/openbao/sdk/v2/helper/verif/c03ref"
	"github.com/openbao/openbao/sdk/v2/helper/verif/vout"
	"github.com/openbao/openbao/sdk/v2/logical"
	"github.com/openbao/openbao/sdk/v2/physical/inmem"
	"github.com/openbao/openbao/v2/internal/helper/namespace"
	"github.com/openbao/openbao/v2/internal/vault"
)

// ---------------------------------------------------------------- recording backend (kv only)

type recBackend struct {
	conf *logical.BackendConfig
}

// filter template of the world that maps listed keys onto the root-protected path family
const c03RootFilterPrefix = "m/rootonly/"

func recFactory(ctx context.Context, conf *logical.BackendConfig) (logical.Backend, error) {
	return &recBackend{conf: conf}, nil
}

func (b *recBackend) Initialize(context.Context, *logical.InitializationRequest) error { return nil }
func (b *recBackend) System() logical.SystemView                                       { return b.conf.System }
func (b *recBackend) Logger() log.Logger                                               { return log.NewNullLogger() }
func (b *recBackend) Cleanup(context.Context)                                          {}
func (b *recBackend) InvalidateKey(context.Context, string)                            {}
func (b *recBackend) Setup(context.Context, *logical.BackendConfig) error              { return nil }
func (b *recBackend) Type() logical.BackendType                                        { return logical.TypeLogical }
func (b *recBackend) SpecialPaths() *logical.Paths {
	return &logical.Paths{Root: []string{"rootonly/*"}}
}

func (b *recBackend) HandleExistenceCheck(ctx context.Context, req *logical.Request) (bool, bool, error) {
	if strings.HasPrefix(req.Path, "kv/") {
		e, err := req.Storage.Get(ctx, req.Path)
		if err != nil {
			return true, false, err
		}
		return true, e != nil, nil
	}
	return false, false, nil
}

func (b *recBackend) HandleRequest(ctx context.Context, req *logical.Request) (*logical.Response, error) {
	if !strings.HasPrefix(req.Path, "kv/") && !strings.HasPrefix(req.Path, "rootonly/") {
		return nil, logical.ErrUnsupportedPath
	}
	switch req.Operation {
	case logical.ReadOperation:
		e, err := req.Storage.Get(ctx, req.Path)
		if err != nil || e == nil {
			return nil, err
		}
		return &logical.Response{Data: map[string]interface{}{"value": string(e.Value)}}, nil
	case logical.CreateOperation, logical.UpdateOperation, logical.PatchOperation:
		v, _ := req.Data["value"].(string)
		return nil, req.Storage.Put(ctx, &logical.StorageEntry{Key: req.Path, Value: []byte(v)})
	case logical.DeleteOperation:
		return nil, req.Storage.Delete(ctx, req.Path)
	case logical.ListOperation, logical.ScanOperation:
		ks, err := req.Storage.List(ctx, req.Path)
		if err != nil {
			return nil, err
		}
		sort.Strings(ks)
		return logical.ListResponse(ks), nil
	}
	return nil, logical.ErrUnsupportedOperation
}

// ---------------------------------------------------------------- system

type sys struct {
	t    *testing.T
	core *vault.Core
	root string
	ns   map[string]*namespace.Namespace // by path ("" = root)
}

func (s *sys) req(nsPath, token string, op logical.Operation, path string, data map[string]interface{}) (*logical.Response, error) {
	r := &logical.Request{Operation: op, Path: path, ClientToken: token, Data: data,
		Connection: &logical.Connection{RemoteAddr: "127.0.0.1"}}
	ctx := namespace.ContextWithNamespace(context.Background(), s.ns[nsPath])
	return s.core.HandleRequest(ctx, r)
}

func errText(resp *logical.Response, err error) string {
	if err != nil {
		return err.Error()
	}
	if resp != nil && resp.IsError() {
		return resp.Error().Error()
	}
	return ""
}

func (s *sys) must(resp *logical.Response, err error) *logical.Response {
	s.t.Helper()
	if e := errText(resp, err); e != "" {
		s.t.Fatalf("harness setup request failed: %s", e)
	}
	return resp
}

func build(t *testing.T) *sys {
	inm, err := inmem.NewInmem(map[string]string{}, log.NewNullLogger())
	if err != nil {
		t.Fatal(err)
	}
	c := vault.TestCoreWithSealAndUINoCleanup(t, &vault.CoreConfig{
		Physical:        inm,
		LogicalBackends: map[string]logical.Factory{"rec": recFactory},
		Logger:          log.NewNullLogger(),
		RollbackPeriod:  24 * time.Hour,
	})
	keys, root := vault.TestCoreInit(t, c)
	for _, k := range keys {
		if _, err := vault.TestCoreUnseal(c, vault.TestKeyCopy(k)); err != nil {
			t.Fatalf("unseal: %v", err)
		}
	}
	if c.Sealed() {
		t.Fatal("core still sealed")
	}
	s := &sys{t: t, core: c, root: root, ns: map[string]*namespace.Namespace{"": namespace.RootNamespace}}
	s.must(s.req("", root, logical.UpdateOperation, "sys/namespaces/ns1", nil))
	all, err := c.ListNamespaces(namespace.RootContext(context.Background()))
	if err != nil {
		t.Fatal(err)
	}
	for _, n := range all {
		s.ns[n.Path] = n
	}
	if s.ns["ns1/"] == nil {
		t.Fatalf("harness: namespace ns1/ not found after creation")
	}
	s.must(s.req("ns1/", root, logical.UpdateOperation, "sys/namespaces/sub", nil))
	all, err = c.ListNamespaces(namespace.RootContext(context.Background()))
	if err != nil {
		t.Fatal(err)
	}
	for _, n := range all {
		s.ns[n.Path] = n
	}
	if s.ns["ns1/sub/"] == nil {
		t.Fatalf("harness: namespace ns1/sub/ not found after creation")
	}
	for _, p := range []string{"", "ns1/", "ns1/sub/"} {
		s.must(s.req(p, root, logical.UpdateOperation, "sys/mounts/m", map[string]interface{}{"type": "rec"}))
		s.must(s.req(p, root, logical.UpdateOperation, "m/kv/z", map[string]interface{}{"value": "1"}))
		s.must(s.req(p, root, logical.UpdateOperation, "m/kv/d/e", map[string]interface{}{"value": "1"}))
		s.restore(p)
	}
	return s
}

// restore puts the probe keys of namespace p back into their initial state.
func (s *sys) restore(p string) {
	s.must(s.req(p, s.root, logical.UpdateOperation, "m/kv/x", map[string]interface{}{"value": "1"}))
	s.must(s.req(p, s.root, logical.UpdateOperation, "m/rootonly/x", map[string]interface{}{"value": "1"}))
	s.must(s.req(p, s.root, logical.DeleteOperation, "m/kv/y", nil))
}

// ---------------------------------------------------------------- worlds

var caps4 = []uint16{
	ref.Read | ref.List,
	ref.Update | ref.Create | ref.Delete | ref.Sudo,
	ref.Deny,
	ref.Read | ref.Update | ref.Patch | ref.Scan | ref.Sudo,
	ref.List | ref.Scan | ref.Delete,
	ref.Create | ref.Patch,
}

var rootPatterns = []string{
	"m/kv/x", "m/kv/*", "m/+/x", "m/kv", "m/*",
	"ns1/m/kv/x", "ns1/m/kv/*", "ns1/+/kv/+", "+/m/kv/x", "ns1/m/kv",
	"ns1/sub/m/kv/x", "ns1/sub/*", "+/+/m/kv/x",
	"m/rootonly/*", "ns1/m/rootonly/x", "*",
}

var ns1Patterns = []string{
	"m/kv/x", "m/kv/*", "m/kv", "sub/m/kv/x", "sub/*", "+/m/kv/x", "m/rootonly/*", "sub/m/rootonly/+", "*",
}

var probePaths = []string{"m/kv/x", "m/kv/y", "m/kv/", "m/rootonly/x"}

// the token may ask about itself where this policy lets it
var selfStanzas = []ref.Stanza{
	{Pat: "sys/capabilities-self", Caps: ref.Update},
	{Pat: "+/sys/capabilities-self", Caps: ref.Update},
	{Pat: "ns1/sub/sys/capabilities-self", Caps: ref.Update},
}

type view struct {
	ctxNS  string // namespace of the request context
	prefix string // path prefix (addresses a child namespace from the parent)
}

func (v view) abs(p string) string { return v.ctxNS + v.prefix + p }

type world struct {
	TokenNS  string       `json:"token_ns"`
	Policies []ref.Pol    `json:"policies"` // in name order = attachment order
	Names    []string     `json:"names"`
	View     *view        `json:"-"`
	ViewNS   string       `json:"view_ns,omitempty"`
	ViewPfx  string       `json:"view_prefix,omitempty"`
	Path     string       `json:"path,omitempty"`
	Stanzas  []ref.Stanza `json:"-"`
}

type driver struct {
	s   *sys
	res *vout.Result
	seq int
}

func sortedCaps(c uint16) []string {
	if c == 0 || c&ref.Deny != 0 {
		return []string{"deny"}
	}
	l := ref.CapList(c)
	sort.Strings(l)
	return l
}

func toStrings(v interface{}) []string {
	switch t := v.(type) {
	case []string:
		out := append([]string{}, t...)
		sort.Strings(out)
		return out
	case []interface{}:
		var out []string
		for _, x := range t {
			out = append(out, fmt.Sprint(x))
		}
		sort.Strings(out)
		return out
	}
	return nil
}

func denied(resp *logical.Response, err error) bool {
	return strings.Contains(errText(resp, err), "permission denied")
}

// run one world: create the policies and the token, probe every view x path.
func (d *driver) run(tokenNS string, stanzas []ref.Stanza, onlyView *view, onlyPath string) {
	s, res := d.s, d.res
	d.seq++
	// policies are attached in name order; names are chosen so that the given
	// slice order is the attachment order
	var names []string
	var pols []ref.Pol
	for i, st := range stanzas {
		name := fmt.Sprintf("c03-%d-%c", d.seq, 'a'+i)
		p := ref.Pol{NS: tokenNS, Rules: []ref.Stanza{st}}
		s.must(s.req(tokenNS, s.root, logical.UpdateOperation, "sys/policies/acl/"+name, map[string]interface{}{"policy": p.HCL(name)}))
		names = append(names, name)
		pols = append(pols, p)
	}
	var selfPol ref.Pol
	selfName := fmt.Sprintf("c03-%d-self", d.seq)
	if tokenNS == "" {
		selfPol = ref.Pol{NS: "", Rules: selfStanzas}
	} else {
		selfPol = ref.Pol{NS: tokenNS, Rules: []ref.Stanza{{Pat: "sys/capabilities-self", Caps: ref.Update}, {Pat: "+/sys/capabilities-self", Caps: ref.Update}}}
	}
	s.must(s.req(tokenNS, s.root, logical.UpdateOperation, "sys/policies/acl/"+selfName, map[string]interface{}{"policy": selfPol.HCL(selfName)}))
	resp := s.must(s.req(tokenNS, s.root, logical.UpdateOperation, "auth/token/create",
		map[string]interface{}{"policies": append(append([]string{}, names...), selfName), "no_default_policy": true, "ttl": "1h"}))
	if resp == nil || resp.Auth == nil {
		s.t.Fatalf("harness: token create returned no auth")
	}
	token := resp.Auth.ClientToken
	model := ref.Build(append(append([]ref.Pol{}, pols...), selfPol))

	var views []view
	if tokenNS == "" {
		views = []view{{"", ""}, {"ns1/", ""}, {"ns1/sub/", ""}, {"", "ns1/"}, {"", "ns1/sub/"}, {"ns1/", "sub/"}}
	} else {
		views = []view{{"ns1/", ""}, {"ns1/sub/", ""}, {"ns1/", "sub/"}}
	}
	if onlyView != nil {
		views = []view{*onlyView}
	}
	paths := probePaths
	if onlyPath != "" {
		paths = []string{onlyPath}
	}
	desc := func() string {
		var b strings.Builder
		fmt.Fprintf(&b, "token of namespace %q with policies (attachment order):\n", tokenNS)
		for i, p := range pols {
			b.WriteString(p.HCL(names[i]))
		}
		return b.String()
	}
	for _, v := range views {
		targetNS := v.ctxNS + v.prefix
		for _, p := range paths {
			reqPath := v.prefix + p
			abs := v.abs(p)
			rp := world{TokenNS: tokenNS, Policies: pols, Names: names, ViewNS: v.ctxNS, ViewPfx: v.prefix, Path: p}
			bad := func(sig, msg string) {
				res.Violate("c03:core:"+sig, fmt.Sprintf("request namespace %q, path %q (absolute %q): %s\n%s", v.ctxNS, reqPath, abs, msg, desc()), rp)
			}
			eL, howL, _, _ := model.Decide(abs, true)
			eN, howN, _, _ := model.Decide(abs, false)
			var wantRep []string
			if eL == nil {
				wantRep = []string{"deny"}
			} else {
				wantRep = sortedCaps(eL.Caps)
			}

			// ---- reported, three ways
			ctx := namespace.ContextWithNamespace(context.Background(), s.ns[v.ctxNS])
			direct, err := s.core.Capabilities(ctx, token, reqPath)
			res.Add("evaluations", 1)
			if err != nil {
				bad("capabilities-error", "Core.Capabilities failed: "+err.Error())
				continue
			}
			sort.Strings(direct)
			if fmt.Sprint(direct) != fmt.Sprint(wantRep) {
				bad("reported-capabilities-differ:direct", fmt.Sprintf("Core.Capabilities = %v, reference says %v (deciding: %s)", direct, wantRep, howL))
			}
			r2, err2 := s.req(v.ctxNS, s.root, logical.UpdateOperation, "sys/capabilities", map[string]interface{}{"token": token, "paths": []string{reqPath}})
			res.Add("evaluations", 1)
			if e := errText(r2, err2); e != "" {
				bad("capabilities-error", "sys/capabilities failed: "+e)
			} else if got := toStrings(r2.Data[reqPath]); fmt.Sprint(got) != fmt.Sprint(wantRep) {
				bad("reported-capabilities-differ:sys-capabilities", fmt.Sprintf("sys/capabilities = %v, reference says %v", got, wantRep))
			}
			selfAbs := v.ctxNS + "sys/capabilities-self"
			eSelf, _, _, _ := model.Decide(selfAbs, false)
			selfOK, _, _, _ := eSelf.Permits(ref.OpsNamed("update")[0], map[string]interface{}{"paths": "x"}, -1)
			r3, err3 := s.req(v.ctxNS, token, logical.UpdateOperation, "sys/capabilities-self", map[string]interface{}{"paths": []string{reqPath}})
			res.Add("evaluations", 1)
			switch {
			case denied(r3, err3):
				if selfOK {
					bad("denied-but-reference-allows:capabilities-self", "sys/capabilities-self was refused although the reference permits update on "+selfAbs)
				}
				res.Distinct("self", "refused")
			case errText(r3, err3) != "":
				bad("capabilities-error", "sys/capabilities-self failed: "+errText(r3, err3))
			default:
				if !selfOK {
					bad("allowed-but-reference-denies:capabilities-self", "sys/capabilities-self was served although the reference denies update on "+selfAbs)
				}
				if got := toStrings(r3.Data[reqPath]); fmt.Sprint(got) != fmt.Sprint(wantRep) {
					bad("reported-capabilities-differ:capabilities-self", fmt.Sprintf("sys/capabilities-self = %v, reference says %v", got, wantRep))
				}
				res.Distinct("self", "served")
			}
			repBits := ref.NamesToRef(direct)

			// ---- enforced
			rootProtected := strings.HasPrefix(p, "m/rootonly/")
			type probe struct {
				op   logical.Operation
				need string
			}
			var probes []probe
			switch {
			case strings.HasSuffix(p, "/"):
				probes = []probe{{logical.ListOperation, "list"}, {logical.ScanOperation, "scan"}}
			case p == "m/kv/y": // absent key: a write is a create
				probes = []probe{{logical.ReadOperation, "read"}, {logical.UpdateOperation, "create"}, {logical.DeleteOperation, "delete"}, {logical.PatchOperation, "patch"}}
			default:
				probes = []probe{{logical.ReadOperation, "read"}, {logical.UpdateOperation, "update"}, {logical.PatchOperation, "patch"}, {logical.DeleteOperation, "delete"}}
			}
			for _, pr := range probes {
				var data map[string]interface{}
				if pr.op == logical.UpdateOperation || pr.op == logical.PatchOperation {
					data = map[string]interface{}{"value": "2"}
				}
				resp, err := s.req(v.ctxNS, token, pr.op, reqPath, data)
				res.Add("evaluations", 1)
				permitted := !denied(resp, err)
				if pr.op != logical.ReadOperation && pr.op != logical.ListOperation && pr.op != logical.ScanOperation {
					s.restore(targetNS)
				}
				oi := ref.OpsNamed(pr.need)[0]
				e, how := eN, howN
				if oi.ListLike {
					e, how = eL, howL
				}
				want, why, _, _ := e.Permits(oi, data, -1)
				if want && rootProtected && (e.Caps&ref.Sudo == 0) {
					want, why = false, "sudo-missing"
				}
				if permitted != want {
					sig := "allowed-but-reference-denies:" + why
					if want {
						sig = "denied-but-reference-allows:" + why
					}
					bad(sig, fmt.Sprintf("%s (needs %q) permitted=%v (%s), reference says %v (%s, deciding: %s)", pr.op, pr.need, permitted, errText(resp, err), want, why, how))
				}
				// list filtering: with a list_scan_response_keys_filter_path on the
				// deciding rule a key is kept iff the token may read it (entry) or
				// list it (folder), by the same semantics
				if permitted && want && oi.ListLike && errText(resp, err) == "" {
					all := []string{"d/", "x", "z"}
					wantKeys := all
					filtered := len(e.Filters) == 1
					if filtered {
						wantKeys = []string{}
						for _, key := range all {
							kop := "read"
							if strings.HasSuffix(key, "/") {
								kop = "list"
							}
							// the path the key is judged on: the template of the deciding stanza
							kpath := abs + key
							if strings.HasPrefix(e.Filters[0], c03RootFilterPrefix) {
								kpath = strings.TrimSuffix(abs, p) + "m/rootonly/" + key
							}
							ke, _, _, _ := model.Decide(kpath, kop == "list")
							ok, _, _, _ := ke.Permits(ref.OpsNamed(kop)[0], map[string]interface{}{}, -1)
							// a path the mount declares root-protected additionally needs sudo, for the
							// per-key check exactly as for a request on that path
							if ok && strings.Contains(kpath, "m/rootonly/") && ke.Caps&ref.Sudo == 0 {
								ok = false
							}
							if ok {
								wantKeys = append(wantKeys, key)
							}
						}
					}
					var gotKeys []string
					if resp != nil {
						gotKeys = toStrings(resp.Data["keys"])
					}
					if gotKeys == nil {
						gotKeys = []string{}
					}
					res.Add("evaluations", 1)
					if fmt.Sprint(gotKeys) != fmt.Sprint(wantKeys) {
						bad("list-filter-differs", fmt.Sprintf("%s returned keys %v, reference says %v (filter active: %v; a key is visible iff read (entry) / list (folder) is permitted on it)", pr.op, gotKeys, wantKeys, filtered))
					}
					if filtered {
						res.Distinct("filtered_listing", fmt.Sprint(wantKeys))
						res.Add("filtered_listings", 1)
					}
				}
				// reference-free: reported <=> permitted
				has := repBits&oi.Need != 0 && repBits&ref.Deny == 0
				if rootProtected {
					has = has && repBits&ref.Sudo != 0
				}
				if permitted && !has {
					bad("permitted-but-not-reported", fmt.Sprintf("%s is permitted but the reported capabilities are %v", pr.op, direct))
				}
				if !permitted && has {
					bad("reported-but-not-permitted", fmt.Sprintf("%s is refused (%s) but the reported capabilities are %v", pr.op, errText(resp, err), direct))
				}
				if permitted {
					res.Add("allowed", 1)
				} else {
					res.Add("denied", 1)
				}
				res.Distinct("nontrivial", fmt.Sprintf("core|t=%s|x=%s|pfx=%s|%s|%s|%v", tokenNS, v.ctxNS, v.prefix, how, why, rootProtected))
			}
		}
	}
	// tidy: revoke the token (policies stay; they are tiny)
	_, _ = s.req(tokenNS, s.root, logical.UpdateOperation, "auth/token/revoke", map[string]interface{}{"token": token})
}

func TestVerifC03Core(t *testing.T) {
	res := vout.New("C03", "core")
	defer func() {
		if err := res.Write(); err != nil {
			t.Fatal(err)
		}
	}()
	s := build(t)
	defer func() { _ = s.core.Shutdown() }()
	d := &driver{s: s, res: res}

	if vout.ReplayPath() != "" {
		var w world
		if _, err := vout.LoadReplay(&w); err != nil {
			t.Fatal(err)
		}
		var st []ref.Stanza
		for _, p := range w.Policies {
			st = append(st, p.Rules...)
		}
		d.run(w.TokenNS, st, &view{w.ViewNS, w.ViewPfx}, w.Path)
		return
	}

	deadline := time.Now().Add(time.Duration(vout.DeadlineS()) * time.Second)
	k := 0
	worlds := 0
	next := func() bool {
		k++
		if !vout.Mine(k) {
			return false
		}
		if time.Now().After(deadline) {
			res.NotExhaustive("time budget reached")
			return false
		}
		worlds++
		return true
	}
	capVariants := 1
	if vout.Thorough() {
		capVariants = 3
	}
	only := os.Getenv("VERIF_PART")
	for _, tn := range []struct {
		ns   string
		pats []string
	}{{"", rootPatterns}, {"ns1/", ns1Patterns}} {
		if only != "" && only != "root" && tn.ns == "" || only == "root" && tn.ns != "" {
			continue
		}
		for i := range tn.pats {
			for cv := 0; cv < len(caps4); cv++ {
				if next() {
					d.run(tn.ns, []ref.Stanza{{Pat: tn.pats[i], Caps: caps4[cv]}}, nil, "")
				}
			}
			for j := i + 1; j < len(tn.pats); j++ {
				for cv := 0; cv < capVariants; cv++ {
					ca := caps4[(i+j+cv)%len(caps4)]
					cb := caps4[(i*3+j*5+1+cv*2)%len(caps4)]
					if ca == cb {
						cb = caps4[(i*3+j*5+2+cv*2)%len(caps4)]
					}
					a := ref.Stanza{Pat: tn.pats[i], Caps: ca}
					b := ref.Stanza{Pat: tn.pats[j], Caps: cb}
					if next() {
						d.run(tn.ns, []ref.Stanza{a, b}, nil, "")
					}
					if next() {
						d.run(tn.ns, []ref.Stanza{b, a}, nil, "")
					}
				}
			}
			// the same pattern in two policies (merge), both orders
			for cv := 0; cv < len(caps4); cv++ {
				a := ref.Stanza{Pat: tn.pats[i], Caps: caps4[cv]}
				b := ref.Stanza{Pat: tn.pats[i], Caps: caps4[(cv+1)%len(caps4)]}
				if next() {
					d.run(tn.ns, []ref.Stanza{a, b}, nil, "")
				}
				if next() {
					d.run(tn.ns, []ref.Stanza{b, a}, nil, "")
				}
			}
		}
	}
	// list filtering worlds: one stanza with a filter path that decides the
	// listing, one companion stanza that decides what is visible
	const filterTmpl = "{{ .path }}{{ .key }}"
	for _, tn := range []struct {
		ns    string
		fpats []string
		pats  []string
	}{
		{"", []string{"m/kv/*", "m/kv/", "ns1/m/kv/*", "+/m/kv/*", "*"}, rootPatterns},
		{"ns1/", []string{"m/kv/*", "m/kv", "sub/m/kv/*", "*"}, ns1Patterns},
	} {
		if only != "" && only != "root" && tn.ns == "" || only == "root" && tn.ns != "" {
			continue
		}
		nv := 2
		if vout.Thorough() {
			nv = len(caps4)
		}
		for fi, fp := range tn.fpats {
			for _, fc := range []uint16{ref.List | ref.Scan, ref.List | ref.Scan | ref.Read} {
				f := ref.Stanza{Pat: fp, Caps: fc, Filter: filterTmpl}
				for i, cp := range tn.pats {
					for cv := 0; cv < nv; cv++ {
						c := ref.Stanza{Pat: cp, Caps: caps4[(fi+i+cv*3)%len(caps4)]}
						if next() {
							d.run(tn.ns, []ref.Stanza{f, c}, nil, "")
						}
					}
				}
			}
		}
	}
	// list filtering onto ROOT-PROTECTED paths: the listing of m/kv/ is filtered by what the
	// token may do on m/rootonly/<key> (a path family the mount declares root-protected):
	// a key is visible iff read / list is granted there WITH sudo
	if only == "" || only == "root" {
		for _, fc := range []uint16{ref.List | ref.Scan, ref.List | ref.Scan | ref.Sudo} {
			f := ref.Stanza{Pat: "m/kv/*", Caps: fc, Filter: c03RootFilterPrefix + "{{ .key }}"}
			for _, cp := range []string{"m/rootonly/*", "m/rootonly/x", "m/rootonly/+", "m/*"} {
				for _, cc := range []uint16{ref.Read, ref.Read | ref.Sudo, ref.Read | ref.List | ref.Sudo, ref.Sudo, ref.Deny} {
					if next() {
						d.run("", []ref.Stanza{f, {Pat: cp, Caps: cc}}, &view{"", ""}, "")
					}
				}
			}
		}
	}
	// ---- path expiration (documented: "Path expiration"): a stanza with an expiration
	// time stops granting at that time while the other stanzas of the policy stay in
	// force - also when the parsed policy has been sitting in the policy cache since
	// before that time. Real time has to pass; the oracle is monotone (only requests
	// issued AFTER the expiration plus a margin are judged, and only for refusal), so a
	// slow machine cannot produce an alarm. One shard does it.
	if i, _ := vout.Shard(); i == 0 && (only == "" || only == "expiry") {
		for _, tokNS := range []string{"", "ns1/"} {
			exp := time.Now().Add(3 * time.Second)
			hcl := fmt.Sprintf(`path "m/kv/z" {
  capabilities = ["read", "update"]
  expiration   = %q
}
path "m/kv/d/*" { capabilities = ["read"] }`, exp.UTC().Format(time.RFC3339Nano))
			s.must(s.req(tokNS, s.root, logical.UpdateOperation, "sys/policies/acl/expiring", map[string]interface{}{"policy": hcl}))
			tr := s.must(s.req(tokNS, s.root, logical.UpdateOperation, "auth/token/create", map[string]interface{}{"policies": []string{"expiring"}, "no_default_policy": true, "ttl": "1h"}))
			tok := tr.Auth.ClientToken
			// use it once so that the parsed policy is cached (not judged: it may already be late)
			_, _ = s.req(tokNS, tok, logical.ReadOperation, "m/kv/z", nil)
			_, _ = s.req(tokNS, tok, logical.ReadOperation, "m/kv/d/e", nil)
			if d := time.Until(exp.Add(1200 * time.Millisecond)); d > 0 {
				time.Sleep(d)
			}
			res.Add("evaluations", 3)
			for _, op := range []logical.Operation{logical.ReadOperation, logical.UpdateOperation} {
				r, e := s.req(tokNS, tok, op, "m/kv/z", map[string]interface{}{"value": "1"})
				if !denied(r, e) {
					res.Violate("c03:core:expired-path-stanza-still-grants", fmt.Sprintf("token of %q: %s on m/kv/z allowed %v after the stanza's expiration time (policy cached since before it)", tokNS, op, time.Since(exp).Round(time.Millisecond)), nil)
				}
			}
			if r, e := s.req(tokNS, tok, logical.ReadOperation, "m/kv/d/e", nil); denied(r, e) {
				res.Violate("c03:core:unexpired-stanza-stopped-granting", fmt.Sprintf("token of %q: read on m/kv/d/e refused although its stanza has no expiration: %s", tokNS, errText(r, e)), nil)
			}
			cr, ce := s.req(tokNS, tok, logical.UpdateOperation, "sys/capabilities-self", map[string]interface{}{"path": "m/kv/z"})
			if ce == nil && cr != nil {
				caps := toStrings(cr.Data["capabilities"])
				for _, c := range caps {
					if c == "read" || c == "update" {
						res.Violate("c03:core:expired-path-stanza-still-reported", fmt.Sprintf("token of %q: capabilities-self reports %v for m/kv/z after the stanza expired", tokNS, caps), nil)
					}
				}
			}
			res.Distinct("nontrivial", "expiry|"+tokNS)
			s.restore(tokNS)
		}
	}
	res.Add("worlds", int64(worlds))
	res.Bound("K_core", fmt.Sprintf("%d work items: tokens of {root, ns1/} x (single | pair (both orders, %d capability assignments) | same pattern twice) over %d / %d patterns; request views root, ns1/, ns1/sub/ by context and by path prefix; %d probe paths; 3 ways of asking for capabilities + 2..4 enforced operations each",
		k, capVariants, len(rootPatterns), len(ns1Patterns), len(probePaths)))
	if i, _ := vout.Shard(); i == 0 {
		res.Sample(map[string]interface{}{"example": `root token policy path "ns1/m/kv/x" {read,list} + path "m/kv/x" {update,...}: asked in ns1/ for m/kv/x -> [list read]; asked in root for m/kv/x -> the other one`})
	}
}
