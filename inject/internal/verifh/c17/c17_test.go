package c17

// C17: transit encryption round-trips, binds its inputs and honours version limits.
//
// The real transit backend (all request paths of the anchor files) is driven over a
// logical storage.  State space: BFS over histories of key-management operations
//
//	rotate | config min_decryption_version | config min_encryption_version |
//	config both | trim | backup | restore(force) | restore(no force) |
//	config deletion_allowed | delete+create
//
// from several initial histories, deduplicated by a canonical key (see canon()).
// Data operations do not change the key state, so instead of being BFS letters they are
// executed in EVERY state for the whole input lattice (that is a superset of all
// histories that interleave them with the management operations):
//
//	generation: encrypt / sign / hmac for every key_version in 0..latest+1, every
//	            context, associated data, plaintext / message, parameter set;
//	battery:    every ciphertext / signature / HMAC produced so far on the path is
//	            decrypted / verified with the matching inputs, another context, other
//	            associated data, every other version prefix, other message, other
//	            parameters, and under mutations of body and version prefix; every
//	            ciphertext is rewrapped.
//
// Reference model (written from the property statement, not from the code): a key is
// a map version -> key identity (a fresh identity per rotation / creation), a window
// (latest, min_decryption, min_encryption, min_available) and an optional backup
// snapshot; a record is (version, key identity, context, aad, plaintext).
//
//	decrypt(record, same inputs) = plaintext  iff identity(version) is still the
//	    record's identity and min_decryption <= version <= latest;  otherwise error.
//	decrypt(anything else)       = error  (never a plaintext)
//	encrypt uses exactly the requested version (latest for 0), never one below
//	    min_encryption;  convergent keys: equal (identity, version, context, aad,
//	    plaintext) => equal ciphertext.
//	verify(signature | hmac)     = valid iff message, version, parameters match and
//	    the version is inside the window.
//
// Readings chosen where the statement is silent (the current code is consistent with them):
//   - which configuration requests are accepted is not specified: the harness only demands
//     "rejected => nothing changed", "accepted => exactly the requested value is in
//     effect" and the documented window invariants; behaviour is always judged against
//     the window the API reports.
//   - a derivation context only exists for derived keys; for a non-derived key a supplied
//     context is not a bound input (result must be the same as without it, or an error).
//   - "vault:v0:" is the documented legacy spelling of version 1 for ciphertexts; a
//     string that denotes the same (version, bytes) is not a different ciphertext.
//   - min_encryption_version is documented to cover sign and HMAC generation too.
//   - explicit key_version below min_decryption (but allowed by min_encryption): either
//     outcome is accepted.

import (
	"bytes"
	"context"
	"errors"
	"crypto/sha256"
	"encoding/base64"
	"encoding/hex"
	"encoding/json"
	"fmt"
	"os"
	"regexp"
	"sort"
	"strconv"
	"strings"
	"testing"
	"time"

	log "github.com/hashicorp/go-hclog"
	"github.com/openbao/openbao/sdk/v2/helper/verif/vout"
	"github.com/openbao/openbao/sdk/v2/logical"
	"github.com/openbao/openbao/sdk/v2/physical/inmem"
	"github.com/openbao/openbao/v2/internal/builtin/logical/transit"
)

var bg = context.Background()

func b64(s string) string { return base64.StdEncoding.EncodeToString([]byte(s)) }

// ---- configurations ---------------------------------------------------------

type kcfg struct {
	ID      string `json:"id"`
	Type    string `json:"type"`
	Derived bool   `json:"derived"`
	Conv    bool   `json:"conv"`
	NoCache bool   `json:"nocache"`
	Plain   bool   `json:"plain"` // plain (non transactional) InmemStorage
	Faults  bool   `json:"faults"` // rotations during which one storage write fails are part of the alphabet
	DQ      int    `json:"dq"`    // BFS depth quick
	DT      int    `json:"dt"`    // BFS depth thorough
}

func (c kcfg) sym() bool {
	switch c.Type {
	case "aes128-gcm96", "aes256-gcm96", "chacha20-poly1305", "xchacha20-poly1305":
		return true
	}
	return false
}
func (c kcfg) rsa() bool  { return strings.HasPrefix(c.Type, "rsa-") }
func (c kcfg) enc() bool  { return c.sym() || c.rsa() }
func (c kcfg) sign() bool { return c.rsa() || strings.HasPrefix(c.Type, "ecdsa-") || c.Type == "ed25519" }
func (c kcfg) ctxs() []int {
	if c.Derived {
		return []int{1, 2}
	}
	return []int{0}
}
func (c kcfg) aads() []int {
	if c.sym() {
		return []int{0, 1}
	}
	return []int{0}
}

type sigPar struct{ Hash, Marsh, Alg string }

func (c kcfg) params() []sigPar {
	switch {
	case strings.HasPrefix(c.Type, "ecdsa-"):
		return []sigPar{{"sha2-256", "asn1", ""}, {"sha2-384", "jws", ""}}
	case c.rsa():
		return []sigPar{{"sha2-256", "asn1", "pss"}, {"sha2-512", "asn1", "pkcs1v15"}}
	}
	return []sigPar{{"sha2-256", "asn1", ""}}
}

// altParams: parameter sets that differ from p in exactly one bound parameter.
func (c kcfg) altParams(p sigPar) []sigPar {
	var out []sigPar
	other := func(v, a, b string) string {
		if v == a {
			return b
		}
		return a
	}
	switch {
	case strings.HasPrefix(c.Type, "ecdsa-"):
		out = append(out, sigPar{other(p.Hash, "sha2-256", "sha2-384"), p.Marsh, ""})
		out = append(out, sigPar{p.Hash, other(p.Marsh, "asn1", "jws"), ""})
	case c.rsa():
		out = append(out, sigPar{other(p.Hash, "sha2-256", "sha2-512"), p.Marsh, p.Alg})
		out = append(out, sigPar{p.Hash, p.Marsh, other(p.Alg, "pss", "pkcs1v15")})
	}
	return out
}

var ctxVals = []string{"", b64("ctx-A-0123456789"), b64("ctx-B")}
var aadVals = []string{"", b64("aad-one"), b64("aad-two")}
var ptVals = []string{b64(""), b64("x"), b64("0123456789abcdef0123456789abcdefXYZ")}
var msgVals = []string{b64("message one"), b64("message-two, a little longer than the first")}
var hmacAlgs = []string{"sha2-256", "sha2-512"}

func configs() []kcfg {
	var out []kcfg
	// primaries: deep BFS
	out = append(out,
		kcfg{ID: "aes256/conv", Type: "aes256-gcm96", Derived: true, Conv: true, DQ: 3, DT: 5},
		kcfg{ID: "aes256/plain/nocache", Type: "aes256-gcm96", NoCache: true, Plain: true, DQ: 3, DT: 4},
		kcfg{ID: "chacha/derived", Type: "chacha20-poly1305", Derived: true, DQ: 3, DT: 4},
		kcfg{ID: "ed25519/derived", Type: "ed25519", Derived: true, DQ: 3, DT: 4},
		kcfg{ID: "hmac", Type: "hmac", DQ: 3, DT: 4},
		// cached policy; a rotation may be interrupted by one failing storage write (rotate-fault),
		// on plain storage (the archive write stays) and on transactional storage (all rolled back)
		kcfg{ID: "aes256/plain-storage/faults", Type: "aes256-gcm96", Plain: true, Faults: true, DQ: 3, DT: 4},
		kcfg{ID: "aes256/txn-storage/faults", Type: "aes256-gcm96", Faults: true, DQ: 3, DT: 4},
	)
	for _, t := range []string{"aes128-gcm96", "aes256-gcm96", "chacha20-poly1305", "xchacha20-poly1305"} {
		short := strings.SplitN(t, "-", 2)[0]
		for mode := 0; mode < 3; mode++ {
			c := kcfg{ID: short + []string{"/plain", "/derived", "/conv"}[mode], Type: t, Derived: mode >= 1, Conv: mode == 2, DQ: 2, DT: 3}
			if c.ID == "aes256/conv" || c.ID == "chacha20/derived" {
				continue
			}
			out = append(out, c)
		}
	}
	out = append(out,
		kcfg{ID: "ecdsa-p256", Type: "ecdsa-p256", DQ: 3, DT: 4},
		kcfg{ID: "ed25519/plain/nocache", Type: "ed25519", NoCache: true, DQ: 3, DT: 4},
		kcfg{ID: "xchacha20/derived/nocache", Type: "xchacha20-poly1305", Derived: true, NoCache: true, Plain: true, DQ: 3, DT: 4},
		kcfg{ID: "rsa-2048", Type: "rsa-2048", DQ: 1, DT: 2},
	)
	return out
}

// ---- operations -------------------------------------------------------------

type op struct {
	K string `json:"k"`
	N int    `json:"n,omitempty"`
}

func (o op) String() string {
	switch o.K {
	case "dec", "enc", "win", "trim", "rotate-fault":
		return o.K + "=" + strconv.Itoa(o.N)
	}
	return o.K
}

func alphabet() []op {
	a := []op{{"rotate", 0}, {"dec", 1}, {"dec", 2}, {"enc", 0}, {"enc", 2}, {"win", 3}, {"trim", 2}, {"trim", 3},
		{"backup", 0}, {"restore", 0}, {"allowdel", 0}, {"recreate", 0}}
	if vout.Thorough() {
		a = append(a, op{"dec", 3}, op{"enc", 3}, op{"win", 2}, op{"restore-noforce", 0})
	}
	return a
}

func seeds() [][]op {
	s := [][]op{nil, {{"rotate", 0}, {"rotate", 0}}, {{"rotate", 0}, {"rotate", 0}, {"win", 3}},
		// an archive that has ALREADY been trimmed once (its first entry is no longer version 0/1):
		// the starting point for a second trim and for moving keys back out of the archive
		{{"rotate", 0}, {"rotate", 0}, {"rotate", 0}, {"dec", 2}, {"trim", 2}, {"win", 3}},
		// a rotated key restored from a backup over a key that was deleted and created anew
		// (the archive in storage belongs to the new key, not to the restored one): the
		// starting point for moving versions into the archive and back out
		{{"rotate", 0}, {"backup", 0}, {"allowdel", 0}, {"recreate", 0}, {"restore", 0}}}
	if vout.Thorough() {
		s = append(s, []op{{"rotate", 0}, {"rotate", 0}, {"rotate", 0}, {"win", 3}, {"trim", 2}, {"backup", 0}})
	}
	return s
}

// ---- reference model --------------------------------------------------------

type window struct {
	Latest, MinDec, MinEnc, MinAvail int
	Del                              bool
}

type model struct {
	Exists bool
	W      window
	Keys   map[int]int // version -> key identity
	Backup *model
}

func (m *model) clone() *model {
	n := &model{Exists: m.Exists, W: m.W, Keys: map[int]int{}, Backup: m.Backup}
	for k, v := range m.Keys {
		n.Keys[k] = v
	}
	return n
}

type rec struct {
	Kind byte // 'e' ciphertext, 's' signature, 'h' hmac
	Ver  int
	ID   int
	Ctx  int
	AAD  int
	Msg  int // plaintext / message index
	Par  int // signature parameter set / hmac algorithm
	Out  string
	Born int
}

type observed struct {
	W       window
	MemKeys []int // versions the API lists
	PolKeys []int // versions in the stored policy
	ArcN    int   // number of non-empty archive entries
}

type world struct {
	c      kcfg
	b      logical.Backend
	st     logical.Storage
	m      *model
	mat    map[int]string // key identity -> hash of the key material as stored
	nextID int
	recs   []*rec
	conv   map[string]string
	backup string
	obs    observed
	state  int
	hist   []op
	res    *vout.Result
	report bool
	nviol  int
	stat   map[string]int64
	// rewrapped ciphertexts kept as new records (one per battery)
	keptRewrap bool
	panicked   bool
	pending    []*rec
	fctl       *faultCtl
	faults     int // rotations interrupted by a storage error so far (hidden state: part of the state key)
}

// ---- storage with one failing write ---------------------------------------------

type faultCtl struct {
	failAt, puts int
	hit          bool
}

type faultSt struct {
	logical.Storage
	ctl *faultCtl
}

func (f *faultSt) Put(ctx context.Context, e *logical.StorageEntry) error {
	f.ctl.puts++
	if f.ctl.failAt > 0 && f.ctl.puts == f.ctl.failAt {
		f.ctl.hit = true
		return errors.New("c17: injected storage error")
	}
	return f.Storage.Put(ctx, e)
}

type faultTxSt struct{ faultSt }

type faultTx struct {
	faultSt
	tx logical.Transaction
}

func (t *faultTx) Commit(ctx context.Context) error   { return t.tx.Commit(ctx) }
func (t *faultTx) Rollback(ctx context.Context) error { return t.tx.Rollback(ctx) }

func (f *faultTxSt) BeginTx(ctx context.Context) (logical.Transaction, error) {
	tx, err := f.Storage.(logical.TransactionalStorage).BeginTx(ctx)
	if err != nil {
		return nil, err
	}
	return &faultTx{faultSt{tx, f.ctl}, tx}, nil
}

func (f *faultTxSt) BeginReadOnlyTx(ctx context.Context) (logical.Transaction, error) {
	tx, err := f.Storage.(logical.TransactionalStorage).BeginReadOnlyTx(ctx)
	if err != nil {
		return nil, err
	}
	return &faultTx{faultSt{tx, f.ctl}, tx}, nil
}

type art struct {
	Cfg  kcfg `json:"cfg"`
	Hist []op `json:"hist"`
}

func (w *world) bad(sig, format string, a ...interface{}) {
	w.nviol++
	if !w.report {
		return
	}
	desc := fmt.Sprintf("key %s (type %s derived=%v convergent=%v cache=%v), history %v, state #%d [latest=%d min_dec=%d min_enc=%d min_avail=%d]: ",
		w.c.ID, w.c.Type, w.c.Derived, w.c.Conv, !w.c.NoCache, w.hist, w.state, w.m.W.Latest, w.m.W.MinDec, w.m.W.MinEnc, w.m.W.MinAvail) + fmt.Sprintf(format, a...)
	w.res.Violate("c17:"+sig, desc, art{w.c, w.hist})
}

func (w *world) count(k string) { w.stat[k]++ }

// do performs one request.  fail != "" means the request was refused (Go error or
// error response).
func (w *world) do(o logical.Operation, path string, data map[string]interface{}) (d map[string]interface{}, fail string) {
	w.stat["requests"]++
	req := &logical.Request{Operation: o, Path: path, Storage: w.st, Data: data}
	resp, err := w.b.HandleRequest(bg, req)
	if err != nil {
		return nil, "error: " + err.Error()
	}
	if resp == nil {
		return map[string]interface{}{}, ""
	}
	if resp.IsError() {
		return nil, "error response: " + resp.Error().Error()
	}
	if raw, ok := resp.Data[logical.HTTPRawBody]; ok {
		var body struct {
			Data map[string]interface{} `json:"data"`
		}
		s, _ := raw.(string)
		if err := json.Unmarshal([]byte(s), &body); err != nil {
			return nil, "error: undecodable raw body"
		}
		return body.Data, ""
	}
	return resp.Data, ""
}

func batchResults(d map[string]interface{}) []map[string]interface{} {
	raw, err := json.Marshal(d["batch_results"])
	if err != nil {
		return nil
	}
	var out []map[string]interface{}
	_ = json.Unmarshal(raw, &out)
	return out
}

func newWorld(c kcfg, res *vout.Result) (*world, error) {
	conf := logical.TestBackendConfig()
	conf.Logger = log.NewNullLogger()
	sv := logical.TestSystemView()
	sv.CachingDisabledVal = c.NoCache
	conf.System = sv
	var st logical.Storage
	if c.Plain {
		st = &logical.InmemStorage{}
	} else {
		phys, err := inmem.NewInmem(nil, log.NewNullLogger())
		if err != nil {
			return nil, err
		}
		st = logical.NewLogicalStorage(phys)
	}
	fctl := &faultCtl{}
	if c.Faults {
		if _, ok := st.(logical.TransactionalStorage); ok {
			st = &faultTxSt{faultSt{st, fctl}}
		} else {
			st = &faultSt{st, fctl}
		}
	}
	conf.StorageView = st
	b, err := transit.Factory(bg, conf)
	if err != nil {
		return nil, err
	}
	w := &world{c: c, b: b, st: st, mat: map[int]string{}, conv: map[string]string{}, res: res, stat: map[string]int64{}, fctl: fctl}
	w.m = &model{}
	if err := w.create(); err != nil {
		return nil, err
	}
	return w, nil
}

func (w *world) create() error {
	data := map[string]interface{}{"type": w.c.Type, "derived": w.c.Derived, "convergent_encryption": w.c.Conv,
		"exportable": true, "allow_plaintext_backup": true}
	if w.c.Type == "hmac" {
		data["key_size"] = 32
	}
	if _, fail := w.do(logical.UpdateOperation, "keys/k", data); fail != "" {
		return fmt.Errorf("create key: %s", fail)
	}
	w.nextID++
	bk := w.m.Backup
	w.m = &model{Exists: true, W: window{Latest: 1, MinDec: 1}, Keys: map[int]int{1: w.nextID}, Backup: bk}
	return nil
}

// ---- observation of the implementation state --------------------------------

func material(e map[string]json.RawMessage) string {
	var parts []string
	for _, f := range []string{"key", "ec_d"} {
		if v, ok := e[f]; ok && string(v) != "null" && string(v) != `""` {
			parts = append(parts, f+"="+string(v))
		}
	}
	if v, ok := e["rsa_key"]; ok && string(v) != "null" {
		var rk map[string]json.RawMessage
		if json.Unmarshal(v, &rk) == nil {
			parts = append(parts, "rsa_d="+string(rk["D"]))
		}
	}
	if len(parts) == 0 {
		return ""
	}
	h := sha256.Sum256([]byte(strings.Join(parts, "|")))
	return hex.EncodeToString(h[:8])
}

type polJ struct {
	Keys     map[string]map[string]json.RawMessage `json:"keys"`
	MinDec   int                                   `json:"min_decryption_version"`
	MinEnc   int                                   `json:"min_encryption_version"`
	Latest   int                                   `json:"latest_version"`
	MinAvail int                                   `json:"min_available_version"`
	Del      bool                                  `json:"deletion_allowed"`
}

type arcJ struct {
	Keys []map[string]json.RawMessage `json:"keys"`
}

func toInt(v interface{}) int {
	switch x := v.(type) {
	case int:
		return x
	case int64:
		return int(x)
	case float64:
		return int(x)
	case json.Number:
		n, _ := x.Int64()
		return int(n)
	}
	return -999
}

// observe reads the key through the API and from storage, checks the two views against each
// other and against the model's key identities, and returns false if the key cannot be read.
func (w *world) observe() {
	d, fail := w.do(logical.ReadOperation, "keys/k", nil)
	if fail != "" || d == nil || d["latest_version"] == nil {
		w.bad("read-key-failed", "reading the key failed: %s", fail)
		return
	}
	var o observed
	o.W = window{toInt(d["latest_version"]), toInt(d["min_decryption_version"]), toInt(d["min_encryption_version"]), toInt(d["min_available_version"]), d["deletion_allowed"] == true}
	raw, _ := json.Marshal(d["keys"])
	var km map[string]json.RawMessage
	_ = json.Unmarshal(raw, &km)
	for k := range km {
		n, _ := strconv.Atoi(k)
		o.MemKeys = append(o.MemKeys, n)
	}
	sort.Ints(o.MemKeys)

	var pol polJ
	if e, err := w.st.Get(bg, "policy/k"); err != nil || e == nil {
		w.bad("stored-policy-missing", "stored policy missing (%v)", err)
		w.obs = o
		return
	} else if err := json.Unmarshal(e.Value, &pol); err != nil {
		w.bad("stored-policy-undecodable", "%v", err)
	}
	var arc arcJ
	if e, err := w.st.Get(bg, "archive/k"); err == nil && e != nil {
		_ = json.Unmarshal(e.Value, &arc)
	}
	sw := window{pol.Latest, pol.MinDec, pol.MinEnc, pol.MinAvail, pol.Del}
	if sw != o.W {
		w.bad("api-vs-storage", "the API reports window %+v but storage holds %+v", o.W, sw)
	}
	polMat := map[int]string{}
	for k, e := range pol.Keys {
		n, _ := strconv.Atoi(k)
		o.PolKeys = append(o.PolKeys, n)
		polMat[n] = material(e)
	}
	sort.Ints(o.PolKeys)
	arcMat := map[string]bool{}
	for _, e := range arc.Keys {
		if m := material(e); m != "" {
			arcMat[m] = true
			o.ArcN++
		}
	}
	w.obs = o
	// window invariants (documented constraints of the configuration values)
	x := o.W
	if x.Latest < 1 || x.MinDec < 1 || x.MinDec > x.Latest || (x.MinEnc != 0 && (x.MinEnc < x.MinDec || x.MinEnc > x.Latest)) || x.MinEnc < 0 || x.MinAvail < 0 || x.MinAvail > x.MinDec {
		w.bad("window-invariant", "window %+v violates 1 <= min_available <= min_decryption <= min_encryption(or 0) <= latest", x)
	}
	// learn the material of identities not seen before (only the newest version can be new)
	if id, ok := w.m.Keys[x.Latest]; ok && w.mat[id] == "" {
		w.mat[id] = polMat[x.Latest]
		if w.mat[id] == "" {
			w.bad("new-version-without-material", "stored policy has no key material for the newest version %d", x.Latest)
		}
	}
	// archive / policy consistent with the window
	lo := x.MinAvail
	if lo < 1 {
		lo = 1
	}
	for v := 1; v <= x.Latest; v++ {
		id, ok := w.m.Keys[v]
		if !ok || w.mat[id] == "" {
			continue
		}
		switch {
		case v >= lo:
			if !arcMat[w.mat[id]] {
				w.bad("archive:version-missing", "key material of version %d (>= min_available %d) is not in the archive", v, x.MinAvail)
			}
			if v >= x.MinDec {
				if pm, ok := polMat[v]; !ok {
					w.bad("policy:version-missing", "version %d (inside the decryption window) is not in the stored policy; it holds %v", v, o.PolKeys)
				} else if pm != w.mat[id] {
					w.bad("policy:wrong-material", "version %d in the stored policy holds the key material of another version", v)
				}
			}
		default:
			if arcMat[w.mat[id]] {
				w.bad("trim:material-retained", "version %d was trimmed (min_available %d) but its key material is still in the archive", v, x.MinAvail)
			}
			for pv, pm := range polMat {
				if pm == w.mat[id] {
					w.bad("trim:material-retained", "version %d was trimmed (min_available %d) but its key material is still in the stored policy (as version %d)", v, x.MinAvail, pv)
				}
			}
		}
	}
}

// ---- management operations ----------------------------------------------------

// step applies one management operation to the implementation and the model.
func (w *world) step(o op) {
	w.hist = append(w.hist, o)
	w.state++
	before := w.m.W
	expectSame := func(what string) {
		if w.obs.W != before {
			w.bad("config:rejected-but-changed", "%s was refused but the window changed from %+v to %+v", what, before, w.obs.W)
		}
		w.m.W = w.obs.W
	}
	switch o.K {
	case "rotate":
		_, fail := w.do(logical.UpdateOperation, "keys/k/rotate", nil)
		if fail != "" {
			w.bad("rotate-failed", "rotate refused: %s", fail)
		}
		w.nextID++
		w.m.W.Latest++
		w.m.Keys[w.m.W.Latest] = w.nextID
		w.observe()
		if w.obs.W != w.m.W {
			w.bad("rotate:window", "after rotate the window is %+v, expected %+v", w.obs.W, w.m.W)
			w.m.W = w.obs.W
		}
	case "rotate-fault":
		// a rotation during which the N-th storage write fails once: a call that reports the
		// failure must leave the window (and, as every later step checks, every key version and
		// every ciphertext) as they were; a call that succeeds nevertheless is an ordinary rotation
		w.fctl.puts, w.fctl.failAt, w.fctl.hit = 0, o.N, false
		_, fail := w.do(logical.UpdateOperation, "keys/k/rotate", nil)
		w.fctl.failAt = 0
		if w.fctl.hit {
			w.faults++
			w.count("rotations_interrupted_by_a_storage_error")
		}
		w.observe()
		if fail != "" {
			expectSame("rotate with a failing storage write")
		} else {
			w.nextID++
			w.m.W.Latest++
			w.m.Keys[w.m.W.Latest] = w.nextID
			if w.obs.W != w.m.W {
				w.bad("rotate:window", "after rotate the window is %+v, expected %+v", w.obs.W, w.m.W)
				w.m.W = w.obs.W
			}
		}
	case "dec", "enc", "win", "allowdel":
		data := map[string]interface{}{}
		want := before
		switch o.K {
		case "dec":
			data["min_decryption_version"] = o.N
			want.MinDec = o.N
		case "enc":
			data["min_encryption_version"] = o.N
			want.MinEnc = o.N
		case "win":
			data["min_decryption_version"] = o.N
			data["min_encryption_version"] = o.N
			want.MinDec, want.MinEnc = o.N, o.N
		case "allowdel":
			data["deletion_allowed"] = true
			want.Del = true
		}
		_, fail := w.do(logical.UpdateOperation, "keys/k/config", data)
		w.observe()
		if fail != "" {
			w.count("config_rejected")
			expectSame("config " + o.String())
		} else {
			w.count("config_accepted")
			if w.obs.W != want {
				w.bad("config:accepted-but-different", "config %s was accepted; window is %+v, requested %+v", o, w.obs.W, want)
			}
			w.m.W = w.obs.W
		}
	case "trim":
		_, fail := w.do(logical.UpdateOperation, "keys/k/trim", map[string]interface{}{"min_available_version": o.N})
		w.observe()
		if fail != "" {
			w.count("trim_rejected")
			expectSame("trim")
		} else {
			w.count("trim_accepted")
			want := before
			want.MinAvail = o.N
			if w.obs.W != want {
				w.bad("trim:accepted-but-different", "trim %d accepted; window is %+v, expected %+v", o.N, w.obs.W, want)
			}
			if o.N < before.MinAvail {
				w.bad("trim:decremented", "min_available_version went down from %d to %d", before.MinAvail, o.N)
			}
			w.m.W = w.obs.W
		}
	case "backup":
		d, fail := w.do(logical.ReadOperation, "backup/k", nil)
		s, _ := d["backup"].(string)
		if fail != "" || s == "" {
			w.bad("backup-failed", "backup of an exportable key refused: %s", fail)
		} else {
			w.backup = s
			snap := w.m.clone()
			snap.Backup = nil
			w.m.Backup = snap
			w.count("backups")
		}
		w.observe()
		expectSame("backup (not refused)")
	case "restore", "restore-noforce":
		if w.backup == "" {
			// nothing to restore: must be refused, nothing changes
			_, fail := w.do(logical.UpdateOperation, "restore/k", map[string]interface{}{"backup": "", "force": true})
			if fail == "" {
				w.count("restore_empty_accepted")
			}
			w.observe()
			expectSame("restore of an empty backup")
			return
		}
		force := o.K == "restore"
		_, fail := w.do(logical.UpdateOperation, "restore/k", map[string]interface{}{"backup": w.backup, "force": force})
		if !force {
			w.observe()
			if fail == "" {
				w.bad("restore:overwrote-without-force", "restore without force over an existing key was accepted")
			}
			expectSame("restore without force")
			return
		}
		if fail != "" {
			w.observe()
			w.bad("restore-failed", "forced restore refused: %s", fail)
			expectSame("restore")
			return
		}
		w.count("restores")
		// the key is now the one the backup was taken from (identities included)
		bk := w.m.Backup
		w.m = bk.clone()
		w.m.Backup = bk
		w.observe()
		if w.obs.W != w.m.W {
			w.bad("restore:window", "after restore the window is %+v, the backup was taken at %+v", w.obs.W, w.m.W)
			w.m.W = w.obs.W
		}
	case "recreate":
		_, fail := w.do(logical.DeleteOperation, "keys/k", nil)
		if !before.Del {
			if fail == "" {
				w.bad("delete:not-allowed-but-done", "delete accepted although deletion_allowed=false")
			}
			w.observe()
			expectSame("delete")
			return
		}
		if fail != "" {
			w.bad("delete-failed", "delete refused although deletion_allowed=true: %s", fail)
			w.observe()
			return
		}
		w.count("deletes")
		w.m.Exists = false
		// while the key does not exist nothing may decrypt
		w.battery(false)
		if err := w.create(); err != nil {
			w.bad("recreate-failed", "%v", err)
			return
		}
		w.observe()
		if w.obs.W != w.m.W {
			w.bad("recreate:window", "a re-created key starts with window %+v", w.obs.W)
			w.m.W = w.obs.W
		}
	}
}

// ---- generation ---------------------------------------------------------------

var outRe = regexp.MustCompile(`^vault:v([0-9]+):(.+)$`)

// judgeVersion checks the version an encrypt/sign/hmac call used.
func (w *world) judgeVersion(kind string, kv int, fail string, out string, reported interface{}) (ver int, ok bool) {
	x := w.m.W
	eff := kv
	if kv == 0 {
		eff = x.Latest
	}
	lo := x.MinDec
	if x.MinEnc > lo {
		lo = x.MinEnc
	}
	mustFail := kv > x.Latest || (kv != 0 && x.MinEnc > 0 && kv < x.MinEnc)
	mustOK := kv == 0 || (kv >= lo && kv <= x.Latest)
	w.stat["evaluations"]++
	if fail != "" {
		w.count(kind + "_refused")
		if mustOK {
			w.bad(kind+":refused", "%s with key_version=%d refused: %s", kind, kv, fail)
		}
		return 0, false
	}
	m := outRe.FindStringSubmatch(out)
	if m == nil {
		w.bad(kind+":malformed-output", "%s returned %q", kind, out)
		return 0, false
	}
	ver, _ = strconv.Atoi(m[1])
	if x.MinEnc > 0 && ver < x.MinEnc {
		w.bad(kind+":below-min-encryption-version", "%s with key_version=%d used version %d, below min_encryption_version %d", kind, kv, ver, x.MinEnc)
	} else if mustFail {
		w.bad(kind+":accepted-invalid-version", "%s with key_version=%d was accepted (used version %d)", kind, kv, ver)
	}
	if ver != eff {
		w.bad(kind+":wrong-version", "%s with key_version=%d used version %d (latest %d)", kind, kv, ver, x.Latest)
	}
	if reported != nil && toInt(reported) != ver {
		w.bad(kind+":reported-version", "%s reports key_version %v but the output carries version %d", kind, reported, ver)
	}
	if _, known := w.m.Keys[ver]; !known {
		return ver, false
	}
	w.count(kind + "_ok")
	return ver, true
}

func (w *world) generate() {
	if !w.m.Exists {
		return
	}
	c := w.c
	x := w.m.W
	for kv := 0; kv <= x.Latest+1; kv++ {
		if c.enc() {
			for _, cx := range c.ctxs() {
				for _, ai := range c.aads() {
					for pi := range ptVals {
						if kv != 0 && pi != 2 {
							continue
						}
						data := map[string]interface{}{"plaintext": ptVals[pi], "key_version": kv}
						if cx != 0 {
							data["context"] = ctxVals[cx]
						}
						if ai != 0 {
							data["associated_data"] = aadVals[ai]
						}
						d, fail := w.do(logical.UpdateOperation, "encrypt/k", data)
						ct, _ := d["ciphertext"].(string)
						ver, ok := w.judgeVersion("encrypt", kv, fail, ct, d["key_version"])
						if !ok {
							continue
						}
						id := w.m.Keys[ver]
						class := fmt.Sprintf("%d|%d|%d|%d|%d", id, ver, cx, ai, pi)
						if prev, seen := w.conv[class]; seen {
							w.stat["evaluations"]++
							if c.Conv {
								w.count("convergent_pairs")
								if prev != ct {
									w.bad("convergent:nondeterministic", "two encryptions of plaintext#%d under version %d, context#%d, aad#%d differ: %s vs %s", pi, ver, cx, ai, prev, ct)
								}
							} else if prev == ct {
								w.count("nonconvergent_equal_ciphertexts")
							}
						}
						w.conv[class] = ct
						if c.Conv {
							// different plaintext/context/aad under the same key must not collide
							for oc, oct := range w.conv {
								if oc != class && oct == ct {
									w.bad("convergent:collision", "inputs %s and %s give the same ciphertext", oc, class)
								}
							}
						}
						w.recs = append(w.recs, &rec{'e', ver, id, cx, ai, pi, 0, ct, w.state})
					}
				}
			}
		}
		if c.sign() {
			for _, cx := range c.ctxs() {
				for mi := range msgVals {
					if kv != 0 && mi != 1 {
						continue
					}
					for pi, p := range c.params() {
						data := map[string]interface{}{"input": msgVals[mi], "key_version": kv, "hash_algorithm": p.Hash, "marshaling_algorithm": p.Marsh}
						if p.Alg != "" {
							data["signature_algorithm"] = p.Alg
						}
						if cx != 0 {
							data["context"] = ctxVals[cx]
						}
						d, fail := w.do(logical.UpdateOperation, "sign/k", data)
						sg, _ := d["signature"].(string)
						ver, ok := w.judgeVersion("sign", kv, fail, sg, d["key_version"])
						if ok {
							w.recs = append(w.recs, &rec{'s', ver, w.m.Keys[ver], cx, 0, mi, pi, sg, w.state})
						}
					}
				}
			}
		}
		for mi := range msgVals {
			if kv != 0 && mi != 1 {
				continue
			}
			for ai, alg := range hmacAlgs {
				if kv != 0 && ai != 0 {
					continue
				}
				d, fail := w.do(logical.UpdateOperation, "hmac/k", map[string]interface{}{"input": msgVals[mi], "key_version": kv, "algorithm": alg})
				hm, _ := d["hmac"].(string)
				ver, ok := w.judgeVersion("hmac", kv, fail, hm, nil)
				if ok {
					w.recs = append(w.recs, &rec{'h', ver, w.m.Keys[ver], 0, 0, mi, ai, hm, w.state})
				}
			}
		}
	}
	// batch encryption: the items of one request are independent. Every ordered
	// sequence of two or three items over the associated-data choices (one context,
	// one plaintext) is encrypted in ONE request; each ciphertext becomes a record
	// like any other, so the battery decrypts it under matching and mismatching inputs.
	if c.enc() && len(c.aads()) > 1 {
		cx := c.ctxs()[0]
		aads := c.aads()
		var seqs [][]int
		for _, a := range aads {
			for _, b := range aads {
				seqs = append(seqs, []int{a, b})
				for _, d := range aads {
					seqs = append(seqs, []int{a, b, d})
				}
			}
		}
		for _, sq := range seqs {
			var items []interface{}
			for _, ai := range sq {
				it := map[string]interface{}{"plaintext": ptVals[2]}
				if cx != 0 {
					it["context"] = ctxVals[cx]
				}
				if ai != 0 {
					it["associated_data"] = aadVals[ai]
				}
				items = append(items, it)
			}
			d, fail := w.do(logical.UpdateOperation, "encrypt/k", map[string]interface{}{"batch_input": items})
			rs := batchResults(d)
			if fail != "" || len(rs) != len(sq) {
				w.stat["evaluations"]++
				w.bad("encrypt:batch-refused", "batch encryption of %d valid items with associated data %v failed or returned %d results (%s)", len(sq), sq, len(rs), fail)
				continue
			}
			w.count("encrypt_batches")
			for i, ai := range sq {
				ct, _ := rs[i]["ciphertext"].(string)
				e, _ := rs[i]["error"].(string)
				ver, ok := w.judgeVersion("encrypt", 0, e, ct, rs[i]["key_version"])
				if !ok {
					continue
				}
				// Par=1 marks a ciphertext that came out of a batch: it gets the input-binding
				// part of the battery, not the full ciphertext-mutation sweep (its single-request
				// twin with the same inputs already gets that)
				w.recs = append(w.recs, &rec{'e', ver, w.m.Keys[ver], cx, ai, 2, 1, ct, w.state})
			}
		}
	}
	// inputs that can never be encrypted
	if c.enc() && c.Derived {
		w.stat["evaluations"]++
		if _, fail := w.do(logical.UpdateOperation, "encrypt/k", map[string]interface{}{"plaintext": ptVals[1]}); fail == "" {
			w.bad("encrypt:derived-without-context", "a derived key encrypted without a context")
		}
	}
	if c.rsa() {
		w.stat["evaluations"]++
		if _, fail := w.do(logical.UpdateOperation, "encrypt/k", map[string]interface{}{"plaintext": ptVals[1], "associated_data": aadVals[1]}); fail == "" {
			w.bad("encrypt:aad-silently-dropped", "an RSA key accepted associated data it cannot bind")
		}
	}
}

// ---- battery --------------------------------------------------------------------

func (w *world) live(r *rec) bool {
	if !w.m.Exists {
		return false
	}
	x := w.m.W
	return r.Ver >= 1 && r.Ver <= x.Latest && r.Ver >= x.MinDec && w.m.Keys[r.Ver] == r.ID
}

const (
	expMatch  = iota // plaintext iff live, else error
	expFail          // must be refused
	expAlias         // same request spelled differently / unbound input: like expMatch, or an error
	expBroken        // (signatures) must not be valid
)

func (w *world) judgeDecrypt(r *rec, what string, exp int, pt string, fail string) {
	w.stat["evaluations"]++
	live := w.live(r)
	want := ptVals[r.Msg]
	if fail == "" {
		w.count("decrypt_ok")
		if pt != want {
			w.bad("decrypt:wrong-plaintext", "%s of %s (v%d ctx#%d aad#%d) returned plaintext %q, the original is %q", what, r.Out, r.Ver, r.Ctx, r.AAD, pt, want)
			return
		}
		switch {
		case exp == expFail:
			w.bad("decrypt:accepted-"+strings.SplitN(what, " ", 2)[0], "%s of %s (v%d ctx#%d aad#%d) returned the plaintext; it must be refused", what, r.Out, r.Ver, r.Ctx, r.AAD)
		case !live:
			w.bad("decrypt:outside-window-accepted", "%s of %s succeeded although version %d is not decryptable (window %+v, same key material: %v)", what, r.Out, r.Ver, w.m.W, w.m.Exists && w.m.Keys[r.Ver] == r.ID)
		}
		return
	}
	w.count("decrypt_refused")
	if exp == expMatch && live {
		w.bad("decrypt:roundtrip-failed", "%s of %s (v%d ctx#%d aad#%d plaintext#%d) refused: %s", what, r.Out, r.Ver, r.Ctx, r.AAD, r.Msg, fail)
	}
}

type mut struct {
	What string
	S    string
	Exp  int
}

func flipAll(body []byte, enc func([]byte) string, prefix string, full bool) []mut {
	var out []mut
	n := len(body)
	step := 1
	if !full {
		step = n/3 + 1
	} else if n > 96 {
		step = n / 48
	}
	for i := 0; i < n; i += step {
		b := append([]byte{}, body...)
		b[i] ^= 1 << uint(i%8)
		out = append(out, mut{fmt.Sprintf("body-bitflip byte %d", i), prefix + enc(b), expFail})
	}
	if n > 0 {
		b := append([]byte{}, body...)
		b[n-1] ^= 0x80
		out = append(out, mut{"body-bitflip last byte", prefix + enc(b), expFail})
		if full {
			out = append(out, mut{"body-truncated (last byte dropped)", prefix + enc(body[:n-1]), expFail})
			out = append(out, mut{"body-truncated (first byte dropped)", prefix + enc(body[1:]), expFail})
			out = append(out, mut{"body-extended by one byte", prefix + enc(append(append([]byte{}, body...), 0)), expFail})
		}
	}
	return out
}

// prefixMuts: every single-character replacement in "vault:v<N>:" plus structural damage.
func prefixMuts(r *rec, body string) []mut {
	var out []mut
	prefix := "vault:v" + strconv.Itoa(r.Ver) + ":"
	for j := 0; j < len(prefix); j++ {
		ch := prefix[j]
		var repl []byte
		if ch >= '0' && ch <= '9' {
			continue // other versions are enumerated separately
		}
		repl = []byte{'x', ch ^ 0x20, '1'}
		for _, rc := range repl {
			if rc == ch {
				continue
			}
			s := prefix[:j] + string(rc) + prefix[j+1:]
			out = append(out, mut{fmt.Sprintf("prefix-char %d replaced by %q", j, rc), s + body, expFail})
		}
	}
	out = append(out, mut{"prefix-removed", body, expFail})
	out = append(out, mut{"prefix-without-version", "vault:v:" + body, expFail})
	out = append(out, mut{"prefix-negative-version", "vault:v-" + strconv.Itoa(r.Ver) + ":" + body, expFail})
	out = append(out, mut{"prefix-delimiter-removed", "vault:v" + strconv.Itoa(r.Ver) + body, expFail})
	return out
}

func (w *world) batteryEnc(r *rec, full bool, cur bool) {
	c := w.c
	base := func() map[string]interface{} {
		d := map[string]interface{}{"ciphertext": r.Out}
		if r.Ctx != 0 {
			d["context"] = ctxVals[r.Ctx]
		}
		if r.AAD != 0 {
			d["associated_data"] = aadVals[r.AAD]
		}
		return d
	}
	dec := func(d map[string]interface{}) (string, string) {
		out, fail := w.do(logical.UpdateOperation, "decrypt/k", d)
		pt, _ := out["plaintext"].(string)
		return pt, fail
	}
	pt, fail := dec(base())
	w.judgeDecrypt(r, "matching decrypt", expMatch, pt, fail)
	if !full {
		return
	}
	// other context
	for cx := 0; cx <= 2; cx++ {
		if cx == r.Ctx {
			continue
		}
		d := base()
		delete(d, "context")
		if cx != 0 {
			d["context"] = ctxVals[cx]
		}
		pt, fail := dec(d)
		exp := expFail
		if !c.Derived {
			exp = expAlias
		}
		w.judgeDecrypt(r, fmt.Sprintf("context decrypt with context#%d instead of #%d", cx, r.Ctx), exp, pt, fail)
	}
	// other associated data
	for ai := 0; ai <= 2; ai++ {
		if ai == r.AAD {
			continue
		}
		d := base()
		delete(d, "associated_data")
		if ai != 0 {
			d["associated_data"] = aadVals[ai]
		}
		pt, fail := dec(d)
		w.judgeDecrypt(r, fmt.Sprintf("aad decrypt with aad#%d instead of #%d", ai, r.AAD), expFail, pt, fail)
	}
	m := outRe.FindStringSubmatch(r.Out)
	bodyS := m[2]
	body, err := base64.StdEncoding.DecodeString(bodyS)
	if err != nil {
		w.bad("encrypt:malformed-output", "ciphertext body is not base64: %s", r.Out)
		return
	}
	var muts []mut
	// every other version prefix
	for v := 0; v <= w.m.W.Latest+1; v++ {
		if v == r.Ver {
			continue
		}
		exp := expFail
		if v == 0 && r.Ver == 1 {
			exp = expAlias
		}
		muts = append(muts, mut{fmt.Sprintf("version-prefix v%d instead of v%d", v, r.Ver), "vault:v" + strconv.Itoa(v) + ":" + bodyS, exp})
	}
	prefix := "vault:v" + strconv.Itoa(r.Ver) + ":"
	for _, mu := range flipAll(body, base64.StdEncoding.EncodeToString, prefix, cur) {
		// An RSA ciphertext is an integer: dropping a leading zero byte spells the same
		// ciphertext (crypto/rsa accepts the shorter form), so it is not a mutation.
		if c.rsa() && body[0] == 0 && strings.HasPrefix(mu.What, "body-truncated (first") {
			mu.Exp = expAlias
		}
		muts = append(muts, mu)
	}
	if cur {
		muts = append(muts, prefixMuts(r, bodyS)...)
		if r.Msg == 2 && r.AAD == 0 {
			// string level: one replaced character of the base64 text
			sstep := 1
			if len(bodyS) > 96 {
				sstep = len(bodyS) / 48
			}
			for j := 0; j < len(bodyS); j += sstep {
				rc := byte('A')
				if bodyS[j] == 'A' {
					rc = 'B'
				}
				s := bodyS[:j] + string(rc) + bodyS[j+1:]
				exp := expFail
				if dd, err := base64.StdEncoding.DecodeString(s); err == nil && bytes.Equal(dd, body) {
					exp = expAlias
				}
				muts = append(muts, mut{fmt.Sprintf("body-char %d replaced", j), prefix + s, exp})
			}
		}
	}
	// one batch request for all mutations (same context for all items, as the API demands)
	var items []interface{}
	for _, mu := range muts {
		it := map[string]interface{}{"ciphertext": mu.S}
		if r.Ctx != 0 {
			it["context"] = ctxVals[r.Ctx]
		}
		if r.AAD != 0 {
			it["associated_data"] = aadVals[r.AAD]
		}
		items = append(items, it)
	}
	d, fail := w.do(logical.UpdateOperation, "decrypt/k", map[string]interface{}{"batch_input": items})
	rs := batchResults(d)
	if fail != "" || len(rs) != len(muts) {
		w.bad("decrypt:batch-shape", "batch decrypt of %d items returned %d results (%s)", len(muts), len(rs), fail)
		return
	}
	for i, mu := range muts {
		e, _ := rs[i]["error"].(string)
		p, _ := rs[i]["plaintext"].(string)
		w.count("mutations")
		w.judgeDecrypt(r, mu.What+" ["+mu.S+"]", mu.Exp, p, e)
	}
	// rewrap
	w.stat["evaluations"]++
	rd := map[string]interface{}{"ciphertext": r.Out}
	if r.Ctx != 0 {
		rd["context"] = ctxVals[r.Ctx]
	}
	out, fail := w.do(logical.UpdateOperation, "rewrap/k", rd)
	nct, _ := out["ciphertext"].(string)
	shouldWork := w.live(r) && r.AAD == 0
	switch {
	case fail == "" && !shouldWork:
		w.bad("rewrap:accepted", "rewrap of %s (v%d aad#%d, decryptable=%v) without its associated data was accepted", r.Out, r.Ver, r.AAD, w.live(r))
	case fail != "" && shouldWork:
		w.bad("rewrap:refused", "rewrap of decryptable %s refused: %s", r.Out, fail)
	case fail == "":
		w.count("rewraps")
		mm := outRe.FindStringSubmatch(nct)
		if mm == nil || mm[1] != strconv.Itoa(w.m.W.Latest) {
			w.bad("rewrap:wrong-version", "rewrap of %s returned %q, latest version is %d", r.Out, nct, w.m.W.Latest)
			return
		}
		nr := &rec{'e', w.m.W.Latest, w.m.Keys[w.m.W.Latest], r.Ctx, 0, r.Msg, 0, nct, w.state}
		dd := map[string]interface{}{"ciphertext": nct}
		if r.Ctx != 0 {
			dd["context"] = ctxVals[r.Ctx]
		}
		pt, fail := dec(dd)
		w.judgeDecrypt(nr, "matching decrypt of rewrapped", expMatch, pt, fail)
		if !w.keptRewrap {
			w.keptRewrap = true
			w.pending = append(w.pending, nr)
		}
	default:
		w.count("rewraps_refused")
	}
}

func (w *world) judgeVerify(r *rec, what string, exp int, valid bool, fail string) {
	w.stat["evaluations"]++
	live := w.live(r)
	kind := "signature"
	if r.Kind == 'h' {
		kind = "hmac"
	}
	if valid {
		w.count("verify_valid")
		switch {
		case exp == expBroken:
			w.bad("verify:accepted-"+strings.SplitN(what, " ", 2)[0], "%s of %s %s (v%d msg#%d par#%d ctx#%d) is reported valid", what, kind, r.Out, r.Ver, r.Msg, r.Par, r.Ctx)
		case !live:
			w.bad("verify:outside-window-accepted", "%s of %s %s valid although version %d is outside the window %+v (same key material: %v)", what, kind, r.Out, r.Ver, w.m.W, w.m.Exists && w.m.Keys[r.Ver] == r.ID)
		}
		return
	}
	w.count("verify_not_valid")
	if exp == expMatch && live {
		w.bad("verify:rejected-genuine", "%s of genuine %s %s (v%d msg#%d par#%d ctx#%d) is not valid (%s)", what, kind, r.Out, r.Ver, r.Msg, r.Par, r.Ctx, fail)
	}
}

func (w *world) batterySig(r *rec, full bool, cur bool) {
	c := w.c
	hm := r.Kind == 'h'
	field := "signature"
	if hm {
		field = "hmac"
	}
	mk := func(out string, msg int, cx int, p sigPar, alg string) map[string]interface{} {
		d := map[string]interface{}{"input": msgVals[msg], field: out}
		if hm {
			d["hash_algorithm"] = alg
			return d
		}
		d["hash_algorithm"] = p.Hash
		d["marshaling_algorithm"] = p.Marsh
		if p.Alg != "" {
			d["signature_algorithm"] = p.Alg
		}
		if cx != 0 {
			d["context"] = ctxVals[cx]
		}
		return d
	}
	ver := func(d map[string]interface{}) (bool, string) {
		out, fail := w.do(logical.UpdateOperation, "verify/k", d)
		return fail == "" && out["valid"] == true, fail
	}
	var p sigPar
	alg := ""
	if hm {
		alg = hmacAlgs[r.Par]
	} else {
		p = c.params()[r.Par]
	}
	v, fail := ver(mk(r.Out, r.Msg, r.Ctx, p, alg))
	w.judgeVerify(r, "matching verify", expMatch, v, fail)
	if !full {
		return
	}
	v, fail = ver(mk(r.Out, 1-r.Msg, r.Ctx, p, alg))
	w.judgeVerify(r, "message verify against the other message", expBroken, v, fail)
	if hm {
		v, fail = ver(mk(r.Out, r.Msg, 0, p, hmacAlgs[1-r.Par]))
		w.judgeVerify(r, "parameter verify with the other hash algorithm", expBroken, v, fail)
	} else {
		for _, ap := range c.altParams(p) {
			v, fail = ver(mk(r.Out, r.Msg, r.Ctx, ap, ""))
			w.judgeVerify(r, fmt.Sprintf("parameter verify with %+v instead of %+v", ap, p), expBroken, v, fail)
		}
		for cx := 0; cx <= 2; cx++ {
			if cx == r.Ctx {
				continue
			}
			exp := expBroken
			if !c.Derived {
				exp = expAlias
			}
			v, fail = ver(mk(r.Out, r.Msg, cx, p, ""))
			w.judgeVerify(r, fmt.Sprintf("context verify with context#%d instead of #%d", cx, r.Ctx), exp, v, fail)
		}
	}
	m := outRe.FindStringSubmatch(r.Out)
	bodyS := m[2]
	encoding := base64.StdEncoding
	if !hm && p.Marsh == "jws" {
		encoding = base64.RawURLEncoding
	}
	body, err := encoding.DecodeString(bodyS)
	if err != nil {
		w.bad("sign:malformed-output", "%s body does not decode: %s", field, r.Out)
		return
	}
	var muts []mut
	for vv := 0; vv <= w.m.W.Latest+1; vv++ {
		if vv == r.Ver {
			continue
		}
		muts = append(muts, mut{fmt.Sprintf("version-prefix v%d instead of v%d", vv, r.Ver), "vault:v" + strconv.Itoa(vv) + ":" + bodyS, expBroken})
	}
	prefix := "vault:v" + strconv.Itoa(r.Ver) + ":"
	for _, mu := range flipAll(body, encoding.EncodeToString, prefix, cur) {
		mu.Exp = expBroken
		// JWS marshaling is r||s split in the middle: without a leading zero byte of r the
		// text denotes the same pair of integers (the code does not insist on the fixed
		// width), i.e. the same signature spelled differently.
		if !hm && p.Marsh == "jws" && strings.HasPrefix(c.Type, "ecdsa-") && body[0] == 0 && strings.HasPrefix(mu.What, "body-truncated (first") {
			mu.Exp = expAlias
		}
		muts = append(muts, mu)
	}
	if cur {
		for _, mu := range prefixMuts(r, bodyS) {
			mu.Exp = expBroken
			muts = append(muts, mu)
		}
	}
	var items []interface{}
	for _, mu := range muts {
		it := map[string]interface{}{"input": msgVals[r.Msg], field: mu.S}
		if r.Ctx != 0 {
			it["context"] = ctxVals[r.Ctx]
		}
		items = append(items, it)
	}
	d := mk("", r.Msg, r.Ctx, p, alg)
	delete(d, field)
	delete(d, "input")
	d["batch_input"] = items
	out, fail := w.do(logical.UpdateOperation, "verify/k", d)
	rs := batchResults(out)
	if fail != "" || len(rs) != len(muts) {
		w.bad("verify:batch-shape", "batch verify of %d items returned %d results (%s)", len(muts), len(rs), fail)
		return
	}
	for i, mu := range muts {
		e, _ := rs[i]["error"].(string)
		w.count("mutations")
		w.judgeVerify(r, mu.What+" ["+mu.S+"]", mu.Exp, rs[i]["valid"] == true, e)
	}
}

// battery checks every record produced so far in the current state.
func (w *world) battery(full bool) {
	w.keptRewrap = false
	for _, r := range w.recs {
		cur := r.Born == w.state
		switch r.Kind {
		case 'e':
			w.batteryEnc(r, full && r.Par == 0, cur)
		default:
			w.batterySig(r, full, cur)
		}
	}
	w.recs = append(w.recs, w.pending...)
	w.pending = nil
	if full {
		w.batteryMixedBatch()
	}
}

// batteryMixedBatch: the items of one batch request are independent.  For a
// ciphertext sealed WITH associated data (A) and one sealed WITHOUT (P), same
// context, every ordered batch of up to three items over
//   {A+its aad, A without aad, P without aad, P with an aad, A with another aad}
// is decrypted in ONE request; each item is judged exactly as if sent alone.
func (w *world) batteryMixedBatch() {
	var ra, rp *rec
	for _, r := range w.recs {
		if r.Kind != 'e' || !w.live(r) {
			continue
		}
		if r.AAD != 0 && ra == nil {
			ra = r
		}
	}
	if ra == nil {
		return
	}
	for _, r := range w.recs {
		if r.Kind == 'e' && w.live(r) && r.AAD == 0 && r.Ctx == ra.Ctx && rp == nil {
			rp = r
		}
	}
	if rp == nil {
		return
	}
	other := 1
	if ra.AAD == 1 {
		other = 2
	}
	type item struct {
		r   *rec
		aad int
		exp int
		nm  string
	}
	kinds := []item{
		{ra, ra.AAD, expMatch, "A+aad"}, {ra, 0, expFail, "A-noaad"}, {rp, 0, expMatch, "P-noaad"}, {rp, other, expFail, "P+aad"}, {ra, other, expFail, "A+otheraad"},
	}
	var seqs [][]int
	for a := range kinds {
		seqs = append(seqs, []int{a})
		for b := range kinds {
			seqs = append(seqs, []int{a, b})
			for c := range kinds {
				seqs = append(seqs, []int{a, b, c})
			}
		}
	}
	for _, sq := range seqs {
		var items []interface{}
		var names []string
		for _, k := range sq {
			it := map[string]interface{}{"ciphertext": kinds[k].r.Out}
			if ra.Ctx != 0 {
				it["context"] = ctxVals[ra.Ctx]
			}
			if kinds[k].aad != 0 {
				it["associated_data"] = aadVals[kinds[k].aad]
			}
			items = append(items, it)
			names = append(names, kinds[k].nm)
		}
		d, fail := w.do(logical.UpdateOperation, "decrypt/k", map[string]interface{}{"batch_input": items})
		rs := batchResults(d)
		if len(rs) != len(sq) {
			if fail == "" {
				w.bad("decrypt:batch-shape", "mixed batch %v returned %d results", names, len(rs))
			}
			// a batch in which every item fails is answered with an error as a whole: every item was refused
			for _, k := range sq {
				if kinds[k].exp == expMatch && fail != "" {
					w.bad("decrypt:mixed-batch-refused", "mixed batch %v was refused as a whole (%s) although item %s is a valid request", names, fail, kinds[k].nm)
				}
			}
			continue
		}
		w.count("mixed_batches")
		for i, k := range sq {
			e, _ := rs[i]["error"].(string)
			p, _ := rs[i]["plaintext"].(string)
			w.judgeDecrypt(kinds[k].r, fmt.Sprintf("mixed-batch %v item %d (%s)", names, i, kinds[k].nm), kinds[k].exp, p, e)
		}
	}
}

// canon: two histories with the same canonical key have the same futures: the window,
// the deletion flag, the backup (its window and which of its versions still carry the
// current key material), the versions held in memory / in the stored policy / in the
// archive, and the classes of records (version, key material current?, restorable?).
func (w *world) canon() string {
	m := w.m
	s := fmt.Sprintf("%+v", m.W)
	if b := m.Backup; b != nil {
		rel := ""
		for v := 1; v <= b.W.Latest; v++ {
			if m.Keys[v] == b.Keys[v] {
				rel += "1"
			} else {
				rel += "0"
			}
		}
		s += fmt.Sprintf(" B%+v%s", b.W, rel)
	}
	s += fmt.Sprintf(" mem%v pol%v arc%d", w.obs.MemKeys, w.obs.PolKeys, w.obs.ArcN)
	if w.faults > 0 {
		s += fmt.Sprintf(" interrupted-rotations=%d", w.faults)
	}
	cl := map[string]bool{}
	for _, r := range w.recs {
		cur := m.Keys[r.Ver] == r.ID
		bak := m.Backup != nil && m.Backup.Keys[r.Ver] == r.ID
		cl[fmt.Sprintf("%c%d%v%v", r.Kind, r.Ver, cur, bak)] = true
	}
	ks := make([]string, 0, len(cl))
	for k := range cl {
		ks = append(ks, k)
	}
	sort.Strings(ks)
	return s + " " + strings.Join(ks, ",")
}

// run replays a history on a fresh backend; generation happens in every state.
func run(c kcfg, hist []op, res *vout.Result, report bool, everyState bool) (w *world, err error) {
	defer func() {
		if r := recover(); r != nil {
			if w != nil {
				w.panicked = true
				w.bad("panic", "panic: %v", r)
				err = nil
			} else {
				err = fmt.Errorf("panic: %v", r)
			}
		}
	}()
	w, err = newWorld(c, res)
	if err != nil {
		return nil, err
	}
	w.report = report
	w.observe()
	w.generate()
	if everyState {
		w.battery(true)
	}
	for _, o := range hist {
		w.step(o)
		w.generate()
		if everyState {
			w.battery(true)
		}
	}
	return w, nil
}

func (w *world) flush() {
	for k, v := range w.stat {
		w.res.Add(k, v)
	}
	w.stat = map[string]int64{}
}

func TestVerifC17(t *testing.T) {
	res := vout.New("C17", "transit")
	defer func() {
		if err := res.Write(); err != nil {
			t.Fatal(err)
		}
	}()
	if vout.ReplayPath() != "" {
		var a art
		if _, err := vout.LoadReplay(&a); err != nil {
			t.Fatal(err)
		}
		w, err := run(a.Cfg, a.Hist, res, true, true)
		if err != nil {
			t.Fatal(err)
		}
		w.flush()
		return
	}
	start := time.Now()
	deadline := time.Duration(vout.DeadlineS()) * time.Second
	only := os.Getenv("VERIF_C17_ONLY")
	alpha := alphabet()
	res.Bound("alphabet", fmt.Sprint(alpha))
	res.Bound("seeds", fmt.Sprint(seeds()))
	depths := map[string]int{}
	count := 0
	stop := false
	for _, c := range configs() {
		if only != "" && !strings.Contains(c.ID, only) {
			continue
		}
		depth := c.DQ
		if vout.Thorough() {
			depth = c.DT
		}
		depths[c.ID] = depth
		seen := map[string]bool{}
		seenLast := map[string]bool{} // last level: per shard only (no successors are generated from it)
		seedsC := seeds()
		if c.Faults {
			seedsC = append(seedsC, []op{{"rotate-fault", 2}, {"rotate", 0}}, []op{{"rotate-fault", 1}, {"rotate", 0}})
		}
		for _, seed := range seedsC {
			if stop {
				break
			}
			// the seed state itself
			count++
			w, err := run(c, seed, res, vout.Mine(count), false)
			if err != nil {
				t.Fatalf("harness: %v", err)
			}
			key := w.canon()
			if vout.Mine(count) {
				w.battery(true)
				res.Add("states", 1)
				res.Add("executions", 1)
				res.Distinct("nontrivial", c.ID+"|"+key)
				w.flush()
			}
			if seen[key] {
				continue
			}
			seen[key] = true
			frontier := [][]op{seed}
			for d := 0; d < depth && !stop; d++ {
				var next [][]op
				last := d == depth-1
				for _, h := range frontier {
					if time.Since(start) > deadline {
						res.NotExhaustive(fmt.Sprintf("deadline reached in configuration %s at depth %d", c.ID, d+1))
						stop = true
						break
					}
					alphaC := alpha
					if c.Faults {
						alphaC = append(append([]op{}, alpha...), op{"rotate-fault", 1}, op{"rotate-fault", 2})
					}
					for _, o := range alphaC {
						count++
						mine := vout.Mine(count)
						if last && !mine {
							continue
						}
						hh := append(append([]op{}, h...), o)
						w, err := run(c, hh, res, mine, false)
						if err != nil {
							t.Fatalf("harness: %v", err)
						}
						key := w.canon()
						isNew := !seen[key] && !seenLast[key]
						if last {
							seenLast[key] = true
						}
						if mine {
							res.Add("transitions", 1)
							res.Add("executions", 1)
							if !w.panicked {
								w.battery(isNew)
							}
							if isNew {
								res.Add("states", 1)
								res.Distinct("nontrivial", c.ID+"|"+key)
								if count%211 == 0 {
									res.Sample(map[string]interface{}{"key": c.ID, "history": fmt.Sprint(hh), "state": key, "records": len(w.recs)})
								}
							}
							w.flush()
						}
						if isNew && !last {
							seen[key] = true
							next = append(next, hh)
						}
					}
				}
				frontier = next
			}
		}
	}
	res.Bound("depth_per_key_configuration", depths)
	res.Bound("contexts", 2)
	res.Bound("associated_data_values", 3)
	res.Bound("plaintexts", len(ptVals))
	res.Bound("messages", len(msgVals))
}
