//go:build verif

package vault

import (
	"time"

	"github.com/openbao/openbao/v2/internal/helper/namespace"
)

// VerifRunRevocationJob does what a revocation worker does with a lease whose
// timer fired: Execute, and OnFailure when it fails.
func (m *ExpirationManager) VerifRunRevocationJob(ns *namespace.Namespace, leaseID string) error {
	nsCtx := namespace.ContextWithNamespace(m.quitContext, ns)
	job, err := newRevocationJob(nsCtx, leaseID, ns, m)
	if err != nil {
		return err
	}
	if err := job.Execute(); err != nil {
		job.OnFailure(err)
		return err
	}
	return nil
}

// VerifTimerState reports whether leaseID is in the pending map, whether its
// timer is armed (it will fire again without outside help) and how many
// revocation attempts were recorded.  The probe stops the timer and re-arms it
// (deadline: the cached expiry, or a retry back-off when that has passed).
func (m *ExpirationManager) VerifTimerState(leaseID string) (inPending, armed bool, attempts int) {
	m.pendingLock.Lock()
	defer m.pendingLock.Unlock()
	raw, ok := m.pending.Load(leaseID)
	if !ok {
		return false, false, 0
	}
	pi := raw.(pendingInfo)
	attempts = int(pi.revokesAttempted)
	if pi.timer == nil {
		return true, false, attempts
	}
	if pi.timer.Stop() {
		d := revokeRetryBase
		if pi.cachedLeaseInfo != nil && time.Until(pi.cachedLeaseInfo.ExpireTime) > d {
			d = time.Until(pi.cachedLeaseInfo.ExpireTime)
		}
		pi.timer.Reset(d)
		return true, true, attempts
	}
	return true, false, attempts
}

// VerifConsumeTimer puts the lease's timer into the state it has right after
// firing (not armed); the harness then runs the job the firing would have queued.
func (m *ExpirationManager) VerifConsumeTimer(leaseID string) bool {
	m.pendingLock.Lock()
	defer m.pendingLock.Unlock()
	raw, ok := m.pending.Load(leaseID)
	if !ok {
		return false
	}
	pi := raw.(pendingInfo)
	if pi.timer != nil {
		pi.timer.Stop()
	}
	return true
}

const VerifMaxRevokeAttempts = maxRevokeAttempts
